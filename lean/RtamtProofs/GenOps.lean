/-
  The translated operation classes denote the hand-written mirrors.

  `Rtamt/Py/GeneratedOps.lean` is produced on every run by `harness/py2lean.py` from the Python source of
  `rtamt/semantics/{stl,arithmetic}/discrete_time/online/*_operation.py`; `Rtamt/Py/Sem.lean` gives the
  Python subset its meaning.  The theorems below state, for every class, that `__init__`, `update` and
  `reset` of the translated class act on the attribute store exactly as `initT* / stepT* / resetT*`
  (`Rtamt/Discrete/Online.lean`) act on the mirror state — the functions all theorems about the online
  monitor (C02, C03, C09, C10, C12, C17) are stated on — and that the point-wise classes compute
  `Un.app` / `Bin.app` / `Cmp.app` / `Cmp.holds` (`Rtamt/Syntax.lean`).

  Side conditions, all discharged by the callers' hypotheses elsewhere: bounded operators are used with
  `a ≤ b` (`F.wf`, enforced by the parser) and their deques are full (`l.length = b + 1`: established by
  `__init__`, preserved by `update` and `reset`; `C10.pushN_full`).  `SqrtOperation` raises on negative
  input, which the mirror does not model (DESIGN §2.1: domain errors).
-/
import Rtamt.Py.GeneratedOps
import Rtamt.Discrete.Online

namespace Rtamt.Py
open Rtamt Val

variable {α : Type} [Val α]

/-! ### encodings of the mirror state as attribute stores -/

def encVal (key : String) (p : α) : Store α := [(key, .num p)]

def encBuf (a b : Nat) (l : List α) : Store α :=
  [("begin", .int a), ("end", .int b), ("buffer", .deque (b + 1) l)]

def encBuf2 (a b : Nat) (l r : List α) : Store α :=
  [("begin", .int a), ("end", .int b),
   ("buffer_sample_left", .deque (b + 1) l), ("buffer_sample_right", .deque (b + 1) r)]

def encPrec (a b : Nat) (l r : List α) : Store α :=
  [("begin", .int a), ("end", .int b), ("buffer", .dlist [(b + 1, l), (b + 1, r)])]

/-- The class and the attribute name of the untimed past / event operators. -/
def classT1 : T1 → Option (Class × String)
  | .rise => some (Gen.RiseOperation, "prev")
  | .fall => some (Gen.FallOperation, "prev")
  | .prev => some (Gen.PreviousOperation, "prev")
  | .sprev => some (Gen.StrongPreviousOperation, "prev")
  | .once => some (Gen.OnceOperation, "prev_out")
  | .hist => some (Gen.HistoricallyOperation, "prev_out")
  | _ => none

def stVal : St α → Option α
  | .val p => some p
  | _ => none

/-- Symbolic execution of loop-free method bodies. -/
macro "py_simp" "[" ls:Lean.Parser.Tactic.simpLemma,* "]" : tactic =>
  `(tactic| simp [update, reset, construct, call, exec, evalE, evalBin, evalUn, coerce, getKey, setKey,
      List.lookup, bind, Except.bind, Except.map, pure, Except.pure, throw, throwThe, MonadExceptOf.throw, encVal, $ls,*])

/-! ### untimed operators with one remembered value -/

theorem gen_T1_construct (op : T1) (c : Class) (k : String) (h : classT1 op = some (c, k)) :
    ∃ p : α, initT1 op = .val p ∧ construct c [] = .ok (encVal k p) := by
  cases op <;> simp [classT1] at h <;> obtain ⟨rfl, rfl⟩ := h <;> refine ⟨_, rfl, ?_⟩ <;>
  py_simp [Gen.RiseOperation, Gen.FallOperation, Gen.PreviousOperation, Gen.StrongPreviousOperation, Gen.OnceOperation, Gen.HistoricallyOperation]

theorem gen_T1_update (op : T1) (c : Class) (k : String) (h : classT1 op = some (c, k)) (p x : α) :
    ∃ p' o : α, stepT1 op (.val p) x = .ok (.val p', o) ∧
      update c (encVal k p) [.num x] = .ok (encVal k p', .num o) := by
  cases op <;> simp [classT1] at h <;> obtain ⟨rfl, rfl⟩ := h <;> refine ⟨_, _, rfl, ?_⟩ <;>
  py_simp [Gen.RiseOperation, Gen.FallOperation, Gen.PreviousOperation, Gen.StrongPreviousOperation, Gen.OnceOperation, Gen.HistoricallyOperation]

theorem gen_T1_reset (op : T1) (c : Class) (k : String) (h : classT1 op = some (c, k)) (p : α) :
    ∃ p' : α, resetT1 op (.val p) = .val p' ∧ reset c (encVal k p) = .ok (encVal k p') := by
  cases op <;> simp [classT1] at h <;> obtain ⟨rfl, rfl⟩ := h <;> refine ⟨_, rfl, ?_⟩ <;>
  py_simp [Gen.RiseOperation, Gen.FallOperation, Gen.PreviousOperation, Gen.StrongPreviousOperation, Gen.OnceOperation, Gen.HistoricallyOperation]

/-- The unbounded future classes exist in the package (the online interpreter never constructs them). -/
theorem gen_Always_update (p x : α) :
    update Gen.AlwaysOperation (encVal "prev_out" p) [.num x]
      = .ok (encVal "prev_out" (pmin x p), .num (pmin x p)) := by
  py_simp [Gen.AlwaysOperation]

theorem gen_Eventually_update (p x : α) :
    update Gen.EventuallyOperation (encVal "prev_out" p) [.num x]
      = .ok (encVal "prev_out" (pmax x p), .num (pmax x p)) := by
  py_simp [Gen.EventuallyOperation]

theorem gen_Since_construct :
    ∃ p : α, initT2 .since = .val p ∧ construct Gen.SinceOperation [] = .ok (encVal "prev_out" p) := by
  refine ⟨_, rfl, ?_⟩
  py_simp [Gen.SinceOperation]

theorem gen_Since_update (p l r : α) :
    ∃ p' o : α, stepT2 .since (.val p) l r = .ok (.val p', o) ∧
      update Gen.SinceOperation (encVal "prev_out" p) [.num l, .num r] = .ok (encVal "prev_out" p', .num o) := by
  refine ⟨_, _, rfl, ?_⟩
  py_simp [Gen.SinceOperation, sinceStep]

theorem gen_Since_reset (p : α) :
    ∃ p' : α, resetT2 .since (.val p) = .val p' ∧
      reset Gen.SinceOperation (encVal "prev_out" p) = .ok (encVal "prev_out" p') := by
  refine ⟨_, rfl, ?_⟩
  py_simp [Gen.SinceOperation]

/-! ### symbolic execution: infrastructure for the classes with loops -/

/-- The computation succeeds and its result satisfies `P`. -/
def okAnd {ε σ : Type} (x : Except ε σ) (P : σ → Prop) : Prop := ∃ s, x = .ok s ∧ P s

@[simp] theorem okAnd_ok {ε σ : Type} (s : σ) (P : σ → Prop) : okAnd (.ok s : Except ε σ) P ↔ P s := by
  simp [okAnd]

@[simp] theorem okAnd_error {ε σ : Type} (e : ε) (P : σ → Prop) : okAnd (.error e : Except ε σ) P ↔ False := by
  simp [okAnd]

theorem okAnd_bind {ε σ ρ : Type} (x : Except ε σ) (f : σ → Except ε ρ) (P : ρ → Prop) :
    okAnd (x >>= f) P ↔ okAnd x (fun s => okAnd (f s) P) := by
  cases x <;> simp [okAnd, bind, Except.bind]

theorem okAnd_map {ε σ ρ : Type} (x : Except ε σ) (f : σ → ρ) (P : ρ → Prop) :
    okAnd (x.map f) P ↔ okAnd x (fun s => P (f s)) := by
  cases x <;> simp [okAnd, Except.map]

theorem ok_bind {ε σ ρ : Type} (a : σ) (f : σ → Except ε ρ) : (Except.ok a >>= f) = f a := rfl
theorem error_bind {ε σ ρ : Type} (e : ε) (f : σ → Except ε ρ) : (Except.error e >>= f) = .error e := rfl

theorem getKey_nil {β : Type} (k : String) : getKey k ([] : List (String × β)) = .error .key := rfl

theorem getKey_cons_same {β : Type} (k : String) (v : β) (l : List (String × β)) :
    getKey k ((k, v) :: l) = .ok v := by
  simp [getKey, List.lookup]

theorem getKey_cons_ne {β : Type} (k k' : String) (v : β) (l : List (String × β)) (h : k ≠ k') :
    getKey k ((k', v) :: l) = getKey k l := by
  have : (k == k') = false := by simpa using h
  simp [getKey, List.lookup, this]

theorem lookup_setKey_same {β : Type} (k : String) (v : β) (l : List (String × β)) :
    List.lookup k (setKey k v l) = some v := by
  induction l with
  | nil => simp [setKey]
  | cons p r ih =>
    obtain ⟨k', v'⟩ := p
    simp only [setKey]
    split
    · simp [List.lookup]
    · rename_i h
      have hne : k' ≠ k := by simpa using h
      have h2 : (k == k') = false := by simpa using hne.symm
      simp [List.lookup, h2, ih]

theorem lookup_setKey_ne {β : Type} (k k' : String) (v : β) (l : List (String × β)) (h : k ≠ k') :
    List.lookup k (setKey k' v l) = List.lookup k l := by
  have hkk : (k == k') = false := by simpa using h
  induction l with
  | nil => simp [setKey, List.lookup, hkk]
  | cons p r ih =>
    obtain ⟨k'', v'⟩ := p
    simp only [setKey]
    split
    · rename_i h1
      have h1' : k'' = k' := by simpa using h1
      subst h1'
      simp [List.lookup, hkk]
    · cases h2 : k == k'' <;> simp [List.lookup, h2, ih]

theorem getKey_setKey_same {β : Type} (k : String) (v : β) (l : List (String × β)) :
    getKey k (setKey k v l) = .ok v := by
  simp [getKey, lookup_setKey_same]

theorem getKey_setKey_ne {β : Type} (k k' : String) (v : β) (l : List (String × β)) (h : k ≠ k') :
    getKey k (setKey k' v l) = getKey k l := by
  simp [getKey, lookup_setKey_ne _ _ _ _ h]

theorem exec_skip (env : Env α) : exec .skip env = .ok env := rfl
theorem exec_seq (a b : S) (env : Env α) : exec (.seq a b) env = (exec a env >>= exec b) := rfl
theorem exec_setLoc (x : String) (e : E) (env : Env α) :
    exec (.setLoc x e) env = (evalE env e >>= fun v => .ok { env with loc := setKey x v env.loc }) := rfl
theorem exec_setAttr (x : String) (e : E) (env : Env α) :
    exec (.setAttr x e) env = (evalE env e >>= fun v => .ok { env with self := setKey x v env.self }) := rfl
theorem exec_append_none (a : String) (e : E) (env : Env α) :
    exec (.append a none e) env = (evalE env e >>= fun v => getKey a env.self >>= fun t =>
      appendV t v >>= fun t' => .ok { env with self := setKey a t' env.self }) := rfl
theorem exec_append_some (a : String) (k : Nat) (e : E) (env : Env α) :
    exec (.append a (some k) e) env = (evalE env e >>= fun v => getKey a env.self >>= fun t =>
      match t, v with
      | .dlist l, .num x =>
          match l[k]? with
          | some (c, d) => .ok { env with self := setKey a (.dlist (l.set k (c, dqAppend c d x))) env.self }
          | none => .error .index
      | _, _ => .error .type) := rfl

/-- Two loops over the same range running in lock-step. -/
theorem foldlM_sim {σ τ : Type} (f : σ → Nat → Except PyErr σ) (g : τ → Nat → Except PyErr τ)
    (R : Nat → σ → τ → Prop) :
    ∀ (n a : Nat) (s : σ) (t : τ), R a s t →
      (∀ k s t, a ≤ k → k < a + n → R k s t →
        okAnd (f s k) (fun s' => okAnd (g t k) (fun t' => R (k + 1) s' t'))) →
      ∃ s' t', (List.range' a n).foldlM f s = .ok s' ∧ (List.range' a n).foldlM g t = .ok t' ∧
        R (a + n) s' t' := by
  intro n
  induction n with
  | zero => intro a s t h0 _; exact ⟨s, t, rfl, rfl, by simpa using h0⟩
  | succ n ih =>
    intro a s t h0 hstep
    obtain ⟨s1, hs1, t1, ht1, h1⟩ := hstep a s t (Nat.le_refl _) (by omega) h0
    obtain ⟨s', t', hs', ht', hR⟩ := ih (a + 1) s1 t1 h1
      (fun k s t hk1 hk2 hR => hstep k s t (by omega) (by omega) hR)
    refine ⟨s', t', ?_, ?_, ?_⟩
    · simp [List.range'_succ, List.foldlM_cons, hs1, ok_bind, hs']
    · simp [List.range'_succ, List.foldlM_cons, ht1, ok_bind, ht']
    · have : a + (n + 1) = a + 1 + n := by omega
      rw [this]; exact hR

/-- `for i in range(lo, hi): body`, in lock-step with a fold `g` of the mirror, invariant `R`. -/
theorem okAnd_for {τ : Type} (R : Nat → Env α → τ → Prop) (g : τ → Nat → Except PyErr τ) (t : τ)
    (a n : Nat) (hb : Int) {i : String} {lo hi : E} {body : S} {env : Env α} {P : Env α → Prop}
    (hlo : evalE env lo = .ok (.int a)) (hhi : evalE env hi = .ok (.int hb))
    (hn : (hb - a).toNat = n) (h0 : R a env t)
    (hstep : ∀ k s t, a ≤ k → k < a + n → R k s t →
      okAnd (exec body { s with loc := setKey i (.int (k : Nat)) s.loc })
        (fun s' => okAnd (g t k) (fun t' => R (k + 1) s' t')))
    (hpost : ∀ s' t', R (a + n) s' t' → (List.range' a n).foldlM g t = .ok t' → P s') :
    okAnd (exec (.for_ i lo hi body) env) P := by
  obtain ⟨s', t', hs', ht', hR⟩ := foldlM_sim
    (fun env k => exec body { env with loc := setKey i (.int (k : Nat)) env.loc }) g R n a env t h0 hstep
  refine ⟨s', ?_, hpost s' t' hR ht'⟩
  have hneg : ¬ ((a : Int) < 0) := by omega
  simp [exec, hlo, hhi, ok_bind, hneg, hn, hs']

theorem okAnd_call (m : Method) (self : Store α) (args : List (V α)) (e : E)
    (P : Store α × V α → Prop) (hlen : args.length = m.params.length) (hret : m.ret = some e)
    (h : okAnd (exec m.body { self := self, loc := m.params.zip args })
      (fun env => okAnd (evalE env e) (fun v => P (env.self, v)))) :
    okAnd (call m self args) P := by
  obtain ⟨env, henv, v, hv, hP⟩ := h
  refine ⟨(env.self, v), ?_, hP⟩
  simp [call, hlen, henv, hret, hv, bind, Except.bind, pure, Except.pure]

theorem okAnd_call_none (m : Method) (self : Store α) (args : List (V α))
    (P : Store α × V α → Prop) (hlen : args.length = m.params.length) (hret : m.ret = none)
    (h : okAnd (exec m.body { self := self, loc := m.params.zip args }) (fun env => P (env.self, .none))) :
    okAnd (call m self args) P := by
  obtain ⟨env, henv, hP⟩ := h
  refine ⟨(env.self, .none), ?_, hP⟩
  simp [call, hlen, henv, hret, bind, Except.bind, pure, Except.pure]

theorem natCast_lt_zero (k : Nat) : ((k : Int) < 0) ↔ False :=
  iff_false_intro (by omega)

theorem natCast_succ_lt_zero (k : Nat) : ((k : Int) + 1 < 0) ↔ False :=
  iff_false_intro (by omega)

theorem toNat_natCast_succ (k : Nat) : ((k : Int) + 1).toNat = k + 1 := by omega

omit [Val α] in
theorem idx_ok (l : List α) (k : Nat) (h : k < l.length) : ∃ v, idx l k = .ok v := by
  simp [idx, List.getElem?_eq_getElem h]

omit [Val α] in
theorem dqPush_length (l : List α) (x : α) : (dqPush l x).length = l.length := by
  simp [dqPush]

omit [Val α] in
theorem dqAppend_full (c : Nat) (l : List α) (x : α) (h : l.length = c) :
    dqAppend c l x = dqPush l x := by
  simp [dqAppend, dqPush, h]

omit [Val α] in
theorem dqAppend_replicate (c k : Nat) (x : α) (h : k < c) :
    dqAppend c (List.replicate k x) x = List.replicate (k + 1) x := by
  simp [dqAppend, h, List.replicate_succ']

omit [Val α] in
theorem pushN_succ (l : List α) (x : α) (k : Nat) : pushN l x (k + 1) = dqPush (pushN l x k) x := by
  induction k generalizing l with
  | zero => rfl
  | succ k ih => rw [pushN, ih]; rfl

omit [Val α] in
theorem pushN_length (l : List α) (x : α) (k : Nat) : (pushN l x k).length = l.length := by
  induction k generalizing l with
  | zero => rfl
  | succ k ih => rw [pushN, ih, dqPush_length]

/-- Evaluation of straight-line code (everything but `for`). -/
macro "py_step" "[" ls:Lean.Parser.Tactic.simpLemma,* "]" : tactic =>
  `(tactic| simp [exec_skip, exec_seq, exec_setLoc, exec_setAttr, exec_append_none, exec_append_some,
      evalE, evalBin, evalUn, evalIdx, appendV, coerce, okAnd_bind, ok_bind, error_bind,
      getKey_nil, getKey_cons_same, getKey_cons_ne, getKey_setKey_same, getKey_setKey_ne, setKey,
      pure, Except.pure, Except.map, natCast_lt_zero, natCast_succ_lt_zero, toNat_natCast_succ, $ls,*])

/-! ### bounded once / historically -/

def classTB1 : TB1 → Option Class
  | .once => some Gen.OnceTimedOperation
  | .hist => some Gen.HistoricallyTimedOperation
  | _ => none

theorem OnceTimed_construct (a b : Nat) :
    okAnd (construct Gen.OnceTimedOperation [.int a, .int b])
      (fun r => r = encBuf a b (List.replicate (b + 1) (ninf : α))) := by
  unfold construct; rw [okAnd_map]
  apply okAnd_call_none _ _ _ _ rfl rfl
  py_step [Gen.OnceTimedOperation]
  apply okAnd_for (τ := Unit)
    (R := fun k s _ => s.self = encBuf a b (List.replicate k ninf))
    (g := fun _ _ => .ok ()) (t := ()) (a := 0) (n := b + 1) (hb := (b : Int) + 1)
  · py_step []
  · py_step []
  · omega
  · simp [encBuf]
  · intro k s _ _ hk hs
    have hk' : k < b + 1 := by omega
    py_step [hs, encBuf, dqAppend_replicate _ _ _ hk']
  · intro s' _ hs _; simpa using hs

theorem OnceTimed_reset (a b : Nat) (l : List α) (hl : l.length = b + 1) :
    okAnd (reset Gen.OnceTimedOperation (encBuf a b l))
      (fun r => r = encBuf a b (pushN l ninf (b + 1))) := by
  unfold reset; rw [okAnd_map]
  apply okAnd_call_none _ _ _ _ rfl rfl
  py_step [Gen.OnceTimedOperation]
  apply okAnd_for (τ := Unit)
    (R := fun k s _ => s.self = encBuf a b (pushN l ninf k))
    (g := fun _ _ => .ok ()) (t := ()) (a := 0) (n := b + 1) (hb := (b : Int) + 1)
  · py_step [encBuf]
  · py_step [encBuf]
  · omega
  · rfl
  · intro k s _ _ hk hs
    have hlen : (pushN l (ninf : α) k).length = b + 1 := by rw [pushN_length, hl]
    py_step [hs, encBuf, dqAppend_full _ _ _ hlen, pushN_succ]
  · intro s' _ hs _; simpa using hs

theorem OnceTimed_update (a b : Nat) (hab : a ≤ b) (l : List α) (hl : l.length = b + 1) (x : α) :
    okAnd (update Gen.OnceTimedOperation (encBuf a b l) [.num x]) (fun r =>
      ∃ o, winFold pmax ninf a b (dqPush l x) = .ok o ∧ r = (encBuf a b (dqPush l x), .num o)) := by
  apply okAnd_call _ _ _ _ _ rfl rfl
  py_step [Gen.OnceTimedOperation, encBuf]
  rw [dqAppend_full _ _ _ hl]
  apply okAnd_for
    (R := fun _ s acc => s.self = encBuf a b (dqPush l x) ∧ getKey "sample_return" s.loc = .ok (.num acc))
    (g := fun acc i => do let x ← idx (dqPush l x) i; pure (pmax acc x))
    (t := ninf) (a := 0) (n := b - a + 1) (hb := (b : Int) - a + 1)
  · py_step [encBuf]
  · py_step [encBuf]
  · omega
  · py_step [encBuf]
  · intro k s t _ hk ⟨hs, hr⟩
    obtain ⟨v, hv⟩ := idx_ok (dqPush l x) k (by rw [dqPush_length]; omega)
    py_step [hs, hr, hv, encBuf]
  · intro s' t' ⟨hs, hr⟩ hfold
    py_step [hr, hs]
    simpa [winFold, List.range_eq_range', encBuf] using hfold

theorem HistoricallyTimed_construct (a b : Nat) :
    okAnd (construct Gen.HistoricallyTimedOperation [.int a, .int b])
      (fun r => r = encBuf a b (List.replicate (b + 1) (pinf : α))) := by
  unfold construct; rw [okAnd_map]
  apply okAnd_call_none _ _ _ _ rfl rfl
  py_step [Gen.HistoricallyTimedOperation]
  apply okAnd_for (τ := Unit)
    (R := fun k s _ => s.self = encBuf a b (List.replicate k pinf))
    (g := fun _ _ => .ok ()) (t := ()) (a := 0) (n := b + 1) (hb := (b : Int) + 1)
  · py_step []
  · py_step []
  · omega
  · simp [encBuf]
  · intro k s _ _ hk hs
    have hk' : k < b + 1 := by omega
    py_step [hs, encBuf, dqAppend_replicate _ _ _ hk']
  · intro s' _ hs _; simpa using hs

theorem HistoricallyTimed_reset (a b : Nat) (l : List α) (hl : l.length = b + 1) :
    okAnd (reset Gen.HistoricallyTimedOperation (encBuf a b l))
      (fun r => r = encBuf a b (pushN l pinf (b + 1))) := by
  unfold reset; rw [okAnd_map]
  apply okAnd_call_none _ _ _ _ rfl rfl
  py_step [Gen.HistoricallyTimedOperation]
  apply okAnd_for (τ := Unit)
    (R := fun k s _ => s.self = encBuf a b (pushN l pinf k))
    (g := fun _ _ => .ok ()) (t := ()) (a := 0) (n := b + 1) (hb := (b : Int) + 1)
  · py_step [encBuf]
  · py_step [encBuf]
  · omega
  · rfl
  · intro k s _ _ hk hs
    have hlen : (pushN l (pinf : α) k).length = b + 1 := by rw [pushN_length, hl]
    py_step [hs, encBuf, dqAppend_full _ _ _ hlen, pushN_succ]
  · intro s' _ hs _; simpa using hs

theorem HistoricallyTimed_update (a b : Nat) (hab : a ≤ b) (l : List α) (hl : l.length = b + 1) (x : α) :
    okAnd (update Gen.HistoricallyTimedOperation (encBuf a b l) [.num x]) (fun r =>
      ∃ o, winFold pmin pinf a b (dqPush l x) = .ok o ∧ r = (encBuf a b (dqPush l x), .num o)) := by
  apply okAnd_call _ _ _ _ _ rfl rfl
  py_step [Gen.HistoricallyTimedOperation, encBuf]
  rw [dqAppend_full _ _ _ hl]
  apply okAnd_for
    (R := fun _ s acc => s.self = encBuf a b (dqPush l x) ∧ getKey "sample_return" s.loc = .ok (.num acc))
    (g := fun acc i => do let x ← idx (dqPush l x) i; pure (pmin acc x))
    (t := pinf) (a := 0) (n := b - a + 1) (hb := (b : Int) - a + 1)
  · py_step [encBuf]
  · py_step [encBuf]
  · omega
  · py_step [encBuf]
  · intro k s t _ hk ⟨hs, hr⟩
    obtain ⟨v, hv⟩ := idx_ok (dqPush l x) k (by rw [dqPush_length]; omega)
    py_step [hs, hr, hv, encBuf]
  · intro s' t' ⟨hs, hr⟩ hfold
    py_step [hr, hs]
    simpa [winFold, List.range_eq_range', encBuf] using hfold

theorem gen_TB1_construct (op : TB1) (c : Class) (h : classTB1 op = some c) (a b : Nat) :
    ∃ l : List α, initTB1 op b = .buf l ∧ l.length = b + 1 ∧
      construct c [.int a, .int b] = .ok (encBuf a b l) := by
  cases op <;> simp [classTB1] at h <;> subst h
  · obtain ⟨r, hr, rfl⟩ := OnceTimed_construct (α := α) a b
    exact ⟨_, rfl, by simp, hr⟩
  · obtain ⟨r, hr, rfl⟩ := HistoricallyTimed_construct (α := α) a b
    exact ⟨_, rfl, by simp, hr⟩

theorem gen_TB1_update (op : TB1) (c : Class) (h : classTB1 op = some c) (a b : Nat) (hab : a ≤ b)
    (l : List α) (hl : l.length = b + 1) (x : α) :
    ∃ (l' : List α) (o : α), stepTB1 op a b (.buf l) x = .ok (.buf l', o) ∧ l'.length = b + 1 ∧
      update c (encBuf a b l) [.num x] = .ok (encBuf a b l', .num o) := by
  cases op <;> simp [classTB1] at h <;> subst h
  · obtain ⟨r, hr, o, ho, rfl⟩ := OnceTimed_update a b hab l hl x
    exact ⟨_, o, by simp [stepTB1, ho, bind, Except.bind, pure, Except.pure], by simp [dqPush_length, hl], hr⟩
  · obtain ⟨r, hr, o, ho, rfl⟩ := HistoricallyTimed_update a b hab l hl x
    exact ⟨_, o, by simp [stepTB1, ho, bind, Except.bind, pure, Except.pure], by simp [dqPush_length, hl], hr⟩

theorem gen_TB1_reset (op : TB1) (c : Class) (h : classTB1 op = some c) (a b : Nat)
    (l : List α) (hl : l.length = b + 1) :
    ∃ l' : List α, resetTB1 op b (.buf l) = .buf l' ∧ l'.length = b + 1 ∧
      reset c (encBuf a b l) = .ok (encBuf a b l') := by
  cases op <;> simp [classTB1] at h <;> subst h
  · obtain ⟨r, hr, rfl⟩ := OnceTimed_reset a b l hl
    exact ⟨_, rfl, by simp [pushN_length, hl], hr⟩
  · obtain ⟨r, hr, rfl⟩ := HistoricallyTimed_reset a b l hl
    exact ⟨_, rfl, by simp [pushN_length, hl], hr⟩

/-! ### bounded since / precedes -/

theorem SinceTimed_construct (a b : Nat) :
    okAnd (construct Gen.SinceTimedOperation [.int a, .int b])
      (fun r => r = encBuf2 a b (List.replicate (b + 1) (pinf : α)) (List.replicate (b + 1) ninf)) := by
  unfold construct; rw [okAnd_map]
  apply okAnd_call_none _ _ _ _ rfl rfl
  py_step [Gen.SinceTimedOperation]
  apply okAnd_for (τ := Unit)
    (R := fun k s _ => s.self = encBuf2 a b (List.replicate k pinf) (List.replicate k ninf))
    (g := fun _ _ => .ok ()) (t := ()) (a := 0) (n := b + 1) (hb := (b : Int) + 1)
  · py_step []
  · py_step []
  · omega
  · simp [encBuf2]
  · intro k s _ _ hk hs
    have hk' : k < b + 1 := by omega
    py_step [hs, encBuf2, dqAppend_replicate _ _ _ hk']
  · intro s' _ hs _; simpa using hs

theorem SinceTimed_reset (a b : Nat) (l r : List α) (hl : l.length = b + 1) (hr : r.length = b + 1) :
    okAnd (reset Gen.SinceTimedOperation (encBuf2 a b l r))
      (fun s => s = encBuf2 a b (pushN l pinf (b + 1)) (pushN r ninf (b + 1))) := by
  unfold reset; rw [okAnd_map]
  apply okAnd_call_none _ _ _ _ rfl rfl
  py_step [Gen.SinceTimedOperation]
  apply okAnd_for (τ := Unit)
    (R := fun k s _ => s.self = encBuf2 a b (pushN l pinf k) (pushN r ninf k))
    (g := fun _ _ => .ok ()) (t := ()) (a := 0) (n := b + 1) (hb := (b : Int) + 1)
  · py_step [encBuf2]
  · py_step [encBuf2]
  · omega
  · rfl
  · intro k s _ _ hk hs
    have hlen : (pushN l (pinf : α) k).length = b + 1 := by rw [pushN_length, hl]
    have hlen' : (pushN r (ninf : α) k).length = b + 1 := by rw [pushN_length, hr]
    py_step [hs, encBuf2, dqAppend_full _ _ _ hlen, dqAppend_full _ _ _ hlen', pushN_succ]
  · intro s' _ hs _; simpa using hs

theorem SinceTimed_update (a b : Nat) (hab : a ≤ b) (l r : List α)
    (hl : l.length = b + 1) (hr : r.length = b + 1) (x y : α) :
    okAnd (update Gen.SinceTimedOperation (encBuf2 a b l r) [.num x, .num y]) (fun res =>
      ∃ o, sinceWin a b (dqPush l x) (dqPush r y) = .ok o ∧
        res = (encBuf2 a b (dqPush l x) (dqPush r y), .num o)) := by
  apply okAnd_call _ _ _ _ _ rfl rfl
  py_step [Gen.SinceTimedOperation, encBuf2]
  rw [dqAppend_full _ _ _ hl, dqAppend_full _ _ _ hr]
  apply okAnd_for
    (R := fun _ s out => s.self = encBuf2 a b (dqPush l x) (dqPush r y) ∧
      getKey "sample_return" s.loc = .ok (.num out))
    (g := fun out j => do
      let cr ← idx (dqPush r y) j
      let cl ← (List.range' (j + 1) (b - j)).foldlM
                  (fun c k => do let x ← idx (dqPush l x) k; pure (pmin c x)) pinf
      pure (pmax out (pmin cl cr)))
    (t := ninf) (a := 0) (n := b - a + 1) (hb := (b : Int) - a + 1)
  · py_step [encBuf2]
  · py_step [encBuf2]
  · omega
  · py_step [encBuf2]
  · intro k s out _ hk ⟨hs, hout⟩
    obtain ⟨cr, hcr⟩ := idx_ok (dqPush r y) k (by rw [dqPush_length]; omega)
    py_step [hs, hout, hcr, encBuf2]
    apply okAnd_for
      (R := fun _ s c => s.self = encBuf2 a b (dqPush l x) (dqPush r y) ∧
        getKey "sample_return" s.loc = .ok (.num out) ∧
        getKey "sample_right" s.loc = .ok (.num cr) ∧ getKey "sample_left" s.loc = .ok (.num c))
      (g := fun c k => do let x ← idx (dqPush l x) k; pure (pmin c x))
      (t := pinf) (a := k + 1) (n := b - k) (hb := (b : Int) + 1)
    · py_step []
    · py_step [hs, encBuf2]
    · omega
    · py_step [hs, hout, encBuf2]
    · intro j s1 c hj1 hj2 ⟨hs1, hout1, hcr1, hc1⟩
      obtain ⟨v, hv⟩ := idx_ok (dqPush l x) j (by rw [dqPush_length]; omega)
      py_step [hs1, hout1, hcr1, hc1, hv, encBuf2]
    · intro s1 c ⟨hs1, hout1, hcr1, hc1⟩ hfold
      simp only [pure, Except.pure] at hfold
      py_step [hs1, hout1, hcr1, hc1, hfold, encBuf2]
  · intro s' o ⟨hs, hout⟩ hfold
    py_step [hs, hout]
    simpa [sinceWin, List.range_eq_range', encBuf2] using hfold

theorem gen_SinceTimed_construct (a b : Nat) :
    ∃ l r : List α, initTB2 .since b = .buf2 l r ∧ l.length = b + 1 ∧ r.length = b + 1 ∧
      construct Gen.SinceTimedOperation [.int a, .int b] = .ok (encBuf2 a b l r) := by
  obtain ⟨s, hs, rfl⟩ := SinceTimed_construct (α := α) a b
  exact ⟨_, _, rfl, by simp, by simp, hs⟩

theorem gen_SinceTimed_update (a b : Nat) (hab : a ≤ b) (l r : List α)
    (hl : l.length = b + 1) (hr : r.length = b + 1) (x y : α) :
    (∃ (l' r' : List α) (o : α), stepTB2 .since a b (.buf2 l r) x y = .ok (.buf2 l' r', o) ∧
      l'.length = b + 1 ∧ r'.length = b + 1 ∧
      update Gen.SinceTimedOperation (encBuf2 a b l r) [.num x, .num y] = .ok (encBuf2 a b l' r', .num o)) := by
  obtain ⟨s, hs, o, ho, rfl⟩ := SinceTimed_update a b hab l r hl hr x y
  exact ⟨_, _, o, by simp [stepTB2, ho, bind, Except.bind, pure, Except.pure],
    by simp [dqPush_length, hl], by simp [dqPush_length, hr], hs⟩

theorem gen_SinceTimed_reset (a b : Nat) (l r : List α) (hl : l.length = b + 1) (hr : r.length = b + 1) :
    ∃ l' r' : List α, resetTB2 .since b (.buf2 l r) = .buf2 l' r' ∧ l'.length = b + 1 ∧ r'.length = b + 1 ∧
      reset Gen.SinceTimedOperation (encBuf2 a b l r) = .ok (encBuf2 a b l' r') := by
  obtain ⟨s, hs, rfl⟩ := SinceTimed_reset a b l r hl hr
  exact ⟨_, _, rfl, by simp [pushN_length, hl], by simp [pushN_length, hr], hs⟩

theorem Precedes_construct (a b : Nat) :
    okAnd (construct Gen.PrecedesTimedOperation [.int a, .int b])
      (fun r => r = encPrec a b (List.replicate (b + 1) (pinf : α)) (List.replicate (b + 1) ninf)) := by
  unfold construct; rw [okAnd_map]
  apply okAnd_call_none _ _ _ _ rfl rfl
  py_step [Gen.PrecedesTimedOperation]
  apply okAnd_for (τ := Unit)
    (R := fun k s _ => s.self = encPrec a b (List.replicate k pinf) (List.replicate k ninf))
    (g := fun _ _ => .ok ()) (t := ()) (a := 0) (n := b + 1) (hb := (b : Int) + 1)
  · py_step []
  · py_step []
  · omega
  · simp [encPrec]
  · intro k s _ _ hk hs
    have hk' : k < b + 1 := by omega
    py_step [hs, encPrec, dqAppend_replicate _ _ _ hk']
  · intro s' _ hs _; simpa using hs

theorem Precedes_reset (a b : Nat) (l r : List α) (hl : l.length = b + 1) (hr : r.length = b + 1) :
    okAnd (reset Gen.PrecedesTimedOperation (encPrec a b l r))
      (fun s => s = encPrec a b (pushN l pinf (b + 1)) (pushN r ninf (b + 1))) := by
  unfold reset; rw [okAnd_map]
  apply okAnd_call_none _ _ _ _ rfl rfl
  py_step [Gen.PrecedesTimedOperation]
  apply okAnd_for (τ := Unit)
    (R := fun k s _ => s.self = encPrec a b (pushN l pinf k) (pushN r ninf k))
    (g := fun _ _ => .ok ()) (t := ()) (a := 0) (n := b + 1) (hb := (b : Int) + 1)
  · py_step [encPrec]
  · py_step [encPrec]
  · omega
  · rfl
  · intro k s _ _ hk hs
    have hlen : (pushN l (pinf : α) k).length = b + 1 := by rw [pushN_length, hl]
    have hlen' : (pushN r (ninf : α) k).length = b + 1 := by rw [pushN_length, hr]
    py_step [hs, encPrec, dqAppend_full _ _ _ hlen, dqAppend_full _ _ _ hlen', pushN_succ]
  · intro s' _ hs _; simpa using hs

theorem Precedes_update (a b : Nat) (hab : a ≤ b) (l r : List α)
    (hl : l.length = b + 1) (hr : r.length = b + 1) (x y : α) :
    okAnd (update Gen.PrecedesTimedOperation (encPrec a b l r) [.num x, .num y]) (fun res =>
      ∃ o, precWin a b (dqPush l x) (dqPush r y) = .ok o ∧
        res = (encPrec a b (dqPush l x) (dqPush r y), .num o)) := by
  apply okAnd_call _ _ _ _ _ rfl rfl
  py_step [Gen.PrecedesTimedOperation, encPrec]
  rw [dqAppend_full _ _ _ hl, dqAppend_full _ _ _ hr]
  apply okAnd_for
    (R := fun _ s out => s.self = encPrec a b (dqPush l x) (dqPush r y) ∧
      getKey "sample_return" s.loc = .ok (.num out))
    (g := fun out i => do
      let cr ← idx (dqPush r y) i
      let cl ← (List.range' 0 i).foldlM
                  (fun c j => do let x ← idx (dqPush l x) j; pure (pmin c x)) pinf
      pure (pmax out (pmin cl cr)))
    (t := ninf) (a := a) (n := b + 1 - a) (hb := (b : Int) + 1)
  · py_step [encPrec]
  · py_step [encPrec]
  · omega
  · py_step [encPrec]
  · intro k s out hk1 hk ⟨hs, hout⟩
    obtain ⟨cr, hcr⟩ := idx_ok (dqPush r y) k (by rw [dqPush_length]; omega)
    py_step [hs, hout, hcr, encPrec]
    apply okAnd_for
      (R := fun _ s c => s.self = encPrec a b (dqPush l x) (dqPush r y) ∧
        getKey "sample_return" s.loc = .ok (.num out) ∧
        getKey "sample_right" s.loc = .ok (.num cr) ∧ getKey "sample_left" s.loc = .ok (.num c))
      (g := fun c j => do let x ← idx (dqPush l x) j; pure (pmin c x))
      (t := pinf) (a := 0) (n := k) (hb := (k : Int))
    · py_step []
    · py_step []
    · omega
    · py_step [hs, hout, encPrec]
    · intro j s1 c hj1 hj2 ⟨hs1, hout1, hcr1, hc1⟩
      obtain ⟨v, hv⟩ := idx_ok (dqPush l x) j (by rw [dqPush_length]; omega)
      py_step [hs1, hout1, hcr1, hc1, hv, encPrec]
    · intro s1 c ⟨hs1, hout1, hcr1, hc1⟩ hfold
      simp only [pure, Except.pure] at hfold
      py_step [hs1, hout1, hcr1, hc1, hfold, encPrec]
  · intro s' o ⟨hs, hout⟩ hfold
    py_step [hs, hout]
    simpa [precWin, List.range_eq_range', encPrec] using hfold

theorem gen_Precedes_construct (a b : Nat) :
    ∃ l r : List α, initTB2 .precedes b = .buf2 l r ∧ l.length = b + 1 ∧ r.length = b + 1 ∧
      construct Gen.PrecedesTimedOperation [.int a, .int b] = .ok (encPrec a b l r) := by
  obtain ⟨s, hs, rfl⟩ := Precedes_construct (α := α) a b
  exact ⟨_, _, rfl, by simp, by simp, hs⟩

theorem gen_Precedes_update (a b : Nat) (hab : a ≤ b) (l r : List α)
    (hl : l.length = b + 1) (hr : r.length = b + 1) (x y : α) :
    (∃ (l' r' : List α) (o : α), stepTB2 .precedes a b (.buf2 l r) x y = .ok (.buf2 l' r', o) ∧
      l'.length = b + 1 ∧ r'.length = b + 1 ∧
      update Gen.PrecedesTimedOperation (encPrec a b l r) [.num x, .num y] = .ok (encPrec a b l' r', .num o)) := by
  obtain ⟨s, hs, o, ho, rfl⟩ := Precedes_update a b hab l r hl hr x y
  exact ⟨_, _, o, by simp [stepTB2, ho, bind, Except.bind, pure, Except.pure],
    by simp [dqPush_length, hl], by simp [dqPush_length, hr], hs⟩

theorem gen_Precedes_reset (a b : Nat) (l r : List α) (hl : l.length = b + 1) (hr : r.length = b + 1) :
    ∃ l' r' : List α, resetTB2 .precedes b (.buf2 l r) = .buf2 l' r' ∧ l'.length = b + 1 ∧ r'.length = b + 1 ∧
      reset Gen.PrecedesTimedOperation (encPrec a b l r) = .ok (encPrec a b l' r') := by
  obtain ⟨s, hs, rfl⟩ := Precedes_reset a b l r hl hr
  exact ⟨_, _, rfl, by simp [pushN_length, hl], by simp [pushN_length, hr], hs⟩

/-! ### point-wise classes -/

def classUn : Un → Class
  | .abs => Gen.AbsOperation
  | .sqrt => Gen.SqrtOperation
  | .exp => Gen.ExpOperation
  | .ln => Gen.LnOperation
  | .negate => Gen.NegateOperation
  | .not => Gen.NotOperation

theorem gen_Un_construct (op : Un) : construct (α := α) (classUn op) [] = .ok [] := by
  cases op <;> py_simp [classUn, Gen.AbsOperation, Gen.SqrtOperation, Gen.ExpOperation, Gen.LnOperation, Gen.NegateOperation, Gen.NotOperation]

theorem gen_Un_reset (op : Un) : reset (α := α) (classUn op) [] = .ok [] := by
  cases op <;> py_simp [classUn, Gen.AbsOperation, Gen.SqrtOperation, Gen.ExpOperation, Gen.LnOperation, Gen.NegateOperation, Gen.NotOperation]

/-- `SqrtOperation.update` raises `Exception` on a negative sample; everything else is `Un.app`. -/
theorem gen_Un_update (op : Un) (x : α) :
    update (classUn op) [] [.num x]
      = if op = .sqrt ∧ Val.lt x Val.zero = true then .error .other else .ok ([], .num (op.app x)) := by
  cases op <;> py_simp [classUn, Un.app, Gen.AbsOperation, Gen.SqrtOperation, Gen.ExpOperation, Gen.LnOperation, Gen.NegateOperation, Gen.NotOperation]
  cases hx : Val.lt x Val.zero <;> simp [setKey, List.lookup]

def classBin : Bin → Option Class
  | .add => some Gen.AdditionOperation
  | .sub => some Gen.SubtractionOperation
  | .mul => some Gen.MultiplicationOperation
  | .div => some Gen.DivisionOperation
  | .pow => some Gen.PowOperation
  | .log => some Gen.LogOperation
  | .and => some Gen.AndOperation
  | .or => some Gen.OrOperation
  | .implies => some Gen.ImpliesOperation
  | .iff => some Gen.IffOperation
  | .xor => some Gen.XorOperation
  | _ => none

theorem gen_Bin_construct (op : Bin) (c : Class) (h : classBin op = some c) :
    construct (α := α) c [] = .ok [] := by
  cases op <;> simp [classBin] at h <;> subst h <;> py_simp [Gen.AdditionOperation, Gen.SubtractionOperation, Gen.MultiplicationOperation, Gen.DivisionOperation, Gen.PowOperation, Gen.LogOperation, Gen.AndOperation, Gen.OrOperation, Gen.ImpliesOperation, Gen.IffOperation, Gen.XorOperation]

theorem gen_Bin_reset (op : Bin) (c : Class) (h : classBin op = some c) :
    reset (α := α) c [] = .ok [] := by
  cases op <;> simp [classBin] at h <;> subst h <;> py_simp [Gen.AdditionOperation, Gen.SubtractionOperation, Gen.MultiplicationOperation, Gen.DivisionOperation, Gen.PowOperation, Gen.LogOperation, Gen.AndOperation, Gen.OrOperation, Gen.ImpliesOperation, Gen.IffOperation, Gen.XorOperation]

theorem gen_Bin_update (op : Bin) (c : Class) (h : classBin op = some c) (l r : α) :
    update c [] [.num l, .num r] = .ok ([], .num (op.app l r)) := by
  cases op <;> simp [classBin] at h <;> subst h <;> py_simp [Bin.app, Gen.AdditionOperation, Gen.SubtractionOperation, Gen.MultiplicationOperation, Gen.DivisionOperation, Gen.PowOperation, Gen.LogOperation, Gen.AndOperation, Gen.OrOperation, Gen.ImpliesOperation, Gen.IffOperation, Gen.XorOperation]

def encPred (c : Cmp) : Store α := [("comparison_op", .cmp c)]

theorem gen_Pred_construct (c : Cmp) :
    construct (α := α) Gen.PredicateOperation [.cmp c] = .ok (encPred c) := by
  py_simp [Gen.PredicateOperation, encPred]

theorem gen_Pred_reset (c : Cmp) : reset (α := α) Gen.PredicateOperation (encPred c) = .ok (encPred c) := by
  py_simp [Gen.PredicateOperation, encPred]

theorem gen_Pred_update (c : Cmp) (l r : α) :
    update Gen.PredicateOperation (encPred c) [.num l, .num r] = .ok (encPred c, .num ((Bin.pred c).app l r)) := by
  cases c <;> py_simp [Gen.PredicateOperation, encPred, Bin.app, Cmp.app]

/-- `PredicateOperation.sat` (used by the interface-aware semantics) is `Cmp.holds`. -/
theorem gen_Pred_sat (c : Cmp) (l r : α) :
    ∃ m, Gen.PredicateOperation.sat = some m ∧
      call m (encPred c) [.num l, .num r] = .ok (encPred c, .bool (c.holds l r)) := by
  refine ⟨_, rfl, ?_⟩
  cases c <;> py_simp [Gen.PredicateOperation, encPred, Cmp.holds, numEq]

theorem gen_Const (v : α) :
    construct Gen.ConstantOperation [.num v] = .ok [("val", .num v)] ∧
    update Gen.ConstantOperation [("val", .num v)] [] = .ok ([("val", .num v)], .num v) ∧
    reset Gen.ConstantOperation [("val", (.num v : V α))] = .ok [("val", .num v)] := by
  refine ⟨?_, ?_, ?_⟩ <;> py_simp [Gen.ConstantOperation]

/-- `VariableOperation` holds the sample the interpreter stores into it. -/
theorem gen_Var (v : α) :
    construct (α := α) Gen.VariableOperation [] = .ok [("sample", .none)] ∧
    update Gen.VariableOperation [("sample", .num v)] [] = .ok ([("sample", .num v)], .num v) := by
  refine ⟨?_, ?_⟩ <;> py_simp [Gen.VariableOperation]

/-- Nothing in the translated classes is outside the translated subset. -/
def E.supported : E → Bool
  | .unsupported _ => false
  | .un _ e => e.supported
  | .bin _ a b => a.supported && b.supported
  | .idx e i => e.supported && i.supported
  | .newDeque c => c.supported
  | .len e => e.supported
  | .slice e lo hi => e.supported && lo.supported && hi.supported
  | .rep e n => e.supported && n.supported
  | .compRange body _ lo hi => body.supported && lo.supported && hi.supported
  | .compList body _ it => body.supported && it.supported
  | .compZip body _ _ a b => body.supported && a.supported && b.supported
  | .agg _ e => e.supported
  | .reversed e => e.supported
  | .tuple a b => a.supported && b.supported
  | .ifExp c a b => c.supported && a.supported && b.supported
  | .sorted e => e.supported
  | .lastSnd e => e.supported
  | .loc _ | .attr _ | .pinf | .ninf | .int _ | .cmpc _ | .emptyList | .noneLit | .strLit _ => true

def S.supported : S → Bool
  | .unsupported _ => false
  | .skip => true
  | .raise _ => true
  | .reverseLoc _ => true
  | .seq a b => a.supported && b.supported
  | .for_ _ lo hi body => lo.supported && hi.supported && body.supported
  | .ite c t e => c.supported && t.supported && e.supported
  | .setLoc _ e | .setAttr _ e | .append _ _ e => e.supported
  | .forIn _ it body => it.supported && body.supported
  | .forDown _ hi lo body => hi.supported && lo.supported && body.supported
  | .appendLoc _ e => e.supported
  | .insertLoc _ pos e => pos.supported && e.supported
  | .forEnum _ _ it body => it.supported && body.supported
  | .unpack _ _ e => e.supported
  | .forPair _ _ it body => it.supported && body.supported
  | .setLastSnd _ e => e.supported

def Method.supported (m : Method) : Bool :=
  m.body.supported && (match m.ret with | some e => e.supported | none => true)

def Class.supported (c : Class) : Bool :=
  c.init.supported && c.reset.supported && c.update.supported &&
    (match c.sat with | some m => m.supported | none => true)

theorem gen_all_supported : Gen.all.all Class.supported = true := by
  decide

/-- The list of classes the translator found is the list the theorems above cover. -/
theorem gen_all_names : Gen.all.map (·.name) =
    ["AlwaysOperation", "AndOperation", "ConstantOperation", "EventuallyOperation", "FallOperation",
     "HistoricallyOperation", "HistoricallyTimedOperation", "IffOperation", "ImpliesOperation", "NotOperation",
     "OnceOperation", "OnceTimedOperation", "OrOperation", "PrecedesTimedOperation", "PredicateOperation",
     "PreviousOperation", "RiseOperation", "SinceOperation", "SinceTimedOperation", "StrongPreviousOperation",
     "VariableOperation", "XorOperation", "AbsOperation", "AdditionOperation", "DivisionOperation", "ExpOperation",
     "LnOperation", "LogOperation", "MultiplicationOperation", "NegateOperation", "PowOperation", "SqrtOperation",
     "SubtractionOperation"] := by
  rfl

end Rtamt.Py
