/-
  The discrete-time offline `evaluate(dataset)` as a whole method, as translated from the Python source
  (`Rtamt/Py/GeneratedOffEval.lean`, regenerated on every run by `harness/py2lean.py`: `evaluate` with `exist_ast` and
  `set_variable_to_ast_from_dataset` inlined, and `AbstractAstVisitor.visitAst`), run by `evaluateG`
  (`Rtamt/Py/RunOffEval.lean`), denotes the hand-written mirror `evaluateOffData` / `evaluateOffSpecs`
  (`Rtamt/Discrete/OfflineSpecs.lean`) — values, pairs, exceptions, `var_object_dict`, `results['time']` and the
  violation counter afterwards — and, for a specification with one assertion, `evaluateOff`, on which `C01_evaluate`
  is stated.  Composed with `genOff_eval` (the translated visitor is `evalOff`) and with the proof of the gap loop
  (`offline_loop` of `GenClock.lean`).
-/
import Rtamt.Py.RunOffEval
import RtamtProofs.GenOff
import RtamtProofs.GenClock
import RtamtProofs.C01

namespace Rtamt.Py.OffEval
open Rtamt Val Rtamt.Py

variable {α : Type} [Val α]

/-- A Python list of results: `[]` or a non-empty list. -/
def ovOfList : List (List α) → OV α
  | [] => .nil
  | x :: xs => .valss (x :: xs)

/-- Every assertion is well formed (`a ≤ b` in every interval), of the standard semantics and without a `precedes` node:
    the hypotheses of `genOff_eval`. -/
def GoodSpecs (specs : List (F α)) : Prop :=
  ∀ φ ∈ specs, φ.wf = true ∧ plain φ = true ∧ noPrec φ = true

/-! ### steps of the symbolic execution -/

theorem pure_ok {ε σ : Type} (a : σ) : (pure a : Except ε σ) = .ok a := rfl
theorem throw_err {ε σ : Type} (e : ε) : (throw e : Except ε σ) = .error e := rfl

theorem execOS_seq (va : VisitAst α) (a b : OS) (env : OEnv α) :
    execOS va (.seq a b) env = (execOS va a env >>= execOS va b) := by
  simp only [execOS]

theorem execOS_setLoc (va : VisitAst α) (x : String) (e : OE) (env : OEnv α) (v : OV α)
    (h : evalOE va env e = .ok v) :
    execOS va (.setLoc x e) env = .ok { env with loc := setKey x v env.loc } := by
  simp only [execOS, h]; rfl

theorem execOS_forIn_nodes (va : VisitAst α) (x : String) (it : OE) (body : OS) (env : OEnv α) (l : List (F α))
    (h : evalOE va env it = .ok (.nodes l)) :
    execOS va (.forIn x it body) env
      = (l.map OV.node).foldlM (fun env v => execOS va body { env with loc := setKey x v env.loc }) env := by
  simp only [execOS, h, ok_bind, pure_ok]

theorem execOS_forIn_data (va : VisitAst α) (x : String) (it : OE) (body : OS) (env : OEnv α) (d : Dataset α)
    (h : evalOE va env it = .ok (.data d)) :
    execOS va (.forIn x it body) env
      = (d.keys.map OV.str).foldlM (fun env v => execOS va body { env with loc := setKey x v env.loc }) env := by
  simp only [execOS, h, ok_bind, pure_ok]

/-! ### `visitAst` -/

theorem visit_loop (st : OState α) (a : OAst α) (hst : st.ast = .some a) (n : Nat) :
    ∀ (specs : List (F α)) (_ : GoodSpecs specs) (acc : List (List α)) (loc : List (String × OV α))
      (_ : getKey "args" loc = .ok (.int n)) (_ : getKey "kwargs" loc = .ok .none)
      (_ : getKey "out" loc = .ok (ovOfList acc)),
      (∀ e, evalSpecs Generated.offlineDiscrete.handles a.vars n specs = .error e →
        (specs.map OV.node).foldlM (fun env v => execOS noVisitAst
            (.appendLoc "out" (.visit (.loc "spec") "args" "kwargs")) { env with loc := setKey "spec" v env.loc })
          (⟨st, loc⟩ : OEnv α) = .error e) ∧
      (∀ rs, evalSpecs Generated.offlineDiscrete.handles a.vars n specs = .ok rs →
        ∃ loc', (specs.map OV.node).foldlM (fun env v => execOS noVisitAst
            (.appendLoc "out" (.visit (.loc "spec") "args" "kwargs")) { env with loc := setKey "spec" v env.loc })
          (⟨st, loc⟩ : OEnv α) = .ok ⟨st, loc'⟩ ∧ getKey "out" loc' = .ok (ovOfList (acc ++ rs))) := by
  intro specs
  induction specs with
  | nil =>
    intro _ acc loc _ _ hout
    refine ⟨fun e h => by simp [evalSpecs] at h, fun rs h => ?_⟩
    have : rs = [] := by simpa [evalSpecs] using h.symm
    subst this
    exact ⟨loc, rfl, by simpa using hout⟩
  | cons φ rest ih =>
    intro hs acc loc hargs hkw hout
    have hφ := hs φ (List.mem_cons_self ..)
    have hrest : GoodSpecs rest := fun ψ hψ => hs ψ (List.mem_cons_of_mem _ hψ)
    have hstep : execOS noVisitAst (.appendLoc "out" (.visit (.loc "spec") "args" "kwargs"))
        (⟨st, setKey "spec" (.node φ) loc⟩ : OEnv α)
        = (evalOff Generated.offlineDiscrete.handles a.vars n φ >>= fun r =>
            .ok ⟨st, setKey "out" (ovOfList (acc ++ [r])) (setKey "spec" (.node φ) loc)⟩) := by
      have h1 : getKey "out" (setKey "spec" (OV.node φ) loc) = .ok (ovOfList acc) := by
        rw [getKey_setKey_ne _ _ _ _ (by decide)]; exact hout
      have h2 : getKey "args" (setKey "spec" (OV.node φ) loc) = .ok (.int n) := by
        rw [getKey_setKey_ne _ _ _ _ (by decide)]; exact hargs
      have h3 : getKey "kwargs" (setKey "spec" (OV.node φ) loc) = .ok .none := by
        rw [getKey_setKey_ne _ _ _ _ (by decide)]; exact hkw
      have hneg : ¬ ((n : Int) < 0) := by omega
      simp only [execOS, evalOE, h1, h2, h3, getKey_setKey_same, ok_bind, hneg, if_false, OState.getAst, hst,
        Int.toNat_natCast, genOff_eval a.vars n φ hφ.1 hφ.2.1 hφ.2.2]
      cases evalOff Generated.offlineDiscrete.handles a.vars n φ with
      | error e => rfl
      | ok r =>
        simp only [ok_bind]
        cases acc <;> rfl
    simp only [List.map_cons, List.foldlM_cons, hstep, evalSpecs]
    cases hr : evalOff Generated.offlineDiscrete.handles a.vars n φ with
    | error e =>
      refine ⟨fun e' h => ?_, fun rs h => ?_⟩
      · simpa [error_bind] using h
      · simp [error_bind] at h
    | ok r =>
      simp only [ok_bind]
      obtain ⟨ihE, ihO⟩ := ih hrest (acc ++ [r]) (setKey "out" (ovOfList (acc ++ [r])) (setKey "spec" (.node φ) loc))
        (by rw [getKey_setKey_ne _ _ _ _ (by decide), getKey_setKey_ne _ _ _ _ (by decide)]; exact hargs)
        (by rw [getKey_setKey_ne _ _ _ _ (by decide), getKey_setKey_ne _ _ _ _ (by decide)]; exact hkw)
        (getKey_setKey_same ..)
      refine ⟨fun e h => ?_, fun rs h => ?_⟩
      · cases hrs : evalSpecs Generated.offlineDiscrete.handles a.vars n rest with
        | error e' =>
          rw [hrs] at h
          have : e' = e := by simpa [error_bind] using h
          exact this ▸ ihE e' hrs
        | ok rs' => rw [hrs] at h; simp at h
      · cases hrs : evalSpecs Generated.offlineDiscrete.handles a.vars n rest with
        | error e' => rw [hrs] at h; simp at h
        | ok rs' =>
          rw [hrs] at h
          have : rs = r :: rs' := by simpa [ok_bind] using h.symm
          subst this
          obtain ⟨loc', h1, h2⟩ := ihO rs' hrs
          exact ⟨loc', h1, by simpa using h2⟩

/-- The translated `visitAst(ast, length)`: every assertion is visited in order; the list of the results. -/
theorem visitAstG_eq (st : OState α) (a : OAst α) (hst : st.ast = .some a) (hs : GoodSpecs a.specs) (n : Nat) :
    visitAstG .astRef (.int n) st
      = (evalSpecs Generated.offlineDiscrete.handles a.vars n a.specs >>= fun rs => .ok (ovOfList rs)) := by
  have h1 : getKey "args" [("ast", (OV.astRef : OV α)), ("args", .int n), ("kwargs", .none), ("out", .nil)] = .ok (.int n) := by
    rw [getKey_cons_ne _ _ _ _ (by decide), getKey_cons_same]
  have h2 : getKey "kwargs" [("ast", (OV.astRef : OV α)), ("args", .int n), ("kwargs", .none), ("out", .nil)] = .ok .none := by
    rw [getKey_cons_ne _ _ _ _ (by decide), getKey_cons_ne _ _ _ _ (by decide), getKey_cons_same]
  have h3 : getKey "out" [("ast", (OV.astRef : OV α)), ("args", .int n), ("kwargs", .none), ("out", .nil)] = .ok (ovOfList []) := by
    rw [getKey_cons_ne _ _ _ _ (by decide), getKey_cons_ne _ _ _ _ (by decide), getKey_cons_ne _ _ _ _ (by decide), getKey_cons_same]
    rfl
  obtain ⟨hE, hO⟩ := visit_loop st a hst n a.specs hs [] _ h1 h2 h3
  have hspecs : evalOE noVisitAst (⟨st, [("ast", (OV.astRef : OV α)), ("args", .int n), ("kwargs", .none), ("out", .nil)]⟩ : OEnv α)
      (.specsOf "ast") = .ok (.nodes a.specs) := by
    simp only [evalOE, getKey_cons_same, ok_bind, OState.getAst, hst, pure_ok]
  simp only [visitAstG, callO, Gen.OffEval.visitAst, List.length_cons, List.length_nil, ne_eq, not_true_eq_false, if_false,
    List.zip_cons_cons, List.zip_nil_right, pure_ok]
  rw [execOS_seq, execOS_setLoc _ _ _ _ .nil rfl, ok_bind]
  simp only [setKey, String.reduceBEq, Bool.false_eq_true, if_false]
  rw [execOS_forIn_nodes _ _ _ _ _ _ hspecs]
  cases hr : evalSpecs Generated.offlineDiscrete.handles a.vars n a.specs with
  | error e => rw [hE e hr]; rfl
  | ok rs =>
    obtain ⟨loc', hl, hout⟩ := hO rs hr
    rw [hl]
    simp only [ok_bind, evalOE, hout, List.nil_append]

/-! ### `set_variable_to_ast_from_dataset` -/

theorem getKey_setKey_ite {β : Type} (k k' : String) (v : β) (l : List (String × β)) :
    getKey k (setKey k' v l) = if k = k' then .ok v else getKey k l := by
  by_cases h : k = k'
  · subst h; simp only [getKey_setKey_same, if_true]
  · simp only [getKey_setKey_ne _ _ _ _ h, h, if_false]

omit [Val α] in
theorem lookup_of_mem (cols : List (String × List α)) (k : String) (h : k ∈ cols.map (·.1)) :
    ∃ l, cols.lookup k = some l := by
  induction cols with
  | nil => simp at h
  | cons p rest ih =>
    obtain ⟨k', l'⟩ := p
    by_cases hk : k = k'
    · subst hk; exact ⟨l', by simp [List.lookup]⟩
    · have hb : (k == k') = false := by simpa using hk
      have : k ∈ rest.map (·.1) := by
        simp only [List.map_cons, List.mem_cons] at h
        rcases h with h | h
        · exact absurd h hk
        · exact h
      obtain ⟨l, hl⟩ := ih this
      exact ⟨l, by simp [List.lookup, hb, hl]⟩

omit [Val α] in
theorem keys_lookup (d : Dataset α) : ∀ k ∈ d.keys, k ≠ "time" → ∃ l, d.cols.lookup k = some l := by
  intro k hk hne
  simp only [Dataset.keys, List.mem_append] at hk
  rcases hk with hk | hk
  · exact lookup_of_mem d.cols k hk
  · split at hk
    · simp only [List.mem_cons, List.not_mem_nil, or_false] at hk; exact absurd hk hne
    · simp at hk

theorem bind_loop (va : VisitAst α) (d : Dataset α) (attrs : Rtamt.Py.Store α) :
    ∀ (ks : List String) (_ : ∀ k ∈ ks, k ≠ "time" → ∃ l, d.cols.lookup k = some l) (a : OAst α)
      (loc : List (String × OV α)) (_ : getKey "dataset" loc = .ok (.data d)),
      ∃ loc', (ks.map OV.str).foldlM (fun env v => execOS va
            (.ite (.ne (.loc "key") (.strLit "time")) (.setVar (.loc "key") (.idx (.loc "dataset") (.loc "key"))) .skip)
            { env with loc := setKey "key" v env.loc })
          (⟨⟨.some a, attrs⟩, loc⟩ : OEnv α)
        = .ok ⟨⟨.some { a with vars := d.bindKeys ks a.vars }, attrs⟩, loc'⟩ ∧
        ∀ x, x ≠ "key" → getKey x loc' = getKey x loc := by
  intro ks
  induction ks with
  | nil => intro _ a loc _; exact ⟨loc, rfl, fun _ _ => rfl⟩
  | cons k rest ih =>
    intro hks a loc hd
    have hd' : getKey "dataset" (setKey "key" (OV.str k) loc) = .ok (.data d) := by
      rw [getKey_setKey_ne _ _ _ _ (by decide)]; exact hd
    have hstep : execOS va
        (.ite (.ne (.loc "key") (.strLit "time")) (.setVar (.loc "key") (.idx (.loc "dataset") (.loc "key"))) .skip)
        (⟨⟨.some a, attrs⟩, setKey "key" (.str k) loc⟩ : OEnv α)
        = .ok ⟨⟨.some { a with vars := d.bindKeys [k] a.vars }, attrs⟩, setKey "key" (.str k) loc⟩ := by
      by_cases hk : k = "time"
      · subst hk
        simp only [execOS, evalOE, getKey_setKey_same, ok_bind, pure_ok, bne_self_eq_false]
        simp [Dataset.bindKeys]
      · obtain ⟨l, hl⟩ := hks k (List.mem_cons_self ..) hk
        have hb : (k != "time") = true := by simpa using hk
        have hb' : (k == "time") = false := by simpa using hk
        simp only [execOS, evalOE, getKey_setKey_same, hd', ok_bind, pure_ok, hb, hb', hl, Bool.false_eq_true, if_false,
          OState.getAst]
        simp [Dataset.bindKeys, hk, hl]
    obtain ⟨loc', h1, h2⟩ := ih (fun k' hk' => hks k' (List.mem_cons_of_mem _ hk'))
      { a with vars := d.bindKeys [k] a.vars } (setKey "key" (.str k) loc) hd'
    refine ⟨loc', ?_, fun x hx => ?_⟩
    · simp only [List.map_cons, List.foldlM_cons, hstep, ok_bind]
      rw [h1]
      rfl
    · rw [h2 x hx, getKey_setKey_ne _ _ _ _ hx]

/-! ### the gap loop -/

theorem clock_step (va : VisitAst α) (c : SamplingCfg) (k : Clock) (a : OAst α) (ha : a.unit = unitStr c.unit)
    (ts : List Rat) (loc : List (String × OV α)) (hts : getKey "ts" loc = .ok (.times ts)) :
    execOS va (.clock (.for_ "i" (.int 0) (.bin .sub (.len (.loc "ts")) (.int 1)) (.seq (.setLoc "duration" (.bin .mul (.bin .sub (.idx (.loc "ts") (.bin .add (.loc "i") (.int 1))) (.idx (.loc "ts") (.loc "i"))) (.bin .div (.un .frac (.un .unitNs (.loc "$unit"))) (.un .unitNs (.attr "sampling_period_unit"))))) (.seq (.setLoc "tolerance" (.bin .mul (.attr "sampling_period") (.attr "sampling_tolerance"))) (.ite (.bin .or (.bin .lt (.loc "duration") (.bin .sub (.attr "sampling_period") (.loc "tolerance"))) (.bin .gt (.loc "duration") (.bin .add (.attr "sampling_period") (.loc "tolerance")))) (.setAttr "sampling_violation_counter" (.bin .add (.attr "sampling_violation_counter") (.int 1))) .skip)))))
        (⟨⟨.some a, clockStore c k⟩, loc⟩ : OEnv α)
      = .ok ⟨⟨.some a, clockStore c { k with viol := offlineCounter c k.viol ts }⟩, loc⟩ := by
  have hts' : getKey (β := V α) "ts" [("ts", V.rlist ts), ("$unit", V.str (unitStr c.unit))] = .ok (.rlist ts) :=
    getKey_cons_same ..
  have hu : getKey (β := V α) "$unit" [("ts", V.rlist ts), ("$unit", V.str (unitStr c.unit))]
      = .ok (.str (unitStr c.unit)) := by
    rw [getKey_cons_ne _ _ _ _ (by decide), getKey_cons_same]
  have hhi : evalE (α := α) ⟨clockStore c k, [("ts", V.rlist ts), ("$unit", V.str (unitStr c.unit))]⟩
      (.bin .sub (.len (.loc "ts")) (.int 1)) = .ok (.int ((ts.length : Int) - 1)) := by
    simp only [evalE, hts', u_ok_bind', evalBin_sub_int']
  have hn : ((ts.length : Int) - 1 - ((0 : Nat) : Int)).toNat = ts.length - 1 := by omega
  obtain ⟨loc', hl⟩ := offline_loop c k ts (List.range' 0 (ts.length - 1))
    (fun i hi => by have := (List.mem_range'_1.1 hi).2; omega) _ k.viol hts' hu
  simp only [execOS, hts, ok_bind, timesOf, OState.getAst, ha]
  rw [exec_for' 0 _ (id rfl) hhi, hn]
  have hk : ({ k with viol := k.viol } : Clock) = k := rfl
  rw [hk] at hl
  rw [hl]
  simp only [ok_bind, pure_ok, offlineCounter, List.range_eq_range']

/-! ### the comprehension and the last element -/

theorem mapM_map_ok {β γ : Type} (l : List β) (f : β → γ) (g : γ → Except PyErr β) (h : ∀ p, g (f p) = .ok p) :
    (l.map f).mapM g = .ok l := by
  induction l with
  | nil => rfl
  | cons x xs ih => simp only [List.map_cons, List.mapM_cons, h, ih, ok_bind, pure_ok]

theorem comp_pairs (va : VisitAst α) (env : OEnv α) (ts : List Rat) (rob : List α)
    (hts : getKey "ts" env.loc = .ok (.times ts)) (hrob : getKey "rob" env.loc = .ok (.vals rob)) :
    evalOE va env (.comp (.pair2 (.idx (.loc "a") (.intLit 0)) (.idx (.loc "a") (.intLit 1))) "a" (.zip (.loc "ts") (.loc "rob")))
      = .ok (.tvs (ts.zip rob)) := by
  simp only [evalOE, hts, hrob, ok_bind, pure_ok]
  rw [mapM_map_ok]
  · rfl
  · intro p
    simp [getKey_setKey_same, ok_bind, pyIdx]

theorem pyIdx_last {β : Type} (l : List β) :
    pyIdx l ((l.length : Int) - 1) = match l.getLast? with | none => .error .index | some x => .ok x := by
  cases l with
  | nil => rfl
  | cons x xs =>
    have h1 : ¬ ((((x :: xs).length : Nat) : Int) - 1 < 0) := by simp only [List.length_cons]; omega
    have h2 : ((((x :: xs).length : Nat) : Int) - 1).toNat = (x :: xs).length - 1 := by omega
    simp only [pyIdx, h1, if_false, h2, List.getLast?_eq_getElem?]
    cases (x :: xs)[(x :: xs).length - 1]? <;> rfl

/-! ### `evaluate(dataset)` -/

/-- The interpreter object: the specification `a` has been set, the sampling attributes are those of `c`, the counters
    those of `k`. -/
def mkState (c : SamplingCfg) (k : Clock) (a : OAst α) : OState α := ⟨.some a, clockStore c k⟩

/-- **The translated `evaluate(dataset)` is the mirror `evaluateOffData`** — `KeyError` for a data set without a 'time'
    column, the first exception raised by the visit of an assertion, `IndexError` for a specification without assertions,
    otherwise one `[t, v]` pair per element of `zip(time, rob)` for the list `rob` of the last assertion; afterwards
    `var_object_dict` holds the columns of the data set, `results['time']` the time column and the violation counter has
    been advanced by `offlineCounter`. -/
theorem genOffEval_evaluate (c : SamplingCfg) (k : Clock) (a : OAst α) (ha : a.unit = unitStr c.unit)
    (hs : GoodSpecs a.specs) (d : Dataset α) :
    evaluateG (mkState c k a) d =
      (evaluateOffData Generated.offlineDiscrete.handles c a.specs d a.vars k.viol >>= fun r =>
        .ok (r.1, mkState c { k with viol := r.2.2 } { a with vars := r.2.1, resTime := d.time })) := by
  obtain ⟨loc1, hl1, hk1⟩ := bind_loop visitAstG d (clockStore c k) d.keys (keys_lookup d) a
    [("dataset", .data d)] (getKey_cons_same ..)
  have hd1 : getKey "dataset" loc1 = .ok (.data d) := by rw [hk1 _ (by decide)]; exact getKey_cons_same ..
  have s1 : execOS visitAstG (.ite .astIsNone (.raise .rtamt) .skip)
      (⟨⟨.some a, clockStore c k⟩, [("dataset", .data d)]⟩ : OEnv α)
      = .ok ⟨⟨.some a, clockStore c k⟩, [("dataset", .data d)]⟩ := by
    simp only [execOS, evalOE, ok_bind, pure_ok]
  have s2 : evalOE visitAstG (⟨⟨.some a, clockStore c k⟩, [("dataset", .data d)]⟩ : OEnv α) (.loc "dataset")
      = .ok (.data d) := by
    simp only [evalOE]; exact getKey_cons_same ..
  simp only [evaluateG, callO, Gen.OffEval.evaluate, List.length_cons, List.length_nil, ne_eq, not_true_eq_false,
    if_false, List.zip_cons_cons, List.zip_nil_right, pure_ok, mkState]
  rw [execOS_seq, s1, ok_bind, execOS_seq, execOS_forIn_data _ _ _ _ _ d s2, hl1, ok_bind, execOS_seq]
  cases ht : d.time with
  | none =>
    have s3 : execOS visitAstG (.setLoc "length" (.len (.idx (.loc "dataset") (.strLit "time"))))
        (⟨⟨.some { a with vars := d.bindKeys d.keys a.vars }, clockStore c k⟩, loc1⟩ : OEnv α) = .error .key := by
      simp only [execOS, evalOE, hd1, ok_bind, beq_self_eq_true, if_true, ht, throw_err, error_bind]
    rw [s3]
    simp only [evaluateOffData, ht, error_bind]
  | some time =>
    have s3 := execOS_setLoc visitAstG "length" (.len (.idx (.loc "dataset") (.strLit "time")))
        (⟨⟨.some { a with vars := d.bindKeys d.keys a.vars }, clockStore c k⟩, loc1⟩ : OEnv α) (.int time.length)
        (by simp only [evalOE, hd1, ok_bind, beq_self_eq_true, if_true, ht, pure_ok])
    rw [s3, ok_bind, execOS_seq]
    have s4 : execOS visitAstG (.setResult (.strLit "time") (.idx (.loc "dataset") (.strLit "time")))
        (⟨⟨.some { a with vars := d.bindKeys d.keys a.vars }, clockStore c k⟩,
          setKey "length" (.int time.length) loc1⟩ : OEnv α)
        = .ok ⟨⟨.some { a with vars := d.bindKeys d.keys a.vars, resTime := some time }, clockStore c k⟩,
          setKey "length" (.int time.length) loc1⟩ := by
      simp only [execOS, evalOE, getKey_setKey_ite, String.reduceEq, ↓reduceIte, hd1, ok_bind, beq_self_eq_true,
        ht, pure_ok, OState.getAst]
    rw [s4, ok_bind, execOS_seq]
    have s5 : evalOE visitAstG
        (⟨⟨.some { a with vars := d.bindKeys d.keys a.vars, resTime := some time }, clockStore c k⟩,
          setKey "length" (.int time.length) loc1⟩ : OEnv α) (.callVisitAst .selfAst (.loc "length"))
        = (evalSpecs Generated.offlineDiscrete.handles (d.bind a.vars) time.length a.specs >>= fun rs =>
            .ok (ovOfList rs)) := by
      simp only [evalOE, getKey_setKey_same, ok_bind, pure_ok]
      exact visitAstG_eq _ { a with vars := d.bindKeys d.keys a.vars, resTime := some time } rfl hs time.length
    simp only [evaluateOffData, evaluateOffSpecs, ht]
    cases hr : evalSpecs Generated.offlineDiscrete.handles (d.bind a.vars) time.length a.specs with
    | error e =>
      have s5' : execOS visitAstG (.setLoc "rob" (.callVisitAst .selfAst (.loc "length")))
          (⟨⟨.some { a with vars := d.bindKeys d.keys a.vars, resTime := some time }, clockStore c k⟩,
            setKey "length" (.int time.length) loc1⟩ : OEnv α) = .error e := by
        simp only [execOS, s5, hr, error_bind]
      rw [s5']
      simp only [error_bind]
    | ok robs =>
      have s5' := execOS_setLoc visitAstG "rob" (.callVisitAst .selfAst (.loc "length"))
          (⟨⟨.some { a with vars := d.bindKeys d.keys a.vars, resTime := some time }, clockStore c k⟩,
            setKey "length" (.int time.length) loc1⟩ : OEnv α) (ovOfList robs) (by rw [s5, hr, ok_bind])
      rw [s5', ok_bind, execOS_seq]
      cases robs with
      | nil =>
        have s6 : execOS visitAstG (.setLoc "rob" (.idx (.loc "rob") (.sub (.len (.loc "rob")) (.intLit 1))))
            (⟨⟨.some { a with vars := d.bindKeys d.keys a.vars, resTime := some time }, clockStore c k⟩,
              setKey "rob" (ovOfList []) (setKey "length" (.int time.length) loc1)⟩ : OEnv α) = .error .index := by
          simp only [execOS, evalOE, getKey_setKey_same, ovOfList, ok_bind, pure_ok, throw_err, error_bind]
        rw [s6]
        simp only [error_bind, ok_bind, List.getLast?_nil]
      | cons r0 rs =>
        obtain ⟨rob, hrob⟩ : ∃ rob, (r0 :: rs).getLast? = some rob :=
          ⟨(r0 :: rs).getLast (by simp), List.getLast?_eq_some_getLast _⟩
        have s6 := execOS_setLoc visitAstG "rob" (.idx (.loc "rob") (.sub (.len (.loc "rob")) (.intLit 1)))
            (⟨⟨.some { a with vars := d.bindKeys d.keys a.vars, resTime := some time }, clockStore c k⟩,
              setKey "rob" (ovOfList (r0 :: rs)) (setKey "length" (.int time.length) loc1)⟩ : OEnv α) (.vals rob)
            (by simp only [evalOE, getKey_setKey_same, ovOfList, ok_bind, pure_ok, pyIdx_last, hrob])
        rw [s6, ok_bind, execOS_seq]
        have s7 := execOS_setLoc visitAstG "ts" (.idx (.loc "dataset") (.strLit "time"))
            (⟨⟨.some { a with vars := d.bindKeys d.keys a.vars, resTime := some time }, clockStore c k⟩,
              setKey "rob" (.vals rob) (setKey "rob" (ovOfList (r0 :: rs)) (setKey "length" (.int time.length) loc1))⟩ : OEnv α)
            (.times time)
            (by simp only [evalOE, getKey_setKey_ite, String.reduceEq, ↓reduceIte, hd1, ok_bind, beq_self_eq_true,
                  ht, pure_ok])
        rw [s7, ok_bind, execOS_seq]
        have s8 := clock_step visitAstG c k { a with vars := d.bindKeys d.keys a.vars, resTime := some time } ha time
            (setKey "ts" (.times time) (setKey "rob" (.vals rob) (setKey "rob" (ovOfList (r0 :: rs))
              (setKey "length" (.int time.length) loc1)))) (getKey_setKey_same ..)
        rw [s8, ok_bind, execOS_seq]
        have s9 := execOS_setLoc visitAstG "out_t"
            (.comp (.pair2 (.idx (.loc "a") (.intLit 0)) (.idx (.loc "a") (.intLit 1))) "a" (.zip (.loc "ts") (.loc "rob")))
            (⟨⟨.some { a with vars := d.bindKeys d.keys a.vars, resTime := some time },
                clockStore c { k with viol := offlineCounter c k.viol time }⟩,
              setKey "ts" (.times time) (setKey "rob" (.vals rob) (setKey "rob" (ovOfList (r0 :: rs))
                (setKey "length" (.int time.length) loc1)))⟩ : OEnv α) (.tvs (time.zip rob))
            (comp_pairs _ _ time rob (getKey_setKey_same ..)
              (by simp only [getKey_setKey_ite, String.reduceEq, ↓reduceIte]))
        rw [s9, ok_bind]
        simp only [execOS, evalOE, getKey_setKey_ite, ↓reduceIte, ok_bind, pure_ok, hrob]
        rfl

/-- Before `set_ast` the object has no attribute `ast`: `exist_ast()` raises `AttributeError`, not the `RTAMTException`
    it is written for; after `set_ast(None)` it raises the `RTAMTException`. -/
theorem genOffEval_no_ast (attrs : Rtamt.Py.Store α) (d : Dataset α) :
    evaluateG (⟨.unset, attrs⟩ : OState α) d = .error .other ∧
    evaluateG (⟨.none, attrs⟩ : OState α) d = .error .rtamt := by
  constructor <;>
    simp only [evaluateG, callO, Gen.OffEval.evaluate, List.length_cons, List.length_nil, ne_eq, not_true_eq_false,
      if_false, List.zip_cons_cons, List.zip_nil_right, pure_ok, execOS, evalOE, ok_bind, error_bind, throw_err]

/-! ### one assertion: `evaluateOff`, and C01 on the run of the translated method -/

theorem evaluateOffSpecs_single {τ : Type} (h : Kind → Bool) (φ : F α) (time : List τ) (w : Rtamt.Env α) :
    evaluateOffSpecs h [φ] time w = evaluateOff h φ time w := by
  simp only [evaluateOffSpecs, evalSpecs, evaluateOff]
  cases evalOff h w time.length φ with
  | error e => rfl
  | ok r => rfl

/-- For a specification with one assertion the translated `evaluate(dataset)` is exactly `evaluateOff` on the data set
    written into `var_object_dict`. -/
theorem genOffEval_single (c : SamplingCfg) (k : Clock) (a : OAst α) (ha : a.unit = unitStr c.unit) (φ : F α)
    (hφ : a.specs = [φ]) (hwf : φ.wf = true) (hpl : plain φ = true) (hnp : noPrec φ = true) (d : Dataset α)
    (time : List Rat) (ht : d.time = some time) :
    evaluateG (mkState c k a) d =
      (evaluateOff Generated.offlineDiscrete.handles φ time (d.bind a.vars) >>= fun out =>
        .ok (out, mkState c { k with viol := offlineCounter c k.viol time }
          { a with vars := d.bind a.vars, resTime := some time })) := by
  have hs : GoodSpecs a.specs := by
    intro ψ hψ
    rw [hφ] at hψ
    have : ψ = φ := by simpa using hψ
    subst this
    exact ⟨hwf, hpl, hnp⟩
  rw [genOffEval_evaluate c k a ha hs d]
  simp only [evaluateOffData, ht, hφ, evaluateOffSpecs_single]
  cases evaluateOff Generated.offlineDiscrete.handles φ time (d.bind a.vars) with
  | error e => rfl
  | ok out => rfl

/-- **C01 on the run of the translated method**: for a specification with the one assertion `φ` and a data set whose
    columns (as written into `var_object_dict`) tabulate the signals `σ`, the translated `evaluate(dataset)` returns one
    pair per sample, the `t`-th being `(time[t], ρ(φ, σ, t))`. -/
theorem C01_evaluate_translated [LawfulVal α] (c : SamplingCfg) (k : Clock) (a : OAst α) (ha : a.unit = unitStr c.unit) (φ : F α)
    (hφ : a.specs = [φ]) (hwf : φ.wf = true) (hpl : plain φ = true) (hnp : noPrec φ = true)
    (hh : ∀ kd ∈ φ.kinds, Generated.offlineDiscrete.handles kd = true) (hp : φ.noPrecedes)
    (d : Dataset α) (time : List Rat) (ht : d.time = some time) (hn : 0 < time.length)
    (σ : String → Nat → α) (hw : (d.bind a.vars).Agrees σ time.length φ.vars) :
    evaluateG (mkState c k a) d =
      .ok (time.zip (tab time.length (rho σ time.length φ)),
        mkState c { k with viol := offlineCounter c k.viol time } { a with vars := d.bind a.vars, resTime := some time }) := by
  rw [genOffEval_single c k a ha φ hφ hwf hpl hnp d time ht,
    C01_evaluate Generated.offlineDiscrete.handles (d.bind a.vars) σ time hn φ hwf hh hp hw]
  rfl

/-! ### the data set as the caller writes it -/

omit [Val α] in
theorem lookup_bindKeys (d : Dataset α) (x : String) (l : List α) (hx : x ≠ "time") (hl : d.cols.lookup x = some l) :
    ∀ (ks : List String) (w : Rtamt.Env α), (x ∈ ks ∨ w.lookup x = some l) → (d.bindKeys ks w).lookup x = some l := by
  intro ks
  induction ks with
  | nil => intro w h; rcases h with h | h; · simp at h
           · exact h
  | cons k rest ih =>
    intro w h
    simp only [Dataset.bindKeys, List.foldl_cons]
    refine ih _ ?_
    by_cases hk : x = k
    · subst hk
      right
      simp [hx, hl]
    · have hb : (x == k) = false := by simpa using hk
      rcases h with h | h
      · simp only [List.mem_cons] at h
        rcases h with h | h
        · exact absurd h hk
        · exact Or.inl h
      · right
        split
        · split
          · simp [List.lookup, hb, h]
          · exact h
        · exact h

omit [Val α] in
theorem mem_of_lookup (cols : List (String × List α)) (x : String) (l : List α) (h : cols.lookup x = some l) :
    x ∈ cols.map (·.1) := by
  induction cols with
  | nil => simp at h
  | cons p rest ih =>
    obtain ⟨k', l'⟩ := p
    by_cases hk : x = k'
    · subst hk; simp
    · have hb : (x == k') = false := by simpa using hk
      simp only [List.lookup, hb] at h
      simp only [List.map_cons, List.mem_cons]
      exact Or.inr (ih h)

omit [Val α] in
/-- A column of the data set (other than 'time') is what the visitor reads for that variable, whatever
    `var_object_dict` held before. -/
theorem bind_lookup (d : Dataset α) (w : Rtamt.Env α) (x : String) (l : List α) (hx : x ≠ "time")
    (hl : d.cols.lookup x = some l) : (d.bind w).lookup x = some l := by
  refine lookup_bindKeys d x l hx hl d.keys w (Or.inl ?_)
  simp only [Dataset.keys, List.mem_append]
  exact Or.inl (mem_of_lookup d.cols x l hl)

/-- `C01_evaluate_translated` with the hypothesis on the data set itself: every variable of the assertion has a column
    that tabulates its signal. -/
theorem C01_evaluate_translated_dataset [LawfulVal α] (c : SamplingCfg) (k : Clock) (a : OAst α) (ha : a.unit = unitStr c.unit) (φ : F α)
    (hφ : a.specs = [φ]) (hwf : φ.wf = true) (hpl : plain φ = true) (hnp : noPrec φ = true)
    (hh : ∀ kd ∈ φ.kinds, Generated.offlineDiscrete.handles kd = true) (hp : φ.noPrecedes)
    (d : Dataset α) (time : List Rat) (ht : d.time = some time) (hn : 0 < time.length)
    (σ : String → Nat → α)
    (hd : ∀ x ∈ φ.vars, x ≠ "time" ∧ d.cols.lookup x = some (tab time.length (σ x))) :
    evaluateG (mkState c k a) d =
      .ok (time.zip (tab time.length (rho σ time.length φ)),
        mkState c { k with viol := offlineCounter c k.viol time } { a with vars := d.bind a.vars, resTime := some time }) :=
  C01_evaluate_translated c k a ha φ hφ hwf hpl hnp hh hp d time ht hn σ
    (fun x hx => bind_lookup d a.vars x _ (hd x hx).1 (hd x hx).2)

/-! ### the translated subset -/

/-- Nothing in the two translated methods is outside the translated subset (nor is the gap loop outside the subset of
    `Sem.lean`); the methods are those of the classes `self.evaluate`, `self.set_variable_to_ast_from_dataset`,
    `self.exist_ast`, `self.visitAst` and `self.visit` resolve to along the MRO of `DiscreteTimeOfflineInterpreter`. -/
theorem genOffEval_supported :
    Gen.OffEval.evaluate.unsup = [] ∧ Gen.OffEval.visitAst.unsup = [] ∧
    (Gen.OffEval.evaluate.body.clocks.all S.supported = true) ∧ Gen.OffEval.visitAst.body.clocks = [] ∧
    Gen.OffEval.resolution =
      [("evaluate", "AbstractDiscreteTimeOfflineInterpreter"),
       ("set_variable_to_ast_from_dataset", "AbstractDiscreteTimeOfflineInterpreter"),
       ("exist_ast", "AbstractInterpreter"), ("visitAst", "AbstractAstVisitor"),
       ("visit", "StlDiscreteTimeOfflineAstVisitor")] ∧
    Gen.OffEval.bases =
      [("DiscreteTimeOfflineInterpreter", ["AbstractDiscreteTimeOfflineInterpreter", "AstVisitor"]),
       ("AbstractDiscreteTimeOfflineInterpreter", ["AbstractOfflineInterpreter", "DiscreteTimeInterpreter"]),
       ("AbstractOfflineInterpreter", ["AbstractInterpreter"]), ("AbstractInterpreter", ["object"]),
       ("DiscreteTimeInterpreter", ["TimeInterpreter"]), ("TimeInterpreter", ["object"]),
       ("StlDiscreteTimeOfflineAstVisitor", ["StlAstVisitor"]), ("StlAstVisitor", ["LtlAstVisitor"]),
       ("LtlAstVisitor", ["AbstractAstVisitor"]), ("AbstractAstVisitor", ["object"])] := by
  refine ⟨by decide, by decide, by decide, by decide, by decide, by decide⟩

/-- The gap loop inside the translated `evaluate` is the loop of `Gen.Clock.offline_count` (`GeneratedClock.lean`), the
    term `gen_clock_offline` is about. -/
theorem genOffEval_clock :
    Gen.Clock.offline_count.body = .seq (.setLoc "ts" (.loc "$time"))
      (match Gen.OffEval.evaluate.body.clocks with | [s] => s | _ => .skip) := rfl

end Rtamt.Py.OffEval
