/-
  The translated bounded operation classes of the dense-time ONLINE monitor, `OnceTimedOperation` and
  `HistoricallyTimedOperation` (`Gen.DenseOn.OnceTimedOperation_init/_update`, `Gen.DenseOn.HistoricallyTimedOperation_init/_update`),
  compute what the mirror `timedUpdate` (`Rtamt/Dense/AlgOn.lean`) computes on the record `TimedSt`: values, exceptions and the
  new state, for all sample lists, with fuel `GOnTimed.G st s = st.segs.length + s.length + 1`.  The proof is done once,
  parameterised (`GOnTimed.Par`: `<`/`>`, `>=`/`<=`, the neutral element, the initial `residual_start`; `midSeq`: the order of
  the three statements between the two loops), as `GenDenseFwd.lean` does for the offline functions.

  The relation `TimedRel cls neg a b st o` between the record and the object is phrased through lookups in the object's store.
  It contains the invariant `st.rs = none → st.segs = []` (nothing is pending before the first sample): with `rs = none` the
  mirror never compares with `residual_start`, while the code compares with the initial `-inf` / `+inf`.

  One input on which code and mirror differ (hypothesis `hs` of `gen_hist_timed_update`): a fresh
  `HistoricallyTimedOperation` (`residual_start = +inf`) fed a batch whose first sample is stamped `inf` drops that sample
  (`sample[0][0] == self.residual_start`); the mirror keeps it.  E.g. `update([[inf, 5.0]])`: code `[]` (state unchanged),
  mirror `[(inf, 5.0)]` (`started = true`).

  Auxiliary lemmas live in the namespace `Rtamt.Py.DnOn.GOnTimed`.
-/
import RtamtProofs.GenDenseOnBase

namespace Rtamt.Py.DnOn
open Rtamt Val Rtamt.Dense Rtamt.Dense.Alg Rtamt.Dense.AlgOn

set_option linter.unusedSectionVars false
set_option linter.unusedVariables false
set_option linter.unusedSimpArgs false

variable {α : Type} [Val α]

namespace GOnTimed

/-! ### small helpers (as in `GenDenseFwd.lean`, for the sub-language `DnOn`) -/

@[simp] theorem exceptMap_ok {ε σ ρ : Type} (a : σ) (f : σ → ρ) : Except.map f (Except.ok a : Except ε σ) = .ok (f a) := rfl
@[simp] theorem exceptMap_error {ε σ ρ : Type} (e : ε) (f : σ → ρ) : Except.map f (Except.error e : Except ε σ) = .error e := rfl

@[simp] theorem lookup_setLoc (k k' : String) (v : DV α) (env : Env α) :
    (setLoc k' v env).lookup k = if k = k' then some v else env.lookup k := by
  by_cases h : k = k'
  · subst h; simp [lookup_setLoc_same]
  · simp [h, lookup_setLoc_ne _ _ _ _ h]

theorem getLoc_of_lookup {k : String} {env : Env α} {v : DV α} (h : env.lookup k = some v) : getLoc k env = .ok v := by
  unfold getLoc; rw [h]

theorem resolve_of_lookup {k : String} {env : Env α} (h : env.lookup k = none) : resolve env k = k := by
  unfold resolve; rw [h]

/-- `env'` agrees with `env` outside the names `xs`. -/
def Frame (xs : List String) (env env' : Env α) : Prop := ∀ x, x ∉ xs → env'.lookup x = env.lookup x

theorem Frame.refl (xs : List String) (env : Env α) : Frame xs env env := fun _ _ => rfl

theorem Frame.trans {xs : List String} {e1 e2 e3 : Env α} (h1 : Frame xs e1 e2) (h2 : Frame xs e2 e3) : Frame xs e1 e3 :=
  fun x hx => (h2 x hx).trans (h1 x hx)

theorem Frame.mono {xs ys : List String} {e1 e2 : Env α} (h : Frame xs e1 e2) (hs : ∀ x, x ∈ xs → x ∈ ys) : Frame ys e1 e2 :=
  fun x hx => h x (fun hm => hx (hs x hm))

theorem Frame.set {xs : List String} {e1 e2 : Env α} (h : Frame xs e1 e2) (k : String) (v : DV α) (hk : k ∈ xs) :
    Frame xs e1 (setLoc k v e2) := by
  intro x hx
  have : x ≠ k := fun e => hx (e ▸ hk)
  simp [this, h x hx]

theorem exec_seq_ok {call : Call α} {fuel : Nat} {a b : S} {env env' : Env α}
    (h : exec call fuel a env = .ok (env', .none)) : exec call fuel (.seq a b) env = exec call fuel b env' := by
  simp [exec, h]

theorem exec_seq_err {call : Call α} {fuel : Nat} {a b : S} {env : Env α} {e : PyErr}
    (h : exec call fuel a env = .error e) : exec call fuel (.seq a b) env = .error e := by
  simp [exec, h]

theorem exec_setLoc {call : Call α} {fuel : Nat} {x : String} {e : E} {env : Env α} {v : DV α}
    (h : evalE call env e = .ok v) : exec call fuel (.setLoc x e) env = .ok (setLoc x v env, .none) := by
  simp [exec, h]

theorem exec_appendLoc {call : Call α} {fuel : Nat} {x : String} {e : E} {env : Env α} {v : DV α} {l : List (DV α)}
    (h : evalE call env e = .ok v) (hx : env.lookup x = some (.list l)) :
    exec call fuel (.appendLoc x e) env = .ok (setLoc x (.list (l ++ [v])) env, .none) := by
  simp [exec, h, getLoc_of_lookup hx]

theorem exec_ite {call : Call α} {fuel : Nat} {c : E} {t e : S} {env : Env α} {d : DV α} {b : Bool}
    (h : evalE call env c = .ok d) (hb : truthy d = .ok b) :
    exec call fuel (.ite c t e) env = if b then exec call fuel t env else exec call fuel e env := by
  simp [exec, h, hb]

theorem exec_skip {call : Call α} {fuel : Nat} {env : Env α} : exec call fuel .skip env = .ok (env, .none) := by
  simp [exec]

theorem exec_while (call : Call α) (fuel : Nat) (c : E) (body : S) (env : Env α) :
    exec call fuel (.while_ c body) env =
      whileLoop (fun env => do truthy (← evalE call env c)) (exec call fuel body) fuel env := by
  simp [exec]

theorem evalE_or {call : Call α} {env : Env α} {a b : E} {x : DV α} {t : Bool}
    (h1 : evalE call env a = .ok x) (h2 : truthy x = .ok t) :
    evalE call env (.or_ a b) = if t then .ok x else evalE call env b := by
  rw [evalE, h1]
  simp [h2]

theorem evalE_and {call : Call α} {env : Env α} {a b : E} {x : DV α} {t : Bool}
    (h1 : evalE call env a = .ok x) (h2 : truthy x = .ok t) :
    evalE call env (.and_ a b) = if t then evalE call env b else .ok x := by
  rw [evalE, h1]
  simp [h2]

theorem evalE_idx {call : Call α} {env : Env α} {e i : E} {x k : DV α}
    (h1 : evalE call env e = .ok x) (h2 : evalE call env i = .ok k) :
    evalE call env (.idx e i) = evalIdx x k := by
  rw [evalE, h1, h2]; rfl

/-! ### indexing -/

theorem pyIndex_nat (n k : Nat) (h : k < n) : pyIndex n (k : Int) = .ok k := by
  unfold pyIndex; simp [h]

theorem evalIdx_list_nat (l : List (DV α)) (k : Nat) (v : DV α) (h : l[k]? = some v) :
    evalIdx (.list l) (.int (k : Int)) = .ok v := by
  have hk : k < l.length := by
    rcases Nat.lt_or_ge k l.length with h' | h'
    · exact h'
    · rw [List.getElem?_eq_none h'] at h; cases h
  simp [evalIdx, pyIndex_nat _ _ hk, h]

theorem evalIdx_last (l : List (DV α)) (x : DV α) :
    evalIdx (.list (l ++ [x])) (.int (((l ++ [x]).length : Nat) - 1 : Int)) = .ok x := by
  have : (((l ++ [x]).length : Nat) - 1 : Int) = (l.length : Nat) := by simp
  rw [this]
  exact evalIdx_list_nat _ _ _ (by simp)

theorem evalIdx_last_nil : evalIdx (.list ([] : List (DV α))) (.int ((([] : List (DV α)).length : Nat) - 1 : Int)) = .error .index := by
  simp [evalIdx, pyIndex]

theorem evalIdx_neg1 (l : List (DV α)) (x : DV α) : evalIdx (.list (l ++ [x])) (.int (-1)) = .ok x := by
  simp [evalIdx, pyIndex]

theorem delAt_last (l : List (DV α)) (x : DV α) :
    delAt (l ++ [x]) (((l ++ [x]).length : Nat) - 1 : Int) = .ok l := by
  have : (((l ++ [x]).length : Nat) - 1 : Int) = (l.length : Nat) := by simp
  rw [this]
  unfold delAt
  rw [pyIndex_nat _ _ (by simp)]
  have : (l ++ [x]).eraseIdx l.length = l := by
    induction l with
    | nil => rfl
    | cons y l ih => simp [ih]
  simp [this]

@[simp] theorem evalIdx_seg0 (lo hi : Tm) (v : α) : evalIdx (.seg lo hi v) (.int 0) = .ok (.tm lo) := by
  simp [evalIdx, pyIndex]
@[simp] theorem evalIdx_seg1 (lo hi : Tm) (v : α) : evalIdx (.seg lo hi v) (.int 1) = .ok (.tm hi) := by
  simp [evalIdx, pyIndex]
@[simp] theorem evalIdx_seg2 (lo hi : Tm) (v : α) : evalIdx (.seg lo hi v) (.int 2) = .ok (.val v) := by
  simp [evalIdx, pyIndex]
@[simp] theorem evalIdx_smp0 (t : Tm) (p : DV α) : evalIdx (.smp t p) (.int 0) = .ok (.tm t) := by
  simp [evalIdx, pyIndex]
@[simp] theorem evalIdx_smp1 (t : Tm) (p : DV α) : evalIdx (.smp t p) (.int 1) = .ok p := by
  simp [evalIdx, pyIndex]

theorem evalIdx_list_nat' (l : List (DV α)) (k : Nat) :
    evalIdx (.list l) (.int (k : Int)) = (match l[k]? with | some v => .ok v | none => .error .index) := by
  rcases Nat.lt_or_ge k l.length with h | h
  · rw [evalIdx_list_nat l k l[k] (by simp [h])]; simp [h]
  · have h1 : l[k]? = none := List.getElem?_eq_none h
    have h2 : ¬ k < l.length := by omega
    simp [evalIdx, pyIndex, h2]

theorem evalIdx_list_succ (l : List (DV α)) (k : Nat) :
    evalIdx (.list l) (.int ((k : Int) + 1)) = (match l[k + 1]? with | some v => .ok v | none => .error .index) := by
  have : ((k : Int) + 1) = ((k + 1 : Nat) : Int) := by simp
  rw [this, evalIdx_list_nat']

/-! ### comparisons of time stamps -/

theorem xt_beq (x y : Tm) : (XT.t x == XT.t y) = (x == y) := by
  by_cases h : x = y
  · subst h; simp
  · have h1 : (x == y) = false := by rw [beq_eq_false_iff_ne]; exact h
    have h2 : (XT.t x == XT.t y) = false := by rw [beq_eq_false_iff_ne]; intro e; exact h (XT.t.inj e)
    rw [h1, h2]

theorem cmpLtTm (x y : Tm) : evalBin .lt (.tm x : DV α) (.tm y) = .ok (.bool (Tm.lt x y)) := by
  simp [evalBin, isCmp, cmpDV, isTimeLike, toXT, toTm, cmpXT, XT.lt]

theorem cmpGtTm (x y : Tm) : evalBin .gt (.tm x : DV α) (.tm y) = .ok (.bool (Tm.lt y x)) := by
  simp [evalBin, isCmp, cmpDV, isTimeLike, toXT, toTm, cmpXT, XT.lt]

theorem cmpLeTm (x y : Tm) : evalBin .le (.tm x : DV α) (.tm y) = .ok (.bool (Tm.le x y)) := by
  simp [evalBin, isCmp, cmpDV, isTimeLike, toXT, toTm, cmpXT, XT.lt, Tm.le]

theorem cmpGeTm (x y : Tm) : evalBin .ge (.tm x : DV α) (.tm y) = .ok (.bool (Tm.le y x)) := by
  simp [evalBin, isCmp, cmpDV, isTimeLike, toXT, toTm, cmpXT, XT.lt, Tm.le]

theorem cmpEqTm (x y : Tm) : evalBin .eq (.tm x : DV α) (.tm y) = .ok (.bool (x == y)) := by
  simp [evalBin, isCmp, cmpDV, isTimeLike, toXT, toTm, cmpXT, xt_beq]

/-! ### the code, cut into named pieces (`opW`: `<` / `>`, `opK`: `>=` / `<=`, `ninit`: `-inf` / `inf`) -/

def lenOutM1 : E := .bin .sub (.call1 "len" (.loc "out")) (.int 1)

def innerCond (opW : BinOp) : E :=
  .and_ (.bin opW (.idx (.loc "a") (.int 2)) (.idx (.loc "b") (.int 2))) (.bin .lt (.idx (.loc "b") (.int 0)) (.idx (.loc "a") (.int 0)))

def innerBody : S := .seq (.delIdx "out" lenOutM1) (.setLoc "a" (.idx (.loc "out") lenOutM1))

def splitStmt : S :=
  .seq (.delIdx "out" lenOutM1) (.seq (.ite (.bin .gt (.idx (.loc "b") (.int 0)) (.idx (.loc "a") (.int 0))) (.appendLoc "out" (.tup3 (.idx (.loc "a") (.int 0)) (.idx (.loc "b") (.int 0)) (.idx (.loc "a") (.int 2)))) .skip) (.appendLoc "out" (.tup3 (.idx (.loc "b") (.int 0)) (.idx (.loc "b") (.int 1)) (.idx (.loc "b") (.int 2)))))

def tailStmt (opK : BinOp) : S :=
  .ite (.not (.call4 "intersects" (.idx (.loc "a") (.int 0)) (.idx (.loc "a") (.int 1)) (.idx (.loc "b") (.int 0)) (.idx (.loc "b") (.int 1)))) (.appendLoc "out" (.loc "b")) (.ite (.bin opK (.idx (.loc "a") (.int 2)) (.idx (.loc "b") (.int 2))) (.appendLoc "out" (.tup3 (.idx (.loc "a") (.int 1)) (.idx (.loc "b") (.int 1)) (.idx (.loc "b") (.int 2)))) splitStmt)

def pushStmt (opW opK : BinOp) : S :=
  .ite (.not (.loc "out")) (.appendLoc "out" (.loc "b")) (.seq (.setLoc "a" (.idx (.loc "out") lenOutM1)) (.seq (.while_ (innerCond opW) innerBody) (tailStmt opK)))

def initCond : E :=
  .and_ (.bin .eq (.loc "i") (.int 1)) (.and_ (.bin .eq (.idx (.idx (.loc "sample") (.int 0)) (.int 0)) (.int 0)) (.and_ (.bin .gt (.loc "begin") (.int 0)) (.not (.loc "self.started"))))

def initStmt (ninit : E) : S :=
  .ite initCond (.appendLoc "out" (.tup3 (.int 0) (.bin .add (.idx (.idx (.loc "sample") (.int 0)) (.int 0)) (.loc "begin")) ninit)) .skip

def bStmt : S :=
  .ite (.bin .eq (.loc "i") (.call1 "len" (.loc "sample"))) (.setLoc "b" (.tup3 (.bin .add (.idx (.idx (.loc "sample") (.bin .sub (.loc "i") (.int 1))) (.int 0)) (.loc "begin")) (.bin .add (.idx (.idx (.loc "sample") (.bin .sub (.loc "i") (.int 1))) (.int 0)) (.loc "end")) (.idx (.idx (.loc "sample") (.bin .sub (.loc "i") (.int 1))) (.int 1)))) (.setLoc "b" (.tup3 (.bin .add (.idx (.idx (.loc "sample") (.bin .sub (.loc "i") (.int 1))) (.int 0)) (.loc "begin")) (.bin .add (.idx (.idx (.loc "sample") (.loc "i")) (.int 0)) (.loc "end")) (.idx (.idx (.loc "sample") (.bin .sub (.loc "i") (.int 1))) (.int 1))))

def incStmt : S := .setLoc "i" (.bin .add (.loc "i") (.int 1))

def outerBody (opW opK : BinOp) (ninit : E) : S := .seq (initStmt ninit) (.seq bStmt (.seq (pushStmt opW opK) incStmt))

def outerCond : E := .bin .ge (.call1 "len" (.loc "sample")) (.loc "i")

def dropStmt : S :=
  .ite (.and_ (.loc "sample") (.bin .eq (.idx (.idx (.loc "sample") (.int 0)) (.int 0)) (.loc "self.residual_start"))) (.setLoc "sample" (.sliceFrom (.loc "sample") 1)) .skip

def reendInner : S :=
  .seq (.setLoc "last_prev" (.idx (.loc "out") lenOutM1)) (.seq (.setLoc "first_now" (.idx (.loc "sample") (.int 0))) (.seq (.delIdx "out" lenOutM1) (.appendLoc "out" (.tup3 (.idx (.loc "last_prev") (.int 0)) (.bin .add (.idx (.loc "first_now") (.int 0)) (.loc "end")) (.idx (.loc "last_prev") (.int 2))))))

def reendStmt : S :=
  .ite (.loc "sample") (.seq (.setLoc "self.residual_start" (.idx (.idx (.loc "sample") (.neg (.int 1))) (.int 0))) (.ite (.loc "out") reendInner .skip)) .skip

def startedStmt : S := .ite (.loc "sample") (.setLoc "self.started" (.boolLit true)) .skip

def keepCond : E := .or_ (.bin .ne (.idx (.loc "b") (.int 2)) (.loc "prev")) (.bin .eq (.loc "i") lenOutM1)

def resAppend : S := .ite keepCond (.appendLoc "sample_result" (.loc "last")) .skip

def setLastB : S := .setLoc "last" (.list2 (.idx (.loc "b") (.int 0)) (.idx (.loc "b") (.int 2)))

def emitSplit : S :=
  .seq setLastB (.seq resAppend (.seq (.ite (.bin .gt (.loc "self.residual_start") (.idx (.loc "b") (.int 0))) (.setLoc "last" (.list2 (.loc "self.residual_start") (.idx (.loc "b") (.int 2)))) .skip) (.appendLoc "self.prev" (.tup3 (.loc "self.residual_start") (.idx (.loc "b") (.int 1)) (.idx (.loc "b") (.int 2))))))

def emitBody : S :=
  .seq (.ite (.bin .ge (.loc "self.residual_start") (.idx (.loc "b") (.int 1))) (.seq setLastB resAppend) (.ite (.and_ (.bin .le (.idx (.loc "b") (.int 0)) (.loc "self.residual_start")) (.bin .lt (.loc "self.residual_start") (.idx (.loc "b") (.int 1)))) emitSplit (.appendLoc "self.prev" (.loc "b")))) (.setLoc "prev" (.idx (.loc "b") (.int 2)))

def finalStmt : S :=
  .ite (.loc "last") (.ite (.not (.loc "sample_result")) (.appendLoc "sample_result" (.loc "last")) (.ite (.bin .gt (.idx (.loc "last") (.int 0)) (.idx (.idx (.loc "sample_result") (.neg (.int 1))) (.int 0))) (.appendLoc "sample_result" (.loc "last")) .skip)) .skip

def endStmt : S := .seq (.forEnum "i" "b" (.loc "out") false emitBody) (.seq finalStmt (.ret (.loc "sample_result")))

/-- the three statements between the two loops, in the order of `OnceTimedOperation` (`true`) or of
    `HistoricallyTimedOperation` (`false`) -/
def midSeq (ord : Bool) (rest : S) : S :=
  match ord with
  | true => .seq (.setLoc "last" .emptyList) (.seq startedStmt (.seq (.setLoc "prev" .nan) rest))
  | false => .seq startedStmt (.seq (.setLoc "prev" .nan) (.seq (.setLoc "last" .emptyList) rest))

def updBody (opW opK : BinOp) (ninit : E) (ord : Bool) : S :=
  .seq (.setLoc "sample_result" .emptyList) (.seq (.setLoc "out" (.loc "self.prev")) (.seq (.setLoc "self.prev" .emptyList) (.seq (.setLoc "begin" (.loc "self.begin")) (.seq (.setLoc "end" (.loc "self.end")) (.seq dropStmt (.seq reendStmt (.seq (.setLoc "i" (.int 1)) (.seq (.while_ outerCond (outerBody opW opK ninit)) (midSeq ord endStmt)))))))))

theorem once_body_eq : Gen.DenseOn.OnceTimedOperation_update.body = updBody .lt .ge (.neg .inf) true := rfl
theorem hist_body_eq : Gen.DenseOn.HistoricallyTimedOperation_update.body = updBody .gt .le .inf false := rfl

def initBody (ninit : E) : S :=
  .seq (.setLoc "self.prev" .emptyList) (.seq (.setLoc "self.residual_start" ninit) (.seq (.setLoc "self.max" ninit) (.seq (.setLoc "self.begin" (.loc "begin")) (.seq (.setLoc "self.end" (.loc "end")) (.setLoc "self.started" (.boolLit false))))))

theorem once_init_eq : Gen.DenseOn.OnceTimedOperation_init.body = initBody (.neg .inf) := rfl
theorem hist_init_eq : Gen.DenseOn.HistoricallyTimedOperation_init.body = initBody .inf := rfl

/-! ### `intersect.intersects` -/

theorem gen_intersects' (fuel k : Nat) (x1 x2 y1 y2 : Tm) :
    callAt Gen.DenseOn.fns fuel (k + 1) "intersects" [.tm x1, .tm x2, .tm y1, .tm y2]
      = .ok (.bool (intersects x1 x2 y1 y2) : DV α) := by
  rw [callAt_fn _ _ _ _ Gen.DenseOn.fn_intersects _ rfl]
  cases h1 : Tm.le x1 y2 <;> cases h2 : Tm.le y1 x2 <;>
    simp [runFn, Gen.DenseOn.fn_intersects, exec, evalE, cmpLeTm, truthy, intersects, h1, h2]

/-! ### parameters, encodings -/

/-- What the proof uses of the pieces in which `OnceTimedOperation` and `HistoricallyTimedOperation` differ. -/
structure Par (α : Type) [Val α] (opW opK : BinOp) (ninit : E) (neg : Bool) (worse : α → α → Bool) (neutral : α) : Prop where
  hW : ∀ x y : α, evalBin opW (.val x : DV α) (.val y) = .ok (.bool (worse x y))
  hK : ∀ x y : α, evalBin opK (.val x : DV α) (.val y) = .ok (.bool (!worse x y))
  hN : ∀ (call : Call α) (env : Env α), evalE call env ninit = .ok (.uinf neg)
  hV : toVal (.uinf neg : DV α) = .ok neutral

theorem par_once : Par α .lt .ge (.neg .inf) true ltW Val.ninf where
  hW := fun x y => by simp [evalBin, isCmp, cmpDV, isTimeLike, isValLike, toVal, cmpVal, ltW]
  hK := fun x y => by simp [evalBin, isCmp, cmpDV, isTimeLike, isValLike, toVal, cmpVal, ltW]
  hN := fun call env => by simp [evalE, evalNeg]
  hV := rfl

theorem par_hist : Par α .gt .le .inf false gtW Val.pinf where
  hW := fun x y => by simp [evalBin, isCmp, cmpDV, isTimeLike, isValLike, toVal, cmpVal, gtW]
  hK := fun x y => by simp [evalBin, isCmp, cmpDV, isTimeLike, isValLike, toVal, cmpVal, gtW]
  hN := fun call env => by simp [evalE]
  hV := rfl

/-- what the code calls -/
structure CallOK (call : Call α) : Prop where
  len : ∀ l : List (DV α), call "len" [.list l] = .ok (.int l.length)
  ints : ∀ x1 x2 y1 y2 : Tm, call "intersects" [.tm x1, .tm x2, .tm y1, .tm y2] = .ok (.bool (intersects x1 x2 y1 y2))

theorem callOK_callAt (fuel k : Nat) : CallOK (callAt Gen.DenseOn.fns fuel (k + 1) : Call α) where
  len := fun l => by rw [callAt_builtin _ _ _ "len" _ rfl]; rfl
  ints := gen_intersects' fuel k

def encSeg (g : Seg α) : DV α := .seg g.lo g.hi g.v

/-- the Python list `out`: the top of the stack is its last element -/
def pyStk (stk : List (Seg α)) : List (DV α) := stk.reverse.map encSeg

theorem pyStk_cons (x : Seg α) (stk : List (Seg α)) : pyStk (x :: stk) = pyStk stk ++ [encSeg x] := by
  simp [pyStk]

@[simp] theorem pyStk_nil : pyStk ([] : List (Seg α)) = [] := rfl

theorem eval_lenOutM1 {call : Call α} (hc : CallOK call) {env : Env α} {l : List (DV α)}
    (hout : env.lookup "out" = some (.list l)) (hlen : env.lookup "len" = none) :
    evalE call env lenOutM1 = .ok (.int ((l.length : Nat) - 1 : Int)) := by
  simp [lenOutM1, evalE, getLoc_of_lookup hout, resolve_of_lookup hlen, hc.len, evalBin, isCmp, arith]

/-! ### the inner loop: `while a[2] < b[2] and b[0] < a[0]: del out[len(out)-1]; a = out[len(out)-1]` -/

theorem innerCond_eval {opW opK : BinOp} {ninit : E} {neg : Bool} {worse : α → α → Bool} {neutral : α}
    (hp : Par α opW opK ninit neg worse neutral) (call : Call α) {env : Env α} {sa sb : Seg α}
    (ha : env.lookup "a" = some (encSeg sa)) (hb : env.lookup "b" = some (encSeg sb)) :
    (do truthy (← evalE call env (innerCond opW))) = .ok (worse sa.v sb.v && Tm.lt sb.lo sa.lo) := by
  cases hw : worse sa.v sb.v <;>
    simp [innerCond, evalE, getLoc_of_lookup ha, getLoc_of_lookup hb, encSeg, hp.hW, hw, truthy, cmpLtTm]

theorem innerBody_ok {call : Call α} (hc : CallOK call) (fuel : Nat) {env : Env α} {l : List (DV α)} {x y : DV α}
    (hout : env.lookup "out" = some (.list ((l ++ [y]) ++ [x]))) (hlen : env.lookup "len" = none) :
    exec call fuel innerBody env = .ok (setLoc "a" y (setLoc "out" (.list (l ++ [y])) env), .none) := by
  have h1 : exec call fuel (.delIdx "out" lenOutM1) env = .ok (setLoc "out" (.list (l ++ [y])) env, .none) := by
    simp only [exec, getLoc_of_lookup hout, eval_lenOutM1 hc hout hlen, ok_bind, delAt_last, pure_eq_ok]
  unfold innerBody
  rw [exec_seq_ok h1]
  apply exec_setLoc
  have hout' : (setLoc "out" (.list (l ++ [y])) env).lookup "out" = some (.list (l ++ [y])) := by simp
  have hlen' : (setLoc "out" (.list (l ++ [y])) env).lookup "len" = none := by simp [hlen]
  simp only [evalE, getLoc_of_lookup hout', eval_lenOutM1 hc hout' hlen', ok_bind, evalIdx_last]

theorem innerBody_err {call : Call α} (hc : CallOK call) (fuel : Nat) {env : Env α} {x : DV α}
    (hout : env.lookup "out" = some (.list ([] ++ [x]))) (hlen : env.lookup "len" = none) :
    exec call fuel innerBody env = .error .index := by
  have h1 : exec call fuel (.delIdx "out" lenOutM1) env = .ok (setLoc "out" (.list []) env, .none) := by
    simp only [exec, getLoc_of_lookup hout, eval_lenOutM1 hc hout hlen, ok_bind, delAt_last, pure_eq_ok]
  unfold innerBody
  rw [exec_seq_ok h1]
  have hout' : (setLoc "out" (.list []) env).lookup "out" = some (.list ([] : List (DV α))) := by simp
  have hlen' : (setLoc "out" (.list []) env).lookup "len" = none := by simp [hlen]
  simp only [exec, evalE, getLoc_of_lookup hout', eval_lenOutM1 hc hout' hlen', ok_bind, evalIdx_last_nil, error_bind]

theorem innerLoop {opW opK : BinOp} {ninit : E} {neg : Bool} {worse : α → α → Bool} {neutral : α}
    (hp : Par α opW opK ninit neg worse neutral) {call : Call α} (hc : CallOK call) (fuel : Nat) (sb : Seg α) :
    ∀ (stk : List (Seg α)) (x : Seg α) (f : Nat) (env : Env α), stk.length + 2 ≤ f →
      env.lookup "out" = some (.list (pyStk (x :: stk))) → env.lookup "a" = some (encSeg x) →
      env.lookup "b" = some (encSeg sb) → env.lookup "len" = none →
      match popWhile worse sb (x :: stk) with
      | .ok stk' => ∃ env' top rest,
          whileLoop (fun env => do truthy (← evalE call env (innerCond opW))) (exec call fuel innerBody) f env
            = .ok (env', .none) ∧
          stk' = top :: rest ∧ env'.lookup "out" = some (.list (pyStk stk')) ∧ env'.lookup "a" = some (encSeg top) ∧
          Frame ["out", "a"] env env'
      | .error e =>
          whileLoop (fun env => do truthy (← evalE call env (innerCond opW))) (exec call fuel innerBody) f env = .error e := by
  intro stk
  induction stk with
  | nil =>
      intro x f env hf hout ha hb hlen
      obtain ⟨f, rfl⟩ : ∃ f', f = f' + 1 := ⟨f - 1, by simp at hf; omega⟩
      cases hcond : (worse x.v sb.v && Tm.lt sb.lo x.lo) with
      | false =>
          have : popWhile worse sb [x] = .ok [x] := by simp [popWhile, hcond]
          rw [this]
          exact ⟨env, x, [], whileLoop_done _ _ _ _ (by rw [innerCond_eval hp call ha hb, hcond]), rfl, hout, ha,
            Frame.refl _ _⟩
      | true =>
          have : popWhile worse sb [x] = .error .index := by simp [popWhile, hcond]
          rw [this]
          exact whileLoop_raise _ _ _ _ _ (by rw [innerCond_eval hp call ha hb, hcond])
            (innerBody_err hc fuel (by simpa [pyStk] using hout) hlen)
  | cons y stk ih =>
      intro x f env hf hout ha hb hlen
      obtain ⟨f, rfl⟩ : ∃ f', f = f' + 1 := ⟨f - 1, by simp at hf; omega⟩
      cases hcond : (worse x.v sb.v && Tm.lt sb.lo x.lo) with
      | false =>
          have : popWhile worse sb (x :: y :: stk) = .ok (x :: y :: stk) := by simp [popWhile, hcond]
          rw [this]
          exact ⟨env, x, y :: stk, whileLoop_done _ _ _ _ (by rw [innerCond_eval hp call ha hb, hcond]), rfl, hout, ha,
            Frame.refl _ _⟩
      | true =>
          have : popWhile worse sb (x :: y :: stk) = popWhile worse sb (y :: stk) := by
            rw [popWhile]; simp [hcond]
          rw [this]
          have hout2 : env.lookup "out" = some (.list ((pyStk stk ++ [encSeg y]) ++ [encSeg x])) := by
            rw [hout, pyStk_cons, pyStk_cons]
          have hstep := whileLoop_step (fun env => do truthy (← evalE call env (innerCond opW))) (exec call fuel innerBody) f
            env _ (by rw [innerCond_eval hp call ha hb, hcond]) (innerBody_ok hc fuel hout2 hlen)
          rw [hstep]
          have := ih y f (setLoc "a" (encSeg y) (setLoc "out" (.list (pyStk stk ++ [encSeg y])) env))
            (by simp at hf ⊢; omega) (by simp [pyStk_cons]) (by simp) (by simp [hb]) (by simp [hlen])
          revert this
          cases popWhile worse sb (y :: stk) with
          | error e => exact fun h => h
          | ok stk' =>
              rintro ⟨env', top, rest, h1, h2, h3, h4, h5⟩
              refine ⟨env', top, rest, h1, h2, h3, h4, ?_⟩
              exact Frame.trans (Frame.set (Frame.set (Frame.refl _ _) "out" _ (by simp)) "a" _ (by simp)) h5

/-! ### after the inner loop -/

def pushTail (worse : α → α → Bool) (a : Seg α) (rest : List (Seg α)) (b : Seg α) : List (Seg α) :=
  if !intersects a.lo a.hi b.lo b.hi then b :: a :: rest
  else if !worse a.v b.v then ⟨a.hi, b.hi, b.v⟩ :: a :: rest
  else ⟨b.lo, b.hi, b.v⟩ :: (if Tm.lt a.lo b.lo then ⟨a.lo, b.lo, a.v⟩ :: rest else rest)

theorem pushSeg_cons (worse : α → α → Bool) (x : Seg α) (stk : List (Seg α)) (b : Seg α) :
    pushSeg worse (x :: stk) b =
      (match popWhile worse b (x :: stk) with
       | .ok (a :: rest) => .ok (pushTail worse a rest b)
       | .ok [] => .error .index
       | .error e => .error e) := by
  unfold pushSeg
  cases popWhile worse b (x :: stk) with
  | error e => rfl
  | ok stk' =>
      cases stk' with
      | nil => rfl
      | cons a rest =>
          simp only [ok_bind, pushTail]
          cases (!intersects a.lo a.hi b.lo b.hi) <;> cases (!worse a.v b.v) <;> simp

theorem mkSeg_tm (x y : Tm) (v : α) : mkSeg (.tm x) (.tm y) (.val v : DV α) = .ok (.seg x y v) := by
  simp [mkSeg, toTm, toVal]

theorem tailStmt_ok {opW opK : BinOp} {ninit : E} {neg : Bool} {worse : α → α → Bool} {neutral : α}
    (hp : Par α opW opK ninit neg worse neutral) {call : Call α} (hc : CallOK call) (fuel : Nat) {env : Env α}
    {top sb : Seg α} {rest : List (Seg α)}
    (hout : env.lookup "out" = some (.list (pyStk (top :: rest)))) (ha : env.lookup "a" = some (encSeg top))
    (hb : env.lookup "b" = some (encSeg sb)) (hlen : env.lookup "len" = none)
    (hint : env.lookup "intersects" = none) :
    ∃ env', exec call fuel (tailStmt opK) env = .ok (env', .none) ∧
      env'.lookup "out" = some (.list (pyStk (pushTail worse top rest sb))) ∧ Frame ["out", "a"] env env' := by
  have ga := getLoc_of_lookup ha
  have gb := getLoc_of_lookup hb
  have hcond : evalE call env (.not (.call4 "intersects" (.idx (.loc "a") (.int 0)) (.idx (.loc "a") (.int 1))
      (.idx (.loc "b") (.int 0)) (.idx (.loc "b") (.int 1)))) = .ok (.bool (!intersects top.lo top.hi sb.lo sb.hi)) := by
    simp [evalE, ga, gb, encSeg, resolve_of_lookup hint, hc.ints, truthy]
  unfold tailStmt
  rw [exec_ite hcond rfl]
  cases hi : intersects top.lo top.hi sb.lo sb.hi with
  | false =>
      simp only [Bool.not_false, if_true]
      rw [exec_appendLoc (v := encSeg sb) (by simp [evalE, gb]) hout]
      refine ⟨_, rfl, ?_, Frame.set (Frame.refl _ _) _ _ (by simp)⟩
      simp [pushTail, hi, pyStk_cons]
  | true =>
      simp only [Bool.not_true, Bool.false_eq_true, if_false]
      have hcond2 : evalE call env (.bin opK (.idx (.loc "a") (.int 2)) (.idx (.loc "b") (.int 2)))
          = .ok (.bool (!worse top.v sb.v)) := by
        simp [evalE, ga, gb, encSeg, hp.hK]
      rw [exec_ite hcond2 rfl]
      cases hw : worse top.v sb.v with
      | false =>
          simp only [Bool.not_false, if_true]
          rw [exec_appendLoc (v := .seg top.hi sb.hi sb.v) (by simp [evalE, ga, gb, encSeg, mkSeg_tm]) hout]
          refine ⟨_, rfl, ?_, Frame.set (Frame.refl _ _) _ _ (by simp)⟩
          simp [pushTail, hi, hw, pyStk_cons, encSeg]
      | true =>
          simp only [Bool.not_true, Bool.false_eq_true, if_false]
          have h1 : exec call fuel (.delIdx "out" lenOutM1) env = .ok (setLoc "out" (.list (pyStk rest)) env, .none) := by
            rw [pyStk_cons] at hout
            simp only [exec, getLoc_of_lookup hout, eval_lenOutM1 hc hout hlen, ok_bind, delAt_last, pure_eq_ok]
          unfold splitStmt
          rw [exec_seq_ok h1]
          have hcond3 : evalE call (setLoc "out" (.list (pyStk rest)) env)
              (.bin .gt (.idx (.loc "b") (.int 0)) (.idx (.loc "a") (.int 0))) = .ok (.bool (Tm.lt top.lo sb.lo)) := by
            simp [evalE, ga, gb, encSeg, cmpGtTm]
          cases hl : Tm.lt top.lo sb.lo with
          | false =>
              have h2 : exec call fuel (.ite (.bin .gt (.idx (.loc "b") (.int 0)) (.idx (.loc "a") (.int 0)))
                  (.appendLoc "out" (.tup3 (.idx (.loc "a") (.int 0)) (.idx (.loc "b") (.int 0)) (.idx (.loc "a") (.int 2))))
                  .skip) (setLoc "out" (.list (pyStk rest)) env) = .ok (setLoc "out" (.list (pyStk rest)) env, .none) := by
                rw [exec_ite hcond3 rfl, hl]; simp [exec]
              rw [exec_seq_ok h2]
              rw [exec_appendLoc (v := .seg sb.lo sb.hi sb.v) (l := pyStk rest)
                (by simp [evalE, gb, encSeg, mkSeg_tm]) (by simp)]
              refine ⟨_, rfl, ?_, Frame.set (Frame.set (Frame.refl _ _) _ _ (by simp)) _ _ (by simp)⟩
              simp [pushTail, hi, hw, hl, pyStk_cons, encSeg]
          | true =>
              have h2 : exec call fuel (.ite (.bin .gt (.idx (.loc "b") (.int 0)) (.idx (.loc "a") (.int 0)))
                  (.appendLoc "out" (.tup3 (.idx (.loc "a") (.int 0)) (.idx (.loc "b") (.int 0)) (.idx (.loc "a") (.int 2))))
                  .skip) (setLoc "out" (.list (pyStk rest)) env)
                  = .ok (setLoc "out" (.list (pyStk rest ++ [.seg top.lo sb.lo top.v])) (setLoc "out" (.list (pyStk rest)) env), .none) := by
                rw [exec_ite hcond3 rfl, hl]
                simp only [if_true]
                exact exec_appendLoc (by simp [evalE, ga, gb, encSeg, mkSeg_tm]) (by simp)
              rw [exec_seq_ok h2]
              rw [exec_appendLoc (v := .seg sb.lo sb.hi sb.v) (l := pyStk rest ++ [.seg top.lo sb.lo top.v])
                (by simp [evalE, gb, encSeg, mkSeg_tm]) (by simp)]
              refine ⟨_, rfl, ?_, Frame.set (Frame.set (Frame.set (Frame.refl _ _) _ _ (by simp)) _ _ (by simp)) _ _ (by simp)⟩
              simp [pushTail, hi, hw, hl, pyStk_cons, encSeg]

/-! ### pushing one segment -/

theorem pushStmt_spec {opW opK : BinOp} {ninit : E} {neg : Bool} {worse : α → α → Bool} {neutral : α}
    (hp : Par α opW opK ninit neg worse neutral) {call : Call α} (hc : CallOK call) (fuel : Nat) {env : Env α}
    {stk : List (Seg α)} {sb : Seg α} (hf : stk.length + 1 ≤ fuel)
    (hout : env.lookup "out" = some (.list (pyStk stk))) (hb : env.lookup "b" = some (encSeg sb))
    (hlen : env.lookup "len" = none) (hint : env.lookup "intersects" = none) :
    match pushSeg worse stk sb with
    | .ok stk' => ∃ env', exec call fuel (pushStmt opW opK) env = .ok (env', .none) ∧
        env'.lookup "out" = some (.list (pyStk stk')) ∧ Frame ["out", "a"] env env'
    | .error e => exec call fuel (pushStmt opW opK) env = .error e := by
  cases stk with
  | nil =>
      have hcond : evalE call env (.not (.loc "out")) = .ok (.bool true) := by
        simp [evalE, getLoc_of_lookup hout, truthy]
      have hps : pushSeg worse [] sb = .ok [sb] := rfl
      rw [hps]
      simp only
      unfold pushStmt
      rw [exec_ite hcond rfl]
      simp only [if_true]
      rw [exec_appendLoc (v := encSeg sb) (by simp [evalE, getLoc_of_lookup hb]) hout]
      exact ⟨_, rfl, by simp [pyStk_cons], Frame.set (Frame.refl _ _) _ _ (by simp)⟩
  | cons x rest =>
      have hout' := hout
      rw [pyStk_cons] at hout'
      have hcond : evalE call env (.not (.loc "out")) = .ok (.bool false) := by
        simp [evalE, getLoc_of_lookup hout', truthy]
      unfold pushStmt
      rw [exec_ite hcond rfl]
      simp only [Bool.false_eq_true, if_false]
      have h1 : exec call fuel (.setLoc "a" (.idx (.loc "out") lenOutM1)) env = .ok (setLoc "a" (encSeg x) env, .none) := by
        apply exec_setLoc
        simp only [evalE, getLoc_of_lookup hout', eval_lenOutM1 hc hout' hlen, ok_bind, evalIdx_last]
      rw [exec_seq_ok h1, pushSeg_cons]
      have hl := innerLoop hp hc fuel sb rest x fuel (setLoc "a" (encSeg x) env) (by simp at hf ⊢; omega)
        (by simp [hout]) (by simp) (by simp [hb]) (by simp [hlen])
      revert hl
      cases popWhile worse sb (x :: rest) with
      | error e =>
          intro hl
          simp only
          exact exec_seq_err (by rw [exec_while]; exact hl)
      | ok stk' =>
          rintro ⟨env1, top, rest', h1, rfl, h3, h4, h5⟩
          simp only
          rw [exec_seq_ok (by rw [exec_while]; exact h1)]
          have hF : Frame ["out", "a"] env env1 := Frame.trans (Frame.set (Frame.refl _ _) _ _ (by simp)) h5
          obtain ⟨env2, e1, e2, e3⟩ := tailStmt_ok hp hc fuel h3 h4 (by rw [hF "b" (by simp)]; exact hb)
            (by rw [hF "len" (by simp)]; exact hlen) (by rw [hF "intersects" (by simp)]; exact hint)
          exact ⟨env2, e1, e2, Frame.trans hF e3⟩

theorem popWhile_length (worse : α → α → Bool) (b : Seg α) : ∀ (stk stk' : List (Seg α)),
    popWhile worse b stk = .ok stk' → stk'.length ≤ stk.length
  | [], stk', h => by simp [popWhile] at h
  | x :: stk, stk', h => by
      rw [popWhile] at h
      split at h
      · have := popWhile_length worse b stk stk' h; simp; omega
      · cases h; simp

theorem pushSeg_length (worse : α → α → Bool) (b : Seg α) (stk stk' : List (Seg α))
    (h : pushSeg worse stk b = .ok stk') : stk'.length ≤ stk.length + 1 := by
  cases stk with
  | nil => cases h; simp
  | cons x stk =>
      rw [pushSeg_cons] at h
      cases hpw : popWhile worse b (x :: stk) with
      | error e => rw [hpw] at h; cases h
      | ok s2 =>
          rw [hpw] at h
          have hl := popWhile_length worse b _ _ hpw
          cases s2 with
          | nil => cases h
          | cons top rest =>
              simp only at h
              cases h
              simp only [List.length_cons] at hl ⊢
              unfold pushTail
              split
              · simp; omega
              · split
                · simp; omega
                · split <;> (simp; omega)

/-! ### one iteration of the outer loop -/

/-- the attributes `begin` / `end`: any value that reads as a finite time stamp (a time stamp, or - `SinceTimedOperation`
    builds `HistoricallyTimedOperation(0, self.begin)` - an integer literal) -/
def FinOK (x : DV α) (a : Rat) : Prop := toTm x = .ok (.fin a)

theorem FinOK.tm (a : Rat) : FinOK (.tm (.fin a) : DV α) a := rfl
theorem FinOK.int (n : Int) : FinOK (.int n : DV α) (n : Rat) := rfl

theorem FinOK.cases {x : DV α} {a : Rat} (h : FinOK x a) : x = .tm (.fin a) ∨ ∃ n : Int, x = .int n ∧ (n : Rat) = a := by
  unfold FinOK at h
  cases x with
  | tm t => simp [toTm] at h; subst h; exact .inl rfl
  | int n => simp [toTm] at h; exact .inr ⟨n, rfl, h⟩
  | uinf s => cases s <;> simp [toTm] at h
  | _ => simp [toTm] at h

theorem FinOK.gt {x : DV α} {a : Rat} (h : FinOK x a) : evalBin .gt x (.int 0 : DV α) = .ok (.bool (decide (0 < a))) := by
  rcases h.cases with rfl | ⟨n, rfl, rfl⟩
  · simp [evalBin, isCmp, cmpDV, isTimeLike, toXT, toTm, cmpXT, XT.lt, Tm.lt]
  · simp [evalBin, isCmp, cmpDV, cmpInt, Rat.intCast_pos]

theorem FinOK.add {x : DV α} {a : Rat} (h : FinOK x a) (t : Tm) :
    evalBin .add (.tm t : DV α) x = .ok (.tm (t.add a)) := by
  rcases h.cases with rfl | ⟨n, rfl, rfl⟩
  · simp [evalBin, isCmp, arith, isTimeLike, toTm]
  · simp [evalBin, isCmp, arith, isTimeLike, toTm]

/-- the locals the loops do not touch -/
structure Inv (env : Env α) (s : ASig α) (a b : Rat) (started : Bool) : Prop where
  hin : env.lookup "sample" = some (encSig s)
  hbeg : ∃ xb, env.lookup "begin" = some xb ∧ FinOK xb a
  hend : ∃ xe, env.lookup "end" = some xe ∧ FinOK xe b
  hst : env.lookup "self.started" = some (.bool started)
  hlen : env.lookup "len" = none
  hint : env.lookup "intersects" = none

theorem Inv.frame {xs : List String} {env env' : Env α} {s : ASig α} {a b : Rat} {started : Bool} (h : Inv env s a b started)
    (hF : Frame xs env env') (h1 : "sample" ∉ xs) (h2 : "begin" ∉ xs) (h3 : "end" ∉ xs) (h4 : "self.started" ∉ xs)
    (h5 : "len" ∉ xs) (h6 : "intersects" ∉ xs) : Inv env' s a b started where
  hin := by rw [hF _ h1]; exact h.hin
  hbeg := by
    obtain ⟨xb, e1, e2⟩ := h.hbeg
    exact ⟨xb, by rw [hF _ h2]; exact e1, e2⟩
  hend := by
    obtain ⟨xe, e1, e2⟩ := h.hend
    exact ⟨xe, by rw [hF _ h3]; exact e1, e2⟩
  hst := by rw [hF _ h4]; exact h.hst
  hlen := by rw [hF _ h5]; exact h.hlen
  hint := by rw [hF _ h6]; exact h.hint

theorem Inv.frame4 {env env' : Env α} {s : ASig α} {a b : Rat} {started : Bool} (h : Inv env s a b started)
    (hF : Frame ["out", "a", "b", "i"] env env') : Inv env' s a b started :=
  h.frame hF (by simp) (by simp) (by simp) (by simp) (by simp) (by simp)

/-- the segment `b` of iteration `i = j + 1`, where `p = sample[j]` -/
def segAt (a b : Rat) (s : ASig α) (j : Nat) (p : Tm × α) : Seg α :=
  ⟨p.1.add a, (match s[j + 1]? with | some q => q.1.add b | none => p.1.add b), p.2⟩

/-- the stack after `if i == 1 and sample[0][0] == 0 and begin > 0 and not self.started: out.append(…)` -/
def withInit (neutral : α) (a : Rat) (started : Bool) (s : ASig α) (j : Nat) (stk : List (Seg α)) : List (Seg α) :=
  match j, s with
  | 0, (t0, _) :: _ =>
      if t0 == Tm.zero && decide (0 < a) && !started then ⟨Tm.zero, t0.add a, neutral⟩ :: stk else stk
  | _, _ => stk

theorem eqTm0 (t : Tm) : evalBin .eq (.tm t : DV α) (.int 0) = .ok (.bool (t == Tm.zero)) := by
  simp [evalBin, isCmp, cmpDV, isTimeLike, toXT, toTm, cmpXT, xt_beq, Tm.zero]

theorem eqInt (n m : Int) : evalBin .eq (.int n : DV α) (.int m) = .ok (.bool (decide (n = m))) := by
  simp [evalBin, isCmp, cmpDV, cmpInt]

theorem initStmt_spec {opW opK : BinOp} {ninit : E} {neg : Bool} {worse : α → α → Bool} {neutral : α}
    (hp : Par α opW opK ninit neg worse neutral) (call : Call α) (fuel : Nat) {env : Env α} {s : ASig α} {a b : Rat}
    {started : Bool} {j : Nat} {p : Tm × α} {stk : List (Seg α)} (hj : s[j]? = some p) (hI : Inv env s a b started)
    (hi : env.lookup "i" = some (.int ((j : Int) + 1))) (hout : env.lookup "out" = some (.list (pyStk stk))) :
    ∃ env', exec call fuel (initStmt ninit) env = .ok (env', .none) ∧
      env'.lookup "out" = some (.list (pyStk (withInit neutral a started s j stk))) ∧ Frame ["out"] env env' := by
  have gi := getLoc_of_lookup hi
  obtain ⟨xb, hbeg, hxb⟩ := hI.hbeg
  have gbeg := getLoc_of_lookup hbeg
  have gin := getLoc_of_lookup hI.hin
  have gst := getLoc_of_lookup hI.hst
  cases j with
  | succ j =>
      have hne : ¬ ((j : Int) + 1 + 1 = 1) := by omega
      have hcond : evalE call env initCond = .ok (.bool false) := by
        simp [initCond, evalE, gi, eqInt, hne, truthy]
      unfold initStmt
      rw [exec_ite hcond rfl]
      exact ⟨env, by simp [exec], by simpa [withInit] using hout, Frame.refl _ _⟩
  | zero =>
      obtain ⟨⟨t0, v0⟩, rest, rfl⟩ : ∃ q rest, s = q :: rest := by
        cases s with
        | nil => simp at hj
        | cons q rest => exact ⟨q, rest, rfl⟩
      have hcond : evalE call env initCond = .ok (.bool (t0 == Tm.zero && decide (0 < a) && !started)) := by
        cases h1 : (t0 == Tm.zero) <;> cases h2 : decide (0 < a) <;> cases started <;>
          simp [initCond, evalE, gi, gin, gbeg, gst, encSig, encSmp, evalIdx, pyIndex, eqInt, eqTm0, hxb.gt, truthy, h1, h2]
      unfold initStmt
      rw [exec_ite hcond rfl]
      cases hc : (t0 == Tm.zero && decide (0 < a) && !started) with
      | true =>
          simp only [if_true]
          rw [exec_appendLoc (v := .seg Tm.zero (t0.add a) neutral)
            (by simp [evalE, gin, gbeg, encSig, encSmp, evalIdx, pyIndex, hxb.add, hp.hN, mkSeg, toTm, hp.hV, Tm.zero]) hout]
          exact ⟨_, rfl, by simp [withInit, hc, pyStk_cons, encSeg], Frame.set (Frame.refl _ _) _ _ (by simp)⟩
      | false =>
          simp only [Bool.false_eq_true, if_false]
          exact ⟨env, by simp [exec], by simpa [withInit, hc] using hout, Frame.refl _ _⟩

theorem bStmt_ok {call : Call α} (hc : CallOK call) (fuel : Nat) {env : Env α} {s : ASig α} {a b : Rat} {started : Bool}
    {j : Nat} {p : Tm × α} (hj : s[j]? = some p) (hI : Inv env s a b started)
    (hi : env.lookup "i" = some (.int ((j : Int) + 1))) :
    exec call fuel bStmt env = .ok (setLoc "b" (encSeg (segAt a b s j p)) env, .none) := by
  have gi := getLoc_of_lookup hi
  obtain ⟨xb, hbeg, hxb⟩ := hI.hbeg
  obtain ⟨xe, hend, hxe⟩ := hI.hend
  have gbeg := getLoc_of_lookup hbeg
  have gend := getLoc_of_lookup hend
  have gin := getLoc_of_lookup hI.hin
  have rl := resolve_of_lookup hI.hlen
  have hjl : j < s.length := by
    rcases Nat.lt_or_ge j s.length with h' | h'
    · exact h'
    · rw [List.getElem?_eq_none h'] at hj; cases hj
  have hsub : evalBin .sub (.int ((j : Int) + 1) : DV α) (.int 1) = .ok (.int (j : Int)) := by
    simp [evalBin, isCmp, arith]
  cases hq : s[j + 1]? with
  | none =>
      have heq : ((j : Int) + 1 = (s.length : Int)) := by
        have := List.getElem?_eq_none_iff.mp hq; omega
      have hcond : evalE call env (.bin .eq (.loc "i") (.call1 "len" (.loc "sample"))) = .ok (.bool true) := by
        simp [evalE, gi, gin, rl, encSig, hc.len, eqInt, heq]
      unfold bStmt
      rw [exec_ite hcond rfl]
      simp only [if_true]
      apply exec_setLoc
      simp [evalE, gi, gin, gbeg, gend, hsub, encSig, evalIdx_list_nat', hj, hq, encSmp, hxb.add, hxe.add, mkSeg_tm,
        segAt, encSeg]
  | some q =>
      have hne : ¬ ((j : Int) + 1 = (s.length : Int)) := by
        have : j + 1 < s.length := by
          rcases Nat.lt_or_ge (j + 1) s.length with h' | h'
          · exact h'
          · rw [List.getElem?_eq_none h'] at hq; cases hq
        omega
      have hcond : evalE call env (.bin .eq (.loc "i") (.call1 "len" (.loc "sample"))) = .ok (.bool false) := by
        simp [evalE, gi, gin, rl, encSig, hc.len, eqInt, hne]
      unfold bStmt
      rw [exec_ite hcond rfl]
      simp only [Bool.false_eq_true, if_false]
      apply exec_setLoc
      simp [evalE, gi, gin, gbeg, gend, hsub, encSig, evalIdx_list_nat', evalIdx_list_succ, hj, hq, encSmp, hxb.add, hxe.add,
        mkSeg_tm, segAt, encSeg]

theorem outerBody_spec {opW opK : BinOp} {ninit : E} {neg : Bool} {worse : α → α → Bool} {neutral : α}
    (hp : Par α opW opK ninit neg worse neutral) {call : Call α} (hc : CallOK call) (fuel : Nat) {env : Env α}
    {s : ASig α} {a b : Rat} {started : Bool} {j : Nat} {p : Tm × α} {stk : List (Seg α)} (hj : s[j]? = some p)
    (hI : Inv env s a b started)
    (hi : env.lookup "i" = some (.int ((j : Int) + 1))) (hout : env.lookup "out" = some (.list (pyStk stk)))
    (hf : (withInit neutral a started s j stk).length + 1 ≤ fuel) :
    match pushSeg worse (withInit neutral a started s j stk) (segAt a b s j p) with
    | .ok stk' => ∃ env', exec call fuel (outerBody opW opK ninit) env = .ok (env', .none) ∧ Inv env' s a b started ∧
        env'.lookup "i" = some (.int (((j + 1 : Nat) : Int) + 1)) ∧ env'.lookup "out" = some (.list (pyStk stk')) ∧
        Frame ["out", "a", "b", "i"] env env'
    | .error e => exec call fuel (outerBody opW opK ninit) env = .error e := by
  obtain ⟨env1, h1, hout1, hF1⟩ := initStmt_spec hp call fuel hj hI hi hout
  have hF1' : Frame ["out", "a", "b", "i"] env env1 := hF1.mono (by simp)
  have hI1 : Inv env1 s a b started := hI.frame4 hF1'
  have hi1 : env1.lookup "i" = some (.int ((j : Int) + 1)) := by rw [hF1 _ (by simp)]; exact hi
  have h2 := bStmt_ok hc fuel hj hI1 hi1
  have hF2 : Frame ["out", "a", "b", "i"] env (setLoc "b" (encSeg (segAt a b s j p)) env1) :=
    Frame.set hF1' _ _ (by simp)
  have hI2 := hI.frame4 hF2
  have h3 := pushStmt_spec (opW := opW) hp hc fuel (env := setLoc "b" (encSeg (segAt a b s j p)) env1)
    (sb := segAt a b s j p) hf (by simp [hout1]) (by simp) hI2.hlen hI2.hint
  unfold outerBody
  rw [exec_seq_ok h1, exec_seq_ok h2]
  revert h3
  cases pushSeg worse (withInit neutral a started s j stk) (segAt a b s j p) with
  | error e => exact fun h3 => exec_seq_err h3
  | ok stk' =>
      rintro ⟨env3, h3, hout3, hF3⟩
      simp only
      rw [exec_seq_ok h3]
      have hF3' : Frame ["out", "a", "b", "i"] env env3 := Frame.trans hF2 (hF3.mono (by simp))
      have hi3 : env3.lookup "i" = some (.int ((j : Int) + 1)) := by rw [hF3 _ (by simp)]; simp [hi1]
      have h4 : exec call fuel incStmt env3 = .ok (setLoc "i" (.int (((j + 1 : Nat) : Int) + 1)) env3, .none) := by
        apply exec_setLoc
        simp [evalE, getLoc_of_lookup hi3, evalBin, isCmp, arith]
      refine ⟨_, h4, hI.frame4 (Frame.set hF3' _ _ (by simp)), by simp, by simp [hout3], Frame.set hF3' _ _ (by simp)⟩

/-! ### the outer loop -/

theorem onSegs_get (a b : Rat) : ∀ (s : ASig α) (j : Nat) (p : Tm × α), s[j]? = some p →
    (onSegs a b s)[j]? = some (segAt a b s j p)
  | [], j, p, h => by simp at h
  | [(t, v)], j, p, h => by
      cases j with
      | zero => simp at h; subst h; simp [onSegs, segAt]
      | succ j => simp at h
  | (t, v) :: (t', v') :: rest, 0, p, h => by simp at h; subst h; simp [onSegs, segAt]
  | (t, v) :: (t', v') :: rest, j + 1, p, h => by
      have h' : ((t', v') :: rest)[j]? = some p := by simpa using h
      have := onSegs_get a b ((t', v') :: rest) j p h'
      simpa [onSegs, segAt] using this

theorem drop_of_get {β : Type} (l : List β) (j : Nat) (x : β) (h : l[j]? = some x) :
    l.drop j = x :: l.drop (j + 1) := by
  obtain ⟨hj, rfl⟩ := List.getElem?_eq_some_iff.mp h
  exact List.drop_eq_getElem_cons hj

theorem onSegs_length (a b : Rat) : ∀ (s : ASig α), (onSegs a b s).length = s.length
  | [] => rfl
  | [(t, v)] => rfl
  | (t, v) :: (t', v') :: rest => by
      have := onSegs_length a b ((t', v') :: rest)
      simp [onSegs, this]

theorem withInit_none (neutral : α) (a : Rat) (started : Bool) (s : ASig α) (j : Nat) (stk : List (Seg α))
    (h : s[j]? = none) : withInit neutral a started s j stk = stk := by
  cases j with
  | zero =>
      cases s with
      | nil => rfl
      | cons q rest => simp at h
  | succ j => rfl

theorem withInit_length (neutral : α) (a : Rat) (started : Bool) (s : ASig α) (j : Nat) (stk : List (Seg α)) :
    (withInit neutral a started s j stk).length ≤ stk.length + 1 := by
  unfold withInit
  split
  · split <;> simp
  · simp

theorem withInit_succ (neutral : α) (a : Rat) (started : Bool) (s : ASig α) (j : Nat) (stk : List (Seg α)) :
    withInit neutral a started s (j + 1) stk = stk := rfl

theorem outerCond_eval {call : Call α} (hc : CallOK call) {env : Env α} {s : ASig α} {a b : Rat} {started : Bool} {j : Nat}
    (hI : Inv env s a b started) (hi : env.lookup "i" = some (.int ((j : Int) + 1))) :
    (do truthy (← evalE call env outerCond)) = .ok (decide (j + 1 ≤ s.length)) := by
  have e : ((j : Int) + 1 ≤ (s.length : Int)) ↔ (j + 1 ≤ s.length) := by omega
  simp [outerCond, evalE, getLoc_of_lookup hi, getLoc_of_lookup hI.hin, resolve_of_lookup hI.hlen, encSig, hc.len, evalBin,
    isCmp, cmpDV, cmpInt, truthy, e]

theorem outerLoop {opW opK : BinOp} {ninit : E} {neg : Bool} {worse : α → α → Bool} {neutral : α}
    (hp : Par α opW opK ninit neg worse neutral) {call : Call α} (hc : CallOK call) (fuel : Nat)
    {s : ASig α} {a b : Rat} {started : Bool} (n0 : Nat) (hfuel : n0 + s.length + 1 ≤ fuel) :
    ∀ (m j : Nat) (stk : List (Seg α)) (env : Env α) (f : Nat), j + m = s.length → m + 1 ≤ f →
      (withInit neutral a started s j stk).length ≤ n0 + j + 1 → Inv env s a b started →
      env.lookup "i" = some (.int ((j : Int) + 1)) → env.lookup "out" = some (.list (pyStk stk)) →
      match ((onSegs a b s).drop j).foldlM (pushSeg worse) (withInit neutral a started s j stk) with
      | .ok stk' => ∃ env',
          whileLoop (fun env => do truthy (← evalE call env outerCond)) (exec call fuel (outerBody opW opK ninit)) f env
            = .ok (env', .none) ∧ Inv env' s a b started ∧ env'.lookup "out" = some (.list (pyStk stk')) ∧
          Frame ["out", "a", "b", "i"] env env'
      | .error e =>
          whileLoop (fun env => do truthy (← evalE call env outerCond)) (exec call fuel (outerBody opW opK ninit)) f env
            = .error e := by
  intro m
  induction m with
  | zero =>
      intro j stk env f hjm hf hlen hI hi hout
      obtain ⟨f, rfl⟩ : ∃ f', f = f' + 1 := ⟨f - 1, by omega⟩
      have hnone : s[j]? = none := List.getElem?_eq_none (by omega)
      have hd : (onSegs a b s).drop j = [] := List.drop_eq_nil_of_le (by rw [onSegs_length]; omega)
      rw [hd, withInit_none _ _ _ _ _ _ hnone]
      have hcond := outerCond_eval hc hI hi
      have hdec : decide (j + 1 ≤ s.length) = false := by simp; omega
      rw [hdec] at hcond
      exact ⟨env, whileLoop_done _ _ _ _ hcond, hI, hout, Frame.refl _ _⟩
  | succ m ih =>
      intro j stk env f hjm hf hlen hI hi hout
      obtain ⟨f, rfl⟩ : ∃ f', f = f' + 1 := ⟨f - 1, by omega⟩
      have hjl : j < s.length := by omega
      have hj : s[j]? = some s[j] := by simp [hjl]
      have hcond := outerCond_eval hc hI hi
      have hdec : decide (j + 1 ≤ s.length) = true := by simp; omega
      rw [hdec] at hcond
      rw [drop_of_get _ _ _ (onSegs_get a b s j _ hj), List.foldlM_cons]
      have hb := outerBody_spec (opW := opW) (opK := opK) hp hc fuel hj hI hi hout (by omega)
      revert hb
      cases hps : pushSeg worse (withInit neutral a started s j stk) (segAt a b s j s[j]) with
      | error e =>
          intro hb
          exact whileLoop_raise _ _ _ _ _ hcond hb
      | ok stk' =>
          rintro ⟨env1, hb, hI1, hi1, hout1, hF1⟩
          rw [whileLoop_step _ _ _ _ _ hcond hb]
          have hl := pushSeg_length worse _ _ _ hps
          have := ih (j + 1) stk' env1 f (by omega) (by omega) (by rw [withInit_succ]; omega) hI1 hi1 hout1
          revert this
          simp only [ok_bind, withInit_succ]
          cases (List.drop (j + 1) (onSegs a b s)).foldlM (pushSeg worse) stk' with
          | error e => exact fun h => h
          | ok stk2 =>
              rintro ⟨env2, e1, e2, e3, e4⟩
              exact ⟨env2, e1, e2, e3, Frame.trans hF1 e4⟩

/-! ### the output loop -/

def encPrev : Option α → DV α
  | none => .nan
  | some x => .val x

def keepB (prev : Option α) (v : α) (last : Bool) : Bool :=
  (match prev with | none => true | some x => vne v x) || last

/-- one iteration of the output loop, for `self.residual_start = r` -/
def emitStep (r : Tm) (g : Seg α) (isLast : Bool) (prev : Option α) (res : ASig α) (last : Option (Tm × α))
    (keep : List (Seg α)) : ASig α × Option (Tm × α) × List (Seg α) :=
  let res1 := if keepB prev g.v isLast then res ++ [(g.lo, g.v)] else res
  if Tm.le g.hi r then (res1, some (g.lo, g.v), keep)
  else if Tm.le g.lo r && Tm.lt r g.hi then
    (res1, (if Tm.lt g.lo r then some (r, g.v) else some (g.lo, g.v)), keep ++ [⟨r, g.hi, g.v⟩])
  else (res, last, keep ++ [g])

theorem timedEmit_cons (r : Tm) (g : Seg α) (rest : List (Seg α)) (prev : Option α) (res : ASig α)
    (last : Option (Tm × α)) (keep : List (Seg α)) :
    timedEmit (some r) (g :: rest) prev res last keep =
      timedEmit (some r) rest (some g.v) (emitStep r g rest.isEmpty prev res last keep).1
        (emitStep r g rest.isEmpty prev res last keep).2.1 (emitStep r g rest.isEmpty prev res last keep).2.2 := by
  simp only [timedEmit]
  unfold emitStep keepB
  cases h1 : Tm.le g.hi r
  · cases h2 : (Tm.le g.lo r && Tm.lt r g.hi)
    · simp
    · cases prev <;> simp
  · cases prev <;> simp

structure EmitSt (env : Env α) (L : List (DV α)) (r : Tm) (prev : Option α) (res : ASig α) (last : Option (Tm × α))
    (keep : List (Seg α)) : Prop where
  hout : env.lookup "out" = some (.list L)
  hlen : env.lookup "len" = none
  hrs : env.lookup "self.residual_start" = some (.tm r)
  hprev : env.lookup "prev" = some (encPrev prev)
  hres : env.lookup "sample_result" = some (encSig res)
  hlast : env.lookup "last" = some (encOptSmp last)
  hkeep : env.lookup "self.prev" = some (.list (keep.map encSeg))

theorem setLastB_ok {call : Call α} (fuel : Nat) {env : Env α} {g : Seg α} (hb : env.lookup "b" = some (encSeg g)) :
    exec call fuel setLastB env = .ok (setLoc "last" (.smp g.lo (.val g.v)) env, .none) := by
  apply exec_setLoc
  simp [evalE, getLoc_of_lookup hb, encSeg, mkList2, toPayload]

theorem resAppend_spec {call : Call α} (hc : CallOK call) (fuel : Nat) {env : Env α} {g : Seg α} {k n : Nat}
    {L : List (DV α)} {prev : Option α} {res : ASig α}
    (hb : env.lookup "b" = some (encSeg g)) (hi : env.lookup "i" = some (.int (k : Int)))
    (hout : env.lookup "out" = some (.list L)) (hL : L.length = n) (hlen : env.lookup "len" = none)
    (hprev : env.lookup "prev" = some (encPrev prev)) (hres : env.lookup "sample_result" = some (encSig res))
    (hlast : env.lookup "last" = some (.smp g.lo (.val g.v))) :
    ∃ env', exec call fuel resAppend env = .ok (env', .none) ∧
      env'.lookup "sample_result"
        = some (encSig (if keepB prev g.v (decide (k + 1 = n)) then res ++ [(g.lo, g.v)] else res)) ∧
      Frame ["sample_result"] env env' := by
  have gb := getLoc_of_lookup hb
  have gi := getLoc_of_lookup hi
  have gp := getLoc_of_lookup hprev
  have e : ((k : Int) = (L.length : Int) - 1) ↔ (k + 1 = n) := by omega
  have hlast' : evalE call env (.bin .eq (.loc "i") lenOutM1) = .ok (.bool (decide (k + 1 = n))) := by
    simp [evalE, gi, eval_lenOutM1 hc hout hlen, eqInt, e]
  have hcond : evalE call env keepCond = .ok (.bool (keepB prev g.v (decide (k + 1 = n)))) := by
    unfold keepCond
    cases prev with
    | none =>
        rw [evalE_or (x := .bool true) (t := true)
          (by simp [evalE, gb, gp, encSeg, encPrev, evalBin, isCmp, cmpDV]) rfl]
        simp [keepB]
    | some x =>
        rw [evalE_or (x := .bool (vne g.v x)) (t := vne g.v x)
          (by simp [evalE, gb, gp, encSeg, encPrev, evalBin, isCmp, cmpDV, isTimeLike, isValLike, toVal, cmpVal]) rfl, hlast']
        cases hv : vne g.v x <;> simp [keepB, hv]
  unfold resAppend
  rw [exec_ite hcond rfl]
  cases hk : keepB prev g.v (decide (k + 1 = n)) with
  | false =>
      simp only [Bool.false_eq_true, if_false]
      exact ⟨env, exec_skip, hres, Frame.refl _ _⟩
  | true =>
      simp only [if_true]
      rw [exec_appendLoc (v := .smp g.lo (.val g.v)) (by simp [evalE, getLoc_of_lookup hlast]) hres]
      exact ⟨_, rfl, by simp [encSig, encSmp], Frame.set (Frame.refl _ _) _ _ (by simp)⟩

theorem emitBody_step {call : Call α} (hc : CallOK call) (fuel : Nat) {env : Env α} {g : Seg α} {k n : Nat}
    {L : List (DV α)} {r : Tm} {prev : Option α} {res : ASig α} {last : Option (Tm × α)} {keep : List (Seg α)}
    (hE : EmitSt env L r prev res last keep) (hL : L.length = n)
    (hb : env.lookup "b" = some (encSeg g)) (hi : env.lookup "i" = some (.int (k : Int))) :
    ∃ env', exec call fuel emitBody env = .ok (env', .none) ∧
      EmitSt env' L r (some g.v) (emitStep r g (decide (k + 1 = n)) prev res last keep).1
        (emitStep r g (decide (k + 1 = n)) prev res last keep).2.1
        (emitStep r g (decide (k + 1 = n)) prev res last keep).2.2 ∧
      Frame ["last", "sample_result", "self.prev", "prev"] env env' := by
  have gb := getLoc_of_lookup hb
  have grs := getLoc_of_lookup hE.hrs
  -- the closing `prev = b[2]`
  have hset : ∀ env1 : Env α, env1.lookup "b" = some (encSeg g) →
      exec call fuel (.setLoc "prev" (.idx (.loc "b") (.int 2))) env1 = .ok (setLoc "prev" (.val g.v) env1, .none) := by
    intro env1 h1
    apply exec_setLoc
    simp [evalE, getLoc_of_lookup h1, encSeg]
  have hc1 : evalE call env (.bin .ge (.loc "self.residual_start") (.idx (.loc "b") (.int 1)))
      = .ok (.bool (Tm.le g.hi r)) := by
    simp [evalE, gb, grs, encSeg, cmpGeTm]
  unfold emitBody
  cases h1 : Tm.le g.hi r with
  | true =>
      -- the segment ends before the residual start: it is emitted
      have hs1 := setLastB_ok (call := call) fuel hb
      obtain ⟨env2, hs2, hres2, hF2⟩ := resAppend_spec hc fuel (env := setLoc "last" (.smp g.lo (.val g.v)) env)
        (g := g) (k := k) (n := n) (L := L) (prev := prev) (res := res) (by simp [hb]) (by simp [hi]) (by simp [hE.hout]) hL
        (by simp [hE.hlen]) (by simp [hE.hprev]) (by simp [hE.hres]) (by simp)
      have hfst : exec call fuel (.ite (.bin .ge (.loc "self.residual_start") (.idx (.loc "b") (.int 1)))
          (.seq setLastB resAppend) (.ite (.and_ (.bin .le (.idx (.loc "b") (.int 0)) (.loc "self.residual_start"))
            (.bin .lt (.loc "self.residual_start") (.idx (.loc "b") (.int 1)))) emitSplit (.appendLoc "self.prev" (.loc "b"))))
          env = .ok (env2, .none) := by
        rw [exec_ite hc1 rfl, h1]
        simp only [if_true]
        rw [exec_seq_ok hs1, hs2]
      have hF : Frame ["last", "sample_result", "self.prev", "prev"] env env2 :=
        Frame.trans (Frame.set (Frame.refl _ _) _ _ (by simp)) (hF2.mono (by simp))
      have hl2 : ∀ x, x ≠ "sample_result" → env2.lookup x = (setLoc "last" (.smp g.lo (.val g.v)) env).lookup x :=
        fun x hx => hF2 x (by simpa using hx)
      rw [exec_seq_ok hfst, hset env2 (by rw [hl2 _ (by simp)]; simp [hb])]
      refine ⟨_, rfl, ?_, Frame.set hF _ _ (by simp)⟩
      simp only [emitStep, h1, if_true]
      exact {
        hout := by simp [hl2, hE.hout]
        hlen := by simp [hl2, hE.hlen]
        hrs := by simp [hl2, hE.hrs]
        hprev := by simp [encPrev]
        hres := by simp [hres2]
        hlast := by simp [hl2, encOptSmp, encSmp]
        hkeep := by simp [hl2, hE.hkeep] }
  | false =>
      have hc2 : evalE call env (.and_ (.bin .le (.idx (.loc "b") (.int 0)) (.loc "self.residual_start"))
          (.bin .lt (.loc "self.residual_start") (.idx (.loc "b") (.int 1))))
          = .ok (.bool (Tm.le g.lo r && Tm.lt r g.hi)) := by
        cases h : Tm.le g.lo r <;> simp [evalE, gb, grs, encSeg, cmpLeTm, cmpLtTm, truthy, h]
      cases h2 : (Tm.le g.lo r && Tm.lt r g.hi) with
      | false =>
          -- the segment lies after the residual start: it is kept
          have hfst : exec call fuel (.ite (.bin .ge (.loc "self.residual_start") (.idx (.loc "b") (.int 1)))
              (.seq setLastB resAppend) (.ite (.and_ (.bin .le (.idx (.loc "b") (.int 0)) (.loc "self.residual_start"))
                (.bin .lt (.loc "self.residual_start") (.idx (.loc "b") (.int 1)))) emitSplit (.appendLoc "self.prev" (.loc "b"))))
              env = .ok (setLoc "self.prev" (.list (keep.map encSeg ++ [encSeg g])) env, .none) := by
            rw [exec_ite hc1 rfl, h1]
            simp only [Bool.false_eq_true, if_false]
            rw [exec_ite hc2 rfl, h2]
            simp only [Bool.false_eq_true, if_false]
            exact exec_appendLoc (by simp [evalE, gb]) hE.hkeep
          rw [exec_seq_ok hfst, hset _ (by simp [hb])]
          refine ⟨_, rfl, ?_, Frame.set (Frame.set (Frame.refl _ _) _ _ (by simp)) _ _ (by simp)⟩
          simp only [emitStep, h1, h2, Bool.false_eq_true, if_false]
          exact {
            hout := by simp [hE.hout]
            hlen := by simp [hE.hlen]
            hrs := by simp [hE.hrs]
            hprev := by simp [encPrev]
            hres := by simp [hE.hres]
            hlast := by simp [hE.hlast]
            hkeep := by simp }
      | true =>
          -- the segment contains the residual start: it is split
          have hs1 := setLastB_ok (call := call) fuel hb
          obtain ⟨env2, hs2, hres2, hF2⟩ := resAppend_spec hc fuel (env := setLoc "last" (.smp g.lo (.val g.v)) env)
            (g := g) (k := k) (n := n) (L := L) (prev := prev) (res := res) (by simp [hb]) (by simp [hi]) (by simp [hE.hout]) hL
            (by simp [hE.hlen]) (by simp [hE.hprev]) (by simp [hE.hres]) (by simp)
          have hl2 : ∀ x, x ≠ "sample_result" → env2.lookup x = (setLoc "last" (.smp g.lo (.val g.v)) env).lookup x :=
            fun x hx => hF2 x (by simpa using hx)
          have hb2 : env2.lookup "b" = some (encSeg g) := by rw [hl2 _ (by simp)]; simp [hb]
          have hrs2 : env2.lookup "self.residual_start" = some (.tm r) := by rw [hl2 _ (by simp)]; simp [hE.hrs]
          have gb2 := getLoc_of_lookup hb2
          have grs2 := getLoc_of_lookup hrs2
          have hc3 : evalE call env2 (.bin .gt (.loc "self.residual_start") (.idx (.loc "b") (.int 0)))
              = .ok (.bool (Tm.lt g.lo r)) := by
            simp [evalE, gb2, grs2, encSeg, cmpGtTm]
          -- `if self.residual_start > b[0]: last = [self.residual_start, b[2]]`
          obtain ⟨env3, hs3, hlast3, hF3⟩ : ∃ env3, exec call fuel (.ite (.bin .gt (.loc "self.residual_start")
              (.idx (.loc "b") (.int 0))) (.setLoc "last" (.list2 (.loc "self.residual_start") (.idx (.loc "b") (.int 2)))) .skip)
              env2 = .ok (env3, .none) ∧
              env3.lookup "last" = some (encOptSmp (if Tm.lt g.lo r then some (r, g.v) else some (g.lo, g.v))) ∧
              Frame ["last"] env2 env3 := by
            rw [exec_ite hc3 rfl]
            cases h3 : Tm.lt g.lo r with
            | true =>
                simp only [if_true]
                rw [exec_setLoc (v := .smp r (.val g.v)) (by simp [evalE, gb2, grs2, encSeg, mkList2, toPayload])]
                exact ⟨_, rfl, by simp [encOptSmp, encSmp], Frame.set (Frame.refl _ _) _ _ (by simp)⟩
            | false =>
                simp only [Bool.false_eq_true, if_false]
                exact ⟨env2, exec_skip, by rw [hl2 _ (by simp)]; simp [encOptSmp, encSmp], Frame.refl _ _⟩
          have hl3 : ∀ x, x ≠ "last" → env3.lookup x = env2.lookup x := fun x hx => hF3 x (by simpa using hx)
          have hb3 : env3.lookup "b" = some (encSeg g) := by rw [hl3 _ (by simp)]; exact hb2
          have hrs3 : env3.lookup "self.residual_start" = some (.tm r) := by rw [hl3 _ (by simp)]; exact hrs2
          have hkeep3 : env3.lookup "self.prev" = some (.list (keep.map encSeg)) := by
            rw [hl3 _ (by simp), hl2 _ (by simp)]; simp [hE.hkeep]
          have hs4 : exec call fuel (.appendLoc "self.prev" (.tup3 (.loc "self.residual_start") (.idx (.loc "b") (.int 1))
              (.idx (.loc "b") (.int 2)))) env3
              = .ok (setLoc "self.prev" (.list (keep.map encSeg ++ [.seg r g.hi g.v])) env3, .none) :=
            exec_appendLoc (by simp [evalE, getLoc_of_lookup hb3, getLoc_of_lookup hrs3, encSeg, mkSeg_tm]) hkeep3
          have hfst : exec call fuel (.ite (.bin .ge (.loc "self.residual_start") (.idx (.loc "b") (.int 1)))
              (.seq setLastB resAppend) (.ite (.and_ (.bin .le (.idx (.loc "b") (.int 0)) (.loc "self.residual_start"))
                (.bin .lt (.loc "self.residual_start") (.idx (.loc "b") (.int 1)))) emitSplit (.appendLoc "self.prev" (.loc "b"))))
              env = .ok (setLoc "self.prev" (.list (keep.map encSeg ++ [.seg r g.hi g.v])) env3, .none) := by
            rw [exec_ite hc1 rfl, h1]
            simp only [Bool.false_eq_true, if_false]
            rw [exec_ite hc2 rfl, h2]
            simp only [if_true]
            unfold emitSplit
            rw [exec_seq_ok hs1, exec_seq_ok hs2, exec_seq_ok hs3, hs4]
          have hF : Frame ["last", "sample_result", "self.prev", "prev"] env env3 :=
            Frame.trans (Frame.trans (Frame.set (Frame.refl _ _) _ _ (by simp)) (hF2.mono (by simp))) (hF3.mono (by simp))
          rw [exec_seq_ok hfst, hset _ (by simp [hb3])]
          refine ⟨_, rfl, ?_, Frame.set (Frame.set hF _ _ (by simp)) _ _ (by simp)⟩
          simp only [emitStep, h1, h2, Bool.false_eq_true, if_false, if_true]
          exact {
            hout := by simp [hl3, hl2, hE.hout]
            hlen := by simp [hl3, hl2, hE.hlen]
            hrs := by simp [hrs3]
            hprev := by simp [encPrev]
            hres := by simp [hl3, hres2]
            hlast := by simp [hlast3]
            hkeep := by simp [encSeg] }

theorem emitLoop {call : Call α} (hc : CallOK call) (fuel : Nat) (n : Nat) (L : List (DV α)) (hL : L.length = n) (r : Tm) :
    ∀ (segs : List (Seg α)) (k : Nat) (prev : Option α) (env : Env α) (res : ASig α) (last : Option (Tm × α))
      (keep : List (Seg α)), k + segs.length = n → EmitSt env L r prev res last keep →
      ∃ env' prev', forLoop (fun p env => setLoc "b" p.1 (setLoc "i" (.int p.2) env)) (exec call fuel emitBody)
          ((segs.map encSeg).zipIdx k) env = .ok (env', .none) ∧
        EmitSt env' L r prev' (timedEmit (some r) segs prev res last keep).1
          (timedEmit (some r) segs prev res last keep).2.1 (timedEmit (some r) segs prev res last keep).2.2 ∧
        Frame ["b", "i", "last", "sample_result", "self.prev", "prev"] env env' := by
  intro segs
  induction segs with
  | nil =>
      intro k prev env res last keep hk hE
      exact ⟨env, prev, rfl, by simpa [timedEmit] using hE, Frame.refl _ _⟩
  | cons g rest ih =>
      intro k prev env res last keep hk hE
      rw [List.map_cons, List.zipIdx_cons, forLoop_cons]
      have hE0 : EmitSt (setLoc "b" (encSeg g) (setLoc "i" (.int (k : Int)) env)) L r prev res last keep := {
        hout := by simp [hE.hout]
        hlen := by simp [hE.hlen]
        hrs := by simp [hE.hrs]
        hprev := by simp [hE.hprev]
        hres := by simp [hE.hres]
        hlast := by simp [hE.hlast]
        hkeep := by simp [hE.hkeep] }
      obtain ⟨env1, h1, hE1, hF1⟩ := emitBody_step hc fuel (g := g) (k := k) hE0 hL (by simp) (by simp)
      simp only [h1, ok_bind]
      have hlast : decide (k + 1 = n) = rest.isEmpty := by
        cases rest with
        | nil => simp at hk ⊢; omega
        | cons h t => simp at hk ⊢; omega
      rw [hlast] at hE1
      obtain ⟨env2, prev2, h2, hE2, hF2⟩ := ih (k + 1) (some g.v) env1 _ _ _ (by simp at hk; omega) hE1
      refine ⟨env2, prev2, h2, ?_, ?_⟩
      · rw [timedEmit_cons]; exact hE2
      · exact Frame.trans (Frame.trans (Frame.set (Frame.set (Frame.refl _ _) _ _ (by simp)) _ _ (by simp))
          (hF1.mono (by simp))) hF2

/-! ### the statements around the loops -/

/-- `self.residual_start`: a time stamp, or the initial untyped infinity (`-inf` for `neg = true`) -/
def encRS (neg : Bool) : Option Tm → DV α
  | none => .uinf neg
  | some r => .tm r

/-- `self.residual_start` after `if sample: self.residual_start = sample[-1][0]` -/
def newRS (rs : Option Tm) (s : ASig α) : Option Tm :=
  match s.getLast? with
  | some (t, _) => some t
  | none => rs

/-- the stack (top first) after the last pending segment is re-ended at the first new time stamp plus `end` -/
def reend (b : Rat) (s : ASig α) (stk : List (Seg α)) : List (Seg α) :=
  match s, stk with
  | (t0, _) :: _, lp :: rest => ⟨lp.lo, t0.add b, lp.v⟩ :: rest
  | _, _ => stk

/-- the closing `if last: …` -/
def finalRes (res : ASig α) (last : Option (Tm × α)) : ASig α :=
  match last with
  | none => res
  | some (t, v) =>
      match res.getLast? with
      | none => [(t, v)]
      | some (t', _) => if Tm.lt t' t then res ++ [(t, v)] else res

theorem evalIdx_neg1_encSig (s : ASig α) (q : Tm × α) (h : s.getLast? = some q) :
    evalIdx (encSig s) (.int (-1)) = .ok (encSmp q) := by
  rcases List.eq_nil_or_concat s with rfl | ⟨l, q', hs⟩
  · simp at h
  · rw [List.concat_eq_append] at hs
    subst hs
    simp at h
    subst h
    have : encSig (l ++ [q']) = .list (l.map encSmp ++ [encSmp q']) := by simp [encSig]
    rw [this, evalIdx_neg1]

theorem dropStmt_spec (call : Call α) (fuel : Nat) {env : Env α} {s : ASig α} {neg : Bool} {rs : Option Tm}
    (hs : env.lookup "sample" = some (encSig s)) (hrs : env.lookup "self.residual_start" = some (encRS neg rs))
    (hinf : rs = none → neg = false → ∀ t v rest, s = (t, v) :: rest → t ≠ .inf) :
    ∃ env', exec call fuel dropStmt env = .ok (env', .none) ∧
      env'.lookup "sample" = some (encSig (dropRepeat rs s)) ∧ Frame ["sample"] env env' := by
  have gs := getLoc_of_lookup hs
  have grs := getLoc_of_lookup hrs
  unfold dropStmt
  cases s with
  | nil =>
      have hcond : evalE call env (.and_ (.loc "sample") (.bin .eq (.idx (.idx (.loc "sample") (.int 0)) (.int 0))
          (.loc "self.residual_start"))) = .ok (.list []) := by
        rw [evalE_and (x := .list []) (t := false) (by simp [evalE, gs, encSig]) rfl]; rfl
      rw [exec_ite hcond (b := false) rfl]
      simp only [Bool.false_eq_true, if_false]
      refine ⟨env, exec_skip, ?_, Frame.refl _ _⟩
      rw [hs]; cases rs <;> rfl
  | cons p rest =>
      obtain ⟨t, v⟩ := p
      have hdrop : ∃ c : Bool, evalBin .eq (.tm t : DV α) (encRS neg rs) = .ok (.bool c) ∧
          dropRepeat rs ((t, v) :: rest) = if c then rest else (t, v) :: rest := by
        cases rs with
        | some r =>
            refine ⟨t == r, by simp [encRS, cmpEqTm], ?_⟩
            simp [dropRepeat]
        | none =>
            refine ⟨false, ?_, by simp [dropRepeat]⟩
            cases neg with
            | true => simp [encRS, evalBin, isCmp, cmpDV, isTimeLike, toXT, toTm, cmpXT]
            | false =>
                have hne := hinf rfl rfl t v rest rfl
                have : (XT.t t == XT.t Tm.inf) = false := by
                  rw [xt_beq, beq_eq_false_iff_ne]; exact hne
                simp [encRS, evalBin, isCmp, cmpDV, isTimeLike, toXT, toTm, cmpXT, this]
      obtain ⟨c, hc1, hc2⟩ := hdrop
      have hcond : evalE call env (.and_ (.loc "sample") (.bin .eq (.idx (.idx (.loc "sample") (.int 0)) (.int 0))
          (.loc "self.residual_start"))) = .ok (.bool c) := by
        rw [evalE_and (x := encSig ((t, v) :: rest)) (t := true) (by simp [evalE, gs]) (by simp [encSig, truthy])]
        simp [evalE, gs, grs, encSig, encSmp, evalIdx, pyIndex, hc1]
      rw [exec_ite hcond rfl, hc2]
      cases c with
      | false =>
          simp only [Bool.false_eq_true, if_false]
          exact ⟨env, exec_skip, hs, Frame.refl _ _⟩
      | true =>
          simp only [if_true]
          rw [exec_setLoc (v := encSig rest) (by simp [evalE, gs, encSig])]
          exact ⟨_, rfl, by simp, Frame.set (Frame.refl _ _) _ _ (by simp)⟩

theorem reendStmt_spec {call : Call α} (hc : CallOK call) (fuel : Nat) {env : Env α} {s : ASig α} {neg : Bool}
    {rs : Option Tm} {stk : List (Seg α)} {b : Rat} {xe : DV α}
    (hs : env.lookup "sample" = some (encSig s)) (hrs : env.lookup "self.residual_start" = some (encRS neg rs))
    (hout : env.lookup "out" = some (.list (pyStk stk))) (hend : env.lookup "end" = some xe) (hxe : FinOK xe b)
    (hlen : env.lookup "len" = none) :
    ∃ env', exec call fuel reendStmt env = .ok (env', .none) ∧
      env'.lookup "self.residual_start" = some (encRS neg (newRS rs s)) ∧
      env'.lookup "out" = some (.list (pyStk (reend b s stk))) ∧
      Frame ["self.residual_start", "last_prev", "first_now", "out"] env env' := by
  have gs := getLoc_of_lookup hs
  unfold reendStmt
  cases s with
  | nil =>
      rw [exec_ite (d := .list []) (b := false) (by simp [evalE, gs, encSig]) rfl]
      simp only [Bool.false_eq_true, if_false]
      exact ⟨env, exec_skip, by simpa [newRS] using hrs, by simpa [reend] using hout, Frame.refl _ _⟩
  | cons p0 rest =>
      obtain ⟨t0, v0⟩ := p0
      obtain ⟨q, hq⟩ : ∃ q, ((t0, v0) :: rest).getLast? = some q := by
        cases h : ((t0, v0) :: rest).getLast? with
        | none => simp at h
        | some q => exact ⟨q, rfl⟩
      rw [exec_ite (d := encSig ((t0, v0) :: rest)) (b := true) (by simp [evalE, gs]) (by simp [encSig, truthy])]
      simp only [if_true]
      have h1 : exec call fuel (.setLoc "self.residual_start" (.idx (.idx (.loc "sample") (.neg (.int 1))) (.int 0))) env
          = .ok (setLoc "self.residual_start" (.tm q.1) env, .none) := by
        apply exec_setLoc
        have e1 : evalE call env (.idx (.loc "sample") (.neg (.int 1))) = .ok (encSmp q) := by
          rw [evalE_idx (x := encSig ((t0, v0) :: rest)) (k := .int (-1)) (by simp [evalE, gs]) (by simp [evalE, evalNeg])]
          exact evalIdx_neg1_encSig _ _ hq
        rw [evalE_idx e1 (show evalE call _ (.int 0) = .ok (.int 0) from rfl)]
        simp [encSmp]
      rw [exec_seq_ok h1]
      have hnew : newRS rs ((t0, v0) :: rest) = some q.1 := by
        unfold newRS; rw [hq]
      rw [hnew]
      cases stk with
      | nil =>
          rw [exec_ite (d := .list []) (b := false) (by simp [evalE, getLoc_of_lookup hout]) rfl]
          simp only [Bool.false_eq_true, if_false]
          exact ⟨_, exec_skip, by simp [encRS], by simpa [reend] using hout,
            Frame.set (Frame.refl _ _) _ _ (by simp)⟩
      | cons lp restk =>
          have hout' : env.lookup "out" = some (.list (pyStk restk ++ [encSeg lp])) := by rw [hout, pyStk_cons]
          generalize henv1 : setLoc "self.residual_start" (.tm q.1) env = env1
          have hF1 : Frame ["self.residual_start", "last_prev", "first_now", "out"] env env1 := by
            subst henv1; exact Frame.set (Frame.refl _ _) _ _ (by simp)
          have hout1 : env1.lookup "out" = some (.list (pyStk restk ++ [encSeg lp])) := by
            subst henv1; simp [hout']
          have hlen1 : env1.lookup "len" = none := by subst henv1; simp [hlen]
          have hs1 : env1.lookup "sample" = some (encSig ((t0, v0) :: rest)) := by subst henv1; simp [hs]
          have hend1 : env1.lookup "end" = some xe := by subst henv1; simp [hend]
          have hrs1 : env1.lookup "self.residual_start" = some (.tm q.1) := by subst henv1; simp
          clear henv1
          rw [exec_ite (d := .list (pyStk restk ++ [encSeg lp])) (b := true) (by simp [evalE, getLoc_of_lookup hout1])
            (by simp [truthy])]
          simp only [if_true]
          unfold reendInner
          have h2 : exec call fuel (.setLoc "last_prev" (.idx (.loc "out") lenOutM1)) env1
              = .ok (setLoc "last_prev" (encSeg lp) env1, .none) := by
            apply exec_setLoc
            simp only [evalE, getLoc_of_lookup hout1, eval_lenOutM1 hc hout1 hlen1, ok_bind, evalIdx_last]
          have h3 : exec call fuel (.setLoc "first_now" (.idx (.loc "sample") (.int 0))) (setLoc "last_prev" (encSeg lp) env1)
              = .ok (setLoc "first_now" (.smp t0 (.val v0)) (setLoc "last_prev" (encSeg lp) env1), .none) := by
            apply exec_setLoc
            simp [evalE, getLoc_of_lookup hs1, encSig, encSmp, evalIdx, pyIndex]
          generalize henv3 : setLoc "first_now" (DV.smp t0 (.val v0)) (setLoc "last_prev" (encSeg lp) env1) = env3 at h3
          have hout3 : env3.lookup "out" = some (.list (pyStk restk ++ [encSeg lp])) := by subst henv3; simp [hout1]
          have hlen3 : env3.lookup "len" = none := by subst henv3; simp [hlen1]
          have h4 : exec call fuel (.delIdx "out" lenOutM1) env3 = .ok (setLoc "out" (.list (pyStk restk)) env3, .none) := by
            simp only [exec, getLoc_of_lookup hout3, eval_lenOutM1 hc hout3 hlen3, ok_bind, delAt_last, pure_eq_ok]
          have h5 : exec call fuel (.appendLoc "out" (.tup3 (.idx (.loc "last_prev") (.int 0))
              (.bin .add (.idx (.loc "first_now") (.int 0)) (.loc "end")) (.idx (.loc "last_prev") (.int 2))))
              (setLoc "out" (.list (pyStk restk)) env3)
              = .ok (setLoc "out" (.list (pyStk restk ++ [.seg lp.lo (t0.add b) lp.v])) (setLoc "out" (.list (pyStk restk)) env3),
                  .none) := by
            apply exec_appendLoc _ (by simp)
            subst henv3
            simp [evalE, hend1, getLoc_of_lookup, getLoc, encSeg, hxe.add, mkSeg_tm]
          rw [exec_seq_ok h2, exec_seq_ok h3, exec_seq_ok h4, h5]
          refine ⟨_, rfl, ?_, ?_, ?_⟩
          · subst henv3; simp [hrs1, encRS]
          · simp [reend, pyStk_cons, encSeg]
          · subst henv3
            exact Frame.set (Frame.set (Frame.set (Frame.set hF1 _ _ (by simp)) _ _ (by simp)) _ _ (by simp)) _ _ (by simp)

theorem midSeq_spec (call : Call α) (fuel : Nat) (ord : Bool) {env : Env α} {s : ASig α} {started : Bool}
    (hs : env.lookup "sample" = some (encSig s)) (hst : env.lookup "self.started" = some (.bool started)) :
    ∃ env', (∀ rest, exec call fuel (midSeq ord rest) env = exec call fuel rest env') ∧
      env'.lookup "last" = some (.list []) ∧ env'.lookup "prev" = some .nan ∧
      env'.lookup "self.started" = some (.bool (started || !s.isEmpty)) ∧
      Frame ["last", "prev", "self.started"] env env' := by
  -- `if sample: self.started = True`
  have hstarted : ∀ env1 : Env α, env1.lookup "sample" = some (encSig s) → env1.lookup "self.started" = some (.bool started) →
      ∃ env2, exec call fuel startedStmt env1 = .ok (env2, .none) ∧
        env2.lookup "self.started" = some (.bool (started || !s.isEmpty)) ∧ Frame ["self.started"] env1 env2 := by
    intro env1 h1 h2
    unfold startedStmt
    cases s with
    | nil =>
        rw [exec_ite (d := .list []) (b := false) (by simp [evalE, getLoc_of_lookup h1, encSig]) rfl]
        simp only [Bool.false_eq_true, if_false]
        exact ⟨env1, exec_skip, by simpa using h2, Frame.refl _ _⟩
    | cons p rest =>
        rw [exec_ite (d := encSig (p :: rest)) (b := true) (by simp [evalE, getLoc_of_lookup h1]) (by simp [encSig, truthy])]
        simp only [if_true]
        rw [exec_setLoc (v := .bool true) (by simp [evalE])]
        exact ⟨_, rfl, by simp, Frame.set (Frame.refl _ _) _ _ (by simp)⟩
  cases ord with
  | true =>
      obtain ⟨env2, e1, e2, e3⟩ := hstarted (setLoc "last" (.list []) env) (by simp [hs]) (by simp [hst])
      refine ⟨setLoc "prev" .nan env2, ?_, ?_, by simp, by simp [e2], ?_⟩
      · intro rest
        unfold midSeq
        rw [exec_seq_ok (exec_setLoc (v := .list []) (by simp [evalE])), exec_seq_ok e1,
          exec_seq_ok (exec_setLoc (v := .nan) (by simp [evalE]))]
      · rw [lookup_setLoc, if_neg (by simp), e3 _ (by simp)]; simp
      · exact Frame.set (Frame.trans (Frame.set (Frame.refl _ _) _ _ (by simp)) (e3.mono (by simp))) _ _ (by simp)
  | false =>
      obtain ⟨env2, e1, e2, e3⟩ := hstarted env hs hst
      refine ⟨setLoc "last" (.list []) (setLoc "prev" .nan env2), ?_, by simp, by simp, by simp [e2], ?_⟩
      · intro rest
        unfold midSeq
        rw [exec_seq_ok e1, exec_seq_ok (exec_setLoc (v := .nan) (by simp [evalE])),
          exec_seq_ok (exec_setLoc (v := .list []) (by simp [evalE]))]
      · exact Frame.set (Frame.set (e3.mono (by simp)) _ _ (by simp)) _ _ (by simp)

theorem finalStmt_spec (call : Call α) (fuel : Nat) {env : Env α} {res : ASig α} {last : Option (Tm × α)}
    (hres : env.lookup "sample_result" = some (encSig res)) (hlast : env.lookup "last" = some (encOptSmp last)) :
    ∃ env', exec call fuel finalStmt env = .ok (env', .none) ∧
      env'.lookup "sample_result" = some (encSig (finalRes res last)) ∧ Frame ["sample_result"] env env' := by
  have gl := getLoc_of_lookup hlast
  have gr := getLoc_of_lookup hres
  unfold finalStmt
  cases last with
  | none =>
      rw [exec_ite (d := .list []) (b := false) (by simp [evalE, gl, encOptSmp]) rfl]
      simp only [Bool.false_eq_true, if_false]
      exact ⟨env, exec_skip, by simpa [finalRes] using hres, Frame.refl _ _⟩
  | some p =>
      obtain ⟨t, v⟩ := p
      rw [exec_ite (d := .smp t (.val v)) (b := true) (by simp [evalE, gl, encOptSmp, encSmp]) rfl]
      simp only [if_true]
      rcases List.eq_nil_or_concat res with rfl | ⟨l, q, hq⟩
      · rw [exec_ite (d := .bool true) (b := true) (by simp [evalE, gr, encSig, truthy]) rfl]
        simp only [if_true]
        rw [exec_appendLoc (v := .smp t (.val v)) (l := []) (by simp [evalE, gl, encOptSmp, encSmp])
          (by simpa [encSig] using hres)]
        exact ⟨_, rfl, by simp [finalRes, encSig, encSmp], Frame.set (Frame.refl _ _) _ _ (by simp)⟩
      · rw [List.concat_eq_append] at hq
        subst hq
        have henc : encSig (l ++ [q]) = .list (l.map encSmp ++ [encSmp q]) := by simp [encSig]
        rw [henc] at hres gr
        rw [exec_ite (d := .bool false) (b := false) (by simp [evalE, gr, truthy]) rfl]
        simp only [Bool.false_eq_true, if_false]
        have hcond : evalE call env (.bin .gt (.idx (.loc "last") (.int 0))
            (.idx (.idx (.loc "sample_result") (.neg (.int 1))) (.int 0))) = .ok (.bool (Tm.lt q.1 t)) := by
          have e1 : evalE call env (.idx (.loc "sample_result") (.neg (.int 1))) = .ok (encSmp q) := by
            rw [evalE_idx (x := .list (l.map encSmp ++ [encSmp q])) (k := .int (-1)) (by simp [evalE, gr])
              (by simp [evalE, evalNeg])]
            exact evalIdx_neg1 _ _
          have e2 : evalE call env (.idx (.idx (.loc "sample_result") (.neg (.int 1))) (.int 0)) = .ok (.tm q.1) := by
            rw [evalE_idx e1 (show evalE call _ (.int 0) = .ok (.int 0) from rfl)]; simp [encSmp]
          have e3 : evalE call env (.idx (.loc "last") (.int 0)) = .ok (.tm t) := by
            simp [evalE, gl, encOptSmp, encSmp]
          rw [evalE, e3, e2]
          simp [cmpGtTm]
        rw [exec_ite hcond rfl]
        have hfin : finalRes (l ++ [q]) (some (t, v)) = if Tm.lt q.1 t then (l ++ [q]) ++ [(t, v)] else l ++ [q] := by
          simp [finalRes]
        rw [hfin]
        cases Tm.lt q.1 t with
        | false =>
            simp only [Bool.false_eq_true, if_false]
            exact ⟨env, exec_skip, by rw [hres, henc], Frame.refl _ _⟩
        | true =>
            simp only [if_true]
            rw [exec_appendLoc (v := .smp t (.val v)) (by simp [evalE, gl, encOptSmp, encSmp]) hres]
            exact ⟨_, rfl, by simp [encSig, encSmp], Frame.set (Frame.refl _ _) _ _ (by simp)⟩

/-! ### the mirror, in the shape the code has -/

theorem timedUpdateCore_eq (worse : α → α → Bool) (neutral : α) (a b : Rat) (st : TimedSt α) (s : ASig α) :
    timedUpdateCore worse neutral a b st s =
      (do let stk ← (onSegs a b s).foldlM (pushSeg worse) (withInit neutral a st.started s 0 (reend b s st.segs.reverse))
          pure ({ segs := (timedEmit (newRS st.rs s) stk.reverse none [] none []).2.2, rs := newRS st.rs s,
                  started := st.started || !s.isEmpty },
                finalRes (timedEmit (newRS st.rs s) stk.reverse none [] none []).1
                  (timedEmit (newRS st.rs s) stk.reverse none [] none []).2.1)) := by
  unfold timedUpdateCore
  cases s with
  | nil =>
      simp only [withInit, reend, List.reverse_reverse]
      rfl
  | cons p rest =>
      obtain ⟨t0, v0⟩ := p
      cases hseg : st.segs.reverse with
      | nil =>
          have : st.segs = [] := by simpa using hseg
          simp only [withInit, reend, this, List.reverse_nil]
          cases (t0 == Tm.zero && decide (0 < a) && !st.started) <;> rfl
      | cons lp restRev =>
          simp only [withInit, reend]
          cases (t0 == Tm.zero && decide (0 < a) && !st.started)
          · simp only [Bool.false_eq_true, if_false, List.reverse_reverse]; rfl
          · simp only [if_true, List.reverse_append, List.reverse_reverse, List.reverse_cons, List.reverse_nil,
              List.nil_append, List.cons_append]; rfl

theorem dropRepeat_length (rs : Option Tm) (s : ASig α) : (dropRepeat rs s).length ≤ s.length := by
  unfold dropRepeat
  split
  · split <;> simp
  · simp

theorem newRS_none {rs : Option Tm} {s : ASig α} (h : newRS rs s = none) : s = [] ∧ rs = none := by
  unfold newRS at h
  cases hs : s.getLast? with
  | none => rw [hs] at h; exact ⟨by simpa using hs, h⟩
  | some q => rw [hs] at h; cases h

/-- the names `update` assigns to -/
def MODS : List String :=
  ["sample_result", "out", "self.prev", "begin", "end", "sample", "self.residual_start", "last_prev", "first_now", "i", "a",
    "b", "self.started", "prev", "last"]

/-! ### the whole body of `update` -/

theorem upd_exec {opW opK : BinOp} {ninit : E} {neg : Bool} {worse : α → α → Bool} {neutral : α}
    (hp : Par α opW opK ninit neg worse neutral) {call : Call α} (hc : CallOK call) (fuel : Nat) (ord : Bool)
    {env0 : Env α} {st : TimedSt α} {s : ASig α} {a b : Rat} {xb xe : DV α}
    (hs : env0.lookup "sample" = some (encSig s))
    (hprev : env0.lookup "self.prev" = some (.list (st.segs.map encSeg)))
    (hrs : env0.lookup "self.residual_start" = some (encRS neg st.rs))
    (hst : env0.lookup "self.started" = some (.bool st.started))
    (hbeg : env0.lookup "self.begin" = some xb) (hxb : FinOK xb a)
    (hend : env0.lookup "self.end" = some xe) (hxe : FinOK xe b)
    (hlen : env0.lookup "len" = none) (hint : env0.lookup "intersects" = none)
    (hinv : st.rs = none → st.segs = [])
    (hinf : st.rs = none → neg = false → ∀ t v rest, s = (t, v) :: rest → t ≠ .inf)
    (hfuel : st.segs.length + s.length + 1 ≤ fuel) :
    match timedUpdate worse neutral a b st s with
    | .ok (st', out) => ∃ env', exec call fuel (updBody opW opK ninit ord) env0 = .ok (env', .ret (encSig out)) ∧
        env'.lookup "self.prev" = some (.list (st'.segs.map encSeg)) ∧
        env'.lookup "self.residual_start" = some (encRS neg st'.rs) ∧
        env'.lookup "self.started" = some (.bool st'.started) ∧
        (st'.rs = none → st'.segs = []) ∧ Frame MODS env0 env'
    | .error e => exec call fuel (updBody opW opK ninit ord) env0 = .error e := by
  unfold updBody
  rw [exec_seq_ok (exec_setLoc (v := .list []) (by simp [evalE])),
    exec_seq_ok (exec_setLoc (v := .list (st.segs.map encSeg)) (by simp [evalE, getLoc_of_lookup hprev])),
    exec_seq_ok (exec_setLoc (v := .list []) (by simp [evalE])),
    exec_seq_ok (exec_setLoc (v := xb) (by simp [evalE, getLoc_of_lookup hbeg])),
    exec_seq_ok (exec_setLoc (v := xe) (by simp [evalE, getLoc_of_lookup hend]))]
  generalize henv5 : setLoc "end" xe (setLoc "begin" xb (setLoc "self.prev" (DV.list []) (setLoc "out"
    (DV.list (st.segs.map encSeg)) (setLoc "sample_result" (DV.list []) env0)))) = env5
  have hF5 : Frame MODS env0 env5 := by
    subst henv5
    exact Frame.set (Frame.set (Frame.set (Frame.set (Frame.set (Frame.refl _ _) _ _ (by simp [MODS])) _ _ (by simp [MODS])) _ _
      (by simp [MODS])) _ _ (by simp [MODS])) _ _ (by simp [MODS])
  have hs5 : env5.lookup "sample" = some (encSig s) := by subst henv5; simp [hs]
  have hrs5 : env5.lookup "self.residual_start" = some (encRS neg st.rs) := by subst henv5; simp [hrs]
  have hout5 : env5.lookup "out" = some (.list (pyStk st.segs.reverse)) := by subst henv5; simp [pyStk]
  have hprev5 : env5.lookup "self.prev" = some (.list []) := by subst henv5; simp
  have hres5 : env5.lookup "sample_result" = some (.list []) := by subst henv5; simp
  have hbeg5 : env5.lookup "begin" = some xb := by subst henv5; simp
  have hend5 : env5.lookup "end" = some xe := by subst henv5; simp
  have hst5 : env5.lookup "self.started" = some (.bool st.started) := by subst henv5; simp [hst]
  have hlen5 : env5.lookup "len" = none := by subst henv5; simp [hlen]
  have hint5 : env5.lookup "intersects" = none := by subst henv5; simp [hint]
  clear henv5
  -- the repeated first sample
  obtain ⟨env6, h6, hs6, hF6⟩ := dropStmt_spec call fuel hs5 hrs5 hinf
  have hl6 : ∀ x, x ≠ "sample" → env6.lookup x = env5.lookup x := fun x hx => hF6 x (by simpa using hx)
  rw [exec_seq_ok h6]
  generalize hs' : dropRepeat st.rs s = s' at hs6
  have hlen' : s'.length ≤ s.length := by rw [← hs']; exact dropRepeat_length _ _
  -- the last pending segment
  obtain ⟨env7, h7, hrs7, hout7, hF7⟩ := reendStmt_spec hc fuel (b := b) (xe := xe) hs6 (by rw [hl6 _ (by simp)]; exact hrs5)
    (by rw [hl6 _ (by simp)]; exact hout5) (by rw [hl6 _ (by simp)]; exact hend5) hxe (by rw [hl6 _ (by simp)]; exact hlen5)
  have hl7 : ∀ x, x ≠ "self.residual_start" → x ≠ "last_prev" → x ≠ "first_now" → x ≠ "out" → x ≠ "sample" →
      env7.lookup x = env5.lookup x := by
    intro x h1 h2 h3 h4 h5
    rw [hF7 x (by simp [h1, h2, h3, h4]), hl6 x h5]
  rw [exec_seq_ok h7, exec_seq_ok (exec_setLoc (v := .int 1) (by simp [evalE]))]
  generalize henv8 : setLoc "i" (DV.int 1) env7 = env8
  have hl8 : ∀ x, x ≠ "i" → x ≠ "self.residual_start" → x ≠ "last_prev" → x ≠ "first_now" → x ≠ "out" → x ≠ "sample" →
      env8.lookup x = env5.lookup x := by
    intro x h0 h1 h2 h3 h4 h5
    subst henv8
    rw [lookup_setLoc, if_neg h0, hl7 x h1 h2 h3 h4 h5]
  have hs8 : env8.lookup "sample" = some (encSig s') := by
    subst henv8; rw [lookup_setLoc, if_neg (by simp), hF7 _ (by simp)]; exact hs6
  have hrs8 : env8.lookup "self.residual_start" = some (encRS neg (newRS st.rs s')) := by
    subst henv8; rw [lookup_setLoc, if_neg (by simp)]; exact hrs7
  have hout8 : env8.lookup "out" = some (.list (pyStk (reend b s' st.segs.reverse))) := by
    subst henv8; rw [lookup_setLoc, if_neg (by simp)]; exact hout7
  have hi8 : env8.lookup "i" = some (.int (((0 : Nat) : Int) + 1)) := by subst henv8; simp
  have hF8 : Frame MODS env0 env8 := by
    subst henv8
    exact Frame.set (Frame.trans (Frame.trans hF5 (hF6.mono (by simp [MODS]))) (hF7.mono (by simp [MODS]))) _ _ (by simp [MODS])
  clear henv8
  have hI8 : Inv env8 s' a b st.started := {
    hin := hs8
    hbeg := ⟨xb, by rw [hl8 _ (by simp) (by simp) (by simp) (by simp) (by simp) (by simp)]; exact hbeg5, hxb⟩
    hend := ⟨xe, by rw [hl8 _ (by simp) (by simp) (by simp) (by simp) (by simp) (by simp)]; exact hend5, hxe⟩
    hst := by rw [hl8 _ (by simp) (by simp) (by simp) (by simp) (by simp) (by simp)]; exact hst5
    hlen := by rw [hl8 _ (by simp) (by simp) (by simp) (by simp) (by simp) (by simp)]; exact hlen5
    hint := by rw [hl8 _ (by simp) (by simp) (by simp) (by simp) (by simp) (by simp)]; exact hint5 }
  -- the loop over the new samples
  have hn0 : (reend b s' st.segs.reverse).length = st.segs.length := by
    unfold reend; split <;> simp_all
  have hw : (withInit neutral a st.started s' 0 (reend b s' st.segs.reverse)).length ≤ st.segs.length + 0 + 1 := by
    have := withInit_length neutral a st.started s' 0 (reend b s' st.segs.reverse); omega
  have hloop := outerLoop (opW := opW) (opK := opK) hp hc fuel (s := s') (a := a) (b := b) (started := st.started)
    st.segs.length (by omega) s'.length 0 (reend b s' st.segs.reverse) env8 fuel (by simp) (by omega) hw hI8 hi8 hout8
  rw [List.drop_zero] at hloop
  unfold timedUpdate
  rw [hs', timedUpdateCore_eq]
  revert hloop
  cases hfold : (onSegs a b s').foldlM (pushSeg worse)
      (withInit neutral a st.started s' 0 (reend b s' st.segs.reverse)) with
  | error e =>
      intro hloop
      simp only [error_bind]
      exact exec_seq_err (by rw [exec_while]; exact hloop)
  | ok stk =>
      rintro ⟨env9, h9, hI9, hout9, hF9⟩
      simp only [ok_bind, pure_eq_ok]
      rw [exec_seq_ok (by rw [exec_while]; exact h9)]
      have hl9 : ∀ x, x ≠ "out" → x ≠ "a" → x ≠ "b" → x ≠ "i" → env9.lookup x = env8.lookup x :=
        fun x h1 h2 h3 h4 => hF9 x (by simp [h1, h2, h3, h4])
      -- `last = []`, `self.started`, `prev = nan`
      obtain ⟨env10, h10, hlast10, hprev10, hst10, hF10⟩ := midSeq_spec call fuel ord hI9.hin hI9.hst
      have hl10 : ∀ x, x ≠ "last" → x ≠ "prev" → x ≠ "self.started" → env10.lookup x = env9.lookup x :=
        fun x h1 h2 h3 => hF10 x (by simp [h1, h2, h3])
      rw [h10]
      have hout10 : env10.lookup "out" = some (.list (pyStk stk)) := by
        rw [hl10 _ (by simp) (by simp) (by simp)]; exact hout9
      have hlen10 : env10.lookup "len" = none := by
        rw [hl10 _ (by simp) (by simp) (by simp)]; exact hI9.hlen
      have hrs10 : env10.lookup "self.residual_start" = some (encRS neg (newRS st.rs s')) := by
        rw [hl10 _ (by simp) (by simp) (by simp), hl9 _ (by simp) (by simp) (by simp) (by simp)]; exact hrs8
      have hres10 : env10.lookup "sample_result" = some (.list []) := by
        rw [hl10 _ (by simp) (by simp) (by simp), hl9 _ (by simp) (by simp) (by simp) (by simp),
          hl8 _ (by simp) (by simp) (by simp) (by simp) (by simp) (by simp)]; exact hres5
      have hkeep10 : env10.lookup "self.prev" = some (.list []) := by
        rw [hl10 _ (by simp) (by simp) (by simp), hl9 _ (by simp) (by simp) (by simp) (by simp),
          hl8 _ (by simp) (by simp) (by simp) (by simp) (by simp) (by simp)]; exact hprev5
      -- the output loop
      obtain ⟨env11, h11, hres11, hlast11, hkeep11, hinv11, hF11⟩ : ∃ env11,
          exec call fuel (.forEnum "i" "b" (.loc "out") false emitBody) env10 = .ok (env11, .none) ∧
          env11.lookup "sample_result" = some (encSig (timedEmit (newRS st.rs s') stk.reverse none [] none []).1) ∧
          env11.lookup "last" = some (encOptSmp (timedEmit (newRS st.rs s') stk.reverse none [] none []).2.1) ∧
          env11.lookup "self.prev" = some (.list ((timedEmit (newRS st.rs s') stk.reverse none [] none []).2.2.map encSeg)) ∧
          (newRS st.rs s' = none → (timedEmit (newRS st.rs s') stk.reverse none [] none []).2.2 = []) ∧
          Frame ["b", "i", "last", "sample_result", "self.prev", "prev"] env10 env11 := by
        cases hnr : newRS st.rs s' with
        | none =>
            obtain ⟨hs'nil, hrsn⟩ := newRS_none hnr
            have hsegs := hinv hrsn
            have hstk : stk = [] := by
              rw [hs'nil, hsegs] at hfold
              simp [onSegs, withInit, reend] at hfold
              exact hfold
            subst hstk
            refine ⟨env10, ?_, ?_, ?_, ?_, ?_, Frame.refl _ _⟩
            · simp [exec, evalE, getLoc_of_lookup hout10]
            · simpa [timedEmit, encSig] using hres10
            · simpa [timedEmit, encOptSmp] using hlast10
            · simpa [timedEmit] using hkeep10
            · intro _; simp [timedEmit]
        | some r =>
            rw [hnr] at hrs10
            have hE10 : EmitSt env10 (pyStk stk) r none [] none [] := {
              hout := hout10
              hlen := hlen10
              hrs := hrs10
              hprev := hprev10
              hres := by simpa [encSig] using hres10
              hlast := hlast10
              hkeep := by simpa using hkeep10 }
            obtain ⟨env11, prev11, e1, e2, e3⟩ := emitLoop hc fuel (pyStk stk).length (pyStk stk) rfl r stk.reverse 0 none
              env10 [] none [] (by simp [pyStk]) hE10
            refine ⟨env11, ?_, e2.hres, e2.hlast, e2.hkeep, (fun h => by cases h), e3⟩
            have hout' : getLoc "out" env10 = .ok (.list (pyStk stk)) := getLoc_of_lookup hout10
            simp only [exec, evalE, hout', ok_bind]
            exact e1
      have hl11 : ∀ x, x ≠ "b" → x ≠ "i" → x ≠ "last" → x ≠ "sample_result" → x ≠ "self.prev" → x ≠ "prev" →
          env11.lookup x = env10.lookup x :=
        fun x h1 h2 h3 h4 h5 h6 => hF11 x (by simp [h1, h2, h3, h4, h5, h6])
      unfold endStmt
      rw [exec_seq_ok h11]
      -- the pending last sample
      obtain ⟨env12, h12, hres12, hF12⟩ := finalStmt_spec call fuel hres11 hlast11
      have hl12 : ∀ x, x ≠ "sample_result" → env12.lookup x = env11.lookup x := fun x hx => hF12 x (by simpa using hx)
      rw [exec_seq_ok h12]
      refine ⟨env12, by simp [exec, evalE, getLoc_of_lookup hres12], ?_, ?_, ?_, hinv11, ?_⟩
      · rw [hl12 _ (by simp)]; exact hkeep11
      · rw [hl12 _ (by simp), hl11 _ (by simp) (by simp) (by simp) (by simp) (by simp) (by simp)]; exact hrs10
      · rw [hl12 _ (by simp), hl11 _ (by simp) (by simp) (by simp) (by simp) (by simp) (by simp)]; exact hst10
      · exact Frame.trans (Frame.trans (Frame.trans (Frame.trans hF8 (hF9.mono (by simp [MODS]))) (hF10.mono (by simp [MODS])))
          (hF11.mono (by simp [MODS]))) (hF12.mono (by simp [MODS]))

/-! ### objects: the store of a method call -/

theorem lookup_filter_self (env : Env α) (k : String) (hk : isSelfKey k = true) :
    (env.filter (fun p => isSelfKey p.1)).lookup k = env.lookup k := by
  induction env with
  | nil => rfl
  | cons p env ih =>
      obtain ⟨k', v⟩ := p
      cases hk' : isSelfKey k' with
      | true =>
          rw [List.filter_cons_of_pos (by simpa using hk'), List.lookup_cons, List.lookup_cons, ih]
      | false =>
          have hne : (k == k') = false := by
            rw [beq_eq_false_iff_ne]; intro e; rw [e, hk'] at hk; cases hk
          rw [List.filter_cons_of_neg (by simp [hk']), List.lookup_cons, hne, ih]

theorem lookup_of_allSelf (store : Env α) (h : ∀ p ∈ store, isSelfKey p.1 = true) (k : String)
    (hk : isSelfKey k = false) : store.lookup k = none := by
  induction store with
  | nil => rfl
  | cons p store ih =>
      obtain ⟨k', v⟩ := p
      have hk' : isSelfKey k' = true := h (k', v) (by simp)
      have hne : (k == k') = false := by
        rw [beq_eq_false_iff_ne]; intro e; rw [e, hk'] at hk; cases hk
      rw [List.lookup_cons, hne]
      exact ih (fun p hp => h p (by simp [hp]))

theorem filter_allSelf (env : Env α) : ∀ p ∈ env.filter (fun p => isSelfKey p.1), isSelfKey p.1 = true := by
  intro p hp
  simpa using (List.mem_filter.mp hp).2

theorem runFn_method (call : Call α) (fuel : Nat) (f : Fn) (cls : String) (store : Env α) (rest : List (DV α))
    (hm : f.isMethod = true) (hlen : rest.length + 1 = f.params.length) :
    runFn call fuel f (.obj cls store :: rest) =
      (do let x ← exec call fuel f.body (store ++ (f.params.drop 1).zip rest)
          pure (.list [.obj cls (x.1.filter (fun p => isSelfKey p.1)), match x.2 with | .ret v => v | _ => .none])) := by
  unfold runFn
  simp only [hm, if_true, hlen, ne_eq, not_true_eq_false, if_false]
  rfl

end GOnTimed

open GOnTimed

/-! ### the relation between the mirror's record and the object -/

/-- `TimedSt` against an object of class `cls` (`neg`: the initial `residual_start` / `max` is `-inf`, i.e. `OnceTimedOperation`;
    otherwise `+inf`, i.e. `HistoricallyTimedOperation`).  The last component is an invariant of the reachable states
    (nothing is pending before the first sample). -/
def TimedRel (cls : String) (neg : Bool) (a b : Rat) (st : TimedSt α) (o : DV α) : Prop :=
  ∃ (store : Env α) (xb xe : DV α), o = .obj cls store ∧
    store.lookup "self.prev" = some (.list (st.segs.map (fun g => DV.seg g.lo g.hi g.v))) ∧
    store.lookup "self.residual_start" = some (match st.rs with | some r => .tm r | none => .uinf neg) ∧
    store.lookup "self.started" = some (.bool st.started) ∧
    store.lookup "self.begin" = some xb ∧ toTm xb = .ok (.fin a) ∧
    store.lookup "self.end" = some xe ∧ toTm xe = .ok (.fin b) ∧
    store.lookup "self.max" = some (.uinf neg) ∧
    (∀ p ∈ store, isSelfKey p.1 = true) ∧
    (st.rs = none → st.segs = [])

namespace GOnTimed

theorem encRS_eq (neg : Bool) (rs : Option Tm) :
    (encRS neg rs : DV α) = (match rs with | some r => .tm r | none => .uinf neg) := by
  cases rs <;> rfl

theorem map_encSeg (l : List (Seg α)) : l.map encSeg = l.map (fun g => DV.seg g.lo g.hi g.v) := rfl

/-- the fuel `update` needs: the outer loop runs once per new sample, the inner loop at most the height of the stack -/
def G (st : TimedSt α) (s : ASig α) : Nat := st.segs.length + s.length + 1

theorem runFn_init {opW opK : BinOp} {ninit : E} {neg : Bool} {worse : α → α → Bool} {neutral : α}
    (hp : Par α opW opK ninit neg worse neutral) (call : Call α) (fuel : Nat) (f : Fn) (hm : f.isMethod = true)
    (hparams : f.params = ["self", "begin", "end"]) (hbody : f.body = initBody ninit) (cls : String) (xb xe : DV α)
    (a b : Rat) (hxb : toTm xb = .ok (.fin a)) (hxe : toTm xe = .ok (.fin b)) :
    ∃ o, runFn call fuel f [.obj cls [], xb, xe] = .ok (.list [o, .none]) ∧ TimedRel cls neg a b {} o := by
  rw [runFn_method call fuel f cls [] [xb, xe] hm (by simp [hparams]), hparams, hbody]
  unfold initBody
  simp only [List.drop_succ_cons, List.drop_zero, List.zip_cons_cons, List.zip_nil_right, List.nil_append]
  rw [exec_seq_ok (exec_setLoc (v := .list []) (by simp [evalE])),
    exec_seq_ok (exec_setLoc (hp.hN _ _)), exec_seq_ok (exec_setLoc (hp.hN _ _)),
    exec_seq_ok (exec_setLoc (v := xb) (by simp [evalE])),
    exec_seq_ok (exec_setLoc (v := xe) (by simp [evalE])),
    exec_setLoc (v := .bool false) (by simp [evalE])]
  refine ⟨_, rfl, _, xb, xe, rfl, ?_, ?_, ?_, ?_, hxb, ?_, hxe, ?_, filter_allSelf _, fun _ => rfl⟩
  all_goals (rw [lookup_filter_self _ _ (by simp [isSelfKey])]; simp)

theorem runFn_update {opW opK : BinOp} {ninit : E} {neg : Bool} {worse : α → α → Bool} {neutral : α}
    (hp : Par α opW opK ninit neg worse neutral) (fuel k : Nat) (ord : Bool) (f : Fn) (hm : f.isMethod = true)
    (hparams : f.params = ["self", "sample"]) (hbody : f.body = updBody opW opK ninit ord) (cls : String) (a b : Rat)
    (st : TimedSt α) (o : DV α) (hrel : TimedRel cls neg a b st o) (s : ASig α)
    (hinf : st.rs = none → neg = false → ∀ t v rest, s = (t, v) :: rest → t ≠ .inf) (hfuel : G st s ≤ fuel) :
    match timedUpdate worse neutral a b st s with
    | .ok (st', out) => ∃ o', runFn (callAt Gen.DenseOn.fns fuel (k + 1)) fuel f [o, encSig s] = .ok (.list [o', encSig out]) ∧
        TimedRel cls neg a b st' o'
    | .error e => runFn (callAt Gen.DenseOn.fns fuel (k + 1)) fuel f [o, encSig s] = .error e := by
  obtain ⟨store, xb, xe, rfl, hprev, hrs, hst, hbeg, hxb, hend, hxe, hmax, hself, hinv⟩ := hrel
  rw [runFn_method _ fuel f cls store [encSig s] hm (by simp [hparams]), hparams, hbody]
  simp only [List.drop_succ_cons, List.drop_zero, List.zip_cons_cons, List.zip_nil_right]
  have hnone : ∀ k', isSelfKey k' = false → (store ++ [("sample", encSig s)]).lookup k' = 
      ([("sample", encSig s)] : Env α).lookup k' := by
    intro k' hk'
    rw [List.lookup_append, lookup_of_allSelf store hself k' hk']; rfl
  have hsome : ∀ k' v, store.lookup k' = some v → (store ++ [("sample", encSig s)]).lookup k' = some v := by
    intro k' v hv
    rw [List.lookup_append, hv]; rfl
  have h := upd_exec (opW := opW) (opK := opK) hp (callOK_callAt (α := α) fuel k) fuel ord
    (env0 := store ++ [("sample", encSig s)]) (st := st) (s := s) (a := a) (b := b) (xb := xb) (xe := xe)
    (by rw [hnone _ (by simp [isSelfKey])]; simp [List.lookup])
    (hsome _ _ (by rw [hprev, map_encSeg])) (hsome _ _ (by rw [hrs, encRS_eq])) (hsome _ _ hst) (hsome _ _ hbeg) hxb
    (hsome _ _ hend) hxe (by rw [hnone _ (by simp [isSelfKey])]; simp [List.lookup])
    (by rw [hnone _ (by simp [isSelfKey])]; simp [List.lookup]) hinv hinf hfuel
  revert h
  cases timedUpdate worse neutral a b st s with
  | error e => intro h; simp only [h, error_bind]
  | ok r =>
      obtain ⟨st', out⟩ := r
      rintro ⟨env', h, hprev', hrs', hst', hinv', hF⟩
      simp only [h, ok_bind, pure_eq_ok]
      refine ⟨_, rfl, _, xb, xe, rfl, ?_, ?_, ?_, ?_, hxb, ?_, hxe, ?_, filter_allSelf _, hinv'⟩
      · rw [lookup_filter_self _ _ (by simp [isSelfKey]), hprev', map_encSeg]
      · rw [lookup_filter_self _ _ (by simp [isSelfKey]), hrs', encRS_eq]
      · rw [lookup_filter_self _ _ (by simp [isSelfKey]), hst']
      · rw [lookup_filter_self _ _ (by simp [isSelfKey]), hF _ (by simp [MODS])]; exact hsome _ _ hbeg
      · rw [lookup_filter_self _ _ (by simp [isSelfKey]), hF _ (by simp [MODS])]; exact hsome _ _ hend
      · rw [lookup_filter_self _ _ (by simp [isSelfKey]), hF _ (by simp [MODS])]; exact hsome _ _ hmax

end GOnTimed

/-! ### main theorems -/

/-- `intersect.intersects` -/
theorem gen_intersects (fuel k : Nat) (x1 x2 y1 y2 : Tm) :
    callAt Gen.DenseOn.fns fuel (k + 1) "intersects" [.tm x1, .tm x2, .tm y1, .tm y2]
      = .ok (.bool (intersects x1 x2 y1 y2) : DV α) := GOnTimed.gen_intersects' fuel k x1 x2 y1 y2

/-- `OnceTimedOperation(begin, end)`: the fresh object is related to the initial record. `begin` / `end` may be any values that
    read as finite time stamps (`.tm (.fin a)`, or an integer literal as in `HistoricallyTimedOperation(0, self.begin)`). -/
theorem gen_once_timed_init (fuel k : Nat) (xb xe : DV α) (a b : Rat) (hxb : toTm xb = .ok (.fin a))
    (hxe : toTm xe = .ok (.fin b)) :
    ∃ o, callAt Gen.DenseOn.fns fuel (k + 1) "OnceTimedOperation.__init__" [.obj "OnceTimedOperation" [], xb, xe]
        = .ok (.list [o, .none]) ∧ TimedRel "OnceTimedOperation" true a b {} o := by
  rw [callAt_fn _ _ _ _ Gen.DenseOn.OnceTimedOperation_init _ rfl]
  exact runFn_init par_once _ fuel _ rfl rfl once_init_eq _ xb xe a b hxb hxe

theorem gen_hist_timed_init (fuel k : Nat) (xb xe : DV α) (a b : Rat) (hxb : toTm xb = .ok (.fin a))
    (hxe : toTm xe = .ok (.fin b)) :
    ∃ o, callAt Gen.DenseOn.fns fuel (k + 1) "HistoricallyTimedOperation.__init__"
        [.obj "HistoricallyTimedOperation" [], xb, xe]
        = .ok (.list [o, .none]) ∧ TimedRel "HistoricallyTimedOperation" false a b {} o := by
  rw [callAt_fn _ _ _ _ Gen.DenseOn.HistoricallyTimedOperation_init _ rfl]
  exact runFn_init par_hist _ fuel _ rfl rfl hist_init_eq _ xb xe a b hxb hxe

/-- The parameterised statement: any method `cls.update` whose body is the (parameterised) body of the two classes. -/
theorem gen_timed_update {opW opK : BinOp} {ninit : E} {neg : Bool} {worse : α → α → Bool} {neutral : α}
    (hp : GOnTimed.Par α opW opK ninit neg worse neutral) (ord : Bool) (cls : String) (f : Fn)
    (hf : Gen.DenseOn.fns.lookup (cls ++ ".update") = some f) (hm : f.isMethod = true)
    (hparams : f.params = ["self", "sample"]) (hbody : f.body = GOnTimed.updBody opW opK ninit ord)
    (fuel k : Nat) (a b : Rat) (st : TimedSt α) (o : DV α) (hrel : TimedRel cls neg a b st o) (s : ASig α)
    (hinf : st.rs = none → neg = false → ∀ t v rest, s = (t, v) :: rest → t ≠ .inf) (hfuel : GOnTimed.G st s ≤ fuel) :
    match timedUpdate worse neutral a b st s with
    | .ok (st', out) => ∃ o', callAt Gen.DenseOn.fns fuel (k + 2) (cls ++ ".update") [o, encSig s]
          = .ok (.list [o', encSig out]) ∧ TimedRel cls neg a b st' o'
    | .error e => callAt Gen.DenseOn.fns fuel (k + 2) (cls ++ ".update") [o, encSig s] = .error e := by
  rw [callAt_fn _ _ _ _ f _ hf]
  exact runFn_update hp fuel k ord f hm hparams hbody cls a b st o hrel s hinf hfuel

/-- `OnceTimedOperation.update(sample)` on an object related to `st` returns what the mirror `timedUpdate ltW Val.ninf` returns,
    and the new object is related to the mirror's new record - or raises what the mirror raises.  All sample lists `s`. -/
theorem gen_once_timed_update (fuel k : Nat) (a b : Rat) (st : TimedSt α) (o : DV α)
    (hrel : TimedRel "OnceTimedOperation" true a b st o) (s : ASig α) (hfuel : GOnTimed.G st s ≤ fuel) :
    match timedUpdate ltW Val.ninf a b st s with
    | .ok (st', out) => ∃ o', callAt Gen.DenseOn.fns fuel (k + 2) "OnceTimedOperation.update" [o, encSig s]
          = .ok (.list [o', encSig out]) ∧ TimedRel "OnceTimedOperation" true a b st' o'
    | .error e => callAt Gen.DenseOn.fns fuel (k + 2) "OnceTimedOperation.update" [o, encSig s] = .error e := by
  rw [callAt_fn _ _ _ _ Gen.DenseOn.OnceTimedOperation_update _ rfl]
  exact runFn_update par_once fuel k true _ rfl rfl once_body_eq _ a b st o hrel s (fun _ h => by cases h) hfuel

/-- `HistoricallyTimedOperation.update(sample)`.  The hypothesis `hs` excludes the one input on which the code and the mirror
    differ: before the first sample `self.residual_start` is `+inf`, so a first sample stamped `inf` is taken for a repetition
    and dropped by the code (`sample[0][0] == self.residual_start`), while the mirror (`rs = none`) keeps it. -/
theorem gen_hist_timed_update (fuel k : Nat) (a b : Rat) (st : TimedSt α) (o : DV α)
    (hrel : TimedRel "HistoricallyTimedOperation" false a b st o) (s : ASig α)
    (hs : st.rs = none → ∀ t v rest, s = (t, v) :: rest → t ≠ .inf) (hfuel : GOnTimed.G st s ≤ fuel) :
    match timedUpdate gtW Val.pinf a b st s with
    | .ok (st', out) => ∃ o', callAt Gen.DenseOn.fns fuel (k + 2) "HistoricallyTimedOperation.update" [o, encSig s]
          = .ok (.list [o', encSig out]) ∧ TimedRel "HistoricallyTimedOperation" false a b st' o'
    | .error e => callAt Gen.DenseOn.fns fuel (k + 2) "HistoricallyTimedOperation.update" [o, encSig s] = .error e := by
  rw [callAt_fn _ _ _ _ Gen.DenseOn.HistoricallyTimedOperation_update _ rfl]
  exact runFn_update par_hist fuel k false _ rfl rfl hist_body_eq _ a b st o hrel s (fun h _ => hs h) hfuel

/-- the names under which `S.mcall` / `updateObj` look the methods up -/
theorem once_timed_update_name : "OnceTimedOperation" ++ ".update" = "OnceTimedOperation.update" := by decide
theorem hist_timed_update_name : "HistoricallyTimedOperation" ++ ".update" = "HistoricallyTimedOperation.update" := by decide
theorem once_timed_init_name : "OnceTimedOperation" ++ ".__init__" = "OnceTimedOperation.__init__" := by decide
theorem hist_timed_init_name : "HistoricallyTimedOperation" ++ ".__init__" = "HistoricallyTimedOperation.__init__" := by decide

end Rtamt.Py.DnOn
