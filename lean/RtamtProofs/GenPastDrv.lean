/-
  The driver of the pastifier as translated from the Python source (`Rtamt/Py/GeneratedPastDrv.lean`, regenerated on every
  run from `rtamt/pastifier/stl/pastifier.py`: `StlPastifier.pastify`, `normalize_units`, `visit`) denotes the mirror
  `Rtamt/Discrete/PastifySpecs.lean` (`SIv.norm`, `SF.normalise`, `pastifySpecs`).

    * `genPastDrv_normalize` / `genPastDrv_normalizeG`: the translated `normalize_units` rescales every timed node it reaches to
      `SIv.norm` of what it was — once, however many paths lead to the node (sharing is explicit: equal locations) —, the surface
      tree afterwards is `SF.normalise` of the surface tree before, and a second run changes nothing;
    * `genPastDrv_pastify` / `genPastDrv_pastifyG`: the translated `pastify()` = `pastifySpecs`: every assertion with ITS OWN horizon,
      RTAMTException iff some assertion has an unbounded future operator; the names of the assertions are re-pointed
      (`namesAfter`), `genPastDrv_names`: afterwards the name of every assertion points at its pastified formula;
    * `genPastDrv_supported`: the three bodies lie inside the translated subset;
    * `drv_not_cleared_twice`: the model exhibits the seeded bug "unit strings not cleared".

  The calls `h.visit(spec, None)` and `StlAstVisitor.visit(self, spec, horizon)` are calls into the visitors translated earlier:
  `genHor_eval` (`GenHor.lean`) and `genPast_visit` (`GenPast.lean`) are used for them.
-/
import Rtamt.Py.RunPastDrv
import Rtamt.Discrete.PastifySpecs
import RtamtProofs.GenPast
import RtamtProofs.GenHor
import Mathlib.Algebra.Order.Field.Rat
import Mathlib.Tactic.FieldSimp

set_option linter.unusedSectionVars false
set_option linter.unusedSimpArgs false

namespace Rtamt.Py.PDrv
open Rtamt Rtamt.Py Val

variable {α : Type} [Val α]

/-! ### one-step equations (not `rfl`-simp lemmas: see `GenUnits.lean`) -/

theorem d_ok_bind {ε σ ρ : Type} (a : σ) (f : σ → Except ε ρ) : (Except.ok a >>= f) = f a := id rfl
theorem d_error_bind {ε σ ρ : Type} (e : ε) (f : σ → Except ε ρ) : (Except.error e >>= f) = .error e := id rfl

section exec
variable (cs : String → List (DV α) → DState α → Except PyErr (DV α × DState α))

theorem exec_skip (st : DState α) (loc : Locals α) : execDS cs .skip st loc = .ok (st, loc) := id rfl
theorem exec_seq (a b : DS) (st : DState α) (loc : Locals α) :
    execDS cs (.seq a b) st loc = (execDS cs a st loc >>= fun p => execDS cs b p.1 p.2) := id rfl
theorem exec_ite (c : DE) (t e : DS) (st : DState α) (loc : Locals α) :
    execDS cs (.ite c t e) st loc = (evalDE st loc c >>= fun v => match v with
      | .bool true => execDS cs t st loc
      | .bool false => execDS cs e st loc
      | _ => throw .type) := id rfl
theorem exec_setLoc (x : String) (e : DE) (st : DState α) (loc : Locals α) :
    execDS cs (.setLoc x e) st loc = (evalDE st loc e >>= fun v => pure (st, setKey x v loc)) := id rfl
theorem exec_setAttr (o v : DE) (f : String) (st : DState α) (loc : Locals α) :
    execDS cs (.setAttr o f v) st loc =
      (evalDE st loc o >>= fun ov => evalDE st loc v >>= fun vv => setAttrD st ov f vv >>= fun s => pure (s, loc)) := id rfl
theorem exec_forIn (x : String) (e : DE) (body : DS) (st : DState α) (loc : Locals α) :
    execDS cs (.forIn x e body) st loc = (evalDE st loc e >>= fun v => match v with
      | .list l => l.foldlM (fun (p : DState α × Locals α) v => execDS cs body p.1 (setKey x v p.2)) (st, loc)
      | _ => throw .type) := id rfl
theorem exec_callSelf (tgt : Option String) (m : String) (args : List DE) (st : DState α) (loc : Locals α) :
    execDS cs (.call tgt .self_ m args) st loc = (evalArgs st loc args >>= fun vs => cs m vs st >>= fun r =>
      pure (r.2, match tgt with | some x => setKey x r.1 loc | Option.none => loc)) := id rfl
end exec

section ev
variable (st : DState α) (loc : Locals α)
theorem ev_loc (x : String) : evalDE st loc (.loc x) = getKey x loc := id rfl
theorem ev_self : evalDE st loc .self_ = .ok .selfObj := id rfl
theorem ev_none : evalDE st loc .none_ = .ok .none := id rfl
theorem ev_int (n : Int) : evalDE st loc (.int n) = .ok (.int n) := id rfl
theorem ev_str (s : String) : evalDE st loc (.str s) = .ok (.str s) := id rfl
theorem ev_emptyList : evalDE st loc .emptyList = .ok (.list []) := id rfl
theorem ev_emptyDict : evalDE st loc .emptyDict = .ok (.dict []) := id rfl
theorem ev_attr (e : DE) (f : String) : evalDE st loc (.attr e f) = (evalDE st loc e >>= fun v => attrD st v f) := id rfl
theorem ev_index (e k : DE) : evalDE st loc (.index e k) = (evalDE st loc e >>= fun a => evalDE st loc k >>= fun b => indexD a b) := id rfl
theorem ev_len (e : DE) : evalDE st loc (.len e) = (evalDE st loc e >>= fun v => match v with
    | .str s => pure (.int s.length) | .list l => pure (.int l.length) | _ => throw .type) := id rfl
theorem ev_frac (e : DE) : evalDE st loc (.frac e) = (evalDE st loc e >>= fun v => numOf v >>= fun q => pure (.rat q)) := id rfl
theorem ev_isInst (e : DE) (cls : String) : evalDE st loc (.isInst e cls) = (evalDE st loc e >>= fun v => match v with
    | .node _ t => if cls = "Interval" then pure (.bool t.loc?.isSome) else throw .other | _ => throw .other) := id rfl
theorem ev_mul (a b : DE) : evalDE st loc (.mul a b) = (evalDE st loc a >>= fun va => numOf va >>= fun x =>
    evalDE st loc b >>= fun vb => numOf vb >>= fun y => pure (.rat (x * y))) := id rfl
theorem ev_div (a b : DE) : evalDE st loc (.div a b) = (evalDE st loc a >>= fun va => numOf va >>= fun x =>
    evalDE st loc b >>= fun vb => numOf vb >>= fun y => if y = 0 then throw .value else pure (.rat (x / y))) := id rfl
theorem ev_eq (a b : DE) : evalDE st loc (.eq a b) = (evalDE st loc a >>= fun va => evalDE st loc b >>= fun vb => match va, vb with
    | .int x, .int y => pure (.bool (x == y)) | _, _ => throw .other) := id rfl
theorem ev_gt (a b : DE) : evalDE st loc (.gt a b) = (evalDE st loc a >>= fun va => evalDE st loc b >>= fun vb => match va, vb with
    | .int x, .int y => pure (.bool (decide (y < x))) | _, _ => throw .type) := id rfl

theorem attr_self_ast (h : st.selfAst = true) : attrD st .selfObj "ast" = .ok .astObj := by simp [attrD, h]; rfl
theorem attr_ast_unit : attrD st .astObj "unit" = .ok (.str st.unit) := rfl
theorem attr_ast_U : attrD st .astObj "U" = .ok .utable := rfl
theorem attr_ast_specs : attrD st .astObj "specs" = .ok (.list st.specs) := rfl
theorem attr_ast_names : attrD st .astObj "phi_name_to_node_dict" = .ok .namesObj := rfl
theorem attr_h_horizons : attrD st .hObj "horizons" = .ok .hTable := rfl
theorem attr_node_children (id) (t : NT α) : attrD st (.node id t) "children" = .ok (.list (t.children.map (.node Option.none))) := rfl
theorem attr_node_begin (id) (t : NT α) (l) (h : t.loc? = some l) : attrD st (.node id t) "begin" = .ok (.rat (st.store l).b) := by simp [attrD, h]; rfl
theorem attr_node_end (id) (t : NT α) (l) (h : t.loc? = some l) : attrD st (.node id t) "end" = .ok (.rat (st.store l).e) := by simp [attrD, h]; rfl
theorem attr_node_bu (id) (t : NT α) (l) (h : t.loc? = some l) : attrD st (.node id t) "begin_unit" = .ok (.str (st.store l).bu) := by simp [attrD, h]; rfl
theorem attr_node_eu (id) (t : NT α) (l) (h : t.loc? = some l) : attrD st (.node id t) "end_unit" = .ok (.str (st.store l).eu) := by simp [attrD, h]; rfl
end ev

/-- The state while `pastify()` runs its first loop (`self.ast` assigned, no horizon visitor yet). -/
def rawSt (s : Nat → IvRaw) (un : String) (sp : List (DV α)) (nm : List (String × DV α)) (sh : Bool) : DState α :=
  { store := s, unit := un, specs := sp, names := nm, selfAst := true, hVisited := Option.none, subHor := sh }

def mkSt (σ : Nat → SIv) (u : TUnit) (sp : List (DV α)) (nm : List (String × DV α)) (sh : Bool) : DState α :=
  rawSt (fun l => rawOf (σ l)) (unitStr u) sp nm sh

def upd (σ : Nat → SIv) (l : Nat) (i : SIv) : Nat → SIv := fun k => if k = l then i else σ k

theorem setIv_raw (σ : Nat → SIv) (l : Nat) (i : SIv) :
    setIv (fun k => rawOf (σ k)) l (rawOf i) = fun k => rawOf (upd σ l i k) := by
  funext k; by_cases h : k = l <;> simp [setIv, upd, h]

theorem setIv_setIv (s : Nat → IvRaw) (l : Nat) (a b : IvRaw) : setIv (setIv s l a) l b = setIv s l b := by
  funext k; by_cases h : k = l <;> simp [setIv, h]

theorem setIv_same (s : Nat → IvRaw) (l : Nat) (a : IvRaw) : setIv s l a l = a := by simp [setIv]

theorem unitNanos_unitStr (u : TUnit) : unitNanos? (unitStr u) = some (u.nanos : Int) := by
  cases u <;> rfl

theorem index_U (u : TUnit) : indexD (α := α) .utable (.str (unitStr u)) = .ok (.int (u.nanos : Int)) := by
  simp [indexD, unitNanos_unitStr]; rfl

theorem unitStr_length (u : TUnit) : ((unitStr u).length : Int) ≠ 0 := by cases u <;> decide
theorem unitStr_length_pos (u : TUnit) : (0 : Int) < (unitStr u).length := by cases u <;> decide
theorem nanos_ne (u : TUnit) : ((u.nanos : Int) : Rat) ≠ 0 := by cases u <;> simp [TUnit.nanos]

def ivPart : DS := match Gen.PastDrv.normalize_units.body with | .seq a _ => a | _ => .skip
def loopPart : DS := match Gen.PastDrv.normalize_units.body with | .seq _ b => b | _ => .skip
theorem body_eq : Gen.PastDrv.normalize_units.body = .seq ivPart loopPart := rfl

section raw
variable (s : Nat → IvRaw) (un : String) (sp : List (DV α)) (nm : List (String × DV α)) (sh : Bool)
theorem r_self_ast : attrD (rawSt s un sp nm sh) .selfObj "ast" = .ok .astObj := rfl
theorem r_ast_unit : attrD (rawSt s un sp nm sh) .astObj "unit" = .ok (.str un) := rfl
theorem r_ast_U : attrD (rawSt s un sp nm sh) .astObj "U" = .ok .utable := rfl
theorem r_ast_specs : attrD (rawSt s un sp nm sh) .astObj "specs" = .ok (.list sp) := rfl
variable (id : Option Nat) (t : NT α) (l : Nat) (h : t.loc? = some l)
include h
theorem r_node_begin : attrD (rawSt s un sp nm sh) (.node id t) "begin" = .ok (.rat (s l).b) := by simp [attrD, h]; rfl
theorem r_node_end : attrD (rawSt s un sp nm sh) (.node id t) "end" = .ok (.rat (s l).e) := by simp [attrD, h]; rfl
theorem r_node_bu : attrD (rawSt s un sp nm sh) (.node id t) "begin_unit" = .ok (.str (s l).bu) := by simp [attrD, h]; rfl
theorem r_node_eu : attrD (rawSt s un sp nm sh) (.node id t) "end_unit" = .ok (.str (s l).eu) := by simp [attrD, h]; rfl
theorem r_set_begin (q : Rat) : setAttrD (rawSt s un sp nm sh) (.node id t) "begin" (.rat q)
    = .ok (rawSt (setIv s l { s l with b := q }) un sp nm sh) := by simp [setAttrD, h, numOf]; rfl
theorem r_set_end (q : Rat) : setAttrD (rawSt s un sp nm sh) (.node id t) "end" (.rat q)
    = .ok (rawSt (setIv s l { s l with e := q }) un sp nm sh) := by simp [setAttrD, h, numOf]; rfl
theorem r_set_bu (x : String) : setAttrD (rawSt s un sp nm sh) (.node id t) "begin_unit" (.str x)
    = .ok (rawSt (setIv s l { s l with bu := x }) un sp nm sh) := by simp [setAttrD, h]; rfl
theorem r_set_eu (x : String) : setAttrD (rawSt s un sp nm sh) (.node id t) "end_unit" (.str x)
    = .ok (rawSt (setIv s l { s l with eu := x }) un sp nm sh) := by simp [setAttrD, h]; rfl
end raw

theorem unitStr_length_pos_nat (u : TUnit) : 0 < (unitStr u).length := by cases u <;> decide
theorem unitStr_len_beq (u : TUnit) : (((unitStr u).length : Int) == 0) = false := by cases u <;> decide
theorem nanos_ne' (u : TUnit) : u.nanos ≠ 0 := by cases u <;> simp [TUnit.nanos]

theorem iv_timed_raw (cs) (id : Option Nat) (t : NT α) (l : Nat) (ht : t.loc? = some l) (s : Nat → IvRaw) (i : SIv) (hs : s l = rawOf i)
    (u : TUnit) sp nm sh :
    ∃ loc', execDS cs ivPart (rawSt (α := α) s (unitStr u) sp nm sh) [("node", .node id t)]
        = .ok (rawSt (setIv s l (rawOf (i.norm u))) (unitStr u) sp nm sh, loc') ∧ getKey "node" loc' = .ok (.node id t) := by
  rcases i with ⟨b, e, bu, eu⟩
  cases bu <;> cases eu <;> simp only [rawOf, optUnitStr] at hs <;>
  simp [ivPart, Gen.PastDrv.normalize_units, exec_seq, exec_ite, exec_setLoc, exec_setAttr, exec_skip, ht, hs,
    ev_loc, ev_self, ev_int, ev_str, ev_attr, ev_index, ev_len, ev_frac, ev_isInst, ev_mul, ev_div, ev_eq, ev_gt,
    r_self_ast, r_ast_unit, r_ast_U, r_node_begin _ _ _ _ _ _ _ _ ht, r_node_end _ _ _ _ _ _ _ _ ht, r_node_bu _ _ _ _ _ _ _ _ ht, r_node_eu _ _ _ _ _ _ _ _ ht,
    r_set_begin _ _ _ _ _ _ _ _ ht, r_set_end _ _ _ _ _ _ _ _ ht, r_set_bu _ _ _ _ _ _ _ _ ht, r_set_eu _ _ _ _ _ _ _ _ ht, index_U,
    d_ok_bind, d_error_bind, getKey_cons_same, getKey_cons_ne, setKey, unitStr_length, unitStr_length_pos, numOf, pure, Except.pure,
    nanos_ne, nanos_ne', setIv_setIv, setIv_same, unitStr_length_pos_nat, unitStr_len_beq,
    SIv.norm, SIv.toDefault, SIv.durNs, SIv.units, rawOf, optUnitStr]

/-- What the traversal of `normalize_units` does to the attributes: the timed nodes in the order they are reached. -/
def normLocs (u : TUnit) : List Nat → (Nat → SIv) → (Nat → SIv)
  | [], σ => σ
  | l :: r, σ => normLocs u r (upd σ l ((σ l).norm u))

theorem normLocs_append (u : TUnit) (a b : List Nat) (σ : Nat → SIv) :
    normLocs u (a ++ b) σ = normLocs u b (normLocs u a σ) := by
  induction a generalizing σ with
  | nil => rfl
  | cons l r ih => simp [normLocs, ih]

theorem iv_untimed (cs) (id : Option Nat) (t : NT α) (ht : t.loc? = none) (st : DState α) :
    execDS cs ivPart st [("node", .node id t)] = .ok (st, [("node", .node id t)]) := by
  simp [ivPart, Gen.PastDrv.normalize_units, exec_ite, exec_skip, ev_isInst, ev_loc, getKey_cons_same, d_ok_bind, ht, pure, Except.pure]

theorem iv_any (cs) (id : Option Nat) (t : NT α) (σ : Nat → SIv) (u : TUnit) sp nm sh :
    ∃ loc', execDS cs ivPart (mkSt (α := α) σ u sp nm sh) [("node", .node id t)]
        = .ok (mkSt (normLocs u t.loc?.toList σ) u sp nm sh, loc') ∧ getKey "node" loc' = .ok (.node id t) := by
  cases ht : t.loc? with
  | none => exact ⟨_, iv_untimed cs id t ht _, getKey_cons_same _ _ _⟩
  | some l =>
    obtain ⟨loc', h1, h2⟩ := iv_timed_raw cs id t l ht (fun k => rawOf (σ k)) (σ l) rfl u sp nm sh
    refine ⟨loc', ?_, h2⟩
    rw [mkSt, h1, setIv_raw]
    rfl

theorem evalArgs_loc (st : DState α) (loc : Locals α) (x : String) :
    evalArgs st loc [.loc x] = (getKey x loc >>= fun v => pure [v]) := by
  simp only [evalArgs, ev_loc]
  cases getKey x loc <;> rfl

/-- A loop `for x in vals: self.normalize_units(x)`. -/
theorem loop_norm (cs) (u : TUnit) (sp : List (DV α)) nm sh (x : String) (vals : List (Option Nat × NT α))
    (hk : ∀ p ∈ vals, ∀ σ', cs "normalize_units" [.node p.1 p.2] (mkSt σ' u sp nm sh)
        = .ok (.none, mkSt (normLocs u p.2.locs σ') u sp nm sh)) (σ : Nat → SIv) (loc : Locals α) :
    ∃ loc', (vals.map (fun p => DV.node p.1 p.2)).foldlM
        (fun (p : DState α × Locals α) v => execDS cs (.call none .self_ "normalize_units" [.loc x]) p.1 (setKey x v p.2))
        (mkSt σ u sp nm sh, loc)
      = .ok (mkSt (normLocs u (vals.flatMap (fun p => p.2.locs)) σ) u sp nm sh, loc') ∧
      ∀ y, y ≠ x → getKey y loc' = getKey y loc := by
  induction vals generalizing σ loc with
  | nil => exact ⟨loc, rfl, fun _ _ => rfl⟩
  | cons p r ih =>
    have hp := hk p (by simp) σ
    obtain ⟨loc', h1, h2⟩ := ih (fun q hq => hk q (by simp [hq])) (normLocs u p.2.locs σ) (setKey x (.node p.1 p.2) loc)
    refine ⟨loc', ?_, fun y hy => by rw [h2 y hy, getKey_setKey_ne _ _ _ _ hy]⟩
    have hstep : execDS cs (.call none .self_ "normalize_units" [.loc x]) (mkSt σ u sp nm sh) (setKey x (.node p.1 p.2) loc)
        = .ok (mkSt (normLocs u p.2.locs σ) u sp nm sh, setKey x (.node p.1 p.2) loc) := by
      simp only [exec_callSelf, evalArgs_loc, getKey_setKey_same, d_ok_bind, pure, Except.pure, hp]
    rw [List.map_cons, List.foldlM_cons, hstep, d_ok_bind, List.flatMap_cons, normLocs_append]
    exact h1

theorem loopPart_eq : loopPart = .forIn "child" (.attr (.loc "node") "children") (.call none .self_ "normalize_units" [.loc "child"]) := rfl

theorem children_depth (t c : NT α) (h : c ∈ t.children) : c.depth < t.depth := by
  cases t <;> simp [NT.children] at h <;> (try rcases h with rfl | rfl) <;> simp [NT.depth] <;> omega

theorem locs_eq (t : NT α) : t.locs = t.loc?.toList ++ t.children.flatMap NT.locs := by
  cases t <;> simp [NT.locs, NT.loc?, NT.children]

theorem lookup_normalize : Gen.PastDrv.methods.lookup "normalize_units" = some Gen.PastDrv.normalize_units := by rfl
theorem lookup_pastify : Gen.PastDrv.methods.lookup "pastify" = some Gen.PastDrv.pastify := by rfl
theorem lookup_visit : Gen.PastDrv.methods.lookup "visit" = some Gen.PastDrv.visit := by rfl

theorem callM_succ (fuel : Nat) (name : String) (m : DMethod) (h : Gen.PastDrv.methods.lookup name = some m) (args : List (DV α)) (st : DState α) :
    callM Gen.PastDrv.methods (fuel + 1) name args st = (bindParams m args >>= fun loc =>
      execDS (callM Gen.PastDrv.methods fuel) m.body st loc >>= fun p =>
        match m.ret with
        | some e => evalDE p.1 p.2 e >>= fun v => pure (v, p.1)
        | Option.none => pure (.none, p.1)) := by
  simp only [callM, h]
  rfl

/-- `normalize_units(node)` with a sufficient recursion budget: every timed node reached is rescaled, in traversal order. -/
theorem norm_call (fuel : Nat) (t : NT α) (hf : t.depth < fuel) (id : Option Nat) (σ : Nat → SIv) (u : TUnit) sp nm sh :
    callM Gen.PastDrv.methods fuel "normalize_units" [.node id t] (mkSt (α := α) σ u sp nm sh)
      = .ok (.none, mkSt (normLocs u t.locs σ) u sp nm sh) := by
  induction fuel generalizing t id σ with
  | zero => omega
  | succ fuel ih =>
    obtain ⟨loc1, h1, h2⟩ := iv_any (callM Gen.PastDrv.methods fuel) id t σ u sp nm sh
    obtain ⟨loc2, h3, _⟩ := loop_norm (callM Gen.PastDrv.methods fuel) u sp nm sh "child" (t.children.map (fun c => (Option.none, c)))
      (by
        intro p hp σ'
        simp only [List.mem_map] at hp
        obtain ⟨c, hc, rfl⟩ := hp
        exact ih c (by have := children_depth t c hc; omega) _ σ')
      (normLocs u t.loc?.toList σ) loc1
    rw [callM_succ fuel _ _ lookup_normalize]
    have hb : bindParams Gen.PastDrv.normalize_units [DV.node id t] = .ok [("node", DV.node id t)] := rfl
    rw [hb, d_ok_bind, body_eq, exec_seq, h1, d_ok_bind, loopPart_eq, exec_forIn, ev_attr, ev_loc]
    simp only [h2, d_ok_bind, attr_node_children]
    simp only [List.map_map, Function.comp_def] at h3
    rw [h3, d_ok_bind, locs_eq, normLocs_append]
    simp [List.flatMap_map]
    rfl


/-! ### the unit normalisation is idempotent, so sharing is harmless -/

theorem nanos_rat_ne (u : TUnit) : (u.nanos : Rat) ≠ 0 := by cases u <;> simp [TUnit.nanos]

/-- After the first normalisation the unit strings are empty and the conversion of a unit-less bound into the default unit
    is the identity. -/
theorem SIv.norm_idem (u : TUnit) (i : SIv) : (i.norm u).norm u = i.norm u := by
  have h := nanos_rat_ne u
  simp [SIv.norm, SIv.toDefault, SIv.durNs, SIv.units, h]

theorem normLocs_eq (u : TUnit) (L : List Nat) (σ : Nat → SIv) :
    normLocs u L σ = fun l => if l ∈ L then (σ l).norm u else σ l := by
  induction L generalizing σ with
  | nil => simp [normLocs]
  | cons a r ih =>
    rw [normLocs, ih]
    funext l
    by_cases h1 : l = a
    · subst h1
      by_cases h2 : l ∈ r <;> simp [upd, h2, SIv.norm_idem]
    · by_cases h2 : l ∈ r <;> simp [upd, h1, h2]

/-- However often (at least once) a node is reached, its attributes end up normalised once. -/
theorem normLocs_idem (u : TUnit) (L : List Nat) (σ : Nat → SIv) : normLocs u L (normLocs u L σ) = normLocs u L σ := by
  simp only [normLocs_eq]
  funext l
  by_cases h : l ∈ L <;> simp [h, SIv.norm_idem]

/-- The surface tree after the traversal is the normalised surface tree, whatever else was normalised with it
    (other assertions sharing nodes with this one). -/
theorem toSF_normLocs (u : TUnit) (L : List Nat) (σ : Nat → SIv) (t : NT α) (h : ∀ l ∈ t.locs, l ∈ L) :
    t.toSF (normLocs u L σ) = (t.toSF σ).normalise u := by
  rw [normLocs_eq]
  induction t with
  | var x => rfl
  | const c => rfl
  | un op φ ih => simp only [NT.toSF, SF.normalise]; rw [ih (by simpa [NT.locs] using h)]
  | tmp1 op φ ih => simp only [NT.toSF, SF.normalise]; rw [ih (by simpa [NT.locs] using h)]
  | bin op φ ψ ih1 ih2 =>
    simp only [NT.toSF, SF.normalise]
    rw [ih1 (fun l hl => h l (by simp [NT.locs, hl])), ih2 (fun l hl => h l (by simp [NT.locs, hl]))]
  | tmp2 op φ ψ ih1 ih2 =>
    simp only [NT.toSF, SF.normalise]
    rw [ih1 (fun l hl => h l (by simp [NT.locs, hl])), ih2 (fun l hl => h l (by simp [NT.locs, hl]))]
  | tb1 op a φ ih =>
    simp only [NT.toSF, SF.normalise]
    rw [ih (fun l hl => h l (by simp [NT.locs, hl]))]
    simp [h a (by simp [NT.locs])]
  | tb2 op a φ ψ ih1 ih2 =>
    simp only [NT.toSF, SF.normalise]
    rw [ih1 (fun l hl => h l (by simp [NT.locs, hl])), ih2 (fun l hl => h l (by simp [NT.locs, hl]))]
    simp [h a (by simp [NT.locs])]

/-- The tree the visitors read off the store is the surface tree with its numbers read as naturals. -/
theorem toF_raw (σ : Nat → SIv) (t : NT α) : t.toF? (fun l => rawOf (σ l)) = (t.toSF σ).toF? := by
  induction t with
  | var x => rfl
  | const c => rfl
  | un op φ ih => simp only [NT.toF?, NT.toSF, SF.toF?, ih]
  | tmp1 op φ ih => simp only [NT.toF?, NT.toSF, SF.toF?, ih]
  | bin op φ ψ ih1 ih2 => simp only [NT.toF?, NT.toSF, SF.toF?, ih1, ih2]
  | tmp2 op φ ψ ih1 ih2 => simp only [NT.toF?, NT.toSF, SF.toF?, ih1, ih2]
  | tb1 op a φ ih => simp only [NT.toF?, NT.toSF, SF.toF?, ih]; rfl
  | tb2 op a φ ψ ih1 ih2 => simp only [NT.toF?, NT.toSF, SF.toF?, ih1, ih2]; rfl

/-- **`normalize_units`.**  The translated method, run on a node `t` of a specification whose `Interval` attributes are `σ`
    (shared nodes = equal locations), with any sufficient recursion budget: it succeeds; the attributes of every timed
    node reached are the mirror's `SIv.norm` of what they were — once, however many paths lead to the node —; the surface tree of `t`
    afterwards is `SF.normalise` of the surface tree before; and running it again changes nothing. -/
theorem genPastDrv_normalize (t : NT α) (σ : Nat → SIv) (u : TUnit) (sp : List (DV α)) (nm : List (String × DV α)) (sh : Bool)
    (fuel : Nat) (hf : t.depth < fuel) (id : Option Nat) :
    let σ' : Nat → SIv := fun l => if l ∈ t.locs then (σ l).norm u else σ l
    callDrv fuel "normalize_units" [.node id t] (mkSt σ u sp nm sh) = .ok (.none, mkSt σ' u sp nm sh) ∧
    t.toSF σ' = (t.toSF σ).normalise u ∧
    callDrv fuel "normalize_units" [.node id t] (mkSt σ' u sp nm sh) = .ok (.none, mkSt σ' u sp nm sh) := by
  intro σ'
  have hσ : σ' = normLocs u t.locs σ := (normLocs_eq u t.locs σ).symm
  refine ⟨?_, ?_, ?_⟩
  · rw [hσ]; exact norm_call fuel t hf id σ u sp nm sh
  · rw [hσ]; exact toSF_normLocs u t.locs σ t (fun _ h => h)
  · rw [hσ, callDrv, norm_call fuel t hf id _ u sp nm sh, normLocs_idem]

theorem genPastDrv_normalizeG (t : NT α) (σ : Nat → SIv) (u : TUnit) (sp : List (DV α)) (nm : List (String × DV α)) (sh : Bool) :
    normalizeG t (mkSt σ u sp nm sh) = .ok (mkSt (fun l => if l ∈ t.locs then (σ l).norm u else σ l) u sp nm sh) := by
  rw [normalizeG, (genPastDrv_normalize t σ u sp nm sh (t.depth + 1) (by omega) Option.none).1]
  rfl

/-- The three methods lie inside the translated subset. -/
theorem genPastDrv_supported :
    Gen.PastDrv.pastify.supported = true ∧ Gen.PastDrv.normalize_units.supported = true ∧ Gen.PastDrv.visit.supported = true := by
  decide

/-! ### the second and third loop of `pastify()` -/

/-- The state after `h = StlHorizon()`: `vis` are the assertions `h` has visited. -/
def st2 (s : Nat → IvRaw) (un : String) (sp : List (DV α)) (nm : List (String × DV α)) (vis : List Nat) (sh : Bool) : DState α :=
  { store := s, unit := un, specs := sp, names := nm, selfAst := true, hVisited := some vis, subHor := sh }

section steps
variable (cs : String → List (DV α) → DState α → Except PyErr (DV α × DState α))

theorem exec_callLoc (tgt : Option String) (l m : String) (hm : m ≠ "append") (args : List DE) (st : DState α) (loc : Locals α) :
    execDS cs (.call tgt (.loc l) m args) st loc = (evalArgs st loc args >>= fun vs => getKey l loc >>= fun r =>
      callOther st (some r) "" m vs >>= fun r => pure (r.2, match tgt with | some x => setKey x r.1 loc | Option.none => loc)) := by
  simp only [execDS, hm, if_false]
  rfl

theorem exec_append (l : String) (e : DE) (st : DState α) (loc : Locals α) :
    execDS cs (.call Option.none (.loc l) "append" [e]) st loc = (evalArgs st loc [e] >>= fun vs => getKey l loc >>= fun lv =>
      match lv, vs with
      | .list xs, [v] => pure (st, setKey l (.list (xs ++ [v])) loc)
      | _, _ => throw .other) := by
  simp only [execDS, if_true]
  cases evalArgs st loc [e] with
  | error _ => rfl
  | ok vs =>
    cases getKey l loc with
    | error _ => rfl
    | ok lv => cases lv <;> first | rfl | (rcases vs with _ | ⟨v, _ | _⟩ <;> rfl)

theorem exec_callGlob (tgt : Option String) (c m : String) (args : List DE) (st : DState α) (loc : Locals α) :
    execDS cs (.call tgt (.glob c) m args) st loc = (evalArgs st loc args >>= fun vs =>
      callOther st Option.none c m vs >>= fun r => pure (r.2, match tgt with | some x => setKey x r.1 loc | Option.none => loc)) := id rfl

theorem exec_callAttr (tgt : Option String) (e : DE) (f m : String) (args : List DE) (st : DState α) (loc : Locals α) :
    execDS cs (.call tgt (.attr e f) m args) st loc = (evalArgs st loc args >>= fun vs => evalDE st loc (.attr e f) >>= fun r =>
      callOther st (some r) "" m vs >>= fun r => pure (r.2, match tgt with | some x => setKey x r.1 loc | Option.none => loc)) := id rfl

theorem exec_setItem (x : String) (k v : DE) (st : DState α) (loc : Locals α) :
    execDS cs (.setItem x k v) st loc = (getKey x loc >>= fun a => evalDE st loc k >>= fun b => evalDE st loc v >>= fun c =>
      match a, b, c with
      | .dict d, .node (some i) _, .int n => pure (st, setKey x (.dict (setIdx i n d)) loc)
      | _, _, _ => throw .other) := id rfl
end steps

section other
variable (s : Nat → IvRaw) (un : String) (sp : List (DV α)) (nm : List (String × DV α)) (vis : List Nat) (sh : Bool)

theorem other_new (st : DState α) : callOther st Option.none "StlHorizon" "()" [] = .ok (.hObj, { st with hVisited := some [] }) := rfl

theorem other_hvisit (i : Nat) (t : NT α) :
    callOther (st2 s un sp nm vis sh) (some .hObj) "" "visit" [.node (some i) t, .none]
      = (fOf s t >>= fun φ => horG φ >>= fun n => pure (.int n, st2 s un sp nm (i :: vis) sh)) := rfl

theorem other_super (i : Nat) (t : NT α) (R : Int) (hi : i ∈ vis) :
    callOther (st2 s un sp nm vis true) Option.none "StlAstVisitor" "visit" [.selfObj, .node (some i) t, .int R]
      = (fOf s t >>= fun φ => pastG φ R >>= fun ψ => pure (.fml ψ, st2 s un sp nm vis true)) := by
  simp [callOther, st2, hi]

theorem s2_self_ast : attrD (st2 s un sp nm vis sh) .selfObj "ast" = .ok .astObj := rfl
theorem s2_ast_specs : attrD (st2 s un sp nm vis sh) .astObj "specs" = .ok (.list sp) := rfl

theorem ev_keysWhereEq (st : DState α) (loc : Locals α) (d v : DE) :
    evalDE st loc (.keysWhereEq d v) = (evalDE st loc d >>= fun a => evalDE st loc v >>= fun b => match a, b with
      | .namesObj, .node (some i) _ => pure (.list ((st.names.filter (fun p => isNode i p.2)).map (fun p => .str p.1)))
      | _, _ => throw .other) := id rfl
theorem ev_constDict (st : DState α) (loc : Locals α) (k v : DE) :
    evalDE st loc (.constDict k v) = (evalDE st loc k >>= fun a => match a with
      | .list l => (match strsOf l with
          | some ks => evalDE st loc v >>= fun w => pure (.sdict ks w)
          | Option.none => throw .other)
      | _ => throw .type) := id rfl
theorem s2_names : (st2 s un sp nm vis sh).names = nm := rfl

/-- The re-pointing in `visit`: every name that pointed at the visited node points at its translation. -/
def repoint (nm : List (String × DV α)) (i : Nat) (v : DV α) : List (String × DV α) :=
  ((nm.filter (fun p => isNode i p.2)).map (fun p => p.1)).foldl (fun d k => setKey k v d) nm

theorem other_update (ks : List String) (v : DV α) :
    callOther (st2 s un sp nm vis sh) (some .namesObj) "" "update" [.sdict ks v]
      = .ok (.none, st2 s un sp (ks.foldl (fun d k => setKey k v d) nm) vis sh) := rfl
end other

theorem strsOf_map (l : List String) : strsOf (l.map (fun k => (DV.str k : DV α))) = some l := by
  induction l with
  | nil => rfl
  | cons a r ih => simp [strsOf, ih]

theorem fOf_some (s : Nat → IvRaw) (t : NT α) (φ : F α) (h : t.toF? s = some φ) : fOf s t = .ok φ := by
  simp [fOf, h]

theorem horG_eq (φ : F α) : horG φ = if φ.bounded then .ok ((hor φ : Nat) : Int) else .error .rtamt := by
  rw [genHor_eval, hor?_eq]
  cases φ.bounded <;> rfl

/-- The overriding `visit(node, horizon)` on an assertion: the translated visitors, then the re-pointing of its names. -/
theorem visit_call (fuel : Nat) (s : Nat → IvRaw) (un : String) (sp : List (DV α)) (nm : List (String × DV α)) (vis : List Nat)
    (i : Nat) (t : NT α) (φ : F α) (hφ : t.toF? s = some φ) (hb : φ.bounded = true) (hpl : plainP φ = true) (hi : i ∈ vis)
    (R : Int) :
    callM Gen.PastDrv.methods (fuel + 1) "visit" [.node (some i) t, .int R] (st2 s un sp nm vis true)
      = .ok (.fml (past R.toNat φ), st2 s un sp (repoint nm i (.fml (past R.toNat φ))) vis true) := by
  rw [callM_succ fuel _ _ lookup_visit]
  have hb' : bindParams Gen.PastDrv.visit [DV.node (some i) t, DV.int R]
      = .ok [("node", DV.node (some i) t), ("args", .list [.int R]), ("kwargs", .kwargs)] := rfl
  rw [hb', d_ok_bind]
  simp [Gen.PastDrv.visit, exec_seq, exec_callGlob, exec_setLoc, exec_callAttr, evalArgs, ev_loc, ev_self, ev_attr,
    getKey_cons_same, getKey_cons_ne, setKey, d_ok_bind, other_super _ _ _ _ _ _ _ _ hi, fOf_some _ _ _ hφ, genPast_visit φ hb hpl,
    pure, Except.pure, s2_self_ast, attr_ast_names, ev_keysWhereEq, ev_constDict, s2_names]
  have hs : strsOf (List.map (fun p => (DV.str p.1 : DV α)) (List.filter (fun p => isNode i p.2) nm))
      = some ((List.filter (fun p => isNode i p.2) nm).map (fun p => p.1)) := by
    rw [← strsOf_map (α := α), List.map_map]; rfl
  rw [hs]
  simp only [d_ok_bind, other_update]
  rfl

def L2 : DS := (.seq (.call (some "horizon") (.loc "h") "visit" [(.loc "spec"), .none_]) (.seq (.setAttr .self_ "subformula_horizons" (.attr (.loc "h") "horizons")) (.setItem "horizons" (.loc "spec") (.loc "horizon"))))

def L3 : DS := (.seq (.setLoc "horizon" (.index (.loc "horizons") (.loc "spec"))) (.seq (.call (some "pastified_spec") .self_ "visit" [(.loc "spec"), (.loc "horizon")]) (.call none (.loc "pastified_specs") "append" [(.loc "pastified_spec")])))

theorem setAttr_subHor (s : Nat → IvRaw) (un : String) (sp : List (DV α)) nm vis sh :
    setAttrD (st2 s un sp nm vis sh) .selfObj "subformula_horizons" .hTable = .ok (st2 s un sp nm vis true) := rfl

/-- One round of the second loop. -/
theorem step2 (cs) (s : Nat → IvRaw) (un : String) (sp : List (DV α)) nm vis sh (loc : Locals α) (i : Nat) (t : NT α) (φ : F α)
    (hφ : t.toF? s = some φ) (d : List (Nat × Int))
    (h1 : getKey "spec" loc = .ok (.node (some i) t)) (h2 : getKey "h" loc = .ok .hObj) (h3 : getKey "horizons" loc = .ok (.dict d)) :
    execDS cs L2 (st2 s un sp nm vis sh) loc =
      if φ.bounded then .ok (st2 s un sp nm (i :: vis) true,
        setKey "horizons" (.dict (setIdx i (hor φ) d)) (setKey "horizon" (.int (hor φ)) loc))
      else .error .rtamt := by
  have e1 : evalArgs (st2 s un sp nm vis sh) loc [.loc "spec", .none_] = .ok [.node (some i) t, .none] := by
    simp [evalArgs, ev_loc, ev_none, h1, d_ok_bind, pure, Except.pure]
  cases hb : φ.bounded
  · simp [L2, exec_seq, exec_callLoc, e1, h2, d_ok_bind, d_error_bind, other_hvisit, fOf_some _ _ _ hφ, horG_eq, hb]
  · simp [L2, exec_seq, exec_callLoc, exec_setAttr, exec_setItem, e1, h2, d_ok_bind, d_error_bind, other_hvisit, fOf_some _ _ _ hφ, horG_eq, hb,
      ev_self, ev_attr, ev_loc, getKey_setKey_same, getKey_setKey_ne, h1, h3, attr_h_horizons, setAttr_subHor, pure, Except.pure]

/-- The assertions with the trees the visitors see: identity, node, tree. -/
abbrev Tri (α : Type) := Nat × NT α × F α

def triVals (T : List (Tri α)) : List (DV α) := T.map (fun p => DV.node (some p.1) p.2.1)

def horDict (T : List (Tri α)) (d : List (Nat × Int)) : List (Nat × Int) := T.foldl (fun d p => setIdx p.1 (hor p.2.2 : Nat) d) d

/-- The second loop: the horizon of every assertion under its identity; RTAMTException at the first assertion with an unbounded
    future operator. -/
theorem loop2 (cs) (s : Nat → IvRaw) (un : String) (sp : List (DV α)) nm (T : List (Tri α)) (hF : ∀ p ∈ T, p.2.1.toF? s = some p.2.2)
    (vis : List Nat) (sh : Bool) (d : List (Nat × Int)) (loc : Locals α)
    (h2 : getKey "h" loc = .ok .hObj) (h3 : getKey "horizons" loc = .ok (.dict d)) :
    (T.all (fun p => p.2.2.bounded) = true → ∃ loc',
      (triVals T).foldlM (fun (p : DState α × Locals α) v => execDS cs L2 p.1 (setKey "spec" v p.2)) (st2 s un sp nm vis sh, loc)
        = .ok (st2 s un sp nm ((T.map (fun p => p.1)).reverse ++ vis) (sh || !T.isEmpty), loc') ∧
      getKey "horizons" loc' = .ok (.dict (horDict T d)) ∧
      ∀ y, y ≠ "spec" → y ≠ "horizon" → y ≠ "horizons" → getKey y loc' = getKey y loc) ∧
    (T.all (fun p => p.2.2.bounded) = false →
      (triVals T).foldlM (fun (p : DState α × Locals α) v => execDS cs L2 p.1 (setKey "spec" v p.2)) (st2 s un sp nm vis sh, loc)
        = .error .rtamt) := by
  induction T generalizing vis sh d loc with
  | nil => exact ⟨fun _ => ⟨loc, by simp [triVals, pure, Except.pure], h3, fun _ _ _ _ => rfl⟩, fun h => by simp at h⟩
  | cons p r ih =>
    obtain ⟨i, t, φ⟩ := p
    have hφ : t.toF? s = some φ := hF (i, t, φ) (by simp)
    have hst := step2 cs s un sp nm vis sh (setKey "spec" (.node (some i) t) loc) i t φ hφ d (getKey_setKey_same _ _ _)
      (by rw [getKey_setKey_ne _ _ _ _ (by decide), h2]) (by rw [getKey_setKey_ne _ _ _ _ (by decide), h3])
    have hcons : triVals ((i, t, φ) :: r) = DV.node (some i) t :: triVals r := rfl
    rw [hcons, List.foldlM_cons, hst]
    cases hb : φ.bounded
    · refine ⟨fun h => by simp [hb] at h, fun _ => ?_⟩
      simp [d_error_bind]
    · obtain ⟨ih1, ih2⟩ := ih (fun q hq => hF q (by simp [hq])) (i :: vis) true (setIdx i (hor φ : Nat) d)
        (setKey "horizons" (.dict (setIdx i (hor φ : Nat) d)) (setKey "horizon" (.int (hor φ : Nat)) (setKey "spec" (.node (some i) t) loc)))
        (by rw [getKey_setKey_ne _ _ _ _ (by decide), getKey_setKey_ne _ _ _ _ (by decide), getKey_setKey_ne _ _ _ _ (by decide), h2])
        (getKey_setKey_same _ _ _)
      simp only [if_true, d_ok_bind]
      refine ⟨fun h => ?_, fun h => ?_⟩
      · obtain ⟨loc', e1, e2, e3⟩ := ih1 (by simpa [hb] using h)
        refine ⟨loc', ?_, ?_, ?_⟩
        · rw [e1]; simp
        · rw [e2]; rfl
        · intro y y1 y2 y3
          rw [e3 y y1 y2 y3, getKey_setKey_ne _ _ _ _ y3, getKey_setKey_ne _ _ _ _ y2, getKey_setKey_ne _ _ _ _ y1]
      · exact ih2 (by simpa [hb] using h)

theorem indexD_dict (d : List (Nat × Int)) (i : Nat) (t : NT α) (n : Int) (h : d.lookup i = some n) :
    indexD (.dict d) (.node (some i) t) = .ok (.int n) := by
  simp [indexD, h]; rfl

/-- One round of the third loop. -/
theorem step3 (fuel : Nat) (s : Nat → IvRaw) (un : String) (sp : List (DV α)) nm vis (loc : Locals α) (i : Nat) (t : NT α) (φ : F α)
    (hφ : t.toF? s = some φ) (hb : φ.bounded = true) (hpl : plainP φ = true) (hi : i ∈ vis) (d : List (Nat × Int))
    (hd : d.lookup i = some ((hor φ : Nat) : Int)) (acc : List (DV α))
    (h1 : getKey "spec" loc = .ok (.node (some i) t)) (h3 : getKey "horizons" loc = .ok (.dict d))
    (h4 : getKey "pastified_specs" loc = .ok (.list acc)) :
    execDS (callM Gen.PastDrv.methods (fuel + 1)) L3 (st2 s un sp nm vis true) loc =
      .ok (st2 s un sp (repoint nm i (.fml (pastify φ))) vis true,
        setKey "pastified_specs" (.list (acc ++ [.fml (pastify φ)]))
          (setKey "pastified_spec" (.fml (pastify φ)) (setKey "horizon" (.int (hor φ : Nat)) loc))) := by
  have hv := visit_call fuel s un sp nm vis i t φ hφ hb hpl hi ((hor φ : Nat) : Int)
  rw [Int.toNat_natCast] at hv
  have e1 : evalArgs (st2 s un sp nm vis true) (setKey "horizon" (.int (hor φ : Nat)) loc) [.loc "spec", .loc "horizon"]
      = .ok [.node (some i) t, .int (hor φ : Nat)] := by
    simp [evalArgs, ev_loc, getKey_setKey_same, getKey_setKey_ne, h1, d_ok_bind, pure, Except.pure]
  simp [L3, exec_seq, exec_setLoc, exec_callSelf, exec_append, ev_index, ev_loc, h1, h3, indexD_dict _ _ _ _ hd, d_ok_bind, e1, hv,
    evalArgs, getKey_setKey_same, getKey_setKey_ne, h4, pure, Except.pure, pastify]

def namesAfter (T : List (Tri α)) (nm : List (String × DV α)) : List (String × DV α) :=
  T.foldl (fun nm p => repoint nm p.1 (.fml (pastify p.2.2))) nm

/-- The third loop: every assertion is rebuilt with the horizon stored under ITS identity. -/
theorem loop3 (fuel : Nat) (s : Nat → IvRaw) (un : String) (sp : List (DV α)) (vis : List Nat) (d : List (Nat × Int)) (T : List (Tri α))
    (hF : ∀ p ∈ T, p.2.1.toF? s = some p.2.2) (hB : ∀ p ∈ T, p.2.2.bounded = true) (hP : ∀ p ∈ T, plainP p.2.2 = true)
    (hV : ∀ p ∈ T, p.1 ∈ vis) (hD : ∀ p ∈ T, d.lookup p.1 = some ((hor p.2.2 : Nat) : Int))
    (nm : List (String × DV α)) (acc : List (DV α)) (loc : Locals α)
    (h3 : getKey "horizons" loc = .ok (.dict d)) (h4 : getKey "pastified_specs" loc = .ok (.list acc)) :
    ∃ loc', (triVals T).foldlM (fun (p : DState α × Locals α) v => execDS (callM Gen.PastDrv.methods (fuel + 1)) L3 p.1 (setKey "spec" v p.2))
          (st2 s un sp nm vis true, loc)
        = .ok (st2 s un sp (namesAfter T nm) vis true, loc') ∧
      getKey "pastified_specs" loc' = .ok (.list (acc ++ T.map (fun p => .fml (pastify p.2.2)))) ∧
      ∀ y, y ≠ "spec" → y ≠ "horizon" → y ≠ "pastified_spec" → y ≠ "pastified_specs" → getKey y loc' = getKey y loc := by
  induction T generalizing nm acc loc with
  | nil => exact ⟨loc, by simp [triVals, namesAfter, pure, Except.pure], by simpa using h4, fun _ _ _ _ _ => rfl⟩
  | cons p r ih =>
    obtain ⟨i, t, φ⟩ := p
    have hst := step3 fuel s un sp nm vis (setKey "spec" (.node (some i) t) loc) i t φ (hF (i, t, φ) (by simp)) (hB (i, t, φ) (by simp)) (hP (i, t, φ) (by simp))
      (hV (i, t, φ) (by simp)) d (hD (i, t, φ) (by simp)) acc (getKey_setKey_same _ _ _)
      (by rw [getKey_setKey_ne _ _ _ _ (by decide), h3]) (by rw [getKey_setKey_ne _ _ _ _ (by decide), h4])
    have hcons : triVals ((i, t, φ) :: r) = DV.node (some i) t :: triVals r := rfl
    rw [hcons, List.foldlM_cons, hst, d_ok_bind]
    obtain ⟨loc', e1, e2, e3⟩ := ih (fun q hq => hF q (by simp [hq])) (fun q hq => hB q (by simp [hq])) (fun q hq => hP q (by simp [hq]))
      (fun q hq => hV q (by simp [hq])) (fun q hq => hD q (by simp [hq]))
      (repoint nm i (.fml (pastify φ))) (acc ++ [.fml (pastify φ)])
      (setKey "pastified_specs" (.list (acc ++ [.fml (pastify φ)]))
          (setKey "pastified_spec" (.fml (pastify φ)) (setKey "horizon" (.int (hor φ : Nat)) (setKey "spec" (.node (some i) t) loc))))
      (by rw [getKey_setKey_ne _ _ _ _ (by decide), getKey_setKey_ne _ _ _ _ (by decide), getKey_setKey_ne _ _ _ _ (by decide),
            getKey_setKey_ne _ _ _ _ (by decide), h3])
      (getKey_setKey_same _ _ _)
    refine ⟨loc', ?_, ?_, ?_⟩
    · rw [e1]; rfl
    · rw [e2]; simp
    · intro y y1 y2 y3 y4
      rw [e3 y y1 y2 y3 y4, getKey_setKey_ne _ _ _ _ y4, getKey_setKey_ne _ _ _ _ y3, getKey_setKey_ne _ _ _ _ y2,
        getKey_setKey_ne _ _ _ _ y1]

theorem lookup_setIdx_same (i : Nat) (n : Int) (d : List (Nat × Int)) : (setIdx i n d).lookup i = some n := by
  induction d with
  | nil => simp [setIdx, List.lookup]
  | cons a r ih =>
    obtain ⟨j, m⟩ := a
    by_cases h : j = i
    · subst h; simp [setIdx, List.lookup]
    · have h' : (i == j) = false := by simpa using fun e => h e.symm
      simp [setIdx, h, List.lookup, h', ih]

theorem lookup_setIdx_ne (i k : Nat) (n : Int) (d : List (Nat × Int)) (hk : k ≠ i) : (setIdx i n d).lookup k = d.lookup k := by
  have hki : (k == i) = false := by simpa using hk
  induction d with
  | nil => simp [setIdx, List.lookup, hki]
  | cons a r ih =>
    obtain ⟨j, m⟩ := a
    by_cases h : j = i
    · subst h; simp [setIdx, List.lookup, hki]
    · simp only [setIdx, h, beq_iff_eq, if_false, List.lookup]
      cases hkj : k == j <;> simp [ih]

/-- The dictionary of the second loop holds, under the identity of every assertion, the horizon of that assertion
    (equal identities = the same object = the same tree). -/
theorem horDict_lookup (T : List (Tri α)) (hid : ∀ p ∈ T, ∀ q ∈ T, p.1 = q.1 → p.2.2 = q.2.2) (d : List (Nat × Int)) :
    ∀ p ∈ T, (horDict T d).lookup p.1 = some ((hor p.2.2 : Nat) : Int) := by
  have keep : ∀ (R : List (Tri α)) (d : List (Nat × Int)) (i : Nat) (n : Int), d.lookup i = some n →
      (∀ q ∈ R, q.1 = i → ((hor q.2.2 : Nat) : Int) = n) → (horDict R d).lookup i = some n := by
    intro R
    induction R with
    | nil => intro d i n h _; exact h
    | cons a r ih =>
      intro d i n h hq
      apply ih
      · by_cases e : i = a.1
        · subst e; rw [lookup_setIdx_same, hq a (by simp) rfl]
        · rw [lookup_setIdx_ne _ _ _ _ e, h]
      · exact fun q hq' => hq q (by simp [hq'])
  induction T generalizing d with
  | nil => intro p hp; simp at hp
  | cons a r ih =>
    intro p hp
    rcases List.mem_cons.1 hp with rfl | hp'
    · apply keep r _ _ _ (lookup_setIdx_same _ _ _)
      intro q hq e
      rw [hid q (by simp [hq]) p (by simp) e]
    · exact ih (fun p hp q hq => hid p (by simp [hp]) q (by simp [hq])) _ p hp'

theorem L2_def : (.seq (.call (some "horizon") (.loc "h") "visit" [(.loc "spec"), .none_]) (.seq (.setAttr .self_ "subformula_horizons" (.attr (.loc "h") "horizons")) (.setItem "horizons" (.loc "spec") (.loc "horizon")))) = L2 := rfl
theorem L3_def : (.seq (.setLoc "horizon" (.index (.loc "horizons") (.loc "spec"))) (.seq (.call (some "pastified_spec") .self_ "visit" [(.loc "spec"), (.loc "horizon")]) (.call none (.loc "pastified_specs") "append" [(.loc "pastified_spec")]))) = L3 := rfl

/-- The assertions of a specification whose trees (after the unit normalisation) are `φ`. -/
def asrts (T : List (Tri α)) : List (Asrt α) := T.map (fun p => (p.1, p.2.1))

def allLocs (T : List (Tri α)) : List Nat := T.flatMap (fun p => p.2.1.locs)

/-- The state `pastify()` leaves behind. -/
def finalState (σ : Nat → SIv) (u : TUnit) (T : List (Tri α)) (names : List (String × DV α)) : DState α :=
  st2 (fun l => rawOf (normLocs u (allLocs T) σ l)) (unitStr u) (T.map (fun p => .fml (pastify p.2.2))) (namesAfter T names)
    ((T.map (fun p => p.1)).reverse) (!T.isEmpty)

theorem pastify_call (f : Nat) (σ : Nat → SIv) (u : TUnit) (T : List (Tri α)) (names : List (String × DV α))
    (hf : ∀ p ∈ T, p.2.1.depth < f + 1)
    (hF : ∀ p ∈ T, p.2.1.toF? (fun l => rawOf (normLocs u (allLocs T) σ l)) = some p.2.2)
    (hid : ∀ p ∈ T, ∀ q ∈ T, p.1 = q.1 → p.2.2 = q.2.2)
    (hP : ∀ p ∈ T, plainP p.2.2 = true) :
    callM Gen.PastDrv.methods (f + 2) "pastify" [.astObj] (initState σ u (asrts T) names)
      = if T.all (fun p => p.2.2.bounded) then .ok (.astObj, finalState σ u T names) else .error .rtamt := by
  by_cases hT : T = []
  · subst hT; rfl
  rw [callM_succ (f + 1) _ _ lookup_pastify]
  have hb' : bindParams Gen.PastDrv.pastify [(DV.astObj : DV α)] = .ok [("ast", DV.astObj)] := rfl
  rw [hb', d_ok_bind]
  -- first loop
  have hvals : specVals (asrts T) = (T.map (fun p => ((some p.1, p.2.1) : Option Nat × NT α))).map (fun p => DV.node p.1 p.2) := by
    simp [specVals, asrts, List.map_map, Function.comp_def]
  obtain ⟨loc1, e1, fr1⟩ := loop_norm (callM Gen.PastDrv.methods (f + 1)) u (specVals (asrts T)) names false "spec"
    (T.map (fun p => ((some p.1, p.2.1) : Option Nat × NT α)))
    (by
      intro p hp σ'
      simp only [List.mem_map] at hp
      obtain ⟨q, hq, rfl⟩ := hp
      exact norm_call (f + 1) q.2.1 (hf q hq) _ σ' u _ names false)
    σ [("ast", DV.astObj)]
  have hloc : (T.map (fun p => ((some p.1, p.2.1) : Option Nat × NT α))).flatMap (fun p => p.2.locs) = allLocs T := by
    simp [allLocs, List.flatMap_map]
  rw [hloc, ← hvals] at e1
  have hast1 : getKey "ast" loc1 = .ok (DV.astObj : DV α) := by rw [fr1 "ast" (by decide)]; rfl
  have hinit : setAttrD (initState σ u (asrts T) names) DV.selfObj "ast" (DV.astObj : DV α)
      = .ok (mkSt σ u (specVals (asrts T)) names false) := rfl
  simp only [Gen.PastDrv.pastify, exec_seq, exec_setAttr, exec_forIn, exec_setLoc, exec_callGlob, ev_self, ev_loc, ev_attr, ev_emptyDict,
    ev_emptyList, getKey_cons_same, d_ok_bind, hinit, pure, Except.pure, L2_def, L3_def]
  have hsp1 : attrD (mkSt σ u (specVals (asrts T)) names false) DV.astObj "specs" = .ok (.list (specVals (asrts T))) := rfl
  rw [hsp1]
  simp only [d_ok_bind, e1]
  -- h = StlHorizon(); horizons = dict()
  have htri : specVals (asrts T) = triVals T := by simp [specVals, asrts, triVals, List.map_map, Function.comp_def]
  have hargs : ∀ (st : DState α) (loc : Locals α), evalArgs st loc [] = .ok [] := fun _ _ => rfl
  have hnew : callOther (mkSt (normLocs u (allLocs T) σ) u (specVals (asrts T)) names false) Option.none "StlHorizon" "()" []
      = .ok (DV.hObj, st2 (fun l => rawOf (normLocs u (allLocs T) σ l)) (unitStr u) (triVals T) names [] false) := by
    rw [htri]; rfl
  simp only [hargs, hnew, d_ok_bind, getKey_setKey_ne _ _ _ _ (show "ast" ≠ "horizons" by decide),
    getKey_setKey_ne _ _ _ _ (show "ast" ≠ "h" by decide), hast1, s2_ast_specs]
  obtain ⟨l2ok, l2err⟩ := loop2 (callM Gen.PastDrv.methods (f + 1)) (fun l => rawOf (normLocs u (allLocs T) σ l)) (unitStr u) (triVals T) names
    T hF [] false [] (setKey "horizons" (DV.dict []) (setKey "h" DV.hObj loc1))
    (by rw [getKey_setKey_ne _ _ _ _ (by decide), getKey_setKey_same]) (getKey_setKey_same _ _ _)
  cases hall : T.all (fun p => p.2.2.bounded)
  · rw [l2err hall]; rfl
  · obtain ⟨loc2, e2, hd2, fr2⟩ := l2ok hall
    rw [e2]
    have hsh : (false || !T.isEmpty) = true := by cases T with | nil => exact absurd rfl hT | cons _ _ => rfl
    have hast2 : getKey "ast" loc2 = .ok (DV.astObj : DV α) := by
      rw [fr2 "ast" (by decide) (by decide) (by decide), getKey_setKey_ne _ _ _ _ (by decide), getKey_setKey_ne _ _ _ _ (by decide), hast1]
    simp only [d_ok_bind, hsh, List.append_nil, getKey_setKey_ne _ _ _ _ (show "ast" ≠ "pastified_specs" by decide), hast2, s2_ast_specs]
    obtain ⟨loc3, e3, hp3, fr3⟩ := loop3 f (fun l => rawOf (normLocs u (allLocs T) σ l)) (unitStr u) (triVals T)
      ((T.map (fun p => p.1)).reverse) (horDict T []) T hF (by simpa using hall) hP
      (fun p hp => by simp only [List.mem_reverse, List.mem_map]; exact ⟨p, hp, rfl⟩)
      (horDict_lookup T hid []) names [] (setKey "pastified_specs" (DV.list []) loc2)
      (by rw [getKey_setKey_ne _ _ _ _ (by decide), hd2]) (getKey_setKey_same _ _ _)
    have hast3 : getKey "ast" loc3 = .ok (DV.astObj : DV α) := by
      rw [fr3 "ast" (by decide) (by decide) (by decide) (by decide), getKey_setKey_ne _ _ _ _ (by decide), hast2]
    rw [e3]
    have hset : ∀ (s : Nat → IvRaw) (un : String) (sp l : List (DV α)) nm vis sh,
        setAttrD (st2 s un sp nm vis sh) DV.astObj "specs" (DV.list l) = .ok (st2 s un l nm vis sh) := fun _ _ _ _ _ _ _ => rfl
    have hset2 : ∀ st : DState α, setAttrD st DV.astObj "phi_name_to_node_dict" DV.namesObj = .ok st := fun _ => rfl
    have hemp : (!T.isEmpty) = true := by simpa using hsh
    simp only [d_ok_bind, hast3, hp3, List.nil_append, s2_self_ast, attr_ast_names, hset, hset2, finalState, hemp, if_true]

theorem mapM_tri (u : TUnit) (σ : Nat → SIv) (T : List (Tri α))
    (hN : ∀ p ∈ T, ((p.2.1.toSF σ).normalise u).toF? = some p.2.2) :
    (T.map (fun p => p.2.1.toSF σ)).mapM (fun φ => (φ.normalise u).toF?) = some (T.map (fun p => p.2.2)) := by
  induction T with
  | nil => rfl
  | cons a r ih =>
    rw [List.map_cons, List.mapM_cons, hN a (by simp), ih (fun p hp => hN p (by simp [hp]))]
    rfl

theorem pastifySpecs_tri (u : TUnit) (σ : Nat → SIv) (T : List (Tri α))
    (hN : ∀ p ∈ T, ((p.2.1.toSF σ).normalise u).toF? = some p.2.2) :
    pastifySpecs u (T.map (fun p => p.2.1.toSF σ)) =
      if T.all (fun p => p.2.2.bounded) then .ok (T.map (fun p => pastify p.2.2)) else .error .rtamt := by
  simp only [pastifySpecs, mapM_tri u σ T hN, pastifyAll, List.all_map, List.map_map, Function.comp_def]
  rfl

/-- **`pastify()`.**  The translated driver, run on a freshly parsed specification: assertions `T` (identity, node, and the
    tree `φ` that the unit normalisation makes of the node — `hN`: its bounds are natural numbers of default units), `Interval`
    attributes `σ` (shared nodes = equal locations), default unit `u`, any name dictionary, any recursion budget beyond the
    depth of the trees.  Equal identities mean the same object (`hid`).

    * The call equals the mirror `pastifySpecs` on the surface trees: `RTAMTException` exactly when the mirror raises, otherwise the
      state `finalState`, whose `ast.specs` are the mirror's formulas: every assertion pastified with ITS OWN horizon
      (`past (hor φ) φ` of ITS normalised tree);
    * the exception is raised iff some assertion has an unbounded future operator;
    * the `Interval` attributes afterwards: every node reached from some assertion normalised exactly once. -/
theorem genPastDrv_pastify (f : Nat) (σ : Nat → SIv) (u : TUnit) (T : List (Tri α)) (names : List (String × DV α))
    (hf : ∀ p ∈ T, p.2.1.depth < f + 1)
    (hN : ∀ p ∈ T, ((p.2.1.toSF σ).normalise u).toF? = some p.2.2)
    (hid : ∀ p ∈ T, ∀ q ∈ T, p.1 = q.1 → p.2.2 = q.2.2)
    (hP : ∀ p ∈ T, plainP p.2.2 = true) :
    callDrv (f + 2) "pastify" [.astObj] (initState σ u (asrts T) names)
        = (match pastifySpecs u (T.map (fun p => p.2.1.toSF σ)) with
           | .ok _ => .ok (.astObj, finalState σ u T names)
           | .error e => .error e) ∧
    (∀ l, pastifySpecs u (T.map (fun p => p.2.1.toSF σ)) = .ok l → (finalState σ u T names).specs = l.map DV.fml) ∧
    (pastifySpecs u (T.map (fun p => p.2.1.toSF σ)) = .error .rtamt ↔ ∃ p ∈ T, p.2.2.bounded = false) ∧
    (finalState σ u T names).store = fun l => rawOf (if l ∈ allLocs T then (σ l).norm u else σ l) := by
  have hF : ∀ p ∈ T, p.2.1.toF? (fun l => rawOf (normLocs u (allLocs T) σ l)) = some p.2.2 := by
    intro p hp
    rw [toF_raw, toSF_normLocs u (allLocs T) σ p.2.1 (fun l hl => List.mem_flatMap.2 ⟨p, hp, hl⟩), hN p hp]
  have hmain := pastify_call f σ u T names hf hF hid hP
  rw [pastifySpecs_tri u σ T hN]
  refine ⟨?_, ?_, ?_, ?_⟩
  · rw [callDrv, hmain]
    cases T.all (fun p => p.2.2.bounded) <;> rfl
  · intro l hl
    cases hall : T.all (fun p => p.2.2.bounded)
    · simp [hall] at hl
    · simp only [hall, if_true, Except.ok.injEq] at hl
      subst hl
      simp [finalState, st2, List.map_map, Function.comp_def]
  · cases hall : T.all (fun p => p.2.2.bounded)
    · simp only [Bool.false_eq_true, if_false, true_iff]
      simpa using hall
    · simp only [if_true, reduceCtorEq, false_iff]
      simp only [List.all_eq_true] at hall
      rintro ⟨p, hp, hb⟩
      rw [hall p hp] at hb
      exact absurd hb (by simp)
  · simp only [finalState, st2, normLocs_eq]

/-- The runner `pastifyG` (budget: the depth of the deepest assertion + 2). -/
theorem genPastDrv_pastifyG (σ : Nat → SIv) (u : TUnit) (T : List (Tri α)) (names : List (String × DV α))
    (hN : ∀ p ∈ T, ((p.2.1.toSF σ).normalise u).toF? = some p.2.2)
    (hid : ∀ p ∈ T, ∀ q ∈ T, p.1 = q.1 → p.2.2 = q.2.2)
    (hP : ∀ p ∈ T, plainP p.2.2 = true) :
    pastifyG σ u (asrts T) names = (pastifySpecs u (T.map (fun p => p.2.1.toSF σ))).map (fun _ => finalState σ u T names) := by
  have hd : ∀ p ∈ T, p.2.1.depth < maxDepth (asrts T) + 1 := by
    intro p hp
    induction T with
    | nil => simp at hp
    | cons a r ih =>
      rcases List.mem_cons.1 hp with rfl | h
      · simp [asrts, maxDepth]; omega
      · have := ih (fun q hq => hN q (by simp [hq])) (fun q hq q' hq' => hid q (by simp [hq]) q' (by simp [hq']))
          (fun q hq => hP q (by simp [hq])) h
        simp [asrts, maxDepth] at this ⊢; omega
  rw [pastifyG, (genPastDrv_pastify (maxDepth (asrts T)) σ u T names hd hN hid hP).1]
  cases pastifySpecs u (T.map (fun p => p.2.1.toSF σ)) <;> rfl

/-! ### the names of the assertions after `pastify()` -/

theorem lookup_foldl_setKey {β : Type} (v : β) (n : String) (ks : List String) (nm : List (String × β)) :
    (ks.foldl (fun d k => setKey k v d) nm).lookup n = if n ∈ ks then some v else nm.lookup n := by
  induction ks generalizing nm with
  | nil => simp
  | cons k r ih =>
    rw [List.foldl_cons, ih]
    by_cases h1 : n ∈ r
    · simp [h1]
    · by_cases h2 : n = k
      · subst h2; simp [h1, lookup_setKey_same]
      · simp [h1, h2, lookup_setKey_ne _ _ _ _ h2]

theorem keys_setKey {β : Type} (k : String) (v : β) (nm : List (String × β)) :
    (setKey k v nm).map (fun p => p.1) = if k ∈ nm.map (fun p => p.1) then nm.map (fun p => p.1) else nm.map (fun p => p.1) ++ [k] := by
  induction nm with
  | nil => simp [setKey]
  | cons a r ih =>
    obtain ⟨k', w⟩ := a
    by_cases h : k' = k
    · subst h; simp [setKey]
    · have h' : ¬ k = k' := fun e => h e.symm
      simp only [setKey, beq_iff_eq, h, if_false, List.map_cons, ih, List.mem_cons, h', false_or]
      split <;> simp

theorem nodup_setKey {β : Type} (k : String) (v : β) (nm : List (String × β)) (h : (nm.map (fun p => p.1)).Nodup) :
    ((setKey k v nm).map (fun p => p.1)).Nodup := by
  rw [keys_setKey]
  split
  · exact h
  · rename_i hk
    exact List.nodup_append.2 ⟨h, by simp, by intro a ha b hb; simp at hb; subst hb; exact fun e => hk (e ▸ ha)⟩

theorem nodup_repoint (nm : List (String × DV α)) (i : Nat) (v : DV α) (h : (nm.map (fun p => p.1)).Nodup) :
    ((repoint nm i v).map (fun p => p.1)).Nodup := by
  unfold repoint
  generalize (nm.filter (fun p => isNode i p.2)).map (fun p => p.1) = ks
  induction ks generalizing nm with
  | nil => exact h
  | cons k r ih => exact ih _ (nodup_setKey k v nm h)

theorem mem_filter_keys (P : DV α → Bool) (n : String) (nm : List (String × DV α)) (h : (nm.map (fun p => p.1)).Nodup) :
    n ∈ (nm.filter (fun p => P p.2)).map (fun p => p.1) ↔ ∃ w, nm.lookup n = some w ∧ P w = true := by
  induction nm with
  | nil => simp
  | cons a r ih =>
    obtain ⟨k, w⟩ := a
    simp only [List.map_cons, List.nodup_cons] at h
    have ih := ih h.2
    by_cases hn : n = k
    · subst hn
      have hnot : n ∉ (r.filter (fun p => P p.2)).map (fun p => p.1) := by
        intro hm
        obtain ⟨q, hq, rfl⟩ := List.mem_map.1 hm
        exact h.1 (List.mem_map.2 ⟨q, (List.mem_filter.1 hq).1, rfl⟩)
      cases hP : P w <;> simp [List.filter, hP, List.lookup, hnot]
    · have hb : (n == k) = false := by simpa using hn
      cases hP : P w <;> simp [List.filter, hP, List.lookup, hb, hn, ih]

theorem lookup_repoint (nm : List (String × DV α)) (i : Nat) (v : DV α) (n : String) (h : (nm.map (fun p => p.1)).Nodup) :
    (repoint nm i v).lookup n = match nm.lookup n with
      | some w => if isNode i w then some v else some w
      | Option.none => Option.none := by
  unfold repoint
  rw [lookup_foldl_setKey]
  have hm := mem_filter_keys (isNode i) n nm h
  cases hl : nm.lookup n with
  | none =>
    rw [hl] at hm
    have : n ∉ (nm.filter (fun p => isNode i p.2)).map (fun p => p.1) := fun hn => by simpa using hm.1 hn
    simp [this]
  | some w =>
    rw [hl] at hm
    cases hw : isNode i w
    · have : n ∉ (nm.filter (fun p => isNode i p.2)).map (fun p => p.1) := fun hn => by
        obtain ⟨w', hw1, hw2⟩ := hm.1 hn
        simp only [Option.some.injEq] at hw1; subst hw1; rw [hw] at hw2; exact absurd hw2 (by simp)
      simp [this, hw]
    · have : n ∈ (nm.filter (fun p => isNode i p.2)).map (fun p => p.1) := hm.2 ⟨w, rfl, hw⟩
      simp [this, hw]

theorem namesAfter_fml (T : List (Tri α)) (nm : List (String × DV α)) (h : (nm.map (fun p => p.1)).Nodup) (n : String) (ψ : F α)
    (hl : nm.lookup n = some (.fml ψ)) : (namesAfter T nm).lookup n = some (.fml ψ) := by
  induction T generalizing nm with
  | nil => exact hl
  | cons a r ih =>
    exact ih _ (nodup_repoint nm a.1 _ h) (by rw [lookup_repoint _ _ _ _ h, hl]; rfl)

/-- After `pastify()` the name of every assertion points at its pastified formula (names are the keys of a dictionary: no
    duplicates; equal identities = the same object).  Not covered by the model: a name that pointed at an assertion which is also
    a proper sub-node of an EARLIER assertion in the list is re-pointed by the recursive `self.visit` inside the visitors to the
    translation made there (the parser never produces that order: a sub-specification is declared before it is used). -/
theorem genPastDrv_names (T : List (Tri α)) (hid : ∀ p ∈ T, ∀ q ∈ T, p.1 = q.1 → p.2.2 = q.2.2)
    (nm : List (String × DV α)) (h : (nm.map (fun p => p.1)).Nodup) (n : String) (p : Tri α) (hp : p ∈ T) (t0 : NT α)
    (hl : nm.lookup n = some (.node (some p.1) t0)) :
    (namesAfter T nm).lookup n = some (.fml (pastify p.2.2)) := by
  induction T generalizing nm with
  | nil => simp at hp
  | cons a r ih =>
    have hid' : ∀ p ∈ r, ∀ q ∈ r, p.1 = q.1 → p.2.2 = q.2.2 := fun p hp q hq => hid p (by simp [hp]) q (by simp [hq])
    have hnd := nodup_repoint nm a.1 (.fml (pastify a.2.2)) h
    have hlk := lookup_repoint nm a.1 (.fml (pastify a.2.2)) n h
    rw [hl] at hlk
    by_cases e : p.1 = a.1
    · have hφ : p.2.2 = a.2.2 := hid p hp a (by simp) e
      have : isNode a.1 (DV.node (some p.1) t0 : DV α) = true := by simp [isNode, e]
      simp only [this, if_true] at hlk
      rw [hφ]
      exact namesAfter_fml r _ hnd n _ hlk
    · have : isNode a.1 (DV.node (some p.1) t0 : DV α) = false := by simp [isNode, e]
      simp only [this] at hlk
      rcases List.mem_cons.1 hp with rfl | hp'
      · exact absurd rfl e
      · exact ih hid' _ hnd hp' hlk

/-! ### what the explicit sharing is good for -/

/-- `normalize_units` with the seeded bug "unit strings not cleared" (the last two assignments of the `Interval` branch removed). -/
def normalizeNotCleared : DMethod :=
  { params := ["node"], vararg := none, kwarg := none, body := (.seq (.ite (.isInst (.loc "node") "Interval") (.seq (.setLoc "b_unit" (.attr (.loc "node") "begin_unit")) (.seq (.setLoc "e_unit" (.attr (.loc "node") "end_unit")) (.seq (.ite (.eq (.len (.loc "b_unit")) (.int 0)) (.ite (.gt (.len (.loc "e_unit")) (.int 0)) (.setLoc "b_unit" (.loc "e_unit")) (.seq (.setLoc "b_unit" (.attr (.attr .self_ "ast") "unit")) (.setLoc "e_unit" (.attr (.attr .self_ "ast") "unit")))) (.ite (.eq (.len (.loc "e_unit")) (.int 0)) (.setLoc "e_unit" (.loc "b_unit")) .skip)) (.seq (.setAttr (.loc "node") "begin" (.div (.mul (.frac (.attr (.loc "node") "begin")) (.index (.attr (.attr .self_ "ast") "U") (.loc "b_unit"))) (.index (.attr (.attr .self_ "ast") "U") (.attr (.attr .self_ "ast") "unit")))) (.setAttr (.loc "node") "end" (.div (.mul (.frac (.attr (.loc "node") "end")) (.index (.attr (.attr .self_ "ast") "U") (.loc "e_unit"))) (.index (.attr (.attr .self_ "ast") "U") (.attr (.attr .self_ "ast") "unit")))))))) .skip) (.forIn "child" (.attr (.loc "node") "children") (.call none .self_ "normalize_units" [(.loc "child")]))), ret := none }

/-- `always[0,2000ms] x` with default unit `s`, reached along two paths (e.g. `a = always[0:2000ms](x)`, `b = a and a`). -/
def sharedTwice : NT Float := .bin .and (.tb1 .alw 0 (.var "x")) (.tb1 .alw 0 (.var "x"))

def endAfter (ms : List (String × DMethod)) : Option Rat :=
  match callM ms 3 "normalize_units" [.node none sharedTwice]
      (mkSt (α := Float) (fun _ => ⟨0, 2000, none, some .ms⟩) .s [] [] false) with
  | .ok (_, st) => some (st.store 0).e
  | .error _ => none

/-- The model exhibits the seeded bug: without the clearing of the unit strings the shared node is rescaled twice
    (`2000ms` -> `2` -> `1/500`); the translated method leaves `2`. -/
theorem drv_not_cleared_twice : endAfter [("normalize_units", normalizeNotCleared)] = some (1 / 500) ∧ endAfter Gen.PastDrv.methods = some 2 := by
  constructor <;> decide +kernel

end Rtamt.Py.PDrv
