/-
  Infrastructure for `RtamtProofs/GenOff.lean`: symbolic execution of the list part of the Python subset
  (`for x in l`, `for i in range(..)`, `for i in range(a, b, -1)`, comprehensions, slices, local
  `append` / `reverse` / `insert`) against folds of the mirror, including the exceptions.
-/
import Rtamt.Py.RunOff
import RtamtProofs.GenOps

namespace Rtamt.Py
open Rtamt Val

variable {α : Type} [Val α]

/-! ### simulation of two computations, exceptions included -/

/-- Both succeed with related results, or both raise the same exception. -/
def simE {σ τ : Type} (R : σ → τ → Prop) : Except PyErr σ → Except PyErr τ → Prop
  | .ok a, .ok b => R a b
  | .error e, .error e' => e = e'
  | _, _ => False

@[simp] theorem simE_ok_ok {σ τ : Type} (R : σ → τ → Prop) (a : σ) (b : τ) :
    simE R (.ok a) (.ok b) ↔ R a b := Iff.rfl
@[simp] theorem simE_err_err {σ τ : Type} (R : σ → τ → Prop) (e e' : PyErr) :
    simE R (.error e : Except PyErr σ) (.error e' : Except PyErr τ) ↔ e = e' := Iff.rfl
@[simp] theorem simE_ok_err {σ τ : Type} (R : σ → τ → Prop) (a : σ) (e : PyErr) :
    simE R (.ok a) (.error e : Except PyErr τ) ↔ False := Iff.rfl
@[simp] theorem simE_err_ok {σ τ : Type} (R : σ → τ → Prop) (e : PyErr) (b : τ) :
    simE R (.error e : Except PyErr σ) (.ok b) ↔ False := Iff.rfl

theorem simE_bind {σ τ σ' τ' : Type} {R : σ → τ → Prop} {Q : σ' → τ' → Prop}
    {x : Except PyErr σ} {y : Except PyErr τ} {k : σ → Except PyErr σ'} {k' : τ → Except PyErr τ'}
    (h : simE R x y) (hk : ∀ a b, R a b → simE Q (k a) (k' b)) : simE Q (x >>= k) (y >>= k') := by
  cases x <;> cases y <;> simp [simE] at h
  · subst h; simp [error_bind]
  · exact hk _ _ h

theorem simE_eq {σ : Type} {x y : Except PyErr σ} (h : simE Eq x y) : x = y := by
  cases x <;> cases y <;> simp [simE] at h <;> simp [h]

theorem simE_bind_eq {σ τ ρ : Type} {R : σ → τ → Prop}
    {x : Except PyErr σ} {y : Except PyErr τ} {k : σ → Except PyErr ρ} (k' : τ → Except PyErr ρ)
    (h : simE R x y) (hk : ∀ a b, R a b → k a = k' b) : (x >>= k) = (y >>= k') := by
  apply simE_eq
  exact simE_bind h (fun a b hab => by rw [hk a b hab]; cases k' b <;> simp)

theorem simE_mono {σ τ : Type} {R Q : σ → τ → Prop} {x : Except PyErr σ} {y : Except PyErr τ}
    (h : simE R x y) (hq : ∀ a b, R a b → Q a b) : simE Q x y := by
  cases x <;> cases y <;> simp [simE] at h ⊢
  · exact h
  · exact hq _ _ h

/-- Two folds over the same list in lock-step. -/
theorem foldlM_simE {σ τ β : Type} (f : σ → β → Except PyErr σ) (g : τ → β → Except PyErr τ)
    (R : σ → τ → Prop) (xs : List β)
    (hstep : ∀ x ∈ xs, ∀ s t, R s t → simE R (f s x) (g t x)) :
    ∀ s t, R s t → simE R (xs.foldlM f s) (xs.foldlM g t) := by
  induction xs with
  | nil => intro s t h; exact h
  | cons x xs ih =>
    intro s t h
    simp only [List.foldlM_cons]
    exact simE_bind (hstep x (by simp) s t h) (fun a b hab => ih (fun y hy => hstep y (by simp [hy])) a b hab)

/-! ### the list value built by `x = []; x.append(..)` -/

/-- The literal `[]` is `dlist []`; after the first `append` of a float the value is a `list`. -/
def lv (acc : List α) : V α :=
  match acc with
  | [] => .dlist []
  | _ :: _ => .list acc

omit [Val α] in
@[simp] theorem asList_lv (acc : List α) : asList (lv acc) = some acc := by
  cases acc <;> rfl

omit [Val α] in
@[simp] theorem asList_list (l : List α) : asList (.list l) = some l := rfl

omit [Val α] in
theorem lv_nil : (lv [] : V α) = .dlist [] := rfl

omit [Val α] in
@[simp] theorem appendV_lv (acc : List α) (x : α) : appendV (lv acc) (.num x) = .ok (lv (acc ++ [x])) := by
  cases acc <;> rfl

omit [Val α] in
@[simp] theorem appendV_list (l : List α) (x : α) : appendV (.list l) (.num x) = .ok (.list (l ++ [x])) := rfl

omit [Val α] in
@[simp] theorem appendV_deque (c : Nat) (l : List α) (x : α) :
    appendV (.deque c l) (.num x) = .ok (.deque c (dqAppend c l x)) := rfl

/-! ### one-step equations of the list statements -/

theorem exec_appendLoc (x : String) (e : E) (env : Env α) :
    exec (.appendLoc x e) env = (evalE env e >>= fun v => getKey x env.loc >>= fun t =>
      appendV t v >>= fun t' => .ok { env with loc := setKey x t' env.loc }) := rfl

theorem exec_reverseLoc (x : String) (env : Env α) :
    exec (.reverseLoc x) env = (getKey x env.loc >>= fun t =>
      match asList t with
      | some l => .ok { env with loc := setKey x (.list l.reverse) env.loc }
      | none => .error .type) := rfl

theorem exec_insertLoc (x : String) (pos e : E) (env : Env α) :
    exec (.insertLoc x pos e) env = (getKey x env.loc >>= fun t => evalE env pos >>= fun p =>
      evalE env e >>= fun v =>
      match asList t, p, v with
      | some l, .int 0, .num v => .ok { env with loc := setKey x (.list (v :: l)) env.loc }
      | _, _, _ => .error .type) := rfl

theorem exec_ite (c : E) (t e : S) (env : Env α) :
    exec (.ite c t e) env = (evalE env c >>= fun v =>
      match v with
      | .bool true => exec t env
      | .bool false => exec e env
      | _ => .error .type) := rfl

theorem exec_ite_true {c : E} {t e : S} {env : Env α} (h : evalE env c = .ok (.bool true)) :
    exec (.ite c t e) env = exec t env := by
  rw [exec_ite, h]; rfl

theorem exec_ite_false {c : E} {t e : S} {env : Env α} (h : evalE env c = .ok (.bool false)) :
    exec (.ite c t e) env = exec e env := by
  rw [exec_ite, h]; rfl

theorem exec_raise (k : PyErr) (env : Env α) : exec (.raise k) env = .error k := rfl

theorem exec_forIn {x : String} {it : E} {body : S} {env : Env α} {v : V α} {l : List α}
    (hit : evalE env it = .ok v) (hv : asList v = some l) :
    exec (.forIn x it body) env =
      l.foldlM (fun env v => exec body { env with loc := setKey x (.num v) env.loc }) env := by
  simp [exec, hit, hv, ok_bind]

theorem exec_for {i : String} {lo hi : E} {body : S} {env : Env α} (a : Nat) (hb : Int)
    (hlo : evalE env lo = .ok (.int a)) (hhi : evalE env hi = .ok (.int hb)) :
    exec (.for_ i lo hi body) env =
      (List.range' a (hb - a).toNat).foldlM
        (fun env k => exec body { env with loc := setKey i (.int (k : Nat)) env.loc }) env := by
  have hneg : ¬ ((a : Int) < 0) := by omega
  simp [exec, hlo, hhi, ok_bind, hneg]

theorem exec_forDown {i : String} {lo hi : E} {body : S} {env : Env α} (a b : Int)
    (hhi : evalE env hi = .ok (.int a)) (hlo : evalE env lo = .ok (.int b)) :
    exec (.forDown i hi lo body) env =
      ((List.range (a - b).toNat).map (fun (j : Nat) => a - (j : Int))).foldlM
        (fun env k => exec body { env with loc := setKey i (.int k) env.loc }) env := by
  simp [exec, hlo, hhi, ok_bind]

/-! ### loops against a fold of the mirror -/

theorem sim_forIn {τ : Type} (R : Env α → τ → Prop) (g : τ → α → Except PyErr τ) (t : τ) (l : List α)
    {x : String} {it : E} {body : S} {env : Env α} {v : V α}
    (hit : evalE env it = .ok v) (hv : asList v = some l) (h0 : R env t)
    (hstep : ∀ y ∈ l, ∀ s t, R s t →
      simE R (exec body { s with loc := setKey x (.num y) s.loc }) (g t y)) :
    simE R (exec (.forIn x it body) env) (l.foldlM g t) := by
  rw [exec_forIn hit hv]
  exact foldlM_simE _ g R l hstep env t h0

/-- Two folds over the same range in lock-step, the relation indexed by the position. -/
theorem foldlM_range_simE {σ τ : Type} (f : σ → Nat → Except PyErr σ) (g : τ → Nat → Except PyErr τ)
    (R : Nat → σ → τ → Prop) :
    ∀ (n a : Nat) (s : σ) (t : τ), R a s t →
      (∀ k, a ≤ k → k < a + n → ∀ s t, R k s t → simE (R (k + 1)) (f s k) (g t k)) →
      simE (R (a + n)) ((List.range' a n).foldlM f s) ((List.range' a n).foldlM g t) := by
  intro n
  induction n with
  | zero => intro a s t h0 _; exact h0
  | succ n ih =>
    intro a s t h0 hstep
    simp only [List.range'_succ, List.foldlM_cons]
    refine simE_bind (hstep a (Nat.le_refl _) (by omega) s t h0) (fun s1 t1 h1 => ?_)
    have : a + (n + 1) = a + 1 + n := by omega
    rw [this]
    exact ih (a + 1) s1 t1 h1 (fun k hk1 hk2 => hstep k (by omega) (by omega))

theorem sim_for {τ : Type} (R : Nat → Env α → τ → Prop) (g : τ → Nat → Except PyErr τ) (t : τ)
    (a n : Nat) (hb : Int) {i : String} {lo hi : E} {body : S} {env : Env α}
    (hlo : evalE env lo = .ok (.int a)) (hhi : evalE env hi = .ok (.int hb))
    (hn : (hb - a).toNat = n) (h0 : R a env t)
    (hstep : ∀ k, a ≤ k → k < a + n → ∀ s t, R k s t →
      simE (R (k + 1)) (exec body { s with loc := setKey i (.int (k : Nat)) s.loc }) (g t k)) :
    simE (R (a + n)) (exec (.for_ i lo hi body) env) ((List.range' a n).foldlM g t) := by
  rw [exec_for a hb hlo hhi, hn]
  exact foldlM_range_simE _ g R n a env t h0 hstep

/-- `for i in range(n - 1, -1, -1)`: the mirror folds over `n-1, …, 0`. -/
theorem sim_forDown {τ : Type} (R : Env α → τ → Prop) (g : τ → Nat → Except PyErr τ) (t : τ)
    (n : Nat) {i : String} {lo hi : E} {body : S} {env : Env α}
    (hhi : evalE env hi = .ok (.int ((n : Int) - 1))) (hlo : evalE env lo = .ok (.int (-1)))
    (h0 : R env t)
    (hstep : ∀ k, k < n → ∀ s t, R s t →
      simE R (exec body { s with loc := setKey i (.int (k : Nat)) s.loc }) (g t k)) :
    simE R (exec (.forDown i hi lo body) env) ((List.range n).reverse.foldlM g t) := by
  rw [exec_forDown _ _ hhi hlo]
  have h1 : ((n : Int) - 1 - -1).toNat = n := by omega
  rw [h1]
  have h2 : (List.range n).reverse = (List.range n).map (fun j => n - 1 - j) := by
    apply List.ext_getElem
    · simp
    · intro k hk1 hk2
      simp at hk1
      simp [List.getElem_reverse]
  rw [h2, List.foldlM_map, List.foldlM_map]
  refine foldlM_simE _ _ R _ (fun j hj => ?_) env t h0
  have hj' : j < n := by simpa using hj
  intro s t hst
  have h3 : ((n : Int) - 1 - (j : Int)) = ((n - 1 - j : Nat) : Int) := by omega
  simp only [h3]
  exact hstep _ (by omega) s t hst

/-! ### comprehensions -/

theorem mapM_congr {β γ : Type} {f g : β → Except PyErr γ} {l : List β} (h : ∀ x ∈ l, f x = g x) :
    l.mapM f = l.mapM g := by
  induction l with
  | nil => rfl
  | cons x xs ih =>
    simp only [List.mapM_cons]
    rw [h x (by simp), ih (fun y hy => h y (by simp [hy]))]

theorem mapM_ok {β γ : Type} (f : β → γ) (l : List β) :
    l.mapM (fun x => (Except.ok (f x) : Except PyErr γ)) = .ok (l.map f) := by
  induction l with
  | nil => rfl
  | cons x xs ih => simp only [List.mapM_cons, ih]; rfl

omit [Val α] in
theorem mapM_numOf_num {β : Type} (f : β → α) (l : List β) :
    l.mapM (fun p => numOf (V.num (f p))) = .ok (l.map f) := mapM_ok f l

omit [Val α] in
theorem map_zip_eq_zipWith (f : α → α → α) (l r : List α) :
    (l.zip r).map (fun p => f p.1 p.2) = List.zipWith f l r := by
  simp [List.zip_eq_zipWith, List.map_zipWith]

omit [Val α] in
theorem mapM_numOf {β : Type} (g : β → Except PyErr α) (l : List β) :
    l.mapM (fun x => (g x).map V.num >>= numOf) = l.mapM g := by
  apply mapM_congr
  intro x _
  cases g x <;> rfl

/-- `[body for x in range(lo, hi)]` with a body that may raise. -/
theorem evalE_compRange {body : E} {x : String} {lo hi : E} {env : Env α} (a : Nat) (hb : Int)
    (g : Nat → Except PyErr α)
    (hlo : evalE env lo = .ok (.int a)) (hhi : evalE env hi = .ok (.int hb))
    (hbody : ∀ k, a ≤ k → k < a + (hb - a).toNat →
      evalE { env with loc := setKey x (.int (k : Nat)) env.loc } body = (g k).map V.num) :
    evalE env (.compRange body x lo hi) = ((List.range' a (hb - a).toNat).mapM g).map V.list := by
  have hneg : ¬ ((a : Int) < 0) := by omega
  have : (List.range' a (hb - a).toNat).mapM
      (fun k => do numOf (← evalE { env with loc := setKey x (.int (k : Nat)) env.loc } body))
      = (List.range' a (hb - a).toNat).mapM g := by
    rw [← mapM_numOf g]
    apply mapM_congr
    intro k hk
    have := List.mem_range'_1.mp hk
    rw [hbody k this.1 this.2]
  simp only [evalE, hlo, hhi, ok_bind, hneg, if_false, Int.toNat_natCast]
  rw [this]
  cases (List.range' a (hb - a).toNat).mapM g <;> rfl

/-- `[c for x in range(0, n)]` with a constant body. -/
theorem evalE_compRange_const {body : E} {x : String} {lo hi : E} {env : Env α} (hb : Int) (c : α)
    (hlo : evalE env lo = .ok (.int 0)) (hhi : evalE env hi = .ok (.int hb))
    (hbody : ∀ k : Nat, evalE { env with loc := setKey x (.int (k : Nat)) env.loc } body = .ok (.num c)) :
    evalE env (.compRange body x lo hi) = .ok (.list (List.replicate hb.toNat c)) := by
  rw [evalE_compRange 0 hb (fun _ => .ok c) hlo hhi (fun k _ _ => by rw [hbody k]; rfl)]
  rw [mapM_ok]
  simp [Except.map, List.map_const']

/-- `[body for x in l]` with a total body. -/
theorem evalE_compList {body it : E} {x : String} {env : Env α} {v : V α} (l : List α) (f : α → α)
    (hit : evalE env it = .ok v) (hv : asList v = some l)
    (hbody : ∀ y, evalE { env with loc := setKey x (.num y) env.loc } body = .ok (.num (f y))) :
    evalE env (.compList body x it) = .ok (.list (l.map f)) := by
  have : l.mapM (fun y => do numOf (← evalE { env with loc := setKey x (.num y) env.loc } body))
      = .ok (l.map f) := by
    rw [← mapM_ok]
    apply mapM_congr
    intro y _
    rw [hbody y]; rfl
  simp only [evalE, hit, hv, ok_bind]
  rw [this]; rfl

/-- `[body for x, y in zip(a, b)]` with a total body. -/
theorem evalE_compZip {body ea eb : E} {x y : String} {env : Env α} {va vb : V α} (l r : List α)
    (f : α → α → α)
    (ha : evalE env ea = .ok va) (hva : asList va = some l)
    (hb : evalE env eb = .ok vb) (hvb : asList vb = some r)
    (hbody : ∀ p q, evalE { env with loc := setKey y (.num q) (setKey x (.num p) env.loc) } body
      = .ok (.num (f p q))) :
    evalE env (.compZip body x y ea eb) = .ok (.list (List.zipWith f l r)) := by
  have : (l.zip r).mapM (fun p => do
      numOf (← evalE { env with loc := setKey y (.num p.2) (setKey x (.num p.1) env.loc) } body))
      = .ok ((l.zip r).map (fun p => f p.1 p.2)) := by
    rw [← mapM_ok]
    apply mapM_congr
    intro p _
    rw [hbody p.1 p.2]; rfl
  simp only [evalE, ha, hva, hb, hvb, ok_bind]
  rw [this]
  simp [List.zip_eq_zipWith, List.map_zipWith, ok_bind, pure, Except.pure]


/-! ### the operators on the values that occur (instead of unfolding the large `match` of `evalBin`) -/

theorem coerce_int_int (x y : Int) : coerce (α := α) (.int x) (.int y) = (.int x, .int y) := by
  unfold coerce; split <;> simp_all

theorem evalBin_add_num (x y : α) : evalBin .add (.num x) (.num y) = .ok (.num (Val.add x y)) := rfl
theorem evalBin_sub_num (x y : α) : evalBin .sub (.num x) (.num y) = .ok (.num (Val.sub x y)) := rfl
theorem evalBin_mul_num (x y : α) : evalBin .mul (.num x) (.num y) = .ok (.num (Val.mul x y)) := rfl
theorem evalBin_div_num (x y : α) : evalBin .div (.num x) (.num y) = .ok (.num (Val.div x y)) := rfl
theorem evalBin_pow_num (x y : α) : evalBin .pow (.num x) (.num y) = .ok (.num (Val.pow x y)) := rfl
theorem evalBin_log_num (x y : α) : evalBin .log (.num x) (.num y) = .ok (.num (Val.log x y)) := rfl
theorem evalBin_min_num (x y : α) : evalBin .min (.num x) (.num y) = .ok (.num (pmin x y)) := rfl
theorem evalBin_max_num (x y : α) : evalBin .max (.num x) (.num y) = .ok (.num (pmax x y)) := rfl
theorem evalBin_add_int (x y : Int) : evalBin (α := α) .add (.int x) (.int y) = .ok (.int (x + y)) := by
  unfold evalBin; rw [coerce_int_int]
theorem evalBin_sub_int (x y : Int) : evalBin (α := α) .sub (.int x) (.int y) = .ok (.int (x - y)) := by
  unfold evalBin; rw [coerce_int_int]
theorem evalBin_le_int (x y : Int) : evalBin (α := α) .le (.int x) (.int y) = .ok (.bool (decide (x ≤ y))) := by
  unfold evalBin; rw [coerce_int_int]
theorem evalBin_eq_cmp (x y : Cmp) : evalBin (α := α) .eq (.cmp x) (.cmp y) = .ok (.bool (decide (x = y))) := rfl
theorem evalBin_or_bool (x y : Bool) : evalBin (α := α) .or (.bool x) (.bool y) = .ok (.bool (x || y)) := rfl
theorem evalBin_add_list (x y : List α) : evalBin .add (.list x) (.list y) = .ok (.list (x ++ y)) := rfl

theorem evalUn_neg_num (x : α) : evalUn .neg (.num x) = .ok (.num (Val.neg x)) := rfl
theorem evalUn_neg_int (n : Int) : evalUn (α := α) .neg (.int n) = .ok (.int (-n)) := rfl
theorem evalUn_abs_num (x : α) : evalUn .abs (.num x) = .ok (.num (Val.abs x)) := rfl
theorem evalUn_sqrt_num (x : α) : evalUn .sqrt (.num x) = .ok (.num (Val.sqrt x)) := rfl
theorem evalUn_exp_num (x : α) : evalUn .exp (.num x) = .ok (.num (Val.exp x)) := rfl
theorem evalUn_ln_num (x : α) : evalUn .ln (.num x) = .ok (.num (Val.ln x)) := rfl
theorem evalUn_truthy_none : evalUn (α := α) .truthy .none = .ok (.bool false) := rfl

omit [Val α] in
theorem evalIdx_list (l : List α) (k : Nat) : evalIdx (.list l) (.int k) = (idx l k).map .num := by
  simp [evalIdx, natCast_lt_zero]
omit [Val α] in
theorem evalIdx_deque (c : Nat) (l : List α) (k : Nat) : evalIdx (.deque c l) (.int k) = (idx l k).map .num := by
  simp [evalIdx, natCast_lt_zero]


/-! ### one-step equations of the expressions (comprehensions excluded: they have their own lemmas) -/

theorem evalE_loc (env : Env α) (x : String) : evalE env (.loc x) = getKey x env.loc := rfl
theorem evalE_pinf (env : Env α) : evalE env .pinf = .ok (.num Val.pinf) := rfl
theorem evalE_ninf (env : Env α) : evalE env .ninf = .ok (.num Val.ninf) := rfl
theorem evalE_int (env : Env α) (n : Int) : evalE env (.int n) = .ok (.int n) := rfl
theorem evalE_cmpc (env : Env α) (c : Cmp) : evalE env (.cmpc c) = .ok (.cmp c) := rfl
theorem evalE_emptyList (env : Env α) : evalE env .emptyList = .ok (.dlist []) := rfl
theorem evalE_noneLit (env : Env α) : evalE env .noneLit = .ok .none := rfl
theorem evalE_un (env : Env α) (op : UnOp) (e : E) : evalE env (.un op e) = (evalE env e >>= evalUn op) := rfl
theorem evalE_bin (env : Env α) (op : BinOp) (a b : E) :
    evalE env (.bin op a b) = (evalE env a >>= fun x => evalE env b >>= fun y => evalBin op x y) := rfl
theorem evalE_idx (env : Env α) (e i : E) :
    evalE env (.idx e i) = (evalE env e >>= fun x => evalE env i >>= fun k => evalIdx x k) := rfl

/-- `len(v)` -/
def lenV : V α → Except PyErr (V α)
  | .deque _ l => .ok (.int l.length)
  | .str u => .ok (.int u.length)
  | .rlist l => .ok (.int l.length)
  | .ivs l => .ok (.int l.length)
  | v => match asList v with
         | some l => .ok (.int l.length)
         | none => .error .type

theorem evalE_len (env : Env α) (e : E) : evalE env (.len e) = (evalE env e >>= lenV) := by
  simp only [evalE]; rfl
omit [Val α] in
theorem lenV_list (l : List α) : lenV (.list l) = .ok (.int l.length) := rfl
omit [Val α] in
theorem lenV_deque (c : Nat) (l : List α) : lenV (.deque c l) = .ok (.int l.length) := rfl

/-- `v[i:j]` -/
def sliceV : V α → V α → V α → Except PyErr (V α)
  | v, i, j => match asList v, i, j with
    | some l, .int i, .int j => .ok (.list (pySlice l i (some j)))
    | some l, .int i, .none => .ok (.list (pySlice l i none))
    | _, _, _ => .error .type

theorem evalE_slice (env : Env α) (e lo hi : E) :
    evalE env (.slice e lo hi) = (evalE env e >>= fun v => evalE env lo >>= fun i => evalE env hi >>= fun j =>
      sliceV v i j) := by
  simp only [evalE, sliceV]; rfl
omit [Val α] in
theorem sliceV_list_int (l : List α) (i j : Int) :
    sliceV (.list l) (.int i) (.int j) = .ok (.list (pySlice l i (some j))) := rfl
omit [Val α] in
theorem sliceV_list_none (l : List α) (i : Int) :
    sliceV (.list l) (.int i) .none = .ok (.list (pySlice l i none)) := rfl

/-- `[x] * n` -/
def repV : V α → V α → Except PyErr (V α)
  | .num x, .int k => .ok (.list (List.replicate k.toNat x))
  | _, _ => .error .type

theorem evalE_rep (env : Env α) (e n : E) :
    evalE env (.rep e n) = (evalE env e >>= fun x => evalE env n >>= fun k => repV x k) := by
  simp only [evalE]; rfl
omit [Val α] in
theorem repV_num_int (x : α) (k : Int) : repV (.num x) (.int k) = .ok (.list (List.replicate k.toNat x)) := rfl

/-- `max(v)` / `min(v)` -/
def aggV (isMax : Bool) (v : V α) : Except PyErr (V α) :=
  match asList v with
  | some l => (if isMax then pymax l else pymin l).map .num
  | none => .error .type

theorem evalE_agg (env : Env α) (isMax : Bool) (e : E) : evalE env (.agg isMax e) = (evalE env e >>= aggV isMax) := by
  simp only [evalE]; rfl
theorem aggV_true (l : List α) : aggV true (.list l) = (pymax l).map .num := rfl
theorem aggV_false (l : List α) : aggV false (.list l) = (pymin l).map .num := rfl

/-- `reversed(v)` -/
def reversedV (v : V α) : Except PyErr (V α) :=
  match asList v with
  | some l => .ok (.list l.reverse)
  | none => .error .type

theorem evalE_reversed (env : Env α) (e : E) : evalE env (.reversed e) = (evalE env e >>= reversedV) := by
  simp only [evalE]; rfl
omit [Val α] in
theorem reversedV_list (l : List α) : reversedV (.list l) = .ok (.list l.reverse) := rfl

/-- `collections.deque(maxlen=n)` -/
def newDequeV : V α → Except PyErr (V α)
  | .int n => if n < 0 then .error .value else .ok (.deque n.toNat [])
  | _ => .error .type

theorem evalE_newDeque (env : Env α) (e : E) : evalE env (.newDeque e) = (evalE env e >>= newDequeV) := by
  simp only [evalE]; rfl
omit [Val α] in
theorem newDequeV_nat (n : Nat) : newDequeV (α := α) (.int n) = .ok (.deque n []) := by
  simp [newDequeV, natCast_lt_zero]
omit [Val α] in
theorem newDequeV_succ (n : Nat) : newDequeV (α := α) (.int ((n : Int) + 1)) = .ok (.deque (n + 1) []) := by
  simp [newDequeV, natCast_succ_lt_zero]

/-! ### calling a translated visit method -/

/-- The value a visit method returns. -/
def retList (v : V α) : Except PyErr (List α) :=
  match asList v with
  | some l => .ok l
  | none => .error .type

omit [Val α] in
@[simp] theorem retList_lv (acc : List α) : retList (lv acc) = .ok acc := by simp [retList]
omit [Val α] in
@[simp] theorem retList_list (acc : List α) : retList (.list acc) = .ok acc := rfl

def ivStore : Option (Nat × Nat) → Store α
  | some (a, b) => [("begin", .int a), ("end", .int b)]
  | none => []

theorem callOn_eq (m : OffMethod) (kids : List (List α)) (iv : Option (Nat × Nat)) (extra : Store α) (e : E)
    (hret : m.ret = some e) (hk : kids.length = m.kids.length) (hiv : m.interval = iv.isSome) :
    callOn m kids iv extra =
      (exec m.body { self := [], loc := m.kids.zip (kids.map V.list) ++ ivStore iv ++ extra } >>= fun env =>
        evalE env e >>= retList) := by
  have h1 : (kids.take m.kids.length) = kids := by rw [← hk]; simp
  have h2 : (if m.interval then iv else none) = iv := by
    cases iv <;> simp_all
  unfold callOn callOff
  rw [h1, h2]
  simp only [hk, hiv, ne_eq, not_true_eq_false, if_false, hret]
  cases iv with
  | none => rfl
  | some p => obtain ⟨a, b⟩ := p; rfl

/-- Evaluation of straight-line code of the offline visitor. -/
macro "off_step" "[" ls:Lean.Parser.Tactic.simpLemma,* "]" : tactic =>
  `(tactic| simp [exec_skip, exec_seq, exec_setLoc, exec_appendLoc, exec_reverseLoc, exec_insertLoc, exec_ite_true,
      exec_ite_false, exec_raise, ok_bind, error_bind,
      evalE_loc, evalE_pinf, evalE_ninf, evalE_int, evalE_cmpc, evalE_emptyList, evalE_noneLit, evalE_un, evalE_bin,
      evalE_idx, evalE_len, lenV_list, lenV_deque, evalE_slice, sliceV_list_int, sliceV_list_none, evalE_rep, repV_num_int,
      evalE_agg, aggV_true, aggV_false, evalE_reversed, reversedV_list, evalE_newDeque, newDequeV_nat, newDequeV_succ,
      evalBin_add_num, evalBin_sub_num, evalBin_mul_num, evalBin_div_num, evalBin_pow_num, evalBin_log_num,
      evalBin_min_num, evalBin_max_num, evalBin_add_int, evalBin_sub_int, evalBin_le_int, evalBin_eq_cmp,
      evalBin_or_bool, evalBin_add_list, evalUn_neg_num, evalUn_neg_int, evalUn_abs_num, evalUn_sqrt_num,
      evalUn_exp_num, evalUn_ln_num, evalUn_truthy_none, evalIdx_list, evalIdx_deque,
      getKey_nil, getKey_cons_same, getKey_cons_ne, getKey_setKey_same, getKey_setKey_ne,
      pure, Except.pure, Except.map, ivStore, $ls,*])

/-- The same without unfolding the operators (for lemmas generic in the operator). -/
macro "off_core" "[" ls:Lean.Parser.Tactic.simpLemma,* "]" : tactic =>
  `(tactic| simp [exec_skip, exec_seq, exec_setLoc, exec_appendLoc, exec_reverseLoc, exec_insertLoc, exec_ite_true,
      exec_ite_false, exec_raise, evalIdx_list, evalIdx_deque, ok_bind, error_bind,
      evalE_loc, evalE_pinf, evalE_ninf, evalE_int, evalE_cmpc, evalE_emptyList, evalE_noneLit, evalE_un, evalE_bin,
      evalE_idx, evalE_len, lenV_list, lenV_deque, evalE_slice, sliceV_list_int, sliceV_list_none, evalE_rep, repV_num_int,
      evalE_agg, aggV_true, aggV_false, evalE_reversed, reversedV_list, evalE_newDeque, newDequeV_nat, newDequeV_succ,
      getKey_nil, getKey_cons_same, getKey_cons_ne, getKey_setKey_same, getKey_setKey_ne,
      pure, Except.pure, Except.map, ivStore, $ls,*])

/-! ### pure facts about the mirror folds -/

/-- A loop `p = init; for x in l: append (out p x); p = nxt p x`. -/
def scanG {π β : Type} (out : π → β → α) (nxt : π → β → π) : π → List β → List α
  | _, [] => []
  | p, x :: xs => out p x :: scanG out nxt (nxt p x) xs

omit [Val α] in
theorem foldlM_scanG {π β ρ : Type} (out : π → β → α) (nxt : π → β → π) (k : List α → Except PyErr ρ)
    (l : List β) (acc : List α) (p : π) :
    (l.foldlM (fun (t : List α × π) x => (Except.ok (t.1 ++ [out t.2 x], nxt t.2 x) : Except PyErr _)) (acc, p)
      >>= fun t => k t.1) = k (acc ++ scanG out nxt p l) := by
  induction l generalizing acc p with
  | nil => simp [scanG, pure, Except.pure, ok_bind]
  | cons x xs ih => simp [List.foldlM_cons, ok_bind, ih, scanG]

omit [Val α] in
theorem scanG_map {β : Type} (f : β → α) (l : List β) (p : Unit) :
    scanG (fun _ x => f x) (fun _ _ => ()) p l = l.map f := by
  induction l with
  | nil => rfl
  | cons x xs ih => simp [scanG, ih]

omit [Val α] in
theorem scanG_scanFwd (f : α → α → α) (init : α) (l : List α) :
    scanG (fun p x => f x p) (fun p x => f x p) init l = scanFwd f init l := by
  induction l generalizing init with
  | nil => rfl
  | cons x xs ih => simp [scanG, scanFwd, ih]

omit [Val α] in
theorem scanG_shiftFwd (init : α) (l : List α) :
    scanG (fun p _ => p) (fun _ x => x) init l = shiftFwd init l := by
  induction l generalizing init with
  | nil => rfl
  | cons x xs ih => simp [scanG, shiftFwd, ih]

theorem scanG_scan2 (init : α) (l : List (α × α)) :
    scanG (fun p x => sinceStep p x) (fun p x => sinceStep p x) init l = scan2 init l := by
  induction l generalizing init with
  | nil => rfl
  | cons x xs ih => simp [scanG, scan2, ih]

omit [Val α] in
theorem idx_cons_succ (x : α) (xs : List α) (k : Nat) : idx (x :: xs) (k + 1) = idx xs k := by
  simp [idx]

omit [Val α] in
/-- `for i in range(len(l)): .. l[i] .. r[i] ..`: a fold over `zip(l, r)`, then `IndexError` if `r` is shorter. -/
theorem foldlM_idx2 {τ : Type} (h : τ → α → α → Except PyErr τ) (l r : List α) (t0 : τ) :
    (List.range' 0 l.length).foldlM (fun t k => idx l k >>= fun a => idx r k >>= fun b => h t a b) t0
      = ((l.zip r).foldlM (fun t p => h t p.1 p.2) t0 >>= fun t =>
          if l.length ≤ r.length then .ok t else .error .index) := by
  induction l generalizing r t0 with
  | nil => simp [pure, Except.pure, ok_bind]
  | cons x xs ih =>
    have hshift : List.range' 1 xs.length = (List.range' 0 xs.length).map (· + 1) := by
      simp [List.range'_eq_map_range, Nat.add_comm]
    cases r with
    | nil => simp [List.range'_succ, List.foldlM_cons, idx, ok_bind, error_bind, pure, Except.pure]
    | cons y ys =>
      simp only [List.length_cons, List.range'_succ, List.foldlM_cons, List.zip_cons_cons]
      have h0 : idx (x :: xs) 0 = .ok x := rfl
      have h0' : idx (y :: ys) 0 = .ok y := rfl
      rw [h0, h0']
      simp only [ok_bind]
      cases h t0 x y with
      | error e => simp [error_bind]
      | ok t1 =>
        simp only [ok_bind, Nat.zero_add]
        rw [hshift, List.foldlM_map]
        simp only [idx_cons_succ]
        rw [ih]
        simp


omit [Val α] in
theorem idx_lt (l : List α) (k : Nat) (h : k < l.length) : idx l k = .ok l[k] := by
  simp [idx, List.getElem?_eq_getElem h]

omit [Val α] in
theorem idx_ge (l : List α) (k : Nat) (h : l.length ≤ k) : idx l k = .error .index := by
  simp [idx, List.getElem?_eq_none h]

omit [Val α] in
theorem foldlM_idx2_rev_aux {τ : Type} (h : τ → α → α → Except PyErr τ) (l r : List α) :
    ∀ n, n ≤ l.length → n ≤ r.length → ∀ t0,
    (List.range n).reverse.foldlM (fun t k => idx l k >>= fun a => idx r k >>= fun b => h t a b) t0
      = ((l.zip r).take n).reverse.foldlM (fun t p => h t p.1 p.2) t0 := by
  intro n
  induction n with
  | zero => intro _ _ t0; simp
  | succ n ih =>
    intro hl hr t0
    have hz : n < (l.zip r).length := by simp; omega
    rw [List.range_succ, List.reverse_append, List.take_succ_eq_append_getElem hz, List.reverse_append]
    simp only [List.reverse_cons, List.reverse_nil, List.nil_append, List.singleton_append, List.foldlM_cons]
    have h1 : idx l n = .ok l[n] := idx_lt l n (by omega)
    have h2 : idx r n = .ok r[n] := idx_lt r n (by omega)
    rw [h1, h2]
    simp only [ok_bind, List.getElem_zip]
    cases h t0 l[n] r[n] with
    | error e => rfl
    | ok t1 => simp only [ok_bind]; exact ih (by omega) (by omega) t1

omit [Val α] in
/-- `for i in range(len(l) - 1, -1, -1): .. l[i] .. r[i] ..` -/
theorem foldlM_idx2_rev {τ : Type} (h : τ → α → α → Except PyErr τ) (l r : List α) (t0 : τ) :
    (List.range l.length).reverse.foldlM (fun t k => idx l k >>= fun a => idx r k >>= fun b => h t a b) t0
      = if l.length ≤ r.length then (l.zip r).reverse.foldlM (fun t p => h t p.1 p.2) t0
        else .error .index := by
  split
  · rename_i hle
    rw [foldlM_idx2_rev_aux h l r l.length (Nat.le_refl _) hle t0]
    have : (l.zip r).take l.length = l.zip r := by
      apply List.take_of_length_le; simp; omega
    rw [this]
  · rename_i hgt
    cases hn : l.length with
    | zero => omega
    | succ n =>
      rw [List.range_succ, List.reverse_append]
      simp only [List.reverse_cons, List.reverse_nil, List.nil_append, List.singleton_append, List.foldlM_cons]
      have h1 : idx l n = .ok l[n] := idx_lt l n (by omega)
      have h2 : idx r n = .error .index := idx_ge r n (by omega)
      rw [h1, h2]; rfl


/-! ### slices -/

omit [Val α] in
theorem pySlice_dropLast (l : List α) : pySlice l 0 (some (-1)) = l.dropLast := by
  simp only [pySlice, sliceIdx]
  have h1 : ((l.length : Int) + -1).toNat = l.length - 1 := by omega
  simp [h1, List.dropLast_eq_take]

omit [Val α] in
theorem pySlice_tail (l : List α) : pySlice l 1 none = l.drop 1 := by
  simp only [pySlice, sliceIdx]
  cases l with
  | nil => simp
  | cons x xs => simp

omit [Val α] in
theorem pySlice_take (l : List α) (n : Nat) : pySlice l 0 (some (n : Int)) = l.take n := by
  simp only [pySlice, sliceIdx]
  simp [natCast_lt_zero, List.take_eq_take_iff]

omit [Val α] in
/-- Python's clamping of slice bounds does not change `l[i:j]` for non-negative bounds. -/
theorem pySlice_nat (l : List α) (i j : Int) (hi : 0 ≤ i) (hj : 0 ≤ j) :
    pySlice l i (some j) = slice l i.toNat j.toNat := by
  have h1 : ¬ i < 0 := by omega
  have h2 : ¬ j < 0 := by omega
  simp only [pySlice, sliceIdx, slice, h1, h2, if_false]
  generalize i.toNat = a
  generalize j.toNat = b
  rcases Nat.lt_or_ge a l.length with ha | ha
  · rw [Nat.min_eq_left (Nat.le_of_lt ha)]
    rcases Nat.lt_or_ge b l.length with hb | hb
    · rw [Nat.min_eq_left (Nat.le_of_lt hb)]
    · rw [Nat.min_eq_right hb, List.take_of_length_le (by simp), List.take_of_length_le (by simp; omega)]
  · rw [Nat.min_eq_right ha, List.drop_eq_nil_of_le (Nat.le_refl _), List.drop_eq_nil_of_le ha]
    simp

end Rtamt.Py
