/-
  The functions of `rtamt/explanation/ltl/discrete_time/explanations.py`, as translated from the source
  (`Rtamt/Py/GeneratedExpl.lean`), compute the interval lists of the mirror (`Rtamt/Discrete/Explain.lean`):
  part B - the one-operand scans of the unbounded temporal operators.
-/
import RtamtProofs.GenExplDefs
import RtamtProofs.GenOffLemmas

namespace Rtamt.Py
open Rtamt Val

variable {α : Type} [Val α]

namespace ScanB

/-! ### one-step equations (`id rfl`: proper rewrite rules, see `GenUnits.lean`) -/

theorem xb_ok_bind {ε σ ρ : Type} (a : σ) (f : σ → Except ε ρ) : (Except.ok a >>= f) = f a := id rfl
theorem xb_exec_skip (env : Env α) : exec .skip env = .ok env := id rfl
theorem xb_exec_seq (a b : S) (env : Env α) : exec (.seq a b) env = (exec a env >>= exec b) := id rfl
theorem xb_exec_setLoc (x : String) (e : E) (env : Env α) :
    exec (.setLoc x e) env = (evalE env e >>= fun v => .ok { env with loc := setKey x v env.loc }) := id rfl
theorem xb_exec_appendLoc (x : String) (e : E) (env : Env α) :
    exec (.appendLoc x e) env = (evalE env e >>= fun v => getKey x env.loc >>= fun t =>
      appendV t v >>= fun t' => .ok { env with loc := setKey x t' env.loc }) := id rfl
theorem xb_exec_ite (c : E) (t e : S) (env : Env α) :
    exec (.ite c t e) env = (evalE env c >>= fun v =>
      match v with
      | .bool true => exec t env
      | .bool false => exec e env
      | _ => .error .type) := id rfl
theorem xb_exec_unpack (a b : String) (e : E) (env : Env α) :
    exec (.unpack a b e) env = (evalE env e >>= fun v =>
      match v with
      | .pair x y => .ok { env with loc := setKey b y (setKey a x env.loc) }
      | _ => .error .type) := id rfl

theorem xb_evalE_loc (env : Env α) (x : String) : evalE env (.loc x) = getKey x env.loc := id rfl
theorem xb_evalE_int (env : Env α) (n : Int) : evalE env (.int n) = .ok (.int n) := id rfl
theorem xb_evalE_emptyList (env : Env α) : evalE env .emptyList = .ok (.dlist []) := id rfl
theorem xb_evalE_un (env : Env α) (op : UnOp) (e : E) : evalE env (.un op e) = (evalE env e >>= evalUn op) := id rfl
theorem xb_evalE_bin (env : Env α) (op : BinOp) (a b : E) :
    evalE env (.bin op a b) = (evalE env a >>= fun x => evalE env b >>= fun y => evalBin op x y) := id rfl
theorem xb_evalE_idx (env : Env α) (e i : E) :
    evalE env (.idx e i) = (evalE env e >>= fun x => evalE env i >>= fun k => evalIdx x k) := id rfl
theorem xb_evalE_tuple (env : Env α) (a b : E) :
    evalE env (.tuple a b) = (evalE env a >>= fun x => evalE env b >>= fun y => .ok (.pair x y)) := id rfl
theorem xb_evalE_ifExp (env : Env α) (c a b : E) :
    evalE env (.ifExp c a b) = (evalE env c >>= fun v =>
      match v with
      | .bool true => evalE env a
      | .bool false => evalE env b
      | _ => .error .type) := id rfl

theorem xb_evalBin_eq_int (x y : Int) : evalBin (α := α) .eq (.int x) (.int y) = .ok (.bool (decide (x = y))) := by
  unfold evalBin; rw [coerce_int_int]

theorem xb_false (env : Env α) : evalE env (.bin .eq (.int 0) (.int 1)) = .ok (.bool false) := by
  rw [xb_evalE_bin, xb_evalE_int, xb_evalE_int, xb_ok_bind, xb_ok_bind, xb_evalBin_eq_int]; rfl
theorem xb_true (env : Env α) : evalE env (.bin .eq (.int 0) (.int 0)) = .ok (.bool true) := by
  rw [xb_evalE_bin, xb_evalE_int, xb_ok_bind, xb_ok_bind, xb_evalBin_eq_int]; rfl

omit [Val α] in
theorem appendV_encZ (l : IvsZ) (a b : Int) :
    appendV (α := α) (encZ l) (.pair (.int a) (.int b)) = .ok (encZ (l ++ [(a, b)])) := by
  cases l <;> simp [encZ, appendV]

/-! ### the scan `for i in range(lo, hi)` with the state machine -/

/-- The body of the scan; `cOn` starts a run, `cOff` ends it. -/
def scanBody (cOn cOff : E) : S :=
  .ite (.ifExp (.un .not (.un .truthy (.loc "state"))) cOn (.bin .eq (.int 0) (.int 1)))
    (.seq (.setLoc "state" (.bin .eq (.int 0) (.int 0))) (.setLoc "start" (.loc "i")))
    (.ite (.ifExp (.un .truthy (.loc "state")) cOff (.bin .eq (.int 0) (.int 1)))
      (.seq (.setLoc "state" (.bin .eq (.int 0) (.int 1)))
        (.appendLoc "op_intervals" (.tuple (.loc "start") (.bin .sub (.loc "i") (.int 1))))) .skip)

/-- The variables the scan does not touch keep their values. -/
def Frame (l l' : Store α) : Prop :=
  ∀ x : String, x ≠ "state" → x ≠ "start" → x ≠ "op_intervals" → x ≠ "i" → getKey x l' = getKey x l

omit [Val α] in
theorem Frame.refl (l : Store α) : Frame l l := fun _ _ _ _ _ => rfl
omit [Val α] in
theorem Frame.trans {l l' l'' : Store α} (h1 : Frame l l') (h2 : Frame l' l'') : Frame l l'' :=
  fun x a b c d => (h2 x a b c d).trans (h1 x a b c d)

/-- The local variables of the scan. -/
structure ScanSt (loc : Store α) (s : List α) (st : Bool) (start : Nat) (acc : IvsZ) : Prop where
  sig : getKey "op_signal" loc = .ok (.list s)
  state : getKey "state" loc = .ok (.bool st)
  start : st = true → getKey "start" loc = .ok (.int (start : Nat))
  acc : getKey "op_intervals" loc = .ok (encZ acc)

/-- `cOn` / `cOff` test `p` / `¬ p` on `op_signal[i]`. -/
def Tests (s : List α) (p : α → Bool) (c : E) : Prop :=
  ∀ (env : Env α) (k : Nat), getKey "op_signal" env.loc = .ok (.list s) → getKey "i" env.loc = .ok (.int (k : Nat)) →
    k < s.length → evalE env c = .ok (.bool (p (atL s k)))

theorem cond_notState (env : Env α) (st : Bool) (c : E) (h : getKey "state" env.loc = .ok (.bool st)) :
    evalE env (.ifExp (.un .not (.un .truthy (.loc "state"))) c (.bin .eq (.int 0) (.int 1)))
      = if st then .ok (.bool false) else evalE env c := by
  rw [xb_evalE_ifExp, xb_evalE_un, xb_evalE_un, xb_evalE_loc, h, xb_ok_bind]
  cases st
  · rw [show evalUn (α := α) .truthy (.bool false) = .ok (.bool false) from rfl, xb_ok_bind,
      show evalUn (α := α) .not (.bool false) = .ok (.bool true) from rfl, xb_ok_bind]; rfl
  · rw [show evalUn (α := α) .truthy (.bool true) = .ok (.bool true) from rfl, xb_ok_bind,
      show evalUn (α := α) .not (.bool true) = .ok (.bool false) from rfl, xb_ok_bind]
    exact xb_false env

theorem cond_state (env : Env α) (st : Bool) (c : E) (h : getKey "state" env.loc = .ok (.bool st)) :
    evalE env (.ifExp (.un .truthy (.loc "state")) c (.bin .eq (.int 0) (.int 1)))
      = if st then evalE env c else .ok (.bool false) := by
  rw [xb_evalE_ifExp, xb_evalE_un, xb_evalE_loc, h, xb_ok_bind]
  cases st
  · rw [show evalUn (α := α) .truthy (.bool false) = .ok (.bool false) from rfl, xb_ok_bind]; exact xb_false env
  · rw [show evalUn (α := α) .truthy (.bool true) = .ok (.bool true) from rfl, xb_ok_bind]; rfl

/-- `getKey` through the updates of the scan. -/
macro "scanb_gk" : tactic =>
  `(tactic| simp only [getKey_setKey_ne, getKey_setKey_same, ne_eq, String.reduceEq, not_false_eq_true, not_true_eq_false])

theorem scanBody_exec {s : List α} {p : α → Bool} {cOn cOff : E}
    (hOn : Tests s p cOn) (hOff : Tests s (fun x => !p x) cOff)
    (env : Env α) (k : Nat) (hk : k < s.length) (st : Bool) (start : Nat) (acc : IvsZ)
    (h : ScanSt env.loc s st start acc) (hi : getKey "i" env.loc = .ok (.int (k : Nat))) :
    ∃ env', exec (scanBody cOn cOff) env = .ok env' ∧
      env'.self = env.self ∧ Frame env.loc env'.loc ∧ getKey "i" env'.loc = .ok (.int (k : Nat)) ∧
      ScanSt env'.loc s (p (atL s k)) (if st then start else k)
        (if st && !p (atL s k) then acc ++ [((start : Int), (k : Int) - 1)] else acc) := by
  have hon := hOn env k h.sig hi hk
  have hoff : evalE env cOff = .ok (.bool (!p (atL s k))) := hOff env k h.sig hi hk
  unfold scanBody
  cases st with
  | false =>
    rw [xb_exec_ite, cond_notState env false _ h.state, if_neg (by simp), hon]
    cases hp : p (atL s k) with
    | true =>
      refine ⟨{ env with loc := setKey "start" (.int (k : Nat)) (setKey "state" (.bool true) env.loc) }, ?_, rfl, ?_, ?_, ?_⟩
      · simp only [xb_ok_bind, xb_exec_seq, xb_exec_setLoc, xb_true, xb_evalE_loc]
        rw [getKey_setKey_ne _ _ _ _ (by decide), hi, xb_ok_bind]
      · intro x h1 h2 h3 h4
        show getKey x (setKey _ _ (setKey _ _ _)) = _
        rw [getKey_setKey_ne _ _ _ _ h2, getKey_setKey_ne _ _ _ _ h1]
      · scanb_gk; exact hi
      · refine ⟨?_, ?_, ?_, ?_⟩
        · scanb_gk; exact h.sig
        · scanb_gk
        · intro _; scanb_gk; simp
        · scanb_gk; simpa using h.acc
    | false =>
      simp only [xb_ok_bind]
      rw [xb_exec_ite, cond_state env false _ h.state, if_neg (by simp)]
      simp only [xb_ok_bind, xb_exec_skip]
      refine ⟨env, rfl, rfl, Frame.refl _, hi, ?_⟩
      exact ⟨h.sig, h.state, by simp, by simpa using h.acc⟩
  | true =>
    rw [xb_exec_ite, cond_notState env true _ h.state, if_pos rfl]
    simp only [xb_ok_bind]
    rw [xb_exec_ite, cond_state env true _ h.state, if_pos rfl, hoff]
    have hstart := h.start rfl
    cases hp : p (atL s k) with
    | true =>
      simp only [xb_ok_bind, Bool.not_true, xb_exec_skip]
      refine ⟨env, rfl, rfl, Frame.refl _, hi, ?_⟩
      exact ⟨h.sig, h.state, fun _ => by simpa using hstart, by simpa using h.acc⟩
    | false =>
      refine ⟨{ env with loc := setKey "op_intervals" (encZ (acc ++ [((start : Int), (k : Int) - 1)])) (setKey "state" (.bool false) env.loc) }, ?_, rfl, ?_, ?_, ?_⟩
      · simp only [xb_ok_bind, Bool.not_false]
        rw [xb_exec_seq, xb_exec_setLoc, xb_false]
        simp only [xb_ok_bind, xb_exec_appendLoc, xb_evalE_tuple, xb_evalE_loc, xb_evalE_bin, xb_evalE_int]
        scanb_gk
        rw [hstart, hi, h.acc]
        simp only [xb_ok_bind, evalBin_sub_int, appendV_encZ]
      · intro x h1 h2 h3 h4
        show getKey x (setKey _ _ (setKey _ _ _)) = _
        rw [getKey_setKey_ne _ _ _ _ h3, getKey_setKey_ne _ _ _ _ h1]
      · scanb_gk; exact hi
      · refine ⟨?_, ?_, ?_, ?_⟩
        · scanb_gk; exact h.sig
        · scanb_gk
        · intro hf; cases hf
        · scanb_gk; simp

omit [Val α] in
theorem castI_cons (x : Nat × Nat) (l : Ivs) : castI (x :: l) = ((x.1 : Int), (x.2 : Int)) :: castI l := rfl
omit [Val α] in
theorem castI_nil : castI [] = [] := rfl

/-- The scan loop: the state machine of the Python code against `runsLoop`. -/
theorem scan_fold {s : List α} {p : α → Bool} {cOn cOff : E}
    (hOn : Tests s p cOn) (hOff : Tests s (fun x => !p x) cOff) (e : Nat) :
    ∀ (n i : Nat) (env : Env α) (st : Bool) (start : Nat) (acc : IvsZ),
      ScanSt env.loc s st start acc → (st = true → start < i) →
      (∀ k, i ≤ k → k < i + n → k < s.length) →
      ∃ env', (List.range' i n).foldlM
          (fun env k => exec (scanBody cOn cOff) { env with loc := setKey "i" (.int (k : Nat)) env.loc }) env = .ok env' ∧
        env'.self = env.self ∧ Frame env.loc env'.loc ∧
        ∃ (st' : Bool) (start' : Nat) (acc' : IvsZ), ScanSt env'.loc s st' start' acc' ∧
          acc' ++ (if st' then [((start' : Int), (e : Int))] else []) =
            acc ++ castI (runsLoop (fun i => p (atL s i)) e n i (if st then some start else none)) := by
  intro n
  induction n with
  | zero =>
    intro i env st start acc h _ _
    refine ⟨env, rfl, rfl, Frame.refl _, st, start, acc, h, ?_⟩
    cases st <;> simp [runsLoop, castI]
  | succ n ih =>
    intro i env st start acc h hlt hk
    have h1 : ScanSt ({ env with loc := setKey "i" (.int (i : Nat)) env.loc } : Env α).loc s st start acc :=
      ⟨by scanb_gk; exact h.sig, by scanb_gk; exact h.state, fun hs => by scanb_gk; exact h.start hs, by scanb_gk; exact h.acc⟩
    obtain ⟨env1, he1, hs1, hf1, _, hst1⟩ := scanBody_exec hOn hOff
      { env with loc := setKey "i" (.int (i : Nat)) env.loc } i (hk i (Nat.le_refl _) (by omega)) st start acc h1
      (getKey_setKey_same _ _ _)
    obtain ⟨env2, he2, hs2, hf2, st', start', acc', hst2, hacc⟩ := ih (i + 1) env1 _ _ _ hst1
      (by intro _; split
          · rename_i hs; have := hlt hs; omega
          · omega)
      (fun k a b => hk k (by omega) (by omega))
    refine ⟨env2, ?_, hs2.trans hs1, ?_, st', start', acc', hst2, ?_⟩
    · simp only [List.range'_succ, List.foldlM_cons]
      rw [he1]; exact he2
    · refine Frame.trans ?_ (Frame.trans hf1 hf2)
      intro x _ _ _ h4
      show getKey x (setKey _ _ _) = _
      rw [getKey_setKey_ne _ _ _ _ h4]
    · rw [hacc]
      cases st with
      | false =>
        cases hp : p (atL s i) <;> simp [runsLoop, hp]
      | true =>
        have hlt' := hlt rfl
        have hc : ((i - 1 : Nat) : Int) = (i : Int) - 1 := by omega
        cases hp : p (atL s i) <;> simp [runsLoop, hp, castI_cons, hc]

/-- `state = False; for i in range(lo, hi): ...; if state: op_intervals.append([start, last])`. -/
def scanTail (cOn cOff lo hi last : E) : S :=
  .seq (.setLoc "state" (.bin .eq (.int 0) (.int 1)))
    (.seq (.for_ "i" lo hi (scanBody cOn cOff))
      (.ite (.un .truthy (.loc "state")) (.appendLoc "op_intervals" (.tuple (.loc "start") last)) .skip))

theorem scanTail_exec {s : List α} {p : α → Bool} {cOn cOff : E}
    (hOn : Tests s p cOn) (hOff : Tests s (fun x => !p x) cOff) (lo hi last : E) (env : Env α) (b e : Nat) (hb : Int)
    (hsig : getKey "op_signal" env.loc = .ok (.list s))
    (hacc : getKey "op_intervals" env.loc = .ok (.dlist []))
    (hlo : ∀ env' : Env α, Frame env.loc env'.loc → evalE env' lo = .ok (.int (b : Nat)))
    (hhi : ∀ env' : Env α, Frame env.loc env'.loc → evalE env' hi = .ok (.int hb))
    (hlast : ∀ env' : Env α, Frame env.loc env'.loc → evalE env' last = .ok (.int (e : Nat)))
    (hn : (hb - (b : Nat)).toNat = e + 1 - b) (he : e < s.length) :
    ∃ env', exec (scanTail cOn cOff lo hi last) env = .ok env' ∧ env'.self = env.self ∧
      getKey "op_intervals" env'.loc = .ok (encI (runs (fun i => p (atL s i)) b e)) := by
  have hf0 : Frame env.loc ({ env with loc := setKey "state" (.bool false) env.loc } : Env α).loc := by
    intro x h1 _ _ _
    show getKey x (setKey _ _ _) = _
    rw [getKey_setKey_ne _ _ _ _ h1]
  have h0 : ScanSt ({ env with loc := setKey "state" (.bool false) env.loc } : Env α).loc s false 0 [] :=
    ⟨by scanb_gk; exact hsig, by scanb_gk, fun hs => (by cases hs), by scanb_gk; exact hacc⟩
  obtain ⟨env2, he2, hs2, hf2, st', start', acc', hst2, hacc2⟩ :=
    scan_fold hOn hOff e (e + 1 - b) b _ false 0 [] h0 (fun hs => by cases hs) (fun k _ _ => by omega)
  have hf : Frame env.loc env2.loc := Frame.trans hf0 hf2
  have hcond : evalE env2 (.un .truthy (.loc "state")) = .ok (.bool st') := by
    rw [xb_evalE_un, xb_evalE_loc, hst2.state, xb_ok_bind]; rfl
  have hloop : exec (.for_ "i" lo hi (scanBody cOn cOff)) { env with loc := setKey "state" (.bool false) env.loc } = .ok env2 := by
    rw [exec_for b hb (hlo _ hf0) (hhi _ hf0), hn]; exact he2
  have hres : acc' ++ (if st' then [((start' : Int), (e : Int))] else []) = castI (runs (fun i => p (atL s i)) b e) := by
    rw [hacc2]; simp [runs]
  unfold scanTail
  rw [xb_exec_seq, xb_exec_setLoc, xb_false, xb_ok_bind, xb_ok_bind, xb_exec_seq, hloop, xb_ok_bind, xb_exec_ite, hcond, xb_ok_bind]
  cases st' with
  | false =>
    refine ⟨env2, rfl, hs2, ?_⟩
    rw [hst2.acc, encI, ← hres]; simp
  | true =>
    refine ⟨{ env2 with loc := setKey "op_intervals" (encZ (acc' ++ [((start' : Int), (e : Int))])) env2.loc }, ?_, hs2, ?_⟩
    · simp only [xb_exec_appendLoc, xb_evalE_tuple, xb_evalE_loc]
      rw [hst2.start rfl, hlast _ hf, hst2.acc]
      simp only [xb_ok_bind, appendV_encZ]
    · scanb_gk
      rw [encI, ← hres]; simp

/-! ### the tests on `op_signal[i]` -/

theorem sigAt_eval {s : List α} (env : Env α) (k : Nat) (hsig : getKey "op_signal" env.loc = .ok (.list s))
    (hi : getKey "i" env.loc = .ok (.int (k : Nat))) (hk : k < s.length) :
    evalE env (.idx (.loc "op_signal") (.loc "i")) = .ok (.num (atL s k)) := by
  rw [xb_evalE_idx, xb_evalE_loc, xb_evalE_loc, hsig, hi, xb_ok_bind, xb_ok_bind, evalIdx_list]
  simp [idx, atL, hk, Except.map]

theorem evalBin_ge_num_zero (x : α) : evalBin .ge (.num x) (.int 0) = .ok (.bool (isSat x)) := by
  simp [evalBin, coerce, isSat]
theorem evalBin_lt_num_zero (x : α) : evalBin .lt (.num x) (.int 0) = .ok (.bool (isUnsat x)) := by
  simp [evalBin, coerce, isUnsat]

theorem tests_ge (s : List α) : Tests s isSat (.bin .ge (.idx (.loc "op_signal") (.loc "i")) (.int 0)) := by
  intro env k hsig hi hk
  rw [xb_evalE_bin, sigAt_eval env k hsig hi hk, xb_evalE_int, xb_ok_bind, xb_ok_bind, evalBin_ge_num_zero]

theorem tests_lt (s : List α) : Tests s isUnsat (.bin .lt (.idx (.loc "op_signal") (.loc "i")) (.int 0)) := by
  intro env k hsig hi hk
  rw [xb_evalE_bin, sigAt_eval env k hsig hi hk, xb_evalE_int, xb_ok_bind, xb_ok_bind, evalBin_lt_num_zero]

theorem tests_ge' (s : List α) : Tests s (fun x => !isUnsat x) (.bin .ge (.idx (.loc "op_signal") (.loc "i")) (.int 0)) :=
  tests_ge s

theorem tests_lt' (s : List α) : Tests s (fun x => !isSat x) (.bin .lt (.idx (.loc "op_signal") (.loc "i")) (.int 0)) := by
  have h : (fun x : α => !isSat x) = isUnsat := by funext x; simp [isSat, isUnsat]
  rw [h]; exact tests_lt s

/-! ### the four functions -/

/-- `getKey` on the parameter store and through updates. -/
macro "scanb_gk2" : tactic =>
  `(tactic| simp only [getKey_setKey_ne, getKey_setKey_same, getKey_cons_same, getKey_cons_ne, ne_eq, String.reduceEq,
      not_false_eq_true, not_true_eq_false])

/-- The shape shared by `explain_sat_eventually` and `explain_unsat_always`. -/
def evMethod (cOn cOff : E) : Method :=
  { params := ["op_signal", "intervals"],
    body := .seq (.setLoc "op_intervals" .emptyList)
      (.ite (.un .truthy (.loc "intervals"))
        (.seq (.unpack "begin" "end" (.idx (.loc "intervals") (.int 0)))
          (scanTail cOn cOff (.loc "begin") (.len (.loc "op_signal")) (.bin .sub (.len (.loc "op_signal")) (.int 1))))
        .skip),
    ret := some (.loc "op_intervals") }

/-- The shape shared by `explain_sat_once` and `explain_unsat_historically`. -/
def onceMethod (cOn cOff : E) : Method :=
  { params := ["op_signal", "intervals"],
    body := .seq (.setLoc "op_intervals" .emptyList)
      (.ite (.un .truthy (.loc "intervals"))
        (.seq (.unpack "begin" "end" (.idx (.loc "intervals") (.bin .sub (.len (.loc "intervals")) (.int 1))))
          (scanTail cOn cOff (.int 0) (.bin .add (.loc "end") (.int 1)) (.loc "end")))
        .skip),
    ret := some (.loc "op_intervals") }

theorem call_two (a b : String) (body : S) (r : E) (x y : V α) :
    call { params := [a, b], body := body, ret := some r } [] [x, y]
      = (exec body { self := [], loc := [(a, x), (b, y)] } >>= fun env => evalE env r >>= fun v => .ok (env.self, v)) := by
  rfl

omit [Val α] in
theorem encI_nil : (encI ([] : Ivs) : V α) = .dlist [] := rfl
omit [Val α] in
theorem encI_cons (q : Nat × Nat) (rest : Ivs) : (encI (q :: rest) : V α) = .ivs (castI (q :: rest)) := rfl

theorem truthy_dnil : evalUn (α := α) .truthy (.dlist []) = .ok (.bool false) := rfl
theorem truthy_ivs_cons (q : Int × Int) (l : IvsZ) : evalUn (α := α) .truthy (.ivs (q :: l)) = .ok (.bool true) := rfl

/-- The local variables after `begin, end = intervals[..]`. -/
abbrev locAfter (s : List α) (l : IvsZ) (b0 e0 : Int) : Store α :=
  setKey "end" (.int e0) (setKey "begin" (.int b0)
    (setKey "op_intervals" (.dlist []) [("op_signal", .list s), ("intervals", .ivs l)]))

theorem ev_generic {s : List α} {p : α → Bool} {cOn cOff : E}
    (hOn : Tests s p cOn) (hOff : Tests s (fun x => !p x) cOff) (hs : 0 < s.length) (I : Ivs) :
    call (α := α) (evMethod cOn cOff) [] [.list s, encI I]
      = .ok ([], encI (match firstBegin I with | some b => runs (fun i => p (atL s i)) b (s.length - 1) | none => [])) := by
  unfold evMethod
  rw [call_two, xb_exec_seq, xb_exec_setLoc, xb_evalE_emptyList, xb_ok_bind, xb_ok_bind, xb_exec_ite, xb_evalE_un, xb_evalE_loc]
  cases I with
  | nil =>
    scanb_gk2
    rw [encI_nil, xb_ok_bind, truthy_dnil, xb_ok_bind]
    dsimp only
    rw [xb_exec_skip, xb_ok_bind, xb_evalE_loc]
    scanb_gk2
    rw [xb_ok_bind]; rfl
  | cons q rest =>
    obtain ⟨b0, e0⟩ := q
    scanb_gk2
    rw [encI_cons, castI_cons, xb_ok_bind, truthy_ivs_cons, xb_ok_bind]
    dsimp only
    rw [xb_exec_seq, xb_exec_unpack, xb_evalE_idx, xb_evalE_loc, xb_evalE_int]
    scanb_gk2
    rw [xb_ok_bind, xb_ok_bind, show evalIdx (α := α) (.ivs (((b0 : Int), (e0 : Int)) :: castI rest)) (.int 0)
      = .ok (.pair (.int b0) (.int e0)) from rfl, xb_ok_bind]
    dsimp only
    rw [xb_ok_bind]
    obtain ⟨env', hex, hself, hres⟩ := scanTail_exec hOn hOff (.loc "begin") (.len (.loc "op_signal"))
      (.bin .sub (.len (.loc "op_signal")) (.int 1))
      ⟨[], locAfter s (((b0 : Int), (e0 : Int)) :: castI rest) b0 e0⟩ b0 (s.length - 1) (s.length : Int)
      (by scanb_gk2) (by scanb_gk2)
      (fun env' hf => by
        rw [xb_evalE_loc, hf "begin" (by decide) (by decide) (by decide) (by decide)]; scanb_gk2)
      (fun env' hf => by
        rw [evalE_len, xb_evalE_loc, hf "op_signal" (by decide) (by decide) (by decide) (by decide)]; scanb_gk2
        rw [xb_ok_bind, lenV_list])
      (fun env' hf => by
        rw [xb_evalE_bin, evalE_len, xb_evalE_loc, hf "op_signal" (by decide) (by decide) (by decide) (by decide)]; scanb_gk2
        rw [xb_ok_bind, lenV_list, xb_ok_bind, xb_evalE_int, xb_ok_bind, evalBin_sub_int]
        congr 2; omega)
      (by omega) (by omega)
    rw [hex, xb_ok_bind, xb_evalE_loc, hres, xb_ok_bind, hself]
    rfl

omit [Val α] in
theorem encI_ne {I : Ivs} (h : I ≠ []) : (encI I : V α) = .ivs (castI I) := by
  cases I with
  | nil => exact absurd rfl h
  | cons q r => rfl

theorem truthy_ivs (l : IvsZ) (h : l ≠ []) : evalUn (α := α) .truthy (.ivs l) = .ok (.bool true) := by
  cases l with
  | nil => exact absurd rfl h
  | cons q r => rfl

omit [Val α] in
theorem evalIdx_last (l : IvsZ) (q : Int × Int) (h : l.getLast? = some q) :
    evalIdx (α := α) (.ivs l) (.int ((l.length : Int) - 1)) = .ok (.pair (.int q.1) (.int q.2)) := by
  have hne : l ≠ [] := by rintro rfl; simp at h
  have hpos : 0 < l.length := List.length_pos_iff.2 hne
  have h1 : ¬ ((l.length : Int) - 1 < 0) := by omega
  have h2 : ((l.length : Int) - 1).toNat = l.length - 1 := by omega
  rw [List.getLast?_eq_getElem?] at h
  simp only [evalIdx, h1, if_false, h2, h]

theorem once_generic {s : List α} {p : α → Bool} {cOn cOff : E}
    (hOn : Tests s p cOn) (hOff : Tests s (fun x => !p x) cOff) (I : Ivs) (h : InRange s.length I) :
    call (α := α) (onceMethod cOn cOff) [] [.list s, encI I]
      = .ok ([], encI (match lastEnd I with | some e => runs (fun i => p (atL s i)) 0 e | none => [])) := by
  unfold onceMethod
  rw [call_two, xb_exec_seq, xb_exec_setLoc, xb_evalE_emptyList, xb_ok_bind, xb_ok_bind, xb_exec_ite, xb_evalE_un, xb_evalE_loc]
  cases hI : I.getLast? with
  | none =>
    have : I = [] := by simpa using hI
    subst this
    scanb_gk2
    rw [encI_nil, xb_ok_bind, truthy_dnil, xb_ok_bind]
    dsimp only
    rw [xb_exec_skip, xb_ok_bind, xb_evalE_loc]
    scanb_gk2
    rw [xb_ok_bind]; rfl
  | some q =>
    obtain ⟨b0, e0⟩ := q
    have hne : I ≠ [] := by rintro rfl; simp at hI
    have hne' : castI I ≠ [] := by simpa [castI] using hne
    have hlast : (castI I).getLast? = some ((b0 : Int), (e0 : Int)) := by
      simp [castI, List.getLast?_map, hI]
    have he0 : e0 < s.length := h (b0, e0) (List.mem_of_getLast? hI)
    have hle : lastEnd I = some e0 := by simp [lastEnd, hI]
    scanb_gk2
    rw [encI_ne hne, xb_ok_bind, truthy_ivs _ hne', xb_ok_bind]
    dsimp only
    rw [xb_exec_seq, xb_exec_unpack, xb_evalE_idx, xb_evalE_loc, xb_evalE_bin, evalE_len, xb_evalE_loc, xb_evalE_int]
    scanb_gk2
    rw [xb_ok_bind, xb_ok_bind, show lenV (α := α) (.ivs (castI I)) = .ok (.int (castI I).length) from rfl,
      xb_ok_bind, xb_ok_bind, evalBin_sub_int, xb_ok_bind, evalIdx_last _ _ hlast, xb_ok_bind]
    dsimp only
    rw [xb_ok_bind]
    obtain ⟨env', hex, hself, hres⟩ := scanTail_exec hOn hOff (.int 0) (.bin .add (.loc "end") (.int 1)) (.loc "end")
      ⟨[], locAfter s (castI I) b0 e0⟩ 0 e0 ((e0 : Int) + 1)
      (by scanb_gk2) (by scanb_gk2)
      (fun env' hf => by rw [xb_evalE_int]; rfl)
      (fun env' hf => by
        rw [xb_evalE_bin, xb_evalE_loc, hf "end" (by decide) (by decide) (by decide) (by decide)]; scanb_gk2
        rw [xb_ok_bind, xb_evalE_int, xb_ok_bind, evalBin_add_int])
      (fun env' hf => by
        rw [xb_evalE_loc, hf "end" (by decide) (by decide) (by decide) (by decide)]; scanb_gk2)
      (by omega) he0
    rw [hex, xb_ok_bind, xb_evalE_loc, hres, xb_ok_bind, hself, hle]

end ScanB

open ScanB

/-- `explain_sat_eventually`: the runs of satisfaction from the begin of the first interval to the end of the signal. -/
theorem fn_sat_eventually (s : List α) (hs : 0 < s.length) (I : Ivs) :
    call (α := α) Gen.Expl.ltl_explain_sat_eventually [] [.list s, encI I]
      = .ok ([], encI (match firstBegin I with | some b => runs (fun i => isSat (atL s i)) b (s.length - 1) | none => [])) :=
  ev_generic (tests_ge s) (tests_lt' s) hs I

theorem fn_unsat_always (s : List α) (hs : 0 < s.length) (I : Ivs) :
    call (α := α) Gen.Expl.ltl_explain_unsat_always [] [.list s, encI I]
      = .ok ([], encI (match firstBegin I with | some b => runs (fun i => isUnsat (atL s i)) b (s.length - 1) | none => [])) :=
  ev_generic (tests_lt s) (tests_ge' s) hs I

/-- `explain_sat_once`: the runs of satisfaction from 0 to the end of the last interval. -/
theorem fn_sat_once (s : List α) (I : Ivs) (h : InRange s.length I) :
    call (α := α) Gen.Expl.ltl_explain_sat_once [] [.list s, encI I]
      = .ok ([], encI (match lastEnd I with | some e => runs (fun i => isSat (atL s i)) 0 e | none => [])) :=
  once_generic (tests_ge s) (tests_lt' s) I h

theorem fn_unsat_historically (s : List α) (I : Ivs) (h : InRange s.length I) :
    call (α := α) Gen.Expl.ltl_explain_unsat_historically [] [.list s, encI I]
      = .ok ([], encI (match lastEnd I with | some e => runs (fun i => isUnsat (atL s i)) 0 e | none => [])) :=
  once_generic (tests_lt s) (tests_ge' s) I h

end Rtamt.Py
