/-
  C12 — Named sub-formula values are the robustness of that sub-formula.

  "After evaluate() or update(), get_value(v) of an input variable returns the data
   supplied for it, and get_value(n) of every assertion or sub-specification name n
   returns exactly the result that evaluating the formula bound to n as a stand-alone
   specification … on the same data yields: the whole signal offline, with one value per
   sample in discrete time, and the current value online."

  `get_value(n)` reads `ast.results[node bound to n]`.  Offline the table is filled by
  `visit()` with the value list of every node (= `evalOff` of that node's formula); online it
  is the memo of the update visitor (`runProgram`, C09).
-/
import RtamtProofs.C09
import RtamtProofs.C01Table

set_option linter.unusedSectionVars false

namespace Rtamt
open Val

variable {α : Type} [Val α] [DecidableEq α] [LawfulVal α]

/-- Online: at every update `j`, the results table holds, for every assertion of the
    specification and every operator sub-formula `ψ` of it, the value that a stand-alone monitor
    of `ψ` returns at its `j`-th update, namely `rho ψ` at sample `j`. -/
theorem C12_online_get_value (h r : Kind → Bool) (specs : List (F α)) (σ : String → Nat → α) (n : Nat)
    (hon : ∀ φ ∈ specs, φ.online = true ∧ φ.wf = true)
    (hh : ∀ φ ∈ specs, ∀ k ∈ φ.kinds, k ≠ .Constant → (h k = true ∧ r k = false))
    (φ : F α) (hφ : φ ∈ specs) (ψ : F α) (hψ : ψ ∈ φ.opSubs) :
    ∃ rounds, runProgram h r specs (envs σ n) = .ok rounds ∧ rounds.length = n ∧
      ∀ j (hj : j < rounds.length),
        (rounds[j]).2.lookup ψ = some (rho σ n ψ j) ∧
        runOnline h r ψ (envs σ n) = .ok (tab n (rho σ n ψ)) := by
  obtain ⟨rounds, hrun, hlen, hall⟩ := C09_program_eq_rho h r specs σ n hon hh
  refine ⟨rounds, hrun, hlen, fun j hj => ⟨(hall j hj).2 φ hφ ψ hψ, ?_⟩⟩
  have hsub := C09.opSubs_online hψ (hon φ hφ).1
  have hwf := C09.opSubs_wf hψ (hon φ hφ).2
  exact C02_run_eq_rho h r σ n ψ hsub hwf
    (fun k hk hc => hh φ hφ k (C09.opSubs_kinds hψ k hk) hc)

/-- Offline: the entry of the results table for any node `ψ` of the specification is the whole
    robustness signal of `ψ`, one value per sample. -/
theorem C12_offline_get_value (w : Env α) (σ : String → Nat → α) (n : Nat) (hn : 0 < n) (ψ : F α)
    (hwf : ψ.wf = true) (hp : ψ.noPrecedes) (hw : w.Agrees σ n ψ.vars) :
    evalOff Generated.offlineDiscrete.handles w n ψ = .ok (tab n (rho σ n ψ)) ∧
      (tab n (rho σ n ψ)).length = n :=
  ⟨C01_current_tree w σ n hn ψ hwf hp hw, by simp⟩

/-- Input variables: the value list supplied for `x` is what the visitor returns for the node `x`. -/
theorem C12_input_variable (w : Env α) (n : Nat) (x : String) (l : List α) (hl : w.lookup x = some l) :
    evalOff Generated.offlineDiscrete.handles w n (.var x) = .ok l := by
  simp [evalOff, Env.get, hl, Generated.offlineDiscrete.handles]

end Rtamt
