/-
  The translated online `intersection` (`Gen.DenseOn.fn_intersection`: early return, the initial `last`, the 13-case `while`
  loop that also maintains `last`, the remainders, one of the two tail loops with `break`) computes what the mirror
  `Rtamt.Dense.AlgOn.interOn` (`onLoop`, `tail1`, `tail2`) computes - the 4-tuple, and the `RTAMTException` of the last
  `else` - for all inputs; the methods handed to `intersection`.
-/
import RtamtProofs.GenDenseOnBase

namespace Rtamt.Py.DnOn.GOnInter
open Rtamt Val Rtamt.Dense Rtamt.Dense.Alg Rtamt.Dense.AlgOn Rtamt.Py.DnOn

set_option linter.unusedSectionVars false
set_option linter.unusedVariables false
set_option linter.unusedSimpArgs false

variable {α : Type} [Val α]

/-! ### a structured copy of the generated body (checked by `rfl` against the generated term) -/

def tE (x : String) : E := .idx (.loc x) (.int 0)
def aLt (x y : String) : E := .bin .lt (tE x) (tE y)
def aEq (x y : String) : E := .bin .eq (tE x) (tE y)
def aGt (x y : String) : E := .bin .gt (tE x) (tE y)
def and3 (a b c : E) : E := .and_ a (.and_ b c)

def sDel1 : S := .delIdx "in_samples_1" (.int 0)
def sDel2 : S := .delIdx "in_samples_2" (.int 0)
def sPrev1 : S := .setLoc "prev_in_sample_1" (.loc "current_in_sample_1")
def sPrev2 : S := .setLoc "prev_in_sample_2" (.loc "current_in_sample_2")
def sAdv1 : S := .seq sDel1 sPrev1
def sAdv2 : S := .seq sDel2 sPrev2

def sOutVal : S :=
  .setLoc "out_value" (.call2 "method" (.idx (.loc "prev_in_sample_1") (.int 1)) (.idx (.loc "prev_in_sample_2") (.int 1)))

/-- the inlined `_append(out_samples, item)` -/
def sAppendE (item : E) : S :=
  .seq (.setLoc "_append$item" item)
    (.ite (.not (.loc "out_samples")) (.appendLoc "out_samples" (.loc "_append$item"))
      (.seq (.setLoc "_append$prev_item" (.idx (.loc "out_samples") (.neg (.int 1))))
        (.ite (.bin .ne (.idx (.loc "_append$prev_item") (.int 1)) (.idx (.loc "_append$item") (.int 1)))
          (.appendLoc "out_samples" (.loc "_append$item")) .skip)))

def outItem (src : String) : E := .list2 (.idx (.loc src) (.int 0)) (.loc "out_value")

/-- `last_val = method(a[1], b[1])` -/
def sLastVal (a b : String) : S := .setLoc "last_val" (.call2 "method" (.idx (.loc a) (.int 1)) (.idx (.loc b) (.int 1)))
/-- `last = [s[0], last_val]` -/
def sSetLast (s : String) : S := .setLoc "last" (.list2 (.idx (.loc s) (.int 0)) (.loc "last_val"))

def sCase1 : S := .seq sDel1 (.seq sPrev1 (.setLoc "last" .emptyList))
def sCase2 : S := .seq sDel1 (.seq sPrev1 (.seq (sLastVal "current_in_sample_1" "prev_in_sample_2") (sSetLast "prev_in_sample_2")))
def sCase11 : S := .seq (sLastVal "prev_in_sample_1" "current_in_sample_2") (.seq (sSetLast "current_in_sample_2") sAdv2)
def sFull (osrc la lb ls : String) (adv : S) : S :=
  .seq sOutVal (.seq (sAppendE (outItem osrc)) (.seq (sLastVal la lb) (.seq (sSetLast ls) adv)))

local notation "P1" => "prev_in_sample_1"
local notation "P2" => "prev_in_sample_2"
local notation "C1" => "current_in_sample_1"
local notation "C2" => "current_in_sample_2"

def interChain : S :=
  .ite (aLt C1 P2) sCase1
  (.ite (and3 (aLt P1 C1) (aEq C1 P2) (aLt P2 C2)) sCase2
  (.ite (and3 (aLt P1 P2) (aLt P2 C1) (aLt C1 C2)) (sFull P2 C1 P2 C1 sAdv1)
  (.ite (and3 (aLt P1 P2) (aLt P2 C1) (aEq C1 C2)) (sFull P2 C1 C2 C2 sAdv1)
  (.ite (and3 (aLt P2 P1) (aLt P1 C1) (aEq C1 C2)) (sFull P1 C1 C2 C2 sAdv1)
  (.ite (and3 (aLt P1 P2) (aLt P2 C2) (aLt C2 C1)) (sFull P2 P1 C2 C2 sAdv2)
  (.ite (and3 (aEq P1 P2) (aLt P2 C2) (aLt C2 C1)) (sFull P2 P1 C2 C2 sAdv2)
  (.ite (and3 (aEq P1 P2) (aLt P2 C2) (aEq C2 C1)) (sFull P2 C1 C2 C2 sAdv1)
  (.ite (and3 (aEq P1 P2) (aLt P2 C1) (aLt C1 C2)) (sFull P1 C1 P2 C1 sAdv1)
  (.ite (and3 (aLt P2 P1) (aLt P1 C1) (aLt C1 C2)) (sFull P1 C1 P2 C1 sAdv1)
  (.ite (and3 (aLt P2 C2) (aEq C2 P1) (aLt P1 C1)) sCase11
  (.ite (and3 (aLt P2 P1) (aLt P1 C2) (aLt C2 C1)) (sFull P1 P1 C2 C2 sAdv2)
  (.ite (aGt P1 C2) sAdv2
  (.raise .rtamt)))))))))))))

def sCur1 : S := .setLoc "current_in_sample_1" (.idx (.loc "in_samples_1") (.int 1))
def sCur2 : S := .setLoc "current_in_sample_2" (.idx (.loc "in_samples_2") (.int 1))

def interBody : S := .seq sCur1 (.seq sCur2 interChain)

def interCond : E := .and_ (.sliceFrom (.loc "in_samples_1") 1) (.sliceFrom (.loc "in_samples_2") 1)

def sEarly : S :=
  .ite (.or_ (.bin .eq (.call1 "len" (.loc "in_samples_1")) (.int 0)) (.bin .eq (.call1 "len" (.loc "in_samples_2")) (.int 0)))
    (.ret (.tup4 (.loc "out_samples") (.loc "last") (.loc "in_samples_1") (.loc "in_samples_2"))) .skip

def sInitLast : S :=
  .ite (aEq P1 P2)
    (.seq (.setLoc "out_val" (.call2 "method" (.idx (.loc P1) (.int 1)) (.idx (.loc P2) (.int 1))))
      (.setLoc "last" (.list2 (.idx (.loc P1) (.int 0)) (.loc "out_val")))) .skip

/-- the item appended in the tail loops is `last` itself -/
def sTailEmit (adv : S) : S := .seq (sAppendE (.loc "last")) adv

def tailChain1 : S :=
  .ite (aGt P1 P2) .brk
  (.ite (aEq P1 P2) (.seq (sLastVal P1 P2) (.seq (sSetLast P2) .brk))
  (.ite (.and_ (aLt P1 P2) (aLt P2 C1)) (.seq (sLastVal P1 P2) (.seq (sSetLast P2) (sTailEmit sAdv1)))
  (.ite (.and_ (aLt P1 P2) (aEq P2 C1)) (.seq (sLastVal C1 P2) (.seq (sSetLast P2) (sTailEmit sAdv1)))
  (.ite (aGt P2 C1) (.seq (.setLoc "last" .emptyList) sAdv1) .skip))))

def tailChain2 : S :=
  .ite (aGt P2 P1) .brk
  (.ite (aEq P2 P1) (.seq (sLastVal P1 P2) (.seq (sSetLast P1) .brk))
  (.ite (.and_ (aLt P2 P1) (aLt P1 C2)) (.seq (sLastVal P1 P2) (.seq (sSetLast P1) (sTailEmit sAdv2)))
  (.ite (.and_ (aLt P2 P1) (aEq P1 C2)) (.seq (sLastVal P1 C2) (.seq (sSetLast P1) (sTailEmit sAdv2)))
  (.ite (aGt P1 C2) (.seq (.setLoc "last" .emptyList) sAdv2) .skip))))

def tailBody1 : S := .seq sCur1 tailChain1
def tailBody2 : S := .seq sCur2 tailChain2

def tailCond1 : E := .sliceFrom (.loc "in_samples_1") 1
def tailCond2 : E := .sliceFrom (.loc "in_samples_2") 1

def sTails : S :=
  .ite (.bin .gt (.call1 "len" (.loc "in_samples_1")) (.int 1)) (.while_ tailCond1 tailBody1)
    (.ite (.bin .gt (.call1 "len" (.loc "in_samples_2")) (.int 1)) (.while_ tailCond2 tailBody2) .skip)

def sRet : S := .ret (.tup4 (.loc "out_samples") (.loc "last") (.loc "remainder_samples_1") (.loc "remainder_samples_2"))

def sRem1 : S := .setLoc "remainder_samples_1" (.call1 "list" (.loc "in_samples_1"))
def sRem2 : S := .setLoc "remainder_samples_2" (.call1 "list" (.loc "in_samples_2"))

def interRest : S :=
  .seq (.setLoc P1 (.idx (.loc "in_samples_1") (.int 0)))
    (.seq (.setLoc P2 (.idx (.loc "in_samples_2") (.int 0)))
      (.seq sInitLast
        (.seq (.while_ interCond interBody)
          (.seq sRem1 (.seq sRem2 (.seq sTails sRet))))))

theorem fn_intersection_body : Gen.DenseOn.fn_intersection.body =
    .seq (.setLoc "in_samples_1" (.call1 "list" (.loc "in_samples_1")))
      (.seq (.setLoc "in_samples_2" (.call1 "list" (.loc "in_samples_2")))
        (.seq (.setLoc "out_samples" .emptyList) (.seq (.setLoc "last" .emptyList) (.seq sEarly interRest)))) := rfl

theorem fn_intersection_isMethod : Gen.DenseOn.fn_intersection.isMethod = false := rfl

theorem fn_intersection_params : Gen.DenseOn.fn_intersection.params = ["in_samples_1", "in_samples_2", "method"] := rfl


/-! ### time stamps -/

theorem tm_tri (a b : Tm) (h1 : Tm.lt b a = false) (h2 : (a == b) = false) : Tm.lt a b = true := by
  cases a <;> cases b <;> simp_all [Tm.lt]
  rename_i x y
  exact Rat.lt_of_le_of_ne (Rat.not_lt.mp h1) h2

theorem xt_beq (a b : Tm) : (XT.t a == XT.t b) = (a == b) := by
  cases h : (a == b)
  · have h1 : a ≠ b := by simpa using h
    have h2 : XT.t a ≠ XT.t b := fun e => h1 (XT.t.inj e)
    simpa using h2
  · have h1 : a = b := by simpa using h
    subst h1; simp

/-! ### statements -/

section stmts
variable (call : Call α) (fuel : Nat)

theorem exec_seq_ok {a b : S} {env env' : Env α} (h : exec call fuel a env = .ok (env', .none)) :
    exec call fuel (.seq a b) env = exec call fuel b env' := by
  simp [exec, h]

theorem exec_seq_err {a b : S} {env : Env α} {e : PyErr} (h : exec call fuel a env = .error e) :
    exec call fuel (.seq a b) env = .error e := by
  simp [exec, h]

theorem exec_seq_ret {a b : S} {env env' : Env α} {v : DV α} (h : exec call fuel a env = .ok (env', .ret v)) :
    exec call fuel (.seq a b) env = .ok (env', .ret v) := by
  simp [exec, h]

theorem exec_seq_brk {a b : S} {env env' : Env α} (h : exec call fuel a env = .ok (env', .brk)) :
    exec call fuel (.seq a b) env = .ok (env', .brk) := by
  simp [exec, h]

theorem exec_setLoc {x : String} {e : E} {env : Env α} {v : DV α} (h : evalE call env e = .ok v) :
    exec call fuel (.setLoc x e) env = .ok (setLoc x v env, .none) := by
  simp [exec, h]

theorem exec_ite_bool {c : E} {t e : S} {env : Env α} {b : Bool} (h : evalE call env c = .ok (.bool b)) :
    exec call fuel (.ite c t e) env = if b then exec call fuel t env else exec call fuel e env := by
  cases b <;> simp [exec, h, truthy]

theorem exec_while (c : E) (b : S) (env : Env α) :
    exec call fuel (.while_ c b) env =
      whileLoop (fun env => do truthy (← evalE call env c)) (exec call fuel b) fuel env := by
  rw [exec]

theorem resolve_of_getLoc {env : Env α} {f g : String} (h : getLoc f env = .ok (.fn g)) : resolve env f = g := by
  unfold getLoc at h
  unfold resolve
  cases hl : env.lookup f with
  | none => rw [hl] at h; cases h
  | some v => rw [hl] at h; cases h; rfl

theorem resolve_of_key {env : Env α} {f : String} (h : getLoc f env = .error .key) : resolve env f = f := by
  unfold getLoc at h
  unfold resolve
  cases hl : env.lookup f with
  | none => rfl
  | some v => rw [hl] at h; cases h

theorem evalIdx_last (l : List (DV α)) (x : DV α) : evalIdx (.list (l ++ [x])) (.int (-1)) = .ok x := by
  simp [evalIdx, pyIndex]

theorem evalIdx_smp0 (t : Tm) (p : DV α) : evalIdx (.smp t p) (.int 0) = .ok (.tm t) := by
  simp [evalIdx, pyIndex]

theorem evalIdx_smp1 (t : Tm) (p : DV α) : evalIdx (.smp t p) (.int 1) = .ok p := by
  simp [evalIdx, pyIndex]

theorem evalIdx_cons0 (a : DV α) (l : List (DV α)) : evalIdx (.list (a :: l)) (.int 0) = .ok a := by
  simp [evalIdx, pyIndex]

theorem evalIdx_cons1 (a b : DV α) (l : List (DV α)) : evalIdx (.list (a :: b :: l)) (.int 1) = .ok b := by
  simp [evalIdx, pyIndex]

theorem evalE_tE {env : Env α} {x : String} {t : Tm} {p : DV α} (h : getLoc x env = .ok (.smp t p)) :
    evalE call env (tE x) = .ok (.tm t) := by
  simp [tE, evalE, h, evalIdx, pyIndex]

theorem evalE_aLt {env : Env α} {x y : String} {t u : Tm} {p q : DV α} (hx : getLoc x env = .ok (.smp t p))
    (hy : getLoc y env = .ok (.smp u q)) : evalE call env (aLt x y) = .ok (.bool (Tm.lt t u)) := by
  simp [aLt, evalE, evalE_tE call hx, evalE_tE call hy, evalBin, isCmp, cmpDV, isTimeLike, toXT, toTm, cmpXT, XT.lt,
    Except.map]

theorem evalE_aEq {env : Env α} {x y : String} {t u : Tm} {p q : DV α} (hx : getLoc x env = .ok (.smp t p))
    (hy : getLoc y env = .ok (.smp u q)) : evalE call env (aEq x y) = .ok (.bool (t == u)) := by
  simp [aEq, evalE, evalE_tE call hx, evalE_tE call hy, evalBin, isCmp, cmpDV, isTimeLike, toXT, toTm, cmpXT,
    Except.map, xt_beq]

theorem evalE_aGt {env : Env α} {x y : String} {t u : Tm} {p q : DV α} (hx : getLoc x env = .ok (.smp t p))
    (hy : getLoc y env = .ok (.smp u q)) : evalE call env (aGt x y) = .ok (.bool (Tm.lt u t)) := by
  simp [aGt, evalE, evalE_tE call hx, evalE_tE call hy, evalBin, isCmp, cmpDV, isTimeLike, toXT, toTm, cmpXT, XT.lt,
    Except.map]

theorem evalE_and3 {env : Env α} {a b c : E} {A B C : Bool} (ha : evalE call env a = .ok (.bool A))
    (hb : evalE call env b = .ok (.bool B)) (hc : evalE call env c = .ok (.bool C)) :
    evalE call env (and3 a b c) = .ok (.bool (A && B && C)) := by
  cases A <;> cases B <;> simp [and3, evalE, ha, hb, hc, truthy]

theorem evalE_and2 {env : Env α} {a b : E} {A B : Bool} (ha : evalE call env a = .ok (.bool A))
    (hb : evalE call env b = .ok (.bool B)) :
    evalE call env (.and_ a b) = .ok (.bool (A && B)) := by
  cases A <;> simp [evalE, ha, hb, truthy]

end stmts


/-! ### the decision of one iteration of the main loop -/

/-- The 13 cases by the shape of their bodies.  `full e la lb ls a`: a sample is written at `prev_in_sample_1[0]` (`e`) or at
    `prev_in_sample_2[0]`; `last_val = method(x[1], y[1])` with `x` = `current_in_sample_1` (`la`) or `prev_in_sample_1`,
    `y` = `current_in_sample_2` (`lb`) or `prev_in_sample_2`; `last` carries the time of `current_in_sample_1` (`ls`) or of
    `current_in_sample_2`; the first (`a`) or the second list advances. -/
inductive Dec
  | k1 | k2 | k11 | k13 | err
  | full (e la lb ls a : Bool)

def interDec (p1 c1 p2 c2 : Tm) : Dec :=
  let lt := Tm.lt
  if lt c1 p2 then .k1
  else if lt p1 c1 && c1 == p2 && lt p2 c2 then .k2
  else if lt p1 p2 && lt p2 c1 && lt c1 c2 then .full false true false true true
  else if lt p1 p2 && lt p2 c1 && c1 == c2 then .full false true true false true
  else if lt p2 p1 && lt p1 c1 && c1 == c2 then .full true true true false true
  else if lt p1 p2 && lt p2 c2 && lt c2 c1 then .full false false true false false
  else if p1 == p2 && lt p2 c2 && lt c2 c1 then .full false false true false false
  else if p1 == p2 && lt p2 c2 && c2 == c1 then .full false true true false true
  else if p1 == p2 && lt p2 c1 && lt c1 c2 then .full true true false true true
  else if lt p2 p1 && lt p1 c1 && lt c1 c2 then .full true true false true true
  else if lt p2 c2 && c2 == p1 && lt p1 c1 then .k11
  else if lt p2 p1 && lt p1 c2 && lt c2 c1 then .full true false true false false
  else if lt c2 p1 then .k13
  else .err

section mirror
variable {β : Type}

/-- the arguments of the mirror's loop after the decision `d` -/
def nextSt (f : α → α → β) (ne : β → β → Bool) (p1 c1 p2 c2 : Tm) (v1 w1 v2 w2 : α) (r1 r2 : ASig α)
    (out : ASig β) (last : Last β) : Dec → Option (ASig α × ASig α × ASig β × Last β)
  | .err => none
  | .k1 => some ((c1, w1) :: r1, (p2, v2) :: (c2, w2) :: r2, out, .nil)
  | .k2 => some ((c1, w1) :: r1, (p2, v2) :: (c2, w2) :: r2, out, .item p2 (f w1 v2))
  | .k11 => some ((p1, v1) :: (c1, w1) :: r1, (c2, w2) :: r2, out, .item c2 (f v1 w2))
  | .k13 => some ((p1, v1) :: (c1, w1) :: r1, (c2, w2) :: r2, out, last)
  | .full e la lb ls a =>
      some (if a then (c1, w1) :: r1 else (p1, v1) :: (c1, w1) :: r1,
        if a then (p2, v2) :: (c2, w2) :: r2 else (c2, w2) :: r2,
        appendD ne out (if e then p1 else p2, f v1 v2),
        .item (if ls then c1 else c2) (f (if la then w1 else v1) (if lb then w2 else v2)))

/-- the continuation of the mirror's loop after the decision `d` -/
def decK (f : α → α → β) (ne : β → β → Bool) (p1 c1 p2 c2 : Tm) (v1 w1 v2 w2 : α) (r1 r2 : ASig α)
    (out : ASig β) (last : Last β) (d : Dec) : Except PyErr (ASig β × Last β × ASig α × ASig α) :=
  match nextSt f ne p1 c1 p2 c2 v1 w1 v2 w2 r1 r2 out last d with
  | none => .error .rtamt
  | some (a, b, o, l) => onLoop f ne a b o l

theorem onLoop_dec (f : α → α → β) (ne : β → β → Bool) (p1 c1 p2 c2 : Tm) (v1 w1 v2 w2 : α) (r1 r2 : ASig α)
    (out : ASig β) (last : Last β) :
    onLoop f ne ((p1, v1) :: (c1, w1) :: r1) ((p2, v2) :: (c2, w2) :: r2) out last =
      decK f ne p1 c1 p2 c2 v1 w1 v2 w2 r1 r2 out last (interDec p1 c1 p2 c2) := by
  rw [onLoop]
  unfold interDec
  simp only [apply_ite (decK f ne p1 c1 p2 c2 v1 w1 v2 w2 r1 r2 out last)]
  rfl

theorem onLoop_short (f : α → α → β) (ne : β → β → Bool) (l1 l2 : ASig α) (out : ASig β) (last : Last β)
    (h : l1.length < 2 ∨ l2.length < 2) : onLoop f ne l1 l2 out last = .ok (out, last, l1, l2) := by
  unfold onLoop
  split
  · simp only [List.length_cons] at h; omega
  · rfl

theorem nextSt_len (f : α → α → β) (ne : β → β → Bool) (p1 c1 p2 c2 : Tm) (v1 w1 v2 w2 : α) (r1 r2 : ASig α)
    (out : ASig β) (last : Last β) (d : Dec) (l1' l2' : ASig α) (o : ASig β) (la : Last β)
    (h : nextSt f ne p1 c1 p2 c2 v1 w1 v2 w2 r1 r2 out last d = some (l1', l2', o, la)) :
    l1'.length ≤ r1.length + 2 ∧ l2'.length ≤ r2.length + 2 ∧ l1'.length + l2'.length < r1.length + r2.length + 4 := by
  cases d with
  | full e la lb ls a =>
      simp only [nextSt, Option.some.injEq, Prod.mk.injEq] at h
      obtain ⟨rfl, rfl, _, _⟩ := h
      cases a <;> simp <;> omega
  | err => simp [nextSt] at h
  | k1 =>
      simp only [nextSt, Option.some.injEq, Prod.mk.injEq] at h
      obtain ⟨rfl, rfl, _, _⟩ := h
      simp; omega
  | k2 =>
      simp only [nextSt, Option.some.injEq, Prod.mk.injEq] at h
      obtain ⟨rfl, rfl, _, _⟩ := h
      simp; omega
  | k11 =>
      simp only [nextSt, Option.some.injEq, Prod.mk.injEq] at h
      obtain ⟨rfl, rfl, _, _⟩ := h
      simp; omega
  | k13 =>
      simp only [nextSt, Option.some.injEq, Prod.mk.injEq] at h
      obtain ⟨rfl, rfl, _, _⟩ := h
      simp; omega

end mirror


/-! ### the locals -/

section loop
variable {β : Type} (encP : β → DV α) (m : String)

/-- the locals the loops of `intersection` work on (`R1`, `R2`: whatever the remainders hold) -/
structure Loc (env : Env α) (l1 l2 : ASig α) (x1 x2 : Tm × α) (out : ASig β) (last : Last β)
    (R1 R2 : Except PyErr (DV α)) : Prop where
  in1 : getLoc "in_samples_1" env = .ok (encSig l1)
  in2 : getLoc "in_samples_2" env = .ok (encSig l2)
  out : getLoc "out_samples" env = .ok (encSigP encP out)
  last : getLoc "last" env = .ok (encLast encP last)
  p1 : getLoc P1 env = .ok (encSmp x1)
  p2 : getLoc P2 env = .ok (encSmp x2)
  m : getLoc "method" env = .ok (.fn m)
  r1 : getLoc "remainder_samples_1" env = R1
  r2 : getLoc "remainder_samples_2" env = R2
  rl : getLoc "list" env = .error .key
  rn : getLoc "len" env = .error .key

def tracked : List String :=
  ["in_samples_1", "in_samples_2", "out_samples", "last", P1, P2, "method", "remainder_samples_1", "remainder_samples_2",
    "list", "len"]

/-- the two `current_in_sample_k` are untouched -/
def SameCur (env env' : Env α) : Prop := getLoc C1 env' = getLoc C1 env ∧ getLoc C2 env' = getLoc C2 env

theorem SameCur.rfl' (env : Env α) : SameCur env env := ⟨rfl, rfl⟩

theorem SameCur.trans {e1 e2 e3 : Env α} (h1 : SameCur e1 e2) (h2 : SameCur e2 e3) : SameCur e1 e3 :=
  ⟨h2.1.trans h1.1, h2.2.trans h1.2⟩

theorem SameCur.set (env : Env α) (k : String) (v : DV α) (h1 : C1 ≠ k) (h2 : C2 ≠ k) : SameCur env (setLoc k v env) :=
  ⟨getLoc_setLoc_ne _ _ _ _ h1, getLoc_setLoc_ne _ _ _ _ h2⟩

variable {env : Env α} {l1 l2 : ASig α} {x1 x2 : Tm × α} {out : ASig β} {last : Last β} {R1 R2 : Except PyErr (DV α)}

theorem Loc.set_other (h : Loc encP m env l1 l2 x1 x2 out last R1 R2) (k : String) (v : DV α) (hk : k ∉ tracked) :
    Loc encP m (setLoc k v env) l1 l2 x1 x2 out last R1 R2 := by
  simp only [tracked, List.mem_cons, List.not_mem_nil, or_false, not_or] at hk
  obtain ⟨h1, h2, h3, h4, h5, h6, h7, h8, h9, h10, h11⟩ := hk
  constructor
  · rw [getLoc_setLoc_ne _ _ _ _ (fun e => h1 e.symm)]; exact h.in1
  · rw [getLoc_setLoc_ne _ _ _ _ (fun e => h2 e.symm)]; exact h.in2
  · rw [getLoc_setLoc_ne _ _ _ _ (fun e => h3 e.symm)]; exact h.out
  · rw [getLoc_setLoc_ne _ _ _ _ (fun e => h4 e.symm)]; exact h.last
  · rw [getLoc_setLoc_ne _ _ _ _ (fun e => h5 e.symm)]; exact h.p1
  · rw [getLoc_setLoc_ne _ _ _ _ (fun e => h6 e.symm)]; exact h.p2
  · rw [getLoc_setLoc_ne _ _ _ _ (fun e => h7 e.symm)]; exact h.m
  · rw [getLoc_setLoc_ne _ _ _ _ (fun e => h8 e.symm)]; exact h.r1
  · rw [getLoc_setLoc_ne _ _ _ _ (fun e => h9 e.symm)]; exact h.r2
  · rw [getLoc_setLoc_ne _ _ _ _ (fun e => h10 e.symm)]; exact h.rl
  · rw [getLoc_setLoc_ne _ _ _ _ (fun e => h11 e.symm)]; exact h.rn

theorem Loc.set_in1 (h : Loc encP m env l1 l2 x1 x2 out last R1 R2) (l : ASig α) :
    Loc encP m (setLoc "in_samples_1" (encSig l) env) l l2 x1 x2 out last R1 R2 := by
  constructor <;> simp [h.in1, h.in2, h.out, h.last, h.p1, h.p2, h.m, h.r1, h.r2, h.rl, h.rn]

theorem Loc.set_in2 (h : Loc encP m env l1 l2 x1 x2 out last R1 R2) (l : ASig α) :
    Loc encP m (setLoc "in_samples_2" (encSig l) env) l1 l x1 x2 out last R1 R2 := by
  constructor <;> simp [h.in1, h.in2, h.out, h.last, h.p1, h.p2, h.m, h.r1, h.r2, h.rl, h.rn]

theorem Loc.set_out (h : Loc encP m env l1 l2 x1 x2 out last R1 R2) (o : ASig β) :
    Loc encP m (setLoc "out_samples" (encSigP encP o) env) l1 l2 x1 x2 o last R1 R2 := by
  constructor <;> simp [h.in1, h.in2, h.out, h.last, h.p1, h.p2, h.m, h.r1, h.r2, h.rl, h.rn]

theorem Loc.set_last (h : Loc encP m env l1 l2 x1 x2 out last R1 R2) (la : Last β) :
    Loc encP m (setLoc "last" (encLast encP la) env) l1 l2 x1 x2 out la R1 R2 := by
  constructor <;> simp [h.in1, h.in2, h.out, h.last, h.p1, h.p2, h.m, h.r1, h.r2, h.rl, h.rn]

theorem Loc.set_p1 (h : Loc encP m env l1 l2 x1 x2 out last R1 R2) (y : Tm × α) :
    Loc encP m (setLoc P1 (encSmp y) env) l1 l2 y x2 out last R1 R2 := by
  constructor <;> simp [h.in1, h.in2, h.out, h.last, h.p1, h.p2, h.m, h.r1, h.r2, h.rl, h.rn]

theorem Loc.set_p2 (h : Loc encP m env l1 l2 x1 x2 out last R1 R2) (y : Tm × α) :
    Loc encP m (setLoc P2 (encSmp y) env) l1 l2 x1 y out last R1 R2 := by
  constructor <;> simp [h.in1, h.in2, h.out, h.last, h.p1, h.p2, h.m, h.r1, h.r2, h.rl, h.rn]

theorem Loc.set_r1 (h : Loc encP m env l1 l2 x1 x2 out last R1 R2) (v : DV α) :
    Loc encP m (setLoc "remainder_samples_1" v env) l1 l2 x1 x2 out last (.ok v) R2 := by
  constructor <;> simp [h.in1, h.in2, h.out, h.last, h.p1, h.p2, h.m, h.r1, h.r2, h.rl, h.rn]

theorem Loc.set_r2 (h : Loc encP m env l1 l2 x1 x2 out last R1 R2) (v : DV α) :
    Loc encP m (setLoc "remainder_samples_2" v env) l1 l2 x1 x2 out last R1 (.ok v) := by
  constructor <;> simp [h.in1, h.in2, h.out, h.last, h.p1, h.p2, h.m, h.r1, h.r2, h.rl, h.rn]

/-! ### the statements the case bodies are made of -/

variable (call : Call α) (fuel : Nat) (f : α → α → β) (ne : β → β → Bool)

theorem adv1_spec {a y1 : Tm × α} (h : Loc encP m env (a :: l1) l2 x1 x2 out last R1 R2)
    (hc : getLoc C1 env = .ok (encSmp y1)) :
    ∃ env', exec call fuel sAdv1 env = .ok (env', .none) ∧ Loc encP m env' l1 l2 y1 x2 out last R1 R2 ∧
      SameCur env env' := by
  refine ⟨setLoc P1 (encSmp y1) (setLoc "in_samples_1" (encSig l1) env), ?_, (h.set_in1 encP m l1).set_p1 encP m y1, ?_⟩
  · have hd : exec call fuel sDel1 env = .ok (setLoc "in_samples_1" (encSig l1) env, .none) := by
      simp [sDel1, exec, evalE, h.in1, encSig, delAt, pyIndex]
    unfold sAdv1
    rw [exec_seq_ok call fuel hd]
    exact exec_setLoc call fuel (by simp [evalE, hc])
  · exact (SameCur.set env _ _ (by decide) (by decide)).trans (SameCur.set _ _ _ (by decide) (by decide))

theorem adv2_spec {a y2 : Tm × α} (h : Loc encP m env l1 (a :: l2) x1 x2 out last R1 R2)
    (hc : getLoc C2 env = .ok (encSmp y2)) :
    ∃ env', exec call fuel sAdv2 env = .ok (env', .none) ∧ Loc encP m env' l1 l2 x1 y2 out last R1 R2 ∧
      SameCur env env' := by
  refine ⟨setLoc P2 (encSmp y2) (setLoc "in_samples_2" (encSig l2) env), ?_, (h.set_in2 encP m l2).set_p2 encP m y2, ?_⟩
  · have hd : exec call fuel sDel2 env = .ok (setLoc "in_samples_2" (encSig l2) env, .none) := by
      simp [sDel2, exec, evalE, h.in2, encSig, delAt, pyIndex]
    unfold sAdv2
    rw [exec_seq_ok call fuel hd]
    exact exec_setLoc call fuel (by simp [evalE, hc])
  · exact (SameCur.set env _ _ (by decide) (by decide)).trans (SameCur.set _ _ _ (by decide) (by decide))

/-- `del in_samples_1[0]; prev_in_sample_1 = current_in_sample_1; rest` -/
theorem adv1_pre {a y1 : Tm × α} (h : Loc encP m env (a :: l1) l2 x1 x2 out last R1 R2)
    (hc : getLoc C1 env = .ok (encSmp y1)) :
    ∃ env', (∀ rest, exec call fuel (.seq sDel1 (.seq sPrev1 rest)) env = exec call fuel rest env') ∧
      Loc encP m env' l1 l2 y1 x2 out last R1 R2 ∧ SameCur env env' := by
  refine ⟨setLoc P1 (encSmp y1) (setLoc "in_samples_1" (encSig l1) env), ?_, (h.set_in1 encP m l1).set_p1 encP m y1, ?_⟩
  · have hd : exec call fuel sDel1 env = .ok (setLoc "in_samples_1" (encSig l1) env, .none) := by
      simp [sDel1, exec, evalE, h.in1, encSig, delAt, pyIndex]
    have hp : exec call fuel sPrev1 (setLoc "in_samples_1" (encSig l1) env) =
        .ok (setLoc P1 (encSmp y1) (setLoc "in_samples_1" (encSig l1) env), .none) :=
      exec_setLoc call fuel (by simp [evalE, hc])
    intro rest
    rw [exec_seq_ok call fuel hd, exec_seq_ok call fuel hp]
  · exact (SameCur.set env _ _ (by decide) (by decide)).trans (SameCur.set _ _ _ (by decide) (by decide))

section emit
variable (hcall : ∀ a b, call m [.val a, .val b] = .ok (encP (f a b)))
  (hpay : ∀ x, toPayload (encP x) = .ok (encP x))
  (hne : ∀ x y, cmpDV .ne (encP x) (encP y) = .ok (ne x y))
include hcall hpay hne

/-- `last_val = method(la[1], lb[1]); last = [ls[0], last_val]` -/
theorem lastset_spec (h : Loc encP m env l1 l2 x1 x2 out last R1 R2) (la lb ls : String) (ta tb t : Tm) (va vb : α)
    (p : DV α) (hla : getLoc la env = .ok (encSmp (ta, va))) (hlb : getLoc lb env = .ok (encSmp (tb, vb)))
    (hls : getLoc ls env = .ok (.smp t p)) (hn : ls ≠ "last_val") :
    ∃ env', (∀ rest, exec call fuel (.seq (sLastVal la lb) (.seq (sSetLast ls) rest)) env = exec call fuel rest env') ∧
      exec call fuel (.seq (sLastVal la lb) (sSetLast ls)) env = .ok (env', .none) ∧
      Loc encP m env' l1 l2 x1 x2 out (.item t (f va vb)) R1 R2 ∧ SameCur env env' := by
  have h1 : exec call fuel (sLastVal la lb) env = .ok (setLoc "last_val" (encP (f va vb)) env, .none) := by
    apply exec_setLoc
    simp [evalE, hla, hlb, encSmp, evalIdx, pyIndex, resolve_of_getLoc h.m, hcall]
  have h2 : exec call fuel (sSetLast ls) (setLoc "last_val" (encP (f va vb)) env) =
      .ok (setLoc "last" (.smp t (encP (f va vb))) (setLoc "last_val" (encP (f va vb)) env), .none) := by
    apply exec_setLoc
    simp [evalE, hn, hls, evalIdx, pyIndex, mkList2, hpay]
  refine ⟨setLoc "last" (.smp t (encP (f va vb))) (setLoc "last_val" (encP (f va vb)) env), ?_, ?_,
    (h.set_other encP m "last_val" (encP (f va vb)) (by decide)).set_last encP m (.item t (f va vb)), ?_⟩
  · intro rest
    rw [exec_seq_ok call fuel h1, exec_seq_ok call fuel h2]
  · rw [exec_seq_ok call fuel h1, h2]
  · exact (SameCur.set env _ _ (by decide) (by decide)).trans (SameCur.set _ _ _ (by decide) (by decide))

/-- the inlined `_append(out_samples, item)` -/
theorem append_spec (h : Loc encP m env l1 l2 x1 x2 out last R1 R2) (item : E) (t : Tm) (v : β)
    (hitem : evalE call env item = .ok (.smp t (encP v))) :
    ∃ env', exec call fuel (sAppendE item) env = .ok (env', .none) ∧
      Loc encP m env' l1 l2 x1 x2 (appendD ne out (t, v)) last R1 R2 ∧ SameCur env env' := by
  have hout := h.out
  have h0 := h.set_other encP m "_append$item" (.smp t (encP v)) (by decide)
  have s0 : SameCur env (setLoc "_append$item" (.smp t (encP v)) env) := SameCur.set env _ _ (by decide) (by decide)
  rcases List.eq_nil_or_concat out with rfl | ⟨O, q, rfl⟩
  · refine ⟨setLoc "out_samples" (encSigP encP [(t, v)]) (setLoc "_append$item" (.smp t (encP v)) env), ?_, ?_, ?_⟩
    · simp [encSigP] at hout
      simp [sAppendE, exec, evalE, hitem, hout, truthy, encSigP]
    · simpa [appendD] using h0.set_out encP m [(t, v)]
    · exact s0.trans (SameCur.set _ _ _ (by decide) (by decide))
  · simp [encSigP] at hout
    have h1 := h0.set_other encP m "_append$prev_item" (.smp q.1 (encP q.2)) (by decide)
    have s1 : SameCur env (setLoc "_append$prev_item" (.smp q.1 (encP q.2)) (setLoc "_append$item" (.smp t (encP v)) env)) :=
      s0.trans (SameCur.set _ _ _ (by decide) (by decide))
    by_cases hq : ne q.2 v = true
    · refine ⟨setLoc "out_samples" (encSigP encP (O ++ [q] ++ [(t, v)]))
        (setLoc "_append$prev_item" (.smp q.1 (encP q.2)) (setLoc "_append$item" (.smp t (encP v)) env)), ?_, ?_, ?_⟩
      · simp [sAppendE, exec, evalE, hitem, hout, evalIdx_last, evalNeg, evalIdx_smp0, evalIdx_smp1, truthy,
          evalBin, isCmp, hne, hq, Except.map, encSigP]
      · simpa [appendD, hq] using h1.set_out encP m (O ++ [q] ++ [(t, v)])
      · exact s1.trans (SameCur.set _ _ _ (by decide) (by decide))
    · refine ⟨setLoc "_append$prev_item" (.smp q.1 (encP q.2)) (setLoc "_append$item" (.smp t (encP v)) env), ?_, ?_, s1⟩
      · simp [sAppendE, exec, evalE, hitem, hout, evalIdx_last, evalNeg, evalIdx_smp0, evalIdx_smp1, truthy,
          evalBin, isCmp, hne, hq, Except.map]
      · simpa [appendD, hq] using h1

/-- `out_value = method(prev_in_sample_1[1], prev_in_sample_2[1]); _append(out_samples, [src[0], out_value])` -/
theorem emit_spec (h : Loc encP m env l1 l2 x1 x2 out last R1 R2) (src : String) (t : Tm) (p : DV α)
    (hsrc : getLoc src env = .ok (.smp t p)) (hs : src ≠ "out_value") :
    ∃ env', (∀ rest, exec call fuel (.seq sOutVal (.seq (sAppendE (outItem src)) rest)) env = exec call fuel rest env') ∧
      Loc encP m env' l1 l2 x1 x2 (appendD ne out (t, f x1.2 x2.2)) last R1 R2 ∧ SameCur env env' := by
  have h1 : exec call fuel sOutVal env = .ok (setLoc "out_value" (encP (f x1.2 x2.2)) env, .none) := by
    apply exec_setLoc
    simp [evalE, h.p1, h.p2, encSmp, evalIdx, pyIndex, resolve_of_getLoc h.m, hcall]
  have h0 := h.set_other encP m "out_value" (encP (f x1.2 x2.2)) (by decide)
  have hitem : evalE call (setLoc "out_value" (encP (f x1.2 x2.2)) env) (outItem src) =
      .ok (.smp t (encP (f x1.2 x2.2))) := by
    simp [outItem, evalE, hs, hsrc, evalIdx, pyIndex, mkList2, hpay]
  obtain ⟨env', hex, hl, hsc⟩ := append_spec encP m call fuel f ne hcall hpay hne h0 (outItem src) t (f x1.2 x2.2) hitem
  refine ⟨env', ?_, hl, (SameCur.set env _ _ (by decide) (by decide)).trans hsc⟩
  intro rest
  rw [exec_seq_ok call fuel h1, exec_seq_ok call fuel hex]

end emit


/-! ### one iteration of the main loop -/

/-- what the chain of `if … elif …` does after the decision `d` -/
def chainK (env : Env α) : Dec → Except PyErr (Res α)
  | .err => .error .rtamt
  | .k1 => exec call fuel sCase1 env
  | .k2 => exec call fuel sCase2 env
  | .k11 => exec call fuel sCase11 env
  | .k13 => exec call fuel sAdv2 env
  | .full e la lb ls a =>
      exec call fuel (sFull (if e then P1 else P2) (if la then C1 else P1) (if lb then C2 else P2) (if ls then C1 else C2)
        (if a then sAdv1 else sAdv2)) env

theorem chain_spec {env : Env α} (p1 c1 p2 c2 : Tm) {a1 b1 a2 b2 : DV α}
    (hp1 : getLoc P1 env = .ok (.smp p1 a1)) (hc1 : getLoc C1 env = .ok (.smp c1 b1))
    (hp2 : getLoc P2 env = .ok (.smp p2 a2)) (hc2 : getLoc C2 env = .ok (.smp c2 b2)) :
    exec call fuel interChain env = chainK call fuel env (interDec p1 c1 p2 c2) := by
  unfold interChain
  rw [exec_ite_bool call fuel (evalE_aLt call hc1 hp2),
    exec_ite_bool call fuel (evalE_and3 call (evalE_aLt call hp1 hc1) (evalE_aEq call hc1 hp2) (evalE_aLt call hp2 hc2)),
    exec_ite_bool call fuel (evalE_and3 call (evalE_aLt call hp1 hp2) (evalE_aLt call hp2 hc1) (evalE_aLt call hc1 hc2)),
    exec_ite_bool call fuel (evalE_and3 call (evalE_aLt call hp1 hp2) (evalE_aLt call hp2 hc1) (evalE_aEq call hc1 hc2)),
    exec_ite_bool call fuel (evalE_and3 call (evalE_aLt call hp2 hp1) (evalE_aLt call hp1 hc1) (evalE_aEq call hc1 hc2)),
    exec_ite_bool call fuel (evalE_and3 call (evalE_aLt call hp1 hp2) (evalE_aLt call hp2 hc2) (evalE_aLt call hc2 hc1)),
    exec_ite_bool call fuel (evalE_and3 call (evalE_aEq call hp1 hp2) (evalE_aLt call hp2 hc2) (evalE_aLt call hc2 hc1)),
    exec_ite_bool call fuel (evalE_and3 call (evalE_aEq call hp1 hp2) (evalE_aLt call hp2 hc2) (evalE_aEq call hc2 hc1)),
    exec_ite_bool call fuel (evalE_and3 call (evalE_aEq call hp1 hp2) (evalE_aLt call hp2 hc1) (evalE_aLt call hc1 hc2)),
    exec_ite_bool call fuel (evalE_and3 call (evalE_aLt call hp2 hp1) (evalE_aLt call hp1 hc1) (evalE_aLt call hc1 hc2)),
    exec_ite_bool call fuel (evalE_and3 call (evalE_aLt call hp2 hc2) (evalE_aEq call hc2 hp1) (evalE_aLt call hp1 hc1)),
    exec_ite_bool call fuel (evalE_and3 call (evalE_aLt call hp2 hp1) (evalE_aLt call hp1 hc2) (evalE_aLt call hc2 hc1)),
    exec_ite_bool call fuel (evalE_aGt call hp1 hc2)]
  unfold interDec
  simp only [apply_ite (chainK call fuel env)]
  rfl

theorem cond_spec {env : Env α} {l1 l2 : ASig α} {x1 x2 : Tm × α} {out : ASig β} {last : Last β}
    {R1 R2 : Except PyErr (DV α)} (h : Loc encP m env l1 l2 x1 x2 out last R1 R2) :
    (do truthy (← evalE call env interCond)) = .ok (decide (2 ≤ l1.length) && decide (2 ≤ l2.length)) := by
  rcases l1 with _ | ⟨x1, _ | ⟨y1, r1⟩⟩ <;> rcases l2 with _ | ⟨x2, _ | ⟨y2, r2⟩⟩ <;>
    simp [interCond, evalE, h.in1, h.in2, encSig, truthy]

section body
variable (hcall : ∀ a b, call m [.val a, .val b] = .ok (encP (f a b)))
  (hpay : ∀ x, toPayload (encP x) = .ok (encP x))
  (hne : ∀ x y, cmpDV .ne (encP x) (encP y) = .ok (ne x y))
include hcall hpay hne

/-- the body of the cases 3-10 and 12 -/
theorem full_spec {env : Env α} {p1 c1 p2 c2 : Tm} {v1 w1 v2 w2 : α} {r1 r2 : ASig α} {out : ASig β} {last : Last β}
    {R1 R2 : Except PyErr (DV α)}
    (h : Loc encP m env ((p1, v1) :: (c1, w1) :: r1) ((p2, v2) :: (c2, w2) :: r2) (p1, v1) (p2, v2) out last R1 R2)
    (hc1 : getLoc C1 env = .ok (encSmp (c1, w1))) (hc2 : getLoc C2 env = .ok (encSmp (c2, w2))) (e la lb ls a : Bool) :
    ∃ env', exec call fuel (sFull (if e then P1 else P2) (if la then C1 else P1) (if lb then C2 else P2)
        (if ls then C1 else C2) (if a then sAdv1 else sAdv2)) env = .ok (env', .none) ∧
      Loc encP m env' (if a then (c1, w1) :: r1 else (p1, v1) :: (c1, w1) :: r1)
        (if a then (p2, v2) :: (c2, w2) :: r2 else (c2, w2) :: r2)
        (if a then (c1, w1) else (p1, v1)) (if a then (p2, v2) else (c2, w2))
        (appendD ne out (if e then p1 else p2, f v1 v2))
        (.item (if ls then c1 else c2) (f (if la then w1 else v1) (if lb then w2 else v2))) R1 R2 := by
  obtain ⟨e1, hx1, hl1, hs1⟩ := emit_spec encP m call fuel f ne hcall hpay hne h (if e then P1 else P2)
    (if e then p1 else p2) (.val (if e then v1 else v2)) (by cases e <;> simp [h.p1, h.p2, encSmp])
    (by cases e <;> decide)
  have hc1' : getLoc C1 e1 = .ok (encSmp (c1, w1)) := by rw [hs1.1]; exact hc1
  have hc2' : getLoc C2 e1 = .ok (encSmp (c2, w2)) := by rw [hs1.2]; exact hc2
  obtain ⟨e2, hx2, _, hl2, hs2⟩ := lastset_spec encP m call fuel f ne hcall hpay hne hl1
    (if la then C1 else P1) (if lb then C2 else P2) (if ls then C1 else C2)
    (if la then c1 else p1) (if lb then c2 else p2) (if ls then c1 else c2) (if la then w1 else v1) (if lb then w2 else v2)
    (.val (if ls then w1 else w2))
    (by cases la <;> simp [hc1', hl1.p1])
    (by cases lb <;> simp [hc2', hl1.p2])
    (by cases ls <;> simp [hc1', hc2', encSmp])
    (by cases ls <;> decide)
  have hc1'' : getLoc C1 e2 = .ok (encSmp (c1, w1)) := by rw [hs2.1]; exact hc1'
  have hc2'' : getLoc C2 e2 = .ok (encSmp (c2, w2)) := by rw [hs2.2]; exact hc2'
  unfold sFull
  rw [hx1, hx2]
  cases a with
  | true =>
      obtain ⟨e3, hx3, hl3, _⟩ := adv1_spec encP m call fuel hl2 hc1''
      exact ⟨e3, hx3, hl3⟩
  | false =>
      obtain ⟨e3, hx3, hl3, _⟩ := adv2_spec encP m call fuel hl2 hc2''
      exact ⟨e3, hx3, hl3⟩


/-- one iteration -/
theorem body_spec {env : Env α} {p1 c1 p2 c2 : Tm} {v1 w1 v2 w2 : α} {r1 r2 : ASig α} {out : ASig β} {last : Last β}
    {R1 R2 : Except PyErr (DV α)}
    (h : Loc encP m env ((p1, v1) :: (c1, w1) :: r1) ((p2, v2) :: (c2, w2) :: r2) (p1, v1) (p2, v2) out last R1 R2) :
    match nextSt f ne p1 c1 p2 c2 v1 w1 v2 w2 r1 r2 out last (interDec p1 c1 p2 c2) with
    | none => exec call fuel interBody env = .error .rtamt
    | some (l1', l2', o, la) => ∃ env' x1' x2', exec call fuel interBody env = .ok (env', .none) ∧
        Loc encP m env' l1' l2' x1' x2' o la R1 R2 ∧ l1'.head? = some x1' ∧ l2'.head? = some x2' := by
  have hb : exec call fuel interBody env = exec call fuel interChain
      (setLoc C2 (encSmp (c2, w2)) (setLoc C1 (encSmp (c1, w1)) env)) := by
    have k1 : exec call fuel sCur1 env = .ok (setLoc C1 (encSmp (c1, w1)) env, .none) :=
      exec_setLoc call fuel (by simp [evalE, h.in1, encSig, evalIdx, pyIndex])
    have k2 : exec call fuel sCur2 (setLoc C1 (encSmp (c1, w1)) env) =
        .ok (setLoc C2 (encSmp (c2, w2)) (setLoc C1 (encSmp (c1, w1)) env), .none) :=
      exec_setLoc call fuel (by simp [evalE, h.in2, encSig, evalIdx, pyIndex])
    unfold interBody
    rw [exec_seq_ok call fuel k1, exec_seq_ok call fuel k2]
  have h2 := (h.set_other encP m C1 (encSmp (c1, w1)) (by decide)).set_other encP m C2 (encSmp (c2, w2)) (by decide)
  generalize henv2 : (setLoc C2 (encSmp (c2, w2)) (setLoc C1 (encSmp (c1, w1)) env)) = env2 at hb h2
  have hc1 : getLoc C1 env2 = .ok (encSmp (c1, w1)) := by subst henv2; simp
  have hc2 : getLoc C2 env2 = .ok (encSmp (c2, w2)) := by subst henv2; simp
  rw [hb, chain_spec call fuel p1 c1 p2 c2 (a1 := .val v1) (b1 := .val w1) (a2 := .val v2) (b2 := .val w2)
    h2.p1 hc1 h2.p2 hc2]
  cases hd : interDec p1 c1 p2 c2 with
  | err => rfl
  | k1 =>
      simp only [nextSt, chainK]
      obtain ⟨e1, hx1, hl1, _⟩ := adv1_pre encP m call fuel h2 hc1
      refine ⟨setLoc "last" (encLast encP (.nil : Last β)) e1, (c1, w1), (p2, v2), ?_, hl1.set_last encP m .nil, rfl, rfl⟩
      unfold sCase1
      rw [hx1]
      exact exec_setLoc call fuel (by simp [evalE, encLast])
  | k2 =>
      simp only [nextSt, chainK]
      obtain ⟨e1, hx1, hl1, hs1⟩ := adv1_pre encP m call fuel h2 hc1
      have hc1' : getLoc C1 e1 = .ok (encSmp (c1, w1)) := by rw [hs1.1]; exact hc1
      obtain ⟨e2, _, hx2, hl2, _⟩ := lastset_spec encP m call fuel f ne hcall hpay hne hl1 C1 P2 P2 c1 p2 p2 w1 v2 (.val v2)
        hc1' hl1.p2 hl1.p2 (by decide)
      refine ⟨e2, (c1, w1), (p2, v2), ?_, hl2, rfl, rfl⟩
      unfold sCase2
      rw [hx1]
      exact hx2
  | k11 =>
      simp only [nextSt, chainK]
      obtain ⟨e1, hx1, _, hl1, hs1⟩ := lastset_spec encP m call fuel f ne hcall hpay hne h2 P1 C2 C2 p1 c2 c2 v1 w2 (.val w2)
        h2.p1 hc2 hc2 (by decide)
      have hc2' : getLoc C2 e1 = .ok (encSmp (c2, w2)) := by rw [hs1.2]; exact hc2
      obtain ⟨e2, hx2, hl2, _⟩ := adv2_spec encP m call fuel hl1 hc2'
      refine ⟨e2, (p1, v1), (c2, w2), ?_, hl2, rfl, rfl⟩
      unfold sCase11
      rw [hx1]
      exact hx2
  | k13 =>
      simp only [nextSt, chainK]
      obtain ⟨e2, hx2, hl2, _⟩ := adv2_spec encP m call fuel h2 hc2
      exact ⟨e2, (p1, v1), (c2, w2), hx2, hl2, rfl, rfl⟩
  | full e la lb ls a =>
      simp only [nextSt, chainK]
      obtain ⟨e1, hx1, hl1⟩ := full_spec encP m call fuel f ne hcall hpay hne h2 hc1 hc2 e la lb ls a
      exact ⟨e1, _, _, hx1, hl1, by cases a <;> rfl, by cases a <;> rfl⟩

/-- the main `while` loop against `onLoop` -/
theorem loop_spec {R1 R2 : Except PyErr (DV α)} : ∀ (n : Nat) (l1 l2 : ASig α) (x1 x2 : Tm × α) (out : ASig β)
    (last : Last β) (env : Env α), l1.length + l2.length < n →
    Loc encP m env l1 l2 x1 x2 out last R1 R2 → l1.head? = some x1 → l2.head? = some x2 →
    match onLoop f ne l1 l2 out last with
    | .ok (o, la, l1', l2') => ∃ env' x1' x2', whileLoop (fun env => do truthy (← evalE call env interCond))
          (exec call fuel interBody) n env = .ok (env', .none) ∧ Loc encP m env' l1' l2' x1' x2' o la R1 R2 ∧
          l1'.head? = some x1' ∧ l2'.head? = some x2' ∧ l1'.length ≤ l1.length ∧ l2'.length ≤ l2.length
    | .error e => whileLoop (fun env => do truthy (← evalE call env interCond))
          (exec call fuel interBody) n env = .error e := by
  intro n
  induction n with
  | zero => intro l1 l2 x1 x2 out last env hn; omega
  | succ n ih =>
      intro l1 l2 x1 x2 out last env hn h hh1 hh2
      have hc := cond_spec encP m call h
      by_cases hl : l1.length < 2 ∨ l2.length < 2
      · rw [onLoop_short f ne l1 l2 out last hl]
        have hf : (decide (2 ≤ l1.length) && decide (2 ≤ l2.length)) = false := by
          rcases hl with hl | hl <;> simp <;> omega
        rw [hf] at hc
        exact ⟨env, x1, x2, whileLoop_done _ _ _ _ hc, h, hh1, hh2, Nat.le_refl _, Nat.le_refl _⟩
      · have ht : (decide (2 ≤ l1.length) && decide (2 ≤ l2.length)) = true := by
          simp; omega
        rw [ht] at hc
        obtain ⟨⟨p1, v1⟩, ⟨c1, w1⟩, r1, rfl⟩ : ∃ x y r, l1 = x :: y :: r := by
          rcases l1 with _ | ⟨x, _ | ⟨y, r⟩⟩
          · simp at hl
          · simp at hl
          · exact ⟨x, y, r, rfl⟩
        obtain ⟨⟨p2, v2⟩, ⟨c2, w2⟩, r2, rfl⟩ : ∃ x y r, l2 = x :: y :: r := by
          rcases l2 with _ | ⟨x, _ | ⟨y, r⟩⟩
          · simp at hl
          · simp at hl
          · exact ⟨x, y, r, rfl⟩
        simp only [List.head?_cons, Option.some.injEq] at hh1 hh2
        subst hh1 hh2
        have hb := body_spec encP m call fuel f ne hcall hpay hne h
        rw [onLoop_dec]
        unfold decK
        cases hd : nextSt f ne p1 c1 p2 c2 v1 w1 v2 w2 r1 r2 out last (interDec p1 c1 p2 c2) with
        | none =>
            rw [hd] at hb
            exact whileLoop_raise _ _ _ _ _ hc hb
        | some st =>
            obtain ⟨l1', l2', o, la⟩ := st
            rw [hd] at hb
            obtain ⟨env', x1', x2', hex, hinv, hh1', hh2'⟩ := hb
            rw [whileLoop_step _ _ _ _ _ hc hex]
            have hlen := nextSt_len f ne p1 c1 p2 c2 v1 w1 v2 w2 r1 r2 out last _ _ _ _ _ hd
            have hih := ih l1' l2' x1' x2' o la env' (by simp only [List.length_cons] at hn; omega) hinv hh1' hh2'
            dsimp only
            cases hr : onLoop f ne l1' l2' o la with
            | error e => rw [hr] at hih; exact hih
            | ok res =>
                obtain ⟨o', la', l1'', l2''⟩ := res
                rw [hr] at hih
                obtain ⟨env'', y1, y2, hw, hl, g1, g2, g3, g4⟩ := hih
                refine ⟨env'', y1, y2, hw, hl, g1, g2, ?_, ?_⟩ <;> simp only [List.length_cons] <;> omega

end body


/-! ### the tail loops -/

inductive TDec | stop | stopSet | contA | contB | contNil

/-- the decision of one iteration of a tail loop: `p`, `c` the previous and the current sample of the list that is consumed,
    `q` the (fixed) previous sample of the other list -/
def tailDec (p c q : Tm) : TDec :=
  if Tm.lt q p then .stop
  else if p == q then .stopSet
  else if Tm.lt q c then .contA
  else if q == c then .contB
  else .contNil

/-- whether the loop goes on, `out_samples` and `last` after the iteration -/
def tailNext (t : Tm) (oA oB : β) (out : ASig β) (last : Last β) : TDec → Bool × ASig β × Last β
  | .stop => (false, out, last)
  | .stopSet => (false, out, .item t oA)
  | .contA => (true, appendD ne out (t, oA), .item t oA)
  | .contB => (true, appendD ne out (t, oB), .item t oB)
  | .contNil => (true, out, .nil)

theorem tail1_dec (p2 : Tm) (v2 : α) (p1 c1 : Tm) (v1 w1 : α) (r1 : ASig α) (out : ASig β) (last : Last β) :
    tail1 f ne p2 v2 ((p1, v1) :: (c1, w1) :: r1) out last =
      (if (tailNext ne p2 (f v1 v2) (f w1 v2) out last (tailDec p1 c1 p2)).1 then
        tail1 f ne p2 v2 ((c1, w1) :: r1) (tailNext ne p2 (f v1 v2) (f w1 v2) out last (tailDec p1 c1 p2)).2.1
          (tailNext ne p2 (f v1 v2) (f w1 v2) out last (tailDec p1 c1 p2)).2.2
      else ((tailNext ne p2 (f v1 v2) (f w1 v2) out last (tailDec p1 c1 p2)).2.1,
        (tailNext ne p2 (f v1 v2) (f w1 v2) out last (tailDec p1 c1 p2)).2.2)) := by
  rw [tail1]
  unfold tailDec
  by_cases h1 : Tm.lt p2 p1 = true
  · simp [h1, tailNext]
  · by_cases h2 : (p1 == p2) = true
    · simp [h1, h2, tailNext]
    · by_cases h3 : Tm.lt p2 c1 = true
      · simp [h1, h2, h3, tailNext]
      · by_cases h4 : (p2 == c1) = true
        · simp [h1, h2, h3, h4, tailNext]
        · simp [h1, h2, h3, h4, tailNext]

theorem tail1_short (p2 : Tm) (v2 : α) (l : ASig α) (out : ASig β) (last : Last β) (h : l.length < 2) :
    tail1 f ne p2 v2 l out last = (out, last) := by
  unfold tail1
  split
  · simp only [List.length_cons] at h; omega
  · rfl

theorem tail2_dec (p1 : Tm) (v1 : α) (p2 c2 : Tm) (v2 w2 : α) (r2 : ASig α) (out : ASig β) (last : Last β) :
    tail2 f ne p1 v1 ((p2, v2) :: (c2, w2) :: r2) out last =
      (if (tailNext ne p1 (f v1 v2) (f v1 w2) out last (tailDec p2 c2 p1)).1 then
        tail2 f ne p1 v1 ((c2, w2) :: r2) (tailNext ne p1 (f v1 v2) (f v1 w2) out last (tailDec p2 c2 p1)).2.1
          (tailNext ne p1 (f v1 v2) (f v1 w2) out last (tailDec p2 c2 p1)).2.2
      else ((tailNext ne p1 (f v1 v2) (f v1 w2) out last (tailDec p2 c2 p1)).2.1,
        (tailNext ne p1 (f v1 v2) (f v1 w2) out last (tailDec p2 c2 p1)).2.2)) := by
  rw [tail2]
  unfold tailDec
  by_cases h1 : Tm.lt p1 p2 = true
  · simp [h1, tailNext]
  · by_cases h2 : (p2 == p1) = true
    · simp [h1, h2, tailNext]
    · by_cases h3 : Tm.lt p1 c2 = true
      · simp [h1, h2, h3, tailNext]
      · by_cases h4 : (p1 == c2) = true
        · simp [h1, h2, h3, h4, tailNext]
        · simp [h1, h2, h3, h4, tailNext]

theorem tail2_short (p1 : Tm) (v1 : α) (l : ASig α) (out : ASig β) (last : Last β) (h : l.length < 2) :
    tail2 f ne p1 v1 l out last = (out, last) := by
  unfold tail2
  split
  · simp only [List.length_cons] at h; omega
  · rfl


theorem tm_tri' (a b : Tm) (h1 : Tm.lt a b = false) (h2 : (a == b) = false) : Tm.lt b a = true := by
  apply tm_tri b a h1
  rw [Bool.eq_false_iff] at h2 ⊢
  intro h
  have hba : b = a := by simpa using h
  apply h2
  simp [hba]

theorem exec_brk (env : Env α) : exec call fuel .brk env = .ok (env, .brk) := by rw [exec]

def tailK1 (env : Env α) : TDec → Except PyErr (Res α)
  | .stop => .ok (env, .brk)
  | .stopSet => exec call fuel (.seq (sLastVal P1 P2) (.seq (sSetLast P2) .brk)) env
  | .contA => exec call fuel (.seq (sLastVal P1 P2) (.seq (sSetLast P2) (sTailEmit sAdv1))) env
  | .contB => exec call fuel (.seq (sLastVal C1 P2) (.seq (sSetLast P2) (sTailEmit sAdv1))) env
  | .contNil => exec call fuel (.seq (.setLoc "last" .emptyList) sAdv1) env

def tailK2 (env : Env α) : TDec → Except PyErr (Res α)
  | .stop => .ok (env, .brk)
  | .stopSet => exec call fuel (.seq (sLastVal P1 P2) (.seq (sSetLast P1) .brk)) env
  | .contA => exec call fuel (.seq (sLastVal P1 P2) (.seq (sSetLast P1) (sTailEmit sAdv2))) env
  | .contB => exec call fuel (.seq (sLastVal P1 C2) (.seq (sSetLast P1) (sTailEmit sAdv2))) env
  | .contNil => exec call fuel (.seq (.setLoc "last" .emptyList) sAdv2) env

theorem tailChain1_spec {env : Env α} (p1 c1 p2 : Tm) {a1 b1 a2 : DV α}
    (hp1 : getLoc P1 env = .ok (.smp p1 a1)) (hc1 : getLoc C1 env = .ok (.smp c1 b1))
    (hp2 : getLoc P2 env = .ok (.smp p2 a2)) :
    exec call fuel tailChain1 env = tailK1 call fuel env (tailDec p1 c1 p2) := by
  unfold tailChain1
  rw [exec_ite_bool call fuel (evalE_aGt call hp1 hp2),
    exec_ite_bool call fuel (evalE_aEq call hp1 hp2),
    exec_ite_bool call fuel (evalE_and2 call (evalE_aLt call hp1 hp2) (evalE_aLt call hp2 hc1)),
    exec_ite_bool call fuel (evalE_and2 call (evalE_aLt call hp1 hp2) (evalE_aEq call hp2 hc1)),
    exec_ite_bool call fuel (evalE_aGt call hp2 hc1)]
  unfold tailDec
  cases h1 : Tm.lt p2 p1 with
  | true => simp only [↓reduceIte, tailK1, exec_brk]
  | false =>
      cases h2 : (p1 == p2) with
      | true => simp only [Bool.false_eq_true, ↓reduceIte, tailK1]
      | false =>
          have h3 := tm_tri p1 p2 h1 h2
          cases h4 : Tm.lt p2 c1 with
          | true => simp only [h3, Bool.and_self, Bool.false_eq_true, ↓reduceIte, tailK1]
          | false =>
              cases h5 : (p2 == c1) with
              | true => simp only [h3, Bool.and_self, Bool.and_false, Bool.false_eq_true, ↓reduceIte, tailK1]
              | false =>
                  have h6 := tm_tri' p2 c1 h4 h5
                  simp only [h3, h6, Bool.and_self, Bool.and_false, Bool.false_eq_true, ↓reduceIte, tailK1]

theorem tailChain2_spec {env : Env α} (p2 c2 p1 : Tm) {a1 b2 a2 : DV α}
    (hp2 : getLoc P2 env = .ok (.smp p2 a2)) (hc2 : getLoc C2 env = .ok (.smp c2 b2))
    (hp1 : getLoc P1 env = .ok (.smp p1 a1)) :
    exec call fuel tailChain2 env = tailK2 call fuel env (tailDec p2 c2 p1) := by
  unfold tailChain2
  rw [exec_ite_bool call fuel (evalE_aGt call hp2 hp1),
    exec_ite_bool call fuel (evalE_aEq call hp2 hp1),
    exec_ite_bool call fuel (evalE_and2 call (evalE_aLt call hp2 hp1) (evalE_aLt call hp1 hc2)),
    exec_ite_bool call fuel (evalE_and2 call (evalE_aLt call hp2 hp1) (evalE_aEq call hp1 hc2)),
    exec_ite_bool call fuel (evalE_aGt call hp1 hc2)]
  unfold tailDec
  cases h1 : Tm.lt p1 p2 with
  | true => simp only [↓reduceIte, tailK2, exec_brk]
  | false =>
      cases h2 : (p2 == p1) with
      | true => simp only [Bool.false_eq_true, ↓reduceIte, tailK2]
      | false =>
          have h3 := tm_tri p2 p1 h1 h2
          cases h4 : Tm.lt p1 c2 with
          | true => simp only [h3, Bool.and_self, Bool.false_eq_true, ↓reduceIte, tailK2]
          | false =>
              cases h5 : (p1 == c2) with
              | true => simp only [h3, Bool.and_self, Bool.and_false, Bool.false_eq_true, ↓reduceIte, tailK2]
              | false =>
                  have h6 := tm_tri' p1 c2 h4 h5
                  simp only [h3, h6, Bool.and_self, Bool.and_false, Bool.false_eq_true, ↓reduceIte, tailK2]

theorem tailCond1_spec {env : Env α} {l1 l2 : ASig α} {x1 x2 : Tm × α} {out : ASig β} {last : Last β}
    {R1 R2 : Except PyErr (DV α)} (h : Loc encP m env l1 l2 x1 x2 out last R1 R2) :
    (do truthy (← evalE call env tailCond1)) = .ok (decide (2 ≤ l1.length)) := by
  rcases l1 with _ | ⟨x1, _ | ⟨y1, r1⟩⟩ <;> simp [tailCond1, evalE, h.in1, encSig, truthy]

theorem tailCond2_spec {env : Env α} {l1 l2 : ASig α} {x1 x2 : Tm × α} {out : ASig β} {last : Last β}
    {R1 R2 : Except PyErr (DV α)} (h : Loc encP m env l1 l2 x1 x2 out last R1 R2) :
    (do truthy (← evalE call env tailCond2)) = .ok (decide (2 ≤ l2.length)) := by
  rcases l2 with _ | ⟨x1, _ | ⟨y1, r1⟩⟩ <;> simp [tailCond2, evalE, h.in2, encSig, truthy]

section tailbody
variable (hcall : ∀ a b, call m [.val a, .val b] = .ok (encP (f a b)))
  (hpay : ∀ x, toPayload (encP x) = .ok (encP x))
  (hne : ∀ x y, cmpDV .ne (encP x) (encP y) = .ok (ne x y))
include hcall hpay hne

/-- `_append(out_samples, last); adv` right after `last` was set -/
theorem tailEmit1_spec {env : Env α} {a : Tm × α} {l1 l2 : ASig α} {x1 x2 y1 : Tm × α} {out : ASig β} {t : Tm} {v : β}
    {R1 R2 : Except PyErr (DV α)} (h : Loc encP m env (a :: l1) l2 x1 x2 out (.item t v) R1 R2)
    (hc : getLoc C1 env = .ok (encSmp y1)) :
    ∃ env', exec call fuel (sTailEmit sAdv1) env = .ok (env', .none) ∧
      Loc encP m env' l1 l2 y1 x2 (appendD ne out (t, v)) (.item t v) R1 R2 := by
  obtain ⟨e1, hx1, hl1, hs1⟩ := append_spec encP m call fuel f ne hcall hpay hne h (.loc "last") t v
    (by simp [evalE, h.last, encLast])
  obtain ⟨e2, hx2, hl2, _⟩ := adv1_spec encP m call fuel hl1 (y1 := y1) (by rw [hs1.1]; exact hc)
  refine ⟨e2, ?_, hl2⟩
  unfold sTailEmit
  rw [exec_seq_ok call fuel hx1, hx2]

theorem tailEmit2_spec {env : Env α} {a : Tm × α} {l1 l2 : ASig α} {x1 x2 y2 : Tm × α} {out : ASig β} {t : Tm} {v : β}
    {R1 R2 : Except PyErr (DV α)} (h : Loc encP m env l1 (a :: l2) x1 x2 out (.item t v) R1 R2)
    (hc : getLoc C2 env = .ok (encSmp y2)) :
    ∃ env', exec call fuel (sTailEmit sAdv2) env = .ok (env', .none) ∧
      Loc encP m env' l1 l2 x1 y2 (appendD ne out (t, v)) (.item t v) R1 R2 := by
  obtain ⟨e1, hx1, hl1, hs1⟩ := append_spec encP m call fuel f ne hcall hpay hne h (.loc "last") t v
    (by simp [evalE, h.last, encLast])
  obtain ⟨e2, hx2, hl2, _⟩ := adv2_spec encP m call fuel hl1 (y2 := y2) (by rw [hs1.2]; exact hc)
  refine ⟨e2, ?_, hl2⟩
  unfold sTailEmit
  rw [exec_seq_ok call fuel hx1, hx2]

/-- one iteration of the first tail loop -/
theorem tailBody1_spec {env : Env α} {p1 c1 p2 : Tm} {v1 w1 v2 : α} {r1 l2 : ASig α} {out : ASig β} {last : Last β}
    {R1 R2 : Except PyErr (DV α)}
    (h : Loc encP m env ((p1, v1) :: (c1, w1) :: r1) l2 (p1, v1) (p2, v2) out last R1 R2) (N : Bool × ASig β × Last β)
    (hN : tailNext ne p2 (f v1 v2) (f w1 v2) out last (tailDec p1 c1 p2) = N) :
    ∃ env' l1' x1', exec call fuel tailBody1 env = .ok (env', if N.1 then .none else .brk) ∧
      Loc encP m env' l1' l2 x1' (p2, v2) N.2.1 N.2.2 R1 R2 ∧ (N.1 = true → l1' = (c1, w1) :: r1 ∧ x1' = (c1, w1)) := by
  have k1 : exec call fuel sCur1 env = .ok (setLoc C1 (encSmp (c1, w1)) env, .none) :=
    exec_setLoc call fuel (by simp [evalE, h.in1, encSig, evalIdx, pyIndex])
  have h1 := h.set_other encP m C1 (encSmp (c1, w1)) (by decide)
  generalize henv1 : setLoc C1 (encSmp (c1, w1)) env = env1 at k1 h1
  have hc1 : getLoc C1 env1 = .ok (encSmp (c1, w1)) := by subst henv1; simp
  unfold tailBody1
  rw [exec_seq_ok call fuel k1, tailChain1_spec call fuel p1 c1 p2 (a1 := .val v1) (b1 := .val w1) (a2 := .val v2)
    h1.p1 hc1 h1.p2]
  subst hN
  cases hd : tailDec p1 c1 p2 with
  | stop =>
      simp only [tailNext, tailK1, Bool.false_eq_true, ↓reduceIte]
      exact ⟨env1, _, _, rfl, h1, by simp⟩
  | stopSet =>
      simp only [tailNext, tailK1, Bool.false_eq_true, ↓reduceIte]
      obtain ⟨e2, hx, _, hl, _⟩ := lastset_spec encP m call fuel f ne hcall hpay hne h1 P1 P2 P2 p1 p2 p2 v1 v2 (.val v2)
        h1.p1 h1.p2 h1.p2 (by decide)
      refine ⟨e2, _, _, ?_, hl, by simp⟩
      rw [hx, exec_brk]
  | contA =>
      simp only [tailNext, tailK1, ↓reduceIte]
      obtain ⟨e2, hx, _, hl, hs⟩ := lastset_spec encP m call fuel f ne hcall hpay hne h1 P1 P2 P2 p1 p2 p2 v1 v2 (.val v2)
        h1.p1 h1.p2 h1.p2 (by decide)
      obtain ⟨e3, hx3, hl3⟩ := tailEmit1_spec encP m call fuel f ne hcall hpay hne hl (y1 := (c1, w1))
        (by rw [hs.1]; exact hc1)
      refine ⟨e3, _, _, ?_, hl3, fun _ => ⟨rfl, rfl⟩⟩
      rw [hx, hx3]
  | contB =>
      simp only [tailNext, tailK1, ↓reduceIte]
      obtain ⟨e2, hx, _, hl, hs⟩ := lastset_spec encP m call fuel f ne hcall hpay hne h1 C1 P2 P2 c1 p2 p2 w1 v2 (.val v2)
        hc1 h1.p2 h1.p2 (by decide)
      obtain ⟨e3, hx3, hl3⟩ := tailEmit1_spec encP m call fuel f ne hcall hpay hne hl (y1 := (c1, w1))
        (by rw [hs.1]; exact hc1)
      refine ⟨e3, _, _, ?_, hl3, fun _ => ⟨rfl, rfl⟩⟩
      rw [hx, hx3]
  | contNil =>
      simp only [tailNext, tailK1, ↓reduceIte]
      have k2 : exec call fuel (.setLoc "last" .emptyList) env1 = .ok (setLoc "last" (encLast encP (.nil : Last β)) env1, .none) :=
        exec_setLoc call fuel (by simp [evalE, encLast])
      obtain ⟨e3, hx3, hl3, _⟩ := adv1_spec encP m call fuel (h1.set_last encP m .nil) (y1 := (c1, w1))
        (by rw [getLoc_setLoc_ne _ _ _ _ (by decide)]; exact hc1)
      refine ⟨e3, _, _, ?_, hl3, fun _ => ⟨rfl, rfl⟩⟩
      rw [exec_seq_ok call fuel k2, hx3]

/-- one iteration of the second tail loop -/
theorem tailBody2_spec {env : Env α} {p2 c2 p1 : Tm} {v2 w2 v1 : α} {r2 l1 : ASig α} {out : ASig β} {last : Last β}
    {R1 R2 : Except PyErr (DV α)}
    (h : Loc encP m env l1 ((p2, v2) :: (c2, w2) :: r2) (p1, v1) (p2, v2) out last R1 R2) (N : Bool × ASig β × Last β)
    (hN : tailNext ne p1 (f v1 v2) (f v1 w2) out last (tailDec p2 c2 p1) = N) :
    ∃ env' l2' x2', exec call fuel tailBody2 env = .ok (env', if N.1 then .none else .brk) ∧
      Loc encP m env' l1 l2' (p1, v1) x2' N.2.1 N.2.2 R1 R2 ∧ (N.1 = true → l2' = (c2, w2) :: r2 ∧ x2' = (c2, w2)) := by
  have k1 : exec call fuel sCur2 env = .ok (setLoc C2 (encSmp (c2, w2)) env, .none) :=
    exec_setLoc call fuel (by simp [evalE, h.in2, encSig, evalIdx, pyIndex])
  have h1 := h.set_other encP m C2 (encSmp (c2, w2)) (by decide)
  generalize henv1 : setLoc C2 (encSmp (c2, w2)) env = env1 at k1 h1
  have hc2 : getLoc C2 env1 = .ok (encSmp (c2, w2)) := by subst henv1; simp
  unfold tailBody2
  rw [exec_seq_ok call fuel k1, tailChain2_spec call fuel p2 c2 p1 (a1 := .val v1) (b2 := .val w2) (a2 := .val v2)
    h1.p2 hc2 h1.p1]
  subst hN
  cases hd : tailDec p2 c2 p1 with
  | stop =>
      simp only [tailNext, tailK2, Bool.false_eq_true, ↓reduceIte]
      exact ⟨env1, _, _, rfl, h1, by simp⟩
  | stopSet =>
      simp only [tailNext, tailK2, Bool.false_eq_true, ↓reduceIte]
      obtain ⟨e2, hx, _, hl, _⟩ := lastset_spec encP m call fuel f ne hcall hpay hne h1 P1 P2 P1 p1 p2 p1 v1 v2 (.val v1)
        h1.p1 h1.p2 h1.p1 (by decide)
      refine ⟨e2, _, _, ?_, hl, by simp⟩
      rw [hx, exec_brk]
  | contA =>
      simp only [tailNext, tailK2, ↓reduceIte]
      obtain ⟨e2, hx, _, hl, hs⟩ := lastset_spec encP m call fuel f ne hcall hpay hne h1 P1 P2 P1 p1 p2 p1 v1 v2 (.val v1)
        h1.p1 h1.p2 h1.p1 (by decide)
      obtain ⟨e3, hx3, hl3⟩ := tailEmit2_spec encP m call fuel f ne hcall hpay hne hl (y2 := (c2, w2))
        (by rw [hs.2]; exact hc2)
      refine ⟨e3, _, _, ?_, hl3, fun _ => ⟨rfl, rfl⟩⟩
      rw [hx, hx3]
  | contB =>
      simp only [tailNext, tailK2, ↓reduceIte]
      obtain ⟨e2, hx, _, hl, hs⟩ := lastset_spec encP m call fuel f ne hcall hpay hne h1 P1 C2 P1 p1 c2 p1 v1 w2 (.val v1)
        h1.p1 hc2 h1.p1 (by decide)
      obtain ⟨e3, hx3, hl3⟩ := tailEmit2_spec encP m call fuel f ne hcall hpay hne hl (y2 := (c2, w2))
        (by rw [hs.2]; exact hc2)
      refine ⟨e3, _, _, ?_, hl3, fun _ => ⟨rfl, rfl⟩⟩
      rw [hx, hx3]
  | contNil =>
      simp only [tailNext, tailK2, ↓reduceIte]
      have k2 : exec call fuel (.setLoc "last" .emptyList) env1 = .ok (setLoc "last" (encLast encP (.nil : Last β)) env1, .none) :=
        exec_setLoc call fuel (by simp [evalE, encLast])
      obtain ⟨e3, hx3, hl3, _⟩ := adv2_spec encP m call fuel (h1.set_last encP m .nil) (y2 := (c2, w2))
        (by rw [getLoc_setLoc_ne _ _ _ _ (by decide)]; exact hc2)
      refine ⟨e3, _, _, ?_, hl3, fun _ => ⟨rfl, rfl⟩⟩
      rw [exec_seq_ok call fuel k2, hx3]

/-- the first tail loop against `tail1` -/
theorem tailLoop1_spec {l2 : ASig α} {R1 R2 : Except PyErr (DV α)} (p2 : Tm) (v2 : α) : ∀ (n : Nat) (l1 : ASig α)
    (x1 : Tm × α) (out : ASig β) (last : Last β) (env : Env α), l1.length < n →
    Loc encP m env l1 l2 x1 (p2, v2) out last R1 R2 → l1.head? = some x1 →
    ∃ env' l1' x1', whileLoop (fun env => do truthy (← evalE call env tailCond1)) (exec call fuel tailBody1) n env =
        .ok (env', .none) ∧
      Loc encP m env' l1' l2 x1' (p2, v2) (tail1 f ne p2 v2 l1 out last).1 (tail1 f ne p2 v2 l1 out last).2 R1 R2 := by
  intro n
  induction n with
  | zero => intro l1 x1 out last env hn; omega
  | succ n ih =>
      intro l1 x1 out last env hn h hh1
      have hc := tailCond1_spec encP m call h
      by_cases hl : l1.length < 2
      · rw [tail1_short f ne p2 v2 l1 out last hl]
        have hf : decide (2 ≤ l1.length) = false := by simp; omega
        rw [hf] at hc
        exact ⟨env, l1, x1, whileLoop_done _ _ _ _ hc, h⟩
      · have ht : decide (2 ≤ l1.length) = true := by simp; omega
        rw [ht] at hc
        obtain ⟨⟨p1, v1⟩, ⟨c1, w1⟩, r1, rfl⟩ : ∃ x y r, l1 = x :: y :: r := by
          rcases l1 with _ | ⟨x, _ | ⟨y, r⟩⟩
          · simp at hl
          · simp at hl
          · exact ⟨x, y, r, rfl⟩
        simp only [List.head?_cons, Option.some.injEq] at hh1
        subst hh1
        rw [tail1_dec]
        generalize hN : tailNext ne p2 (f v1 v2) (f w1 v2) out last (tailDec p1 c1 p2) = N
        obtain ⟨env', l1', x1', hex, hl', hcont⟩ := tailBody1_spec encP m call fuel f ne hcall hpay hne h N hN
        obtain ⟨cont, o, la⟩ := N
        cases cont with
        | false =>
            simp only [Bool.false_eq_true, ↓reduceIte] at hex ⊢
            exact ⟨env', l1', x1', whileLoop_break _ _ _ _ _ hc hex, hl'⟩
        | true =>
            simp only [↓reduceIte] at hex ⊢
            obtain ⟨rfl, rfl⟩ := hcont rfl
            rw [whileLoop_step _ _ _ _ _ hc hex]
            exact ih _ _ _ _ env' (by simp only [List.length_cons] at hn ⊢; omega) hl' rfl

/-- the second tail loop against `tail2` -/
theorem tailLoop2_spec {l1 : ASig α} {R1 R2 : Except PyErr (DV α)} (p1 : Tm) (v1 : α) : ∀ (n : Nat) (l2 : ASig α)
    (x2 : Tm × α) (out : ASig β) (last : Last β) (env : Env α), l2.length < n →
    Loc encP m env l1 l2 (p1, v1) x2 out last R1 R2 → l2.head? = some x2 →
    ∃ env' l2' x2', whileLoop (fun env => do truthy (← evalE call env tailCond2)) (exec call fuel tailBody2) n env =
        .ok (env', .none) ∧
      Loc encP m env' l1 l2' (p1, v1) x2' (tail2 f ne p1 v1 l2 out last).1 (tail2 f ne p1 v1 l2 out last).2 R1 R2 := by
  intro n
  induction n with
  | zero => intro l2 x2 out last env hn; omega
  | succ n ih =>
      intro l2 x2 out last env hn h hh2
      have hc := tailCond2_spec encP m call h
      by_cases hl : l2.length < 2
      · rw [tail2_short f ne p1 v1 l2 out last hl]
        have hf : decide (2 ≤ l2.length) = false := by simp; omega
        rw [hf] at hc
        exact ⟨env, l2, x2, whileLoop_done _ _ _ _ hc, h⟩
      · have ht : decide (2 ≤ l2.length) = true := by simp; omega
        rw [ht] at hc
        obtain ⟨⟨p2, v2⟩, ⟨c2, w2⟩, r2, rfl⟩ : ∃ x y r, l2 = x :: y :: r := by
          rcases l2 with _ | ⟨x, _ | ⟨y, r⟩⟩
          · simp at hl
          · simp at hl
          · exact ⟨x, y, r, rfl⟩
        simp only [List.head?_cons, Option.some.injEq] at hh2
        subst hh2
        rw [tail2_dec]
        generalize hN : tailNext ne p1 (f v1 v2) (f v1 w2) out last (tailDec p2 c2 p1) = N
        obtain ⟨env', l2', x2', hex, hl', hcont⟩ := tailBody2_spec encP m call fuel f ne hcall hpay hne h N hN
        obtain ⟨cont, o, la⟩ := N
        cases cont with
        | false =>
            simp only [Bool.false_eq_true, ↓reduceIte] at hex ⊢
            exact ⟨env', l2', x2', whileLoop_break _ _ _ _ _ hc hex, hl'⟩
        | true =>
            simp only [↓reduceIte] at hex ⊢
            obtain ⟨rfl, rfl⟩ := hcont rfl
            rw [whileLoop_step _ _ _ _ _ hc hex]
            exact ih _ _ _ _ env' (by simp only [List.length_cons] at hn ⊢; omega) hl' rfl

end tailbody

end loop

/-! ### the function -/

section mirror2
variable {β : Type} (f : α → α → β) (ne : β → β → Bool)

/-- what `interOn` does after the main loop -/
def tailSel (out : ASig β) (last : Last β) (l1 l2 : ASig α) : ASig β × Last β :=
  match l1, l2 with
  | _ :: _ :: _, (q2, x2) :: _ => tail1 f ne q2 x2 l1 out last
  | (q1, x1) :: _, _ :: _ :: _ => tail2 f ne q1 x1 l2 out last
  | _, _ => (out, last)

theorem interOn_cons (p1 : Tm) (v1 : α) (t1 : ASig α) (p2 : Tm) (v2 : α) (t2 : ASig α) :
    interOn f ne ((p1, v1) :: t1) ((p2, v2) :: t2) =
      match onLoop f ne ((p1, v1) :: t1) ((p2, v2) :: t2) [] (if p1 == p2 then .item p1 (f v1 v2) else .nil) with
      | .ok (out, last, l1, l2) => .ok ((tailSel f ne out last l1 l2).1, (tailSel f ne out last l1 l2).2, l1, l2)
      | .error e => .error e := by
  unfold interOn
  dsimp only
  cases hr : onLoop f ne ((p1, v1) :: t1) ((p2, v2) :: t2) [] (if p1 == p2 then .item p1 (f v1 v2) else .nil) with
  | error e => rfl
  | ok res =>
      obtain ⟨out, last, l1, l2⟩ := res
      simp only [ok_bind]
      rcases l1 with _ | ⟨⟨q1, y1⟩, _ | ⟨b1, r1⟩⟩ <;> rcases l2 with _ | ⟨⟨q2, y2⟩, _ | ⟨b2, r2⟩⟩ <;> rfl

end mirror2

/-- the 4-tuple `intersection` returns, or the exception -/
def encRes {β : Type} (encP : β → DV α) : Except PyErr (ASig β × Last β × ASig α × ASig α) → Except PyErr (DV α)
  | .ok (out, last, r1, r2) => .ok (.list [encSigP encP out, encLast encP last, encSig r1, encSig r2])
  | .error e => .error e

section fn
variable (call : Call α) (fuel : Nat)
variable {β : Type} (encP : β → DV α) (f : α → α → β) (ne : β → β → Bool) (m : String)
  (hcall : ∀ a b, call m [.val a, .val b] = .ok (encP (f a b)))
  (hpay : ∀ x, toPayload (encP x) = .ok (encP x))
  (hne : ∀ x y, cmpDV .ne (encP x) (encP y) = .ok (ne x y))
  (hlist : ∀ l, call "list" [.list l] = .ok (.list l))
  (hlen : ∀ l, call "len" [.list l] = .ok (.int l.length))
include hcall hpay hne hlist hlen

theorem lenGt_spec {env : Env α} (x : String) (l : ASig α) (hx : getLoc x env = .ok (encSig l))
    (hn : getLoc "len" env = .error .key) :
    evalE call env (.bin .gt (.call1 "len" (.loc x)) (.int 1)) = .ok (.bool (decide (1 < l.length))) := by
  simp [evalE, hx, resolve_of_key hn, encSig, hlen, evalBin, isCmp, cmpDV, cmpInt, Except.map]
  omega

/-- `if len(in_samples_1) > 1: while … elif len(in_samples_2) > 1: while …` -/
theorem tails_spec {env : Env α} {l1 l2 : ASig α} {x1 x2 : Tm × α} {out : ASig β} {last : Last β}
    {R1 R2 : Except PyErr (DV α)} (h : Loc encP m env l1 l2 x1 x2 out last R1 R2) (hh1 : l1.head? = some x1)
    (hh2 : l2.head? = some x2) (hf1 : l1.length < fuel) (hf2 : l2.length < fuel) :
    ∃ env' l1' l2' x1' x2', exec call fuel sTails env = .ok (env', .none) ∧
      Loc encP m env' l1' l2' x1' x2' (tailSel f ne out last l1 l2).1 (tailSel f ne out last l1 l2).2 R1 R2 := by
  unfold sTails
  rw [exec_ite_bool call fuel (lenGt_spec call encP f ne m hcall hpay hne hlist hlen "in_samples_1" l1 h.in1 h.rn)]
  rcases l1 with _ | ⟨⟨q1, y1⟩, _ | ⟨b1, r1⟩⟩
  · simp at hh1
  · simp only [List.head?_cons, Option.some.injEq] at hh1
    subst hh1
    simp only [List.length_cons, List.length_nil, Nat.zero_add, Nat.lt_irrefl, decide_false, Bool.false_eq_true, ↓reduceIte]
    rw [exec_ite_bool call fuel (lenGt_spec call encP f ne m hcall hpay hne hlist hlen "in_samples_2" l2 h.in2 h.rn)]
    rcases l2 with _ | ⟨⟨q2, y2⟩, _ | ⟨b2, r2⟩⟩
    · simp at hh2
    · simp only [List.length_cons, List.length_nil, Nat.zero_add, Nat.lt_irrefl, decide_false, Bool.false_eq_true,
        ↓reduceIte]
      exact ⟨env, _, _, _, _, by rw [exec], h⟩
    · simp only [List.head?_cons, Option.some.injEq] at hh2
      subst hh2
      have hd : decide (1 < ((q2, y2) :: b2 :: r2).length) = true := by simp
      rw [hd]
      simp only [↓reduceIte]
      rw [exec_while]
      obtain ⟨env', l2', x2', hw, hl⟩ := tailLoop2_spec encP m call fuel f ne hcall hpay hne q1 y1 fuel _ _ _ _ env hf2 h rfl
      exact ⟨env', _, _, _, _, hw, hl⟩
  · simp only [List.head?_cons, Option.some.injEq] at hh1
    subst hh1
    have hd : decide (1 < ((q1, y1) :: b1 :: r1).length) = true := by simp
    rw [hd]
    simp only [↓reduceIte]
    rw [exec_while]
    rcases l2 with _ | ⟨⟨q2, y2⟩, t2⟩
    · simp at hh2
    · simp only [List.head?_cons, Option.some.injEq] at hh2
      subst hh2
      obtain ⟨env', l1', x1', hw, hl⟩ := tailLoop1_spec encP m call fuel f ne hcall hpay hne q2 y2 fuel _ _ _ _ env hf1 h rfl
      exact ⟨env', _, _, _, _, hw, hl⟩

/-- the body of `intersection` after the early return, both operands non-empty -/
theorem rest_spec (env : Env α) (p1 : Tm) (v1 : α) (t1 : ASig α) (p2 : Tm) (v2 : α) (t2 : ASig α)
    (hfuel : ((p1, v1) :: t1).length + ((p2, v2) :: t2).length < fuel)
    (hin1 : getLoc "in_samples_1" env = .ok (encSig ((p1, v1) :: t1)))
    (hin2 : getLoc "in_samples_2" env = .ok (encSig ((p2, v2) :: t2)))
    (hout : getLoc "out_samples" env = .ok (.list [])) (hlast : getLoc "last" env = .ok (.list []))
    (hm : getLoc "method" env = .ok (.fn m)) (hrl : getLoc "list" env = .error .key)
    (hrn : getLoc "len" env = .error .key) :
    match interOn f ne ((p1, v1) :: t1) ((p2, v2) :: t2) with
    | .ok (out, last, r1, r2) => ∃ env', exec call fuel interRest env =
        .ok (env', .ret (.list [encSigP encP out, encLast encP last, encSig r1, encSig r2]))
    | .error e => exec call fuel interRest env = .error e := by
  have hp1 : exec call fuel (.setLoc P1 (.idx (.loc "in_samples_1") (.int 0))) env =
      .ok (setLoc P1 (encSmp (p1, v1)) env, .none) :=
    exec_setLoc call fuel (by simp [evalE, hin1, encSig, evalIdx_cons0])
  have hp2 : exec call fuel (.setLoc P2 (.idx (.loc "in_samples_2") (.int 0))) (setLoc P1 (encSmp (p1, v1)) env) =
      .ok (setLoc P2 (encSmp (p2, v2)) (setLoc P1 (encSmp (p1, v1)) env), .none) :=
    exec_setLoc call fuel (by simp [evalE, hin2, encSig, evalIdx_cons0])
  generalize henv6 : setLoc P2 (encSmp (p2, v2)) (setLoc P1 (encSmp (p1, v1)) env) = env6 at hp2
  have h6 : Loc encP m env6 ((p1, v1) :: t1) ((p2, v2) :: t2) (p1, v1) (p2, v2) ([] : ASig β) .nil
      (getLoc "remainder_samples_1" env6) (getLoc "remainder_samples_2" env6) := by
    subst henv6
    constructor
    · simp [hin1]
    · simp [hin2]
    · simp [hout, encSigP]
    · simp [hlast, encLast]
    · simp
    · simp
    · simp [hm]
    · rfl
    · rfl
    · simp [hrl]
    · simp [hrn]
  generalize getLoc "remainder_samples_1" env6 = R1 at h6
  generalize getLoc "remainder_samples_2" env6 = R2 at h6
  -- the initial `last`
  obtain ⟨env7, hx7, h7⟩ : ∃ env7, exec call fuel sInitLast env6 = .ok (env7, .none) ∧
      Loc encP m env7 ((p1, v1) :: t1) ((p2, v2) :: t2) (p1, v1) (p2, v2) ([] : ASig β)
        (if p1 == p2 then .item p1 (f v1 v2) else .nil) R1 R2 := by
    unfold sInitLast
    rw [exec_ite_bool call fuel (evalE_aEq call h6.p1 h6.p2)]
    cases hpp : (p1 == p2) with
    | false =>
        simp only [Bool.false_eq_true, ↓reduceIte]
        exact ⟨env6, by rw [exec], h6⟩
    | true =>
        simp only [↓reduceIte]
        have k1 : exec call fuel (.setLoc "out_val" (.call2 "method" (.idx (.loc P1) (.int 1)) (.idx (.loc P2) (.int 1)))) env6 =
            .ok (setLoc "out_val" (encP (f v1 v2)) env6, .none) := by
          apply exec_setLoc
          simp [evalE, h6.p1, h6.p2, encSmp, evalIdx, pyIndex, resolve_of_getLoc h6.m, hcall]
        have k2 : exec call fuel (.setLoc "last" (.list2 (.idx (.loc P1) (.int 0)) (.loc "out_val")))
            (setLoc "out_val" (encP (f v1 v2)) env6) =
            .ok (setLoc "last" (encLast encP (.item p1 (f v1 v2))) (setLoc "out_val" (encP (f v1 v2)) env6), .none) := by
          apply exec_setLoc
          simp [evalE, h6.p1, encSmp, evalIdx, pyIndex, mkList2, hpay, encLast]
        refine ⟨_, ?_, (h6.set_other encP m "out_val" (encP (f v1 v2)) (by decide)).set_last encP m (.item p1 (f v1 v2))⟩
        rw [exec_seq_ok call fuel k1, k2]
  have hloop := loop_spec encP m call fuel f ne hcall hpay hne fuel _ _ _ _ _ _ env7 hfuel h7 rfl rfl
  unfold interRest
  rw [exec_seq_ok call fuel hp1, exec_seq_ok call fuel hp2, exec_seq_ok call fuel hx7, interOn_cons]
  cases hr : onLoop f ne ((p1, v1) :: t1) ((p2, v2) :: t2) [] (if p1 == p2 then .item p1 (f v1 v2) else .nil) with
  | error e =>
      rw [hr] at hloop
      exact exec_seq_err call fuel (by rw [exec_while]; exact hloop)
  | ok res =>
      obtain ⟨o, la, l1', l2'⟩ := res
      rw [hr] at hloop
      obtain ⟨env8, x1', x2', hw, h8, hh1, hh2, hle1, hle2⟩ := hloop
      rw [exec_seq_ok call fuel (by rw [exec_while]; exact hw)]
      have k9 : exec call fuel sRem1 env8 = .ok (setLoc "remainder_samples_1" (encSig l1') env8, .none) := by
        apply exec_setLoc
        simp [evalE, h8.in1, resolve_of_key h8.rl, encSig, hlist]
      have h9 := h8.set_r1 encP m (encSig l1')
      have k10 : exec call fuel sRem2 (setLoc "remainder_samples_1" (encSig l1') env8) =
          .ok (setLoc "remainder_samples_2" (encSig l2') (setLoc "remainder_samples_1" (encSig l1') env8), .none) := by
        apply exec_setLoc
        simp [evalE, h8.in2, resolve_of_key h8.rl, encSig, hlist]
      have h10 := h9.set_r2 encP m (encSig l2')
      rw [exec_seq_ok call fuel k9, exec_seq_ok call fuel k10]
      obtain ⟨env11, l1'', l2'', y1, y2, hx11, h11⟩ := tails_spec call fuel encP f ne m hcall hpay hne hlist hlen h10 hh1 hh2
        (by simp only [List.length_cons] at hfuel hle1; omega) (by simp only [List.length_cons] at hfuel hle2; omega)
      rw [exec_seq_ok call fuel hx11]
      refine ⟨env11, ?_⟩
      simp [sRet, exec, evalE, h11.out, h11.last, h11.r1, h11.r2]


theorem run_intersection (s1 s2 : ASig α) (hfuel : s1.length + s2.length < fuel) :
    runFn call fuel Gen.DenseOn.fn_intersection [encSig s1, encSig s2, .fn m] = encRes encP (interOn f ne s1 s2) := by
  unfold runFn
  rw [fn_intersection_isMethod, fn_intersection_params, fn_intersection_body]
  simp only [Bool.false_eq_true, ↓reduceIte, List.length_cons, List.length_nil, List.zip_cons_cons, List.zip_nil_right,
    ne_eq, not_true_eq_false]
  generalize henv0 : ([("in_samples_1", encSig s1), ("in_samples_2", encSig s2), ("method", DV.fn m)] : Env α) = env0
  have k1 : getLoc "in_samples_1" env0 = .ok (encSig s1) := by subst henv0; simp
  have k2 : getLoc "in_samples_2" env0 = .ok (encSig s2) := by subst henv0; simp
  have k3 : getLoc "method" env0 = .ok (.fn m) := by subst henv0; simp
  have k4 : getLoc "list" env0 = .error .key := by subst henv0; simp
  have k5 : getLoc "len" env0 = .error .key := by subst henv0; simp
  have r1 : resolve env0 "list" = "list" := resolve_of_key k4
  have e1 : exec call fuel (.setLoc "in_samples_1" (.call1 "list" (.loc "in_samples_1"))) env0 =
      .ok (setLoc "in_samples_1" (encSig s1) env0, .none) :=
    exec_setLoc call fuel (by simp [evalE, k1, r1, encSig, hlist])
  have e2 : exec call fuel (.setLoc "in_samples_2" (.call1 "list" (.loc "in_samples_2")))
      (setLoc "in_samples_1" (encSig s1) env0) =
      .ok (setLoc "in_samples_2" (encSig s2) (setLoc "in_samples_1" (encSig s1) env0), .none) :=
    exec_setLoc call fuel (by simp [evalE, k2, r1, encSig, hlist])
  have e3 : exec call fuel (.setLoc "out_samples" .emptyList)
      (setLoc "in_samples_2" (encSig s2) (setLoc "in_samples_1" (encSig s1) env0)) =
      .ok (setLoc "out_samples" (.list []) (setLoc "in_samples_2" (encSig s2) (setLoc "in_samples_1" (encSig s1) env0)),
        .none) :=
    exec_setLoc call fuel (by simp [evalE])
  have e4 : exec call fuel (.setLoc "last" .emptyList)
      (setLoc "out_samples" (.list []) (setLoc "in_samples_2" (encSig s2) (setLoc "in_samples_1" (encSig s1) env0))) =
      .ok (setLoc "last" (.list []) (setLoc "out_samples" (.list [])
        (setLoc "in_samples_2" (encSig s2) (setLoc "in_samples_1" (encSig s1) env0))), .none) :=
    exec_setLoc call fuel (by simp [evalE])
  rw [exec_seq_ok call fuel e1, exec_seq_ok call fuel e2, exec_seq_ok call fuel e3, exec_seq_ok call fuel e4]
  generalize henv4 : setLoc "last" (.list []) (setLoc "out_samples" (.list [])
        (setLoc "in_samples_2" (encSig s2) (setLoc "in_samples_1" (encSig s1) env0))) = env4
  have q1 : getLoc "in_samples_1" env4 = .ok (encSig s1) := by subst henv4; simp
  have q2 : getLoc "in_samples_2" env4 = .ok (encSig s2) := by subst henv4; simp
  have q3 : getLoc "method" env4 = .ok (.fn m) := by subst henv4; simp [k3]
  have q4 : getLoc "out_samples" env4 = .ok (.list []) := by subst henv4; simp
  have q5 : getLoc "last" env4 = .ok (.list []) := by subst henv4; simp
  have q6 : getLoc "list" env4 = .error .key := by subst henv4; simp [k4]
  have q7 : getLoc "len" env4 = .error .key := by subst henv4; simp [k5]
  have hc : evalE call env4 (.or_ (.bin .eq (.call1 "len" (.loc "in_samples_1")) (.int 0))
      (.bin .eq (.call1 "len" (.loc "in_samples_2")) (.int 0))) = .ok (.bool (s1.isEmpty || s2.isEmpty)) := by
    have hnz : ∀ n : Nat, ¬ ((n : Int) + 1 = 0) := by intro n; omega
    cases s1 <;> cases s2 <;>
      simp [evalE, q1, q2, resolve_of_key q7, encSig, hlen, evalBin, isCmp, cmpDV, cmpInt, truthy, Except.map, hnz]
  by_cases hemp : (s1.isEmpty || s2.isEmpty) = true
  · have he : exec call fuel sEarly env4 = .ok (env4, .ret (.list [.list [], .list [], encSig s1, encSig s2])) := by
      unfold sEarly
      rw [exec_ite_bool call fuel hc]
      simp [hemp, exec, evalE, q1, q2, q4, q5]
    rw [exec_seq_ret call fuel he]
    rcases s1 with _ | ⟨x1, t1⟩
    · simp [interOn, encRes, encSigP, encLast]
    · rcases s2 with _ | ⟨x2, t2⟩
      · simp [interOn, encRes, encSigP, encLast]
      · simp at hemp
  · have he : exec call fuel sEarly env4 = .ok (env4, .none) := by
      unfold sEarly
      rw [exec_ite_bool call fuel hc]
      simp [hemp, exec]
    rw [exec_seq_ok call fuel he]
    rcases s1 with _ | ⟨⟨p1, v1⟩, t1⟩
    · simp at hemp
    rcases s2 with _ | ⟨⟨p2, v2⟩, t2⟩
    · simp at hemp
    have hrest := rest_spec call fuel encP f ne m hcall hpay hne hlist hlen env4 p1 v1 t1 p2 v2 t2 hfuel q1 q2 q4 q5 q3 q6 q7
    cases hr : interOn f ne ((p1, v1) :: t1) ((p2, v2) :: t2) with
    | error e =>
        rw [hr] at hrest
        simp [hrest, encRes]
    | ok res =>
        obtain ⟨o, la, l1, l2⟩ := res
        rw [hr] at hrest
        obtain ⟨env', hex⟩ := hrest
        simp [hex, encRes]

end fn

end Rtamt.Py.DnOn.GOnInter

/-! ### main theorems -/

namespace Rtamt.Py.DnOn
open Rtamt Val Rtamt.Dense Rtamt.Dense.Alg Rtamt.Dense.AlgOn Rtamt.Py.DnOn.GOnInter

set_option linter.unusedSectionVars false
set_option linter.unusedVariables false
set_option linter.unusedSimpArgs false

variable {α : Type} [Val α]

/-- The translated online `intersection` returns the 4-tuple `(out_samples, last, remainder_1, remainder_2)` of the mirror
    `interOn f ne` - or raises what the mirror raises - for all inputs, as soon as `s1.length + s2.length < fuel`. -/
theorem gen_on_intersection' (fuel k : Nat) {β : Type} (encP : β → DV α) (f : α → α → β) (ne : β → β → Bool) (m : String)
    (hm : ∀ a b, callAt Gen.DenseOn.fns fuel (k + 1) m [.val a, .val b] = .ok (encP (f a b)))
    (hpay : ∀ x, toPayload (encP x) = .ok (encP x)) (hne : ∀ x y, cmpDV .ne (encP x) (encP y) = .ok (ne x y))
    (s1 s2 : ASig α) (hfuel : s1.length + s2.length < fuel) :
    callAt Gen.DenseOn.fns fuel (k + 2) "intersection" [encSig s1, encSig s2, .fn m] =
      GOnInter.encRes encP (interOn f ne s1 s2) := by
  rw [callAt_fn _ _ _ _ Gen.DenseOn.fn_intersection _ rfl]
  exact run_intersection (callAt Gen.DenseOn.fns fuel (k + 1)) fuel encP f ne m hm hpay hne
    (fun l => by rw [callAt_builtin Gen.DenseOn.fns fuel (k + 1) "list" _ rfl]; simp [builtin])
    (fun l => by rw [callAt_builtin Gen.DenseOn.fns fuel (k + 1) "len" _ rfl]; simp [builtin])
    s1 s2 hfuel

theorem gen_on_intersection (fuel k : Nat) : InterOnSpec α fuel k := by
  intro β encP f ne m hcall hpay hne s1 s2 hfuel
  have h := gen_on_intersection' fuel k encP f ne m hcall hpay hne s1 s2 (by omega)
  cases hr : interOn f ne s1 s2 with
  | error e => rw [hr] at h; exact h
  | ok res =>
      obtain ⟨o, la, l1, l2⟩ := res
      rw [hr] at h
      exact h

theorem GOnInter.encRes_ok {β : Type} (encP : β → DV α) (out : ASig β) (last : Last β) (r1 r2 : ASig α) :
    GOnInter.encRes encP (.ok (out, last, r1, r2)) =
      .ok (.list [encSigP encP out, encLast encP last, encSig r1, encSig r2]) := rfl

theorem GOnInter.encRes_error {β : Type} (encP : β → DV α) (e : PyErr) :
    GOnInter.encRes encP (.error e : Except PyErr (ASig β × Last β × ASig α × ASig α)) = .error e := rfl

theorem gen_on_intersection_ok (fuel k : Nat) {β : Type} (encP : β → DV α) (f : α → α → β) (ne : β → β → Bool) (m : String)
    (hm : ∀ a b, callAt Gen.DenseOn.fns fuel (k + 1) m [.val a, .val b] = .ok (encP (f a b)))
    (hpay : ∀ x, toPayload (encP x) = .ok (encP x)) (hne : ∀ x y, cmpDV .ne (encP x) (encP y) = .ok (ne x y))
    (s1 s2 : ASig α) (hfuel : s1.length + s2.length < fuel) (out : ASig β) (last : Last β) (r1 r2 : ASig α)
    (ho : interOn f ne s1 s2 = .ok (out, last, r1, r2)) :
    callAt Gen.DenseOn.fns fuel (k + 2) "intersection" [encSig s1, encSig s2, .fn m] =
      .ok (.list [encSigP encP out, encLast encP last, encSig r1, encSig r2]) := by
  have h := gen_on_intersection' fuel k encP f ne m hm hpay hne s1 s2 hfuel
  rw [ho] at h
  exact h

theorem gen_on_intersection_error (fuel k : Nat) {β : Type} (encP : β → DV α) (f : α → α → β) (ne : β → β → Bool)
    (m : String) (hm : ∀ a b, callAt Gen.DenseOn.fns fuel (k + 1) m [.val a, .val b] = .ok (encP (f a b)))
    (hpay : ∀ x, toPayload (encP x) = .ok (encP x)) (hne : ∀ x y, cmpDV .ne (encP x) (encP y) = .ok (ne x y))
    (s1 s2 : ASig α) (hfuel : s1.length + s2.length < fuel) (e : PyErr) (ho : interOn f ne s1 s2 = .error e) :
    callAt Gen.DenseOn.fns fuel (k + 2) "intersection" [encSig s1, encSig s2, .fn m] = .error e := by
  have h := gen_on_intersection' fuel k encP f ne m hm hpay hne s1 s2 hfuel
  rw [ho] at h
  exact h

/-! ### the methods handed to `intersection` -/

section methods
variable (fuel k : Nat) (a b : α)

theorem gen_on_disjunction :
    callAt Gen.DenseOn.fns fuel (k + 1) "disjunction" [.val a, .val b] = .ok (.val (pmax a b) : DV α) := by
  rw [callAt_fn _ _ _ _ Gen.DenseOn.fn_disjunction _ rfl]
  simp [runFn, Gen.DenseOn.fn_disjunction, exec, evalE, getLoc, resolve, List.lookup,
    callAt_builtin Gen.DenseOn.fns fuel k "max" _ rfl, builtin, toVal, isTimeLike]

theorem gen_on_conjunction :
    callAt Gen.DenseOn.fns fuel (k + 1) "conjunction" [.val a, .val b] = .ok (.val (pmin a b) : DV α) := by
  rw [callAt_fn _ _ _ _ Gen.DenseOn.fn_conjunction _ rfl]
  simp [runFn, Gen.DenseOn.fn_conjunction, exec, evalE, getLoc, resolve, List.lookup,
    callAt_builtin Gen.DenseOn.fns fuel k "min" _ rfl, builtin, toVal, isTimeLike]

theorem gen_on_implication :
    callAt Gen.DenseOn.fns fuel (k + 1) "implication" [.val a, .val b] = .ok (.val (pmax (Val.neg a) b) : DV α) := by
  rw [callAt_fn _ _ _ _ Gen.DenseOn.fn_implication _ rfl]
  simp [runFn, Gen.DenseOn.fn_implication, exec, evalE, evalNeg, getLoc, resolve, List.lookup,
    callAt_builtin Gen.DenseOn.fns fuel k "max" _ rfl, builtin, toVal, isTimeLike]

theorem gen_on_xor :
    callAt Gen.DenseOn.fns fuel (k + 1) "xor" [.val a, .val b] = .ok (.val (Val.abs (Val.sub a b)) : DV α) := by
  rw [callAt_fn _ _ _ _ Gen.DenseOn.fn_xor _ rfl]
  simp [runFn, Gen.DenseOn.fn_xor, exec, evalE, evalBin, isCmp, arith, isTimeLike, isValLike, getLoc, resolve, List.lookup,
    callAt_builtin Gen.DenseOn.fns fuel k "abs" _ rfl, builtin, toVal]

theorem gen_on_iff :
    callAt Gen.DenseOn.fns fuel (k + 1) "iff" [.val a, .val b] = .ok (.val (Val.neg (Val.abs (Val.sub a b))) : DV α) := by
  rw [callAt_fn _ _ _ _ Gen.DenseOn.fn_iff _ rfl]
  simp [runFn, Gen.DenseOn.fn_iff, exec, evalE, evalNeg, evalBin, isCmp, arith, isTimeLike, isValLike, getLoc, resolve,
    List.lookup, callAt_builtin Gen.DenseOn.fns fuel k "abs" _ rfl, builtin, toVal]

theorem gen_on_addition :
    callAt Gen.DenseOn.fns fuel (k + 1) "addition" [.val a, .val b] = .ok (.val (Val.add a b) : DV α) := by
  rw [callAt_fn _ _ _ _ Gen.DenseOn.fn_addition _ rfl]
  simp [runFn, Gen.DenseOn.fn_addition, exec, evalE, evalBin, isCmp, arith, isTimeLike, isValLike, getLoc, List.lookup, toVal]

theorem gen_on_subtraction :
    callAt Gen.DenseOn.fns fuel (k + 1) "subtraction" [.val a, .val b] = .ok (.val (Val.sub a b) : DV α) := by
  rw [callAt_fn _ _ _ _ Gen.DenseOn.fn_subtraction _ rfl]
  simp [runFn, Gen.DenseOn.fn_subtraction, exec, evalE, evalBin, isCmp, arith, isTimeLike, isValLike, getLoc, List.lookup,
    toVal]

theorem gen_on_multiplication :
    callAt Gen.DenseOn.fns fuel (k + 1) "multiplication" [.val a, .val b] = .ok (.val (Val.mul a b) : DV α) := by
  rw [callAt_fn _ _ _ _ Gen.DenseOn.fn_multiplication _ rfl]
  simp [runFn, Gen.DenseOn.fn_multiplication, exec, evalE, evalBin, isCmp, arith, isTimeLike, isValLike, getLoc,
    List.lookup, toVal]

theorem gen_on_division :
    callAt Gen.DenseOn.fns fuel (k + 1) "division" [.val a, .val b] = .ok (.val (Val.div a b) : DV α) := by
  rw [callAt_fn _ _ _ _ Gen.DenseOn.fn_division _ rfl]
  simp [runFn, Gen.DenseOn.fn_division, exec, evalE, evalBin, isCmp, arith, isTimeLike, isValLike, getLoc, resolve,
    List.lookup, callAt_builtin Gen.DenseOn.fns fuel k "float" _ rfl, builtin, toVal]

theorem gen_on_power :
    callAt Gen.DenseOn.fns fuel (k + 1) "power" [.val a, .val b] = .ok (.val (Val.pow a b) : DV α) := by
  rw [callAt_fn _ _ _ _ Gen.DenseOn.fn_power _ rfl]
  simp [runFn, Gen.DenseOn.fn_power, exec, evalE, getLoc, resolve, List.lookup,
    callAt_builtin Gen.DenseOn.fns fuel k "math.pow" _ rfl, builtin, toVal]

theorem gen_on_log :
    callAt Gen.DenseOn.fns fuel (k + 1) "log" [.val a, .val b] = .ok (.val (Val.log a b) : DV α) := by
  rw [callAt_fn _ _ _ _ Gen.DenseOn.fn_log _ rfl]
  simp [runFn, Gen.DenseOn.fn_log, exec, evalE, getLoc, resolve, List.lookup,
    callAt_builtin Gen.DenseOn.fns fuel k "math.log" _ rfl, builtin, toVal]

theorem gen_on_split :
    callAt Gen.DenseOn.fns fuel (k + 1) "split" [.val a, .val b] = .ok (encPair (a, b) : DV α) := by
  rw [callAt_fn _ _ _ _ Gen.DenseOn.fn_split _ rfl]
  simp [runFn, Gen.DenseOn.fn_split, exec, evalE, getLoc, List.lookup, mkList2, encPair]

end methods

/-- the name of the method the operation classes hand to `intersection` for a point-wise binary operator -/
def GOnInter.binMethodName : Bin → Option String
  | .add => some "addition"
  | .sub => some "subtraction"
  | .mul => some "multiplication"
  | .div => some "division"
  | .pow => some "power"
  | .log => some "log"
  | .and => some "conjunction"
  | .or => some "disjunction"
  | .implies => some "implication"
  | .iff => some "iff"
  | .xor => some "xor"
  | _ => none

theorem gen_on_binMethod (fuel k : Nat) (op : Bin) (name : String) (h : GOnInter.binMethodName op = some name) (a b : α) :
    callAt Gen.DenseOn.fns fuel (k + 1) name [.val a, .val b] = .ok (.val (binMethod op a b) : DV α) := by
  cases op <;> simp [GOnInter.binMethodName] at h <;> subst h
  · exact gen_on_addition fuel k a b
  · exact gen_on_subtraction fuel k a b
  · exact gen_on_multiplication fuel k a b
  · exact gen_on_division fuel k a b
  · exact gen_on_power fuel k a b
  · exact gen_on_log fuel k a b
  · exact gen_on_conjunction fuel k a b
  · exact gen_on_disjunction fuel k a b
  · exact gen_on_implication fuel k a b
  · exact gen_on_iff fuel k a b
  · exact gen_on_xor fuel k a b

/-! ### `intersection` with the methods on values and with `split` -/

theorem GOnInter.toPayload_val (x : α) : toPayload (DV.val x : DV α) = .ok (.val x) := rfl

theorem GOnInter.cmpDV_ne_val (x y : α) : cmpDV .ne (DV.val x : DV α) (.val y) = .ok (vne x y) := by
  simp [cmpDV, isTimeLike, isValLike, toVal, cmpVal]

theorem GOnInter.toPayload_encPair (x : α × α) : toPayload (encPair x : DV α) = .ok (encPair x) := rfl

theorem GOnInter.cmpDV_ne_encPair (x y : α × α) : cmpDV .ne (encPair x : DV α) (encPair y) = .ok (pairNe x y) := by
  simp [cmpDV, encPair, pairNe]

/-- `intersection(l, r, m)` for a method `m` on values (`conjunction`, `subtraction`, …): `_append` compares with `!=`. -/
theorem gen_on_inter_val (fuel k : Nat) (m : String) (f : α → α → α)
    (hm : ∀ a b, callAt Gen.DenseOn.fns fuel (k + 1) m [.val a, .val b] = .ok (.val (f a b) : DV α))
    (l r : ASig α) (h : l.length + r.length < fuel) :
    callAt Gen.DenseOn.fns fuel (k + 2) "intersection" [encSig l, encSig r, .fn m] =
      GOnInter.encRes (fun x => DV.val x) (interOn f vne l r) :=
  gen_on_intersection' fuel k (fun x => DV.val x) f vne m hm toPayload_val cmpDV_ne_val l r h

/-- `intersection(l, r, split)` (the since / until classes) -/
theorem gen_on_inter_split (fuel k : Nat) (l r : ASig α) (h : l.length + r.length < fuel) :
    callAt Gen.DenseOn.fns fuel (k + 2) "intersection" [encSig l, encSig r, .fn "split"] =
      GOnInter.encRes encPair (interOn (fun a b => (a, b)) pairNe l r) :=
  gen_on_intersection' fuel k encPair (fun a b => (a, b)) pairNe "split" (gen_on_split fuel k)
    toPayload_encPair cmpDV_ne_encPair l r h

end Rtamt.Py.DnOn
