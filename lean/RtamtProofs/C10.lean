/-
  C10 — reset() returns an online monitor to its initial state.

  "For every specification and every sequence of updates fed before it, after reset()
   all subsequent update() calls return exactly what a freshly constructed, parsed (and
   pastified) monitor returns for the same subsequent inputs, and the sampling-violation
   counter restarts at 0 … calling reset() before the first update is harmless."

  Discrete time: mirror of every operation's `reset()` and of the reset visitor.
  (Dense time: `reset()` reconstructs the operators — `set_ast` — so the statement is
  the definition of a fresh monitor there; it is covered by the correspondence stream.)
-/
import RtamtProofs.C02
import Rtamt.Discrete.Sampling

namespace Rtamt
open Val

variable {α : Type} [Val α]

omit [Val α] in
private theorem pushN_eq (x : α) (k : Nat) :
    ∀ l : List α, pushN l x k = (l ++ List.replicate k x).drop k := by
  induction k with
  | zero => intro l; simp [pushN]
  | succ k ih =>
    intro l
    rw [pushN, ih]
    cases l with
    | nil => simp [dqPush]
    | cons a l => simp [dqPush, List.replicate_succ]

omit [Val α] in
/-- A full `deque(maxlen = m)` that receives `m` copies of `x` holds `m` copies of `x`,
    whatever it held before (the `reset()` of the bounded operations). -/
theorem pushN_full (l : List α) (x : α) (m : Nat) (hl : l.length = m) :
    pushN l x m = List.replicate m x := by
  subst hl
  rw [pushN_eq]
  simp

omit [Val α] in
private theorem dqPush_length (l : List α) (x : α) : (dqPush l x).length = l.length := by
  simp [dqPush]

/-! ### the shape invariant -/

/-- State of a bounded unary operation: a full deque of `b+1` elements. -/
def ShB1 (op : TB1) (b : Nat) (s : St α) : Prop :=
  match op with
  | .once | .hist => ∃ l, s = .buf l ∧ l.length = b + 1
  | _ => s = .unit

def ShB2 (op : TB2) (b : Nat) (s : St α) : Prop :=
  match op with
  | .until => s = .unit
  | _ => ∃ l r, s = .buf2 l r ∧ l.length = b + 1 ∧ r.length = b + 1

def Shape : F α → STree α → Prop
  | .var _, st => st = .leaf
  | .const _, st => st = .leaf
  | .un _ φ, st => ∃ c, st = .n1 .unit c ∧ Shape φ c
  | .bin _ φ ψ, st => ∃ c1 c2, st = .n2 .unit c1 c2 ∧ Shape φ c1 ∧ Shape ψ c2
  | .tmp1 _ φ, st => ∃ s c, st = .n1 s c ∧ Shape φ c
  | .tmp2 _ φ ψ, st => ∃ s c1 c2, st = .n2 s c1 c2 ∧ Shape φ c1 ∧ Shape ψ c2
  | .tb1 op _ b φ, st => ∃ s c, st = .n1 s c ∧ ShB1 op b s ∧ Shape φ c
  | .tb2 op _ b φ ψ, st => ∃ s c1 c2, st = .n2 s c1 c2 ∧ ShB2 op b s ∧ Shape φ c1 ∧ Shape ψ c2

private theorem ShB1_init (op : TB1) (b : Nat) : ShB1 op b (initTB1 (α := α) op b) := by
  cases op <;> simp [ShB1, initTB1]

private theorem ShB2_init (op : TB2) (b : Nat) : ShB2 op b (initTB2 (α := α) op b) := by
  cases op <;> simp [ShB2, initTB2]

private theorem ShB1_step (op : TB1) (a b : Nat) (s s' : St α) (v o : α)
    (hs : ShB1 op b s) (h : stepTB1 op a b s v = .ok (s', o)) : ShB1 op b s' := by
  cases op with
  | once =>
    obtain ⟨l, rfl, hl⟩ := hs
    simp only [stepTB1, bind, Except.bind, pure, Except.pure] at h
    cases hw : winFold pmax ninf a b (dqPush l v) with
    | error x => simp [hw] at h
    | ok w =>
      simp only [hw, Except.ok.injEq, Prod.mk.injEq] at h
      exact ⟨_, h.1.symm, by rw [dqPush_length, hl]⟩
  | hist =>
    obtain ⟨l, rfl, hl⟩ := hs
    simp only [stepTB1, bind, Except.bind, pure, Except.pure] at h
    cases hw : winFold pmin pinf a b (dqPush l v) with
    | error x => simp [hw] at h
    | ok w =>
      simp only [hw, Except.ok.injEq, Prod.mk.injEq] at h
      exact ⟨_, h.1.symm, by rw [dqPush_length, hl]⟩
  | ev => simp only [ShB1] at hs; subst hs; simp [stepTB1] at h
  | alw => simp only [ShB1] at hs; subst hs; simp [stepTB1] at h

private theorem ShB2_step (op : TB2) (a b : Nat) (s s' : St α) (v1 v2 o : α)
    (hs : ShB2 op b s) (h : stepTB2 op a b s v1 v2 = .ok (s', o)) : ShB2 op b s' := by
  cases op with
  | since =>
    obtain ⟨l, r, rfl, hl, hr⟩ := hs
    simp only [stepTB2, bind, Except.bind, pure, Except.pure] at h
    cases hw : sinceWin a b (dqPush l v1) (dqPush r v2) with
    | error x => simp [hw] at h
    | ok w =>
      simp only [hw, Except.ok.injEq, Prod.mk.injEq] at h
      exact ⟨_, _, h.1.symm, by rw [dqPush_length, hl], by rw [dqPush_length, hr]⟩
  | precedes =>
    obtain ⟨l, r, rfl, hl, hr⟩ := hs
    simp only [stepTB2, bind, Except.bind, pure, Except.pure] at h
    cases hw : precWin a b (dqPush l v1) (dqPush r v2) with
    | error x => simp [hw] at h
    | ok w =>
      simp only [hw, Except.ok.injEq, Prod.mk.injEq] at h
      exact ⟨_, _, h.1.symm, by rw [dqPush_length, hl], by rw [dqPush_length, hr]⟩
  | «until» => simp only [ShB2] at hs; subst hs; simp [stepTB2] at h

private theorem ShB1_reset (op : TB1) (b : Nat) (s : St α) (hs : ShB1 op b s) :
    resetTB1 op b s = initTB1 op b := by
  cases op with
  | once => obtain ⟨l, rfl, hl⟩ := hs; simp [resetTB1, initTB1, pushN_full l _ _ hl]
  | hist => obtain ⟨l, rfl, hl⟩ := hs; simp [resetTB1, initTB1, pushN_full l _ _ hl]
  | ev => simp only [ShB1] at hs; subst hs; simp [resetTB1, initTB1]
  | alw => simp only [ShB1] at hs; subst hs; simp [resetTB1, initTB1]

private theorem ShB2_reset (op : TB2) (b : Nat) (s : St α) (hs : ShB2 op b s) :
    resetTB2 op b s = initTB2 op b := by
  cases op with
  | since =>
    obtain ⟨l, r, rfl, hl, hr⟩ := hs
    simp [resetTB2, initTB2, pushN_full l _ _ hl, pushN_full r _ _ hr]
  | precedes =>
    obtain ⟨l, r, rfl, hl, hr⟩ := hs
    simp [resetTB2, initTB2, pushN_full l _ _ hl, pushN_full r _ _ hr]
  | «until» => simp only [ShB2] at hs; subst hs; simp [resetTB2, initTB2]

/-! ### unpacking `initTree` -/

omit [Val α] in
private theorem init_n1 (rk hk : Bool) (x : Except PyErr (STree α)) (s : St α) (st0 : STree α)
    (h : (do if rk then throw PyErr.rtamt
             let c ← x
             if hk then pure (STree.n1 s c) else throw PyErr.key) = Except.ok st0) :
    ∃ c, x = .ok c ∧ st0 = .n1 s c := by
  cases rk <;> cases hk <;> cases x <;>
    simp_all [bind, Except.bind, pure, Except.pure, throw, throwThe, MonadExceptOf.throw]

omit [Val α] in
private theorem init_n2 (rk hk : Bool) (x y : Except PyErr (STree α)) (s : St α) (st0 : STree α)
    (h : (do if rk then throw PyErr.rtamt
             let c1 ← x
             let c2 ← y
             if hk then pure (STree.n2 s c1 c2) else throw PyErr.key) = Except.ok st0) :
    ∃ c1 c2, x = .ok c1 ∧ y = .ok c2 ∧ st0 = .n2 s c1 c2 := by
  cases rk <;> cases hk <;> cases x <;> cases y <;>
    simp_all [bind, Except.bind, pure, Except.pure, throw, throwThe, MonadExceptOf.throw]

/-! ### the invariant holds initially, is preserved by `update`, and determines `reset` -/

private theorem init_shape (h r : Kind → Bool) (φ : F α) :
    ∀ st0, initTree h r φ = .ok st0 → Shape φ st0 := by
  induction φ with
  | var x =>
    intro st0 hi
    simp only [initTree] at hi
    split at hi
    · simp at hi
    · split at hi
      · simp only [Except.ok.injEq] at hi; exact hi.symm
      · simp at hi
  | const c =>
    intro st0 hi
    simp only [initTree, Except.ok.injEq] at hi
    exact hi.symm
  | un op φ ih =>
    intro st0 hi
    obtain ⟨c, hc, rfl⟩ := init_n1 _ _ _ _ _ hi
    exact ⟨c, rfl, ih c hc⟩
  | bin op φ ψ ih1 ih2 =>
    intro st0 hi
    obtain ⟨c1, c2, hc1, hc2, rfl⟩ := init_n2 _ _ _ _ _ _ hi
    exact ⟨c1, c2, rfl, ih1 c1 hc1, ih2 c2 hc2⟩
  | tmp1 op φ ih =>
    intro st0 hi
    obtain ⟨c, hc, rfl⟩ := init_n1 _ _ _ _ _ hi
    exact ⟨_, c, rfl, ih c hc⟩
  | tmp2 op φ ψ ih1 ih2 =>
    intro st0 hi
    obtain ⟨c1, c2, hc1, hc2, rfl⟩ := init_n2 _ _ _ _ _ _ hi
    exact ⟨_, c1, c2, rfl, ih1 c1 hc1, ih2 c2 hc2⟩
  | tb1 op a b φ ih =>
    intro st0 hi
    obtain ⟨c, hc, rfl⟩ := init_n1 _ _ _ _ _ hi
    exact ⟨_, c, rfl, ShB1_init op b, ih c hc⟩
  | tb2 op a b φ ψ ih1 ih2 =>
    intro st0 hi
    obtain ⟨c1, c2, hc1, hc2, rfl⟩ := init_n2 _ _ _ _ _ _ hi
    exact ⟨_, c1, c2, rfl, ShB2_init op b, ih1 c1 hc1, ih2 c2 hc2⟩

private theorem reset_shape (h r : Kind → Bool) (φ : F α) :
    ∀ st st0, Shape φ st → initTree h r φ = .ok st0 → resetTree φ st = st0 := by
  induction φ with
  | var x =>
    intro st st0 hs hi
    have := init_shape h r _ _ hi
    simp only [Shape] at hs this
    subst hs this
    rfl
  | const c =>
    intro st st0 hs hi
    have := init_shape h r _ _ hi
    simp only [Shape] at hs this
    subst hs this
    rfl
  | un op φ ih =>
    intro st st0 hs hi
    obtain ⟨c, hc, rfl⟩ := init_n1 _ _ _ _ _ hi
    obtain ⟨d, rfl, hd⟩ := hs
    simp only [resetTree, ih d c hd hc]
  | bin op φ ψ ih1 ih2 =>
    intro st st0 hs hi
    obtain ⟨c1, c2, hc1, hc2, rfl⟩ := init_n2 _ _ _ _ _ _ hi
    obtain ⟨d1, d2, rfl, hd1, hd2⟩ := hs
    simp only [resetTree, ih1 d1 c1 hd1 hc1, ih2 d2 c2 hd2 hc2]
  | tmp1 op φ ih =>
    intro st st0 hs hi
    obtain ⟨c, hc, rfl⟩ := init_n1 _ _ _ _ _ hi
    obtain ⟨s, d, rfl, hd⟩ := hs
    simp only [resetTree, resetT1, ih d c hd hc]
  | tmp2 op φ ψ ih1 ih2 =>
    intro st st0 hs hi
    obtain ⟨c1, c2, hc1, hc2, rfl⟩ := init_n2 _ _ _ _ _ _ hi
    obtain ⟨s, d1, d2, rfl, hd1, hd2⟩ := hs
    simp only [resetTree, resetT2, ih1 d1 c1 hd1 hc1, ih2 d2 c2 hd2 hc2]
  | tb1 op a b φ ih =>
    intro st st0 hs hi
    obtain ⟨c, hc, rfl⟩ := init_n1 _ _ _ _ _ hi
    obtain ⟨s, d, rfl, hb, hd⟩ := hs
    simp only [resetTree, ShB1_reset op b s hb, ih d c hd hc]
  | tb2 op a b φ ψ ih1 ih2 =>
    intro st st0 hs hi
    obtain ⟨c1, c2, hc1, hc2, rfl⟩ := init_n2 _ _ _ _ _ _ hi
    obtain ⟨s, d1, d2, rfl, hb, hd1, hd2⟩ := hs
    simp only [resetTree, ShB2_reset op b s hb, ih1 d1 c1 hd1 hc1, ih2 d2 c2 hd2 hc2]

/-- Unpacking a successful bind in `Except`. -/
private theorem bind_ok {ε β γ : Type} {x : Except ε β} {f : β → Except ε γ} {z : γ}
    (h : (x >>= f) = .ok z) : ∃ y, x = .ok y ∧ f y = .ok z := by
  cases x with
  | error e => simp [bind, Except.bind] at h
  | ok y => exact ⟨y, rfl, h⟩

private theorem step_shape (e : String → α) (φ : F α) :
    ∀ st st' o, Shape φ st → stepTree e φ st = .ok (st', o) → Shape φ st' := by
  induction φ with
  | var x =>
    intro st st' o hs hst
    simp only [Shape] at hs; subst hs
    simp only [stepTree, Except.ok.injEq, Prod.mk.injEq] at hst
    exact hst.1.symm
  | const c =>
    intro st st' o hs hst
    simp only [Shape] at hs; subst hs
    simp only [stepTree, Except.ok.injEq, Prod.mk.injEq] at hst
    exact hst.1.symm
  | un op φ ih =>
    intro st st' o hs hst
    obtain ⟨c, rfl, hc⟩ := hs
    simp only [stepTree] at hst
    obtain ⟨⟨c', v⟩, h1, h2⟩ := bind_ok hst
    simp only [pure, Except.pure, Except.ok.injEq, Prod.mk.injEq] at h2
    exact ⟨c', h2.1.symm, ih _ _ _ hc h1⟩
  | bin op φ ψ ih1 ih2 =>
    intro st st' o hs hst
    obtain ⟨c1, c2, rfl, hc1, hc2⟩ := hs
    simp only [stepTree] at hst
    obtain ⟨⟨c1', v1⟩, h1, hst⟩ := bind_ok hst
    obtain ⟨⟨c2', v2⟩, h2, h3⟩ := bind_ok hst
    simp only [pure, Except.pure, Except.ok.injEq, Prod.mk.injEq] at h3
    exact ⟨c1', c2', h3.1.symm, ih1 _ _ _ hc1 h1, ih2 _ _ _ hc2 h2⟩
  | tmp1 op φ ih =>
    intro st st' o hs hst
    obtain ⟨s, c, rfl, hc⟩ := hs
    simp only [stepTree] at hst
    obtain ⟨⟨c', v⟩, h1, hst⟩ := bind_ok hst
    obtain ⟨⟨s', o'⟩, h2, h3⟩ := bind_ok hst
    simp only [pure, Except.pure, Except.ok.injEq, Prod.mk.injEq] at h3
    exact ⟨s', c', h3.1.symm, ih _ _ _ hc h1⟩
  | tmp2 op φ ψ ih1 ih2 =>
    intro st st' o hs hst
    obtain ⟨s, c1, c2, rfl, hc1, hc2⟩ := hs
    simp only [stepTree] at hst
    obtain ⟨⟨c1', v1⟩, h1, hst⟩ := bind_ok hst
    obtain ⟨⟨c2', v2⟩, h2, hst⟩ := bind_ok hst
    obtain ⟨⟨s', o'⟩, h3, h4⟩ := bind_ok hst
    simp only [pure, Except.pure, Except.ok.injEq, Prod.mk.injEq] at h4
    exact ⟨s', c1', c2', h4.1.symm, ih1 _ _ _ hc1 h1, ih2 _ _ _ hc2 h2⟩
  | tb1 op a b φ ih =>
    intro st st' o hs hst
    obtain ⟨s, c, rfl, hb, hc⟩ := hs
    simp only [stepTree] at hst
    obtain ⟨⟨c', v⟩, h1, hst⟩ := bind_ok hst
    obtain ⟨⟨s', o'⟩, h2, h3⟩ := bind_ok hst
    simp only [pure, Except.pure, Except.ok.injEq, Prod.mk.injEq] at h3
    exact ⟨s', c', h3.1.symm, ShB1_step op a b s s' v o' hb h2, ih _ _ _ hc h1⟩
  | tb2 op a b φ ψ ih1 ih2 =>
    intro st st' o hs hst
    obtain ⟨s, c1, c2, rfl, hb, hc1, hc2⟩ := hs
    simp only [stepTree] at hst
    obtain ⟨⟨c1', v1⟩, h1, hst⟩ := bind_ok hst
    obtain ⟨⟨c2', v2⟩, h2, hst⟩ := bind_ok hst
    obtain ⟨⟨s', o'⟩, h3, h4⟩ := bind_ok hst
    simp only [pure, Except.pure, Except.ok.injEq, Prod.mk.injEq] at h4
    exact ⟨s', c1', c2', h4.1.symm, ShB2_step op a b s s' v1 v2 o' hb h3,
      ih1 _ _ _ hc1 h1, ih2 _ _ _ hc2 h2⟩

private theorem run_shape (φ : F α) (es : List (String → α)) :
    ∀ st st' os, Shape φ st → runTree φ st es = .ok (st', os) → Shape φ st' := by
  induction es with
  | nil =>
    intro st st' os hs hr
    simp only [runTree, Except.ok.injEq, Prod.mk.injEq] at hr
    exact hr.1 ▸ hs
  | cons e es ih =>
    intro st st' os hs hr
    simp only [runTree] at hr
    obtain ⟨⟨st1, o⟩, h1, hr⟩ := bind_ok hr
    obtain ⟨⟨st2, os'⟩, h2, h3⟩ := bind_ok hr
    simp only [pure, Except.pure, Except.ok.injEq, Prod.mk.injEq] at h3
    exact h3.1 ▸ ih _ _ _ (step_shape e φ _ _ _ hs h1) h2

/-- Every state reachable from a freshly constructed monitor is reset to the state of a
    freshly constructed monitor. -/
theorem C10_reset_reachable (h r : Kind → Bool) (φ : F α) (st0 : STree α)
    (hinit : initTree h r φ = .ok st0) (es : List (String → α)) (st : STree α) (os : List α)
    (hrun : runTree φ st0 es = .ok (st, os)) :
    resetTree φ st = st0 :=
  reset_shape h r φ st st0 (run_shape φ es _ _ _ (init_shape h r φ _ hinit) hrun) hinit

/-- `reset()` before the first update is harmless. -/
theorem C10_reset_fresh (h r : Kind → Bool) (φ : F α) (st0 : STree α)
    (hinit : initTree h r φ = .ok st0) : resetTree φ st0 = st0 :=
  C10_reset_reachable h r φ st0 hinit [] st0 [] rfl

/-- The tree of the monitor-with-clock evolves as `runTree`. -/
private theorem mon_run_tree (c : SamplingCfg) (φ : F α) (l : List (Rat × (String → α))) :
    ∀ (m m' : Mon α) (os : List α), Mon.run c φ m l = .ok (m', os) →
      runTree φ m.tree (l.map Prod.snd) = .ok (m'.tree, os) := by
  induction l with
  | nil =>
    intro m m' os hr
    simp only [Mon.run, Except.ok.injEq, Prod.mk.injEq] at hr
    obtain ⟨rfl, rfl⟩ := hr
    rfl
  | cons p l ih =>
    intro m m' os hr
    obtain ⟨t, e⟩ := p
    simp only [Mon.run, Mon.update] at hr
    obtain ⟨⟨m1, o⟩, h1, hr⟩ := bind_ok hr
    obtain ⟨⟨st1, o1⟩, h0, h1⟩ := bind_ok h1
    simp only [pure, Except.pure, Except.ok.injEq, Prod.mk.injEq] at h1
    obtain ⟨rfl, rfl⟩ := h1
    obtain ⟨⟨m2, os'⟩, h2, h3⟩ := bind_ok hr
    simp only [pure, Except.pure, Except.ok.injEq, Prod.mk.injEq] at h3
    obtain ⟨rfl, rfl⟩ := h3
    have := ih _ _ _ h2
    simp only at this
    simp [runTree, h0, this, bind, Except.bind, pure, Except.pure]

/-- After `reset()` every subsequent update returns what a fresh monitor returns, and the
    counters restart (`update_counter = 0`, `previous_time = 0`, violation counter `= 0`). -/
theorem C10_reset_then_run (c : SamplingCfg) (h r : Kind → Bool) (φ : F α) (st0 : STree α)
    (hinit : initTree h r φ = .ok st0)
    (pre : List (Rat × (String → α))) (m : Mon α) (os : List α)
    (hpre : Mon.run c φ { tree := st0, clock := {} } pre = .ok (m, os))
    (post : List (Rat × (String → α))) :
    Mon.run c φ (m.reset φ) post = Mon.run c φ { tree := st0, clock := {} } post ∧
      (m.reset φ).clock = {} := by
  have ht : resetTree φ m.tree = st0 :=
    C10_reset_reachable h r φ st0 hinit _ _ _ (mon_run_tree c φ pre _ _ _ hpre)
  have hm : m.reset φ = { tree := st0, clock := {} } := by
    simp [Mon.reset, ht, Clock.reset]
  rw [hm]
  exact ⟨rfl, rfl⟩

end Rtamt
