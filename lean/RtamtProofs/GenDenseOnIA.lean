/-
  The interface-aware predicate of the dense-time ONLINE monitor, translated from the source
  (`Gen.DenseOn.IAPredicateOperation_init` / `IAPredicateOperation_update`: `__init__` / `update` of the class
  `PredicateOperation` of `rtamt/semantics/iastl/dense_time/online/predicate_operation.py`, the calls of the parent's
  `__init__` / `update` / `sat` replaced by the parent's bodies), against the `.predSat c` clause of the mirror `stepOn`
  (`Rtamt/Dense/AlgOn.lean`).

  * pieces of the two generated bodies (`IA_body`, `IA_init_body` by `rfl`), one-iteration lemmas and loops of the inlined
    `update` (`updLoop_spec`), of the inlined `sat` (`satLoop_spec` against `satGo`) and of the output loop
    (`outLoop_spec`);
  * `GOnIA.IAPredRel c st o`: the object against the record `BinSt` of its nested `SubtractionOperation`;
  * `gen_iapred_init` / `gen_iapred_construct`, `gen_iapred_update`, `gen_iapred_updateObj_on` (against `iaPredUpdateOn`: no
    hypothesis), `gen_iapred_updateObj` / `gen_iapredop_updateObj` (against the mirror clause `iaPredUpdate`,
    `stepOn_predSat`): values and exceptions, fuel `GOnBin.binFuel st sl sr`.

  Finding: for `!=` the online `sat()` computes `False if d == 0 else True` (`satOn`), the mirror's `satOfDiff .ne` is
  `abs(d) > 0` (the offline visitor's test).  They agree on every double; for an abstract value type the law
  `SatNeLaw` (on differences) is needed - it follows from `hcmp` of C06 (`satNeLaw_of_hcmp`).  The kept positions
  (`rval != prev or i == len(input_list) - 1`) are those of `dedupGoK`.

  Helper lemmas live in `Rtamt.Py.DnOn.GOnIA`; main theorems in `Rtamt.Py.DnOn`.
-/
import RtamtProofs.GenDenseOnBin

namespace Rtamt.Py.DnOn.GOnIA
open Rtamt Val Rtamt.Dense Rtamt.Dense.Alg Rtamt.Dense.AlgOn Rtamt.Py.DnOn Rtamt.Py.DnOn.GOnBin

set_option linter.unusedSectionVars false
set_option linter.unusedVariables false
set_option linter.unusedSimpArgs false

variable {α : Type} [Val α]

/-! ### the generated bodies in pieces -/

def opIs (c : Cmp) : E := .bin .eq (.loc "self.comparison_op") (.cmpc c)

/-- `i[1]` of the inlined `update` -/
def ux : E := .idx (.loc "update0$i") (.int 1)

def updChain : S :=
  .ite (opIs .eq) (.setLoc "update0$out_val" (.neg (.call1 "abs" ux)))
  (.ite (opIs .ne) (.setLoc "update0$out_val" (.call1 "abs" ux))
  (.ite (.or_ (opIs .le) (opIs .lt)) (.setLoc "update0$out_val" (.neg ux))
  (.ite (.or_ (opIs .ge) (opIs .gt)) (.setLoc "update0$out_val" ux)
    (.setLoc "update0$out_val" .nan))))

def updLoopBody : S :=
  .seq updChain (.seq (.appendLoc "update0$sample_result" (.list2 (.idx (.loc "update0$i") (.int 0)) (.loc "update0$out_val")))
    (.setLoc "update0$prev" (.loc "update0$out_val")))

/-- `in_sample[1]` of the inlined `sat` -/
def sx : E := .idx (.loc "sat1$in_sample") (.int 1)

/-- `out_val = True if test else False` (or the other way round); `rval = rv` -/
def satBr (test : E) (yes : Bool) (rv : E) : S :=
  .seq (.ite test (.setLoc "sat1$out_val" (.boolLit yes)) (.setLoc "sat1$out_val" (.boolLit (!yes))))
    (.setLoc "sat1$rval" rv)

def satChain : S :=
  .ite (opIs .eq) (satBr (.bin .eq sx (.int 0)) true (.neg (.call1 "abs" sx)))
  (.ite (opIs .ne) (satBr (.bin .eq sx (.int 0)) false (.call1 "abs" sx))
  (.ite (opIs .le) (satBr (.bin .le sx (.int 0)) true (.neg sx))
  (.ite (opIs .lt) (satBr (.bin .lt sx (.int 0)) true (.neg sx))
  (.ite (opIs .ge) (satBr (.bin .ge sx (.int 0)) true sx)
  (.ite (opIs .gt) (satBr (.bin .gt sx (.int 0)) true sx)
    (.raise .rtamt))))))

/-- `if rval != prev or i == len(input_list) - 1: sample_result.append([in_sample[0], out_val])` -/
def satKeep : S :=
  .ite (.or_ (.bin .ne (.loc "sat1$rval") (.loc "sat1$prev"))
      (.bin .eq (.loc "sat1$i") (.bin .sub (.call1 "len" (.loc "sat1$input_list")) (.int 1))))
    (.appendLoc "sat1$sample_result" (.list2 (.idx (.loc "sat1$in_sample") (.int 0)) (.loc "sat1$out_val"))) .skip

def satLoopBody : S := .seq satChain (.seq satKeep (.setLoc "sat1$prev" (.loc "sat1$rval")))

/-- `sat_sample[i]` -/
def si : E := .idx (.loc "sat_sample") (.loc "i")

def outLoopBody : S :=
  .seq (.ite (.bin .eq (.idx si (.int 1)) (.boolLit true)) (.setLoc "sample" .inf) (.setLoc "sample" (.neg .inf)))
    (.appendLoc "out_sample" (.list2 (.idx si (.int 0)) (.loc "sample")))

def vacLoopBody : S :=
  .seq (.setLoc "sample" (.int 0)) (.appendLoc "out_sample" (.list2 (.idx si (.int 0)) (.loc "sample")))

def semIs (n : Int) : E := .bin .eq (.loc "self.semantics") (.int n)

def robCond : E :=
  .or_ (.and_ (semIs 1) (.not (.loc "self.out_vars"))) (.and_ (semIs 3) (.not (.loc "self.in_vars")))

def vacCond : E :=
  .or_ (.and_ (semIs 2) (.not (.loc "self.in_vars"))) (.and_ (semIs 4) (.not (.loc "self.out_vars")))

def outStmt : S :=
  .ite robCond (.forEnum "i" "$elem_i" (.loc "sat_sample") false outLoopBody)
    (.ite vacCond (.forEnum "i" "$elem_i" (.loc "sat_sample") false vacLoopBody)
      (.setLoc "out_sample" (.loc "samples")))

/-- from `sat_sample = …` on -/
def iaTail : S :=
  .seq (.setLoc "sat_sample" (.loc "sat1$sample_result")) (.seq (.setLoc "out_sample" .emptyList)
    (.seq outStmt (.ret (.loc "out_sample"))))

/-- the inlined `sat` -/
def iaSat : S :=
  .seq (.setLoc "sat1$sample_result" .emptyList) (.seq (.setLoc "sat1$input_list" (.loc "self.subtraction_output"))
    (.seq (.setLoc "sat1$prev" .nan)
      (.seq (.forEnum "sat1$i" "sat1$in_sample" (.loc "sat1$input_list") false satLoopBody) iaTail)))

/-- after the call of `self.sub.update` -/
def iaRest : S :=
  .seq (.setLoc "self.subtraction_output" (.loc "update0$input_list")) (.seq (.setLoc "update0$prev" .nan)
    (.seq (.forIn "update0$i" (.loc "update0$input_list") updLoopBody)
      (.seq (.setLoc "samples" (.loc "update0$sample_result")) iaSat)))

def iaBody : S :=
  .seq (.setLoc "update0$sample_result" .emptyList)
    (.seq (.mcall (some "update0$input_list") "self.sub" "update" [(.loc "sample_left"), (.loc "sample_right")]) iaRest)

theorem IA_body : Gen.DenseOn.IAPredicateOperation_update.body = iaBody := rfl

def iaInit : S :=
  .seq (.new "self.sub" "SubtractionOperation" []) (.seq (.setLoc "self.comparison_op" (.loc "comparison_op"))
    (.seq (.setLoc "self.subtraction_output" .emptyList) (.seq (.setLoc "self.semantics" (.loc "semantics"))
      (.seq (.setLoc "self.in_vars" (.loc "in_vars")) (.setLoc "self.out_vars" (.loc "out_vars"))))))

theorem IA_init_body : Gen.DenseOn.IAPredicateOperation_init.body = iaInit := rfl

/-! ### the mirror of the inlined `sat` and of the output loop -/

/-- `out_val` of the translated `sat()`: `satOfDiff`, except that for `!=` the online class tests `False if d == 0 else True`
    where the mirror (as the offline visitor) has `abs(d) > 0` -/
def satOn : Cmp → α → Bool
  | .ne, d => !(numEq d Val.zero)
  | c, d => satOfDiff c d

theorem satOn_of_ne {c : Cmp} (h : c ≠ .ne) (d : α) : satOn c d = satOfDiff c d := by
  cases c <;> first | rfl | exact absurd rfl h

/-- `rval != prev` (`prev` is `nan` before the first sample) -/
def keepB (prev : Option α) (r : α) : Bool :=
  match prev with
  | none => true
  | some x => vne r x

/-- the loop of `sat()`: the verdicts at the positions where the robustness changes, and at the last -/
def satGo (c : Cmp) : Option α → ASig α → List (Tm × Bool)
  | _, [] => []
  | _, [p] => [(p.1, satOn c p.2)]
  | prev, p :: q :: rest =>
      (if keepB prev (cmpOfDiff c p.2) then [(p.1, satOn c p.2)] else []) ++
        satGo c (some (cmpOfDiff c p.2)) (q :: rest)

def infOf (b : Bool) : α := if b then Val.pinf else Val.ninf

/-- what the translated `update` returns for the difference signal `d` -/
def iaOut (c : Cmp) (d : ASig α) : ASig α := (satGo c none d).map (fun p => (p.1, infOf p.2))

theorem satGo_eq (c : Cmp) : ∀ (d : ASig α) (prev : Option α), (∀ p ∈ d, satOn c p.2 = satOfDiff c p.2) →
    satGo c prev d = (dedupGoK (fun (x : α × Bool) => x.1) prev
      (d.map (fun p => (p.1, (cmpOfDiff c p.2, satOfDiff c p.2))))).map (fun p => (p.1, p.2.2)) := by
  intro d
  induction d with
  | nil => intro prev _; rfl
  | cons p d ih =>
      intro prev h
      cases d with
      | nil => simp [satGo, dedupGoK, h p (by simp)]
      | cons q rest =>
          have h1 := ih (some (cmpOfDiff c p.2)) (fun x hx => h x (by simp [hx]))
          simp only [satGo, List.map_cons, dedupGoK, List.map_append] at h1 ⊢
          rw [h1, h p (by simp)]
          cases prev with
          | none => simp [keepB]
          | some x => cases hv : vne (cmpOfDiff c p.2) x <;> simp [keepB, hv]

theorem iaOut_eq (c : Cmp) (d : ASig α) (h : ∀ p ∈ d, satOn c p.2 = satOfDiff c p.2) :
    iaOut c d = (dedupGoK (fun (x : α × Bool) => x.1) none
      (d.map (fun p => (p.1, (cmpOfDiff c p.2, satOfDiff c p.2))))).map
        (fun p => (p.1, if p.2.2 then Val.pinf else Val.ninf)) := by
  unfold iaOut
  rw [satGo_eq c d none h, List.map_map]
  rfl

def encPrev : Option α → DV α
  | none => .nan
  | some x => .val x

/-- a list of `[t, verdict]` -/
def encB (s : List (Tm × Bool)) : DV α := encSigP (fun b : Bool => DV.bool b) s

/-! ### the loop of the inlined `update` -/

section loops
variable (call : Call α) (fuel : Nat)

theorem updLoopBody_spec (habs : ∀ x : α, call "abs" [.val x] = .ok (.val (Val.abs x))) (env : Env α) (c : Cmp)
    (acc : ASig α) (t : Tm) (x : α)
    (hc : getLoc "self.comparison_op" env = .ok (.cmp c)) (hi : getLoc "update0$i" env = .ok (.smp t (.val x)))
    (hr : getLoc "update0$sample_result" env = .ok (encSig acc)) (hres : getLoc "abs" env = .error .key) :
    exec call fuel updLoopBody env =
      .ok (setLoc "update0$prev" (.val (cmpOfDiff c x)) (setLoc "update0$sample_result"
        (encSig (acc ++ [(t, cmpOfDiff c x)])) (setLoc "update0$out_val" (.val (cmpOfDiff c x)) env)), .none) := by
  cases c <;>
    simp [updLoopBody, updChain, opIs, ux, exec, evalE, hc, hi, hr, resolve_of_key hres, habs, evalBin, isCmp,
      cmpDV_eq_cmp, Except.map, truthy, evalIdx_smp0, evalIdx_smp1, evalNeg, mkList2, toPayload, cmpOfDiff, encSig,
      encSmp]

def updVars : List String := ["update0$i", "update0$out_val", "update0$sample_result", "update0$prev"]

theorem updLoop_spec (habs : ∀ x : α, call "abs" [.val x] = .ok (.val (Val.abs x))) (c : Cmp) (d : ASig α) :
    ∀ (env : Env α) (acc : ASig α),
      getLoc "self.comparison_op" env = .ok (.cmp c) → getLoc "update0$sample_result" env = .ok (encSig acc) →
      getLoc "abs" env = .error .key →
      ∃ env', forLoop (fun p env => setLoc "update0$i" p.1 env) (exec call fuel updLoopBody)
            ((d.map encSmp).map (fun v => (v, 0))) env = .ok (env', .none) ∧
        getLoc "update0$sample_result" env' = .ok (encSig (acc ++ d.map (fun p => (p.1, cmpOfDiff c p.2)))) ∧
        Frame updVars env env' := by
  induction d with
  | nil =>
      intro env acc hc hr hres
      exact ⟨env, rfl, by simpa using hr, Frame.refl _ _⟩
  | cons p d ih =>
      obtain ⟨t, x⟩ := p
      intro env acc hc hr hres
      have hb := updLoopBody_spec call fuel habs (setLoc "update0$i" (.smp t (.val x)) env) c acc t x
        (by simpa using hc) (by simp) (by simpa using hr) (by simpa using hres)
      generalize henv1 : setLoc "update0$prev" (DV.val (cmpOfDiff c x)) (setLoc "update0$sample_result"
        (encSig (acc ++ [(t, cmpOfDiff c x)])) (setLoc "update0$out_val" (DV.val (cmpOfDiff c x))
          (setLoc "update0$i" (DV.smp t (DV.val x)) env))) = env1 at hb
      have f1 : Frame updVars env env1 := by
        intro k' hk
        simp only [updVars, List.mem_cons, List.not_mem_nil, or_false, not_or] at hk
        rw [← henv1]
        simp [hk.1, hk.2.1, hk.2.2.1, hk.2.2.2]
      obtain ⟨env', hx, hr', f2⟩ := ih env1 (acc ++ [(t, cmpOfDiff c x)])
        (by rw [f1 _ (by simp [updVars])]; exact hc) (by rw [← henv1]; simp)
        (by rw [f1 _ (by simp [updVars])]; exact hres)
      refine ⟨env', ?_, ?_, ?_⟩
      · have e : (((t, x) :: d).map encSmp).map (fun v => (v, (0 : Nat))) =
            (DV.smp t (.val x), 0) :: (d.map encSmp).map (fun v => (v, 0)) := rfl
        rw [e, forLoop_cons]
        simp only [hb, ok_bind]
        exact hx
      · simpa using hr'
      · intro k' hk; rw [f2 _ hk, f1 _ hk]

/-! ### the loop of the inlined `sat` -/

theorem exec_skip (env : Env α) : exec call fuel .skip env = .ok (env, .none) := by
  rw [exec]

theorem cmpDV_val_int0 (op : BinOp) (x : α) : cmpDV op (.val x) (.int 0) = cmpVal op x Val.zero := by
  simp [cmpDV, isTimeLike, isValLike, toVal]

theorem satChain_spec (habs : ∀ x : α, call "abs" [.val x] = .ok (.val (Val.abs x))) (env : Env α) (c : Cmp)
    (t : Tm) (x : α)
    (hc : getLoc "self.comparison_op" env = .ok (.cmp c)) (hi : getLoc "sat1$in_sample" env = .ok (.smp t (.val x)))
    (hres : getLoc "abs" env = .error .key) :
    exec call fuel satChain env =
      .ok (setLoc "sat1$rval" (.val (cmpOfDiff c x)) (setLoc "sat1$out_val" (.bool (satOn c x)) env), .none) := by
  cases c <;> cases h1 : Val.lt x Val.zero <;> cases h2 : Val.lt Val.zero x <;>
    simp [satChain, satBr, opIs, sx, exec, evalE, hc, hi, resolve_of_key hres, habs, evalBin, isCmp,
      cmpDV_eq_cmp, cmpDV_val_int0, cmpVal, Except.map, truthy, evalIdx_smp1, evalNeg, cmpOfDiff, satOn, satOfDiff,
      numEq, h1, h2]

theorem cmpDV_ne_prev (r : α) (prev : Option α) : cmpDV .ne (.val r) (encPrev prev) = .ok (keepB prev r) := by
  cases prev with
  | none => simp [encPrev, cmpDV, isCmp, keepB]
  | some p => simp [encPrev, keepB, cmpDV_ne_val]

theorem cmpDV_eq_int (a b : Int) : cmpDV (α := α) .eq (.int a) (.int b) = .ok (decide (a = b)) := by
  simp [cmpDV, cmpInt]

theorem decide_last (k n : Nat) : decide ((k : Int) = (n : Int) - 1) = decide (k + 1 = n) :=
  decide_eq_decide.mpr (by omega)

theorem exec_ite_bool (c : E) (t e : S) (env : Env α) (b : Bool) (h : evalE call env c = .ok (.bool b)) :
    exec call fuel (.ite c t e) env = if b then exec call fuel t env else exec call fuel e env := by
  cases b <;> simp [exec, h, truthy]

theorem exec_appendLoc (x : String) (e : E) (env : Env α) (v : DV α) (l : List (DV α))
    (hv : evalE call env e = .ok v) (hl : getLoc x env = .ok (.list l)) :
    exec call fuel (.appendLoc x e) env = .ok (setLoc x (.list (l ++ [v])) env, .none) := by
  simp [exec, hv, hl]

def satVars : List String := ["sat1$out_val", "sat1$rval", "sat1$sample_result", "sat1$prev"]

theorem satLoopBody_spec (habs : ∀ x : α, call "abs" [.val x] = .ok (.val (Val.abs x)))
    (hlen : ∀ l : List (DV α), call "len" [.list l] = .ok (.int l.length)) (env : Env α) (c : Cmp)
    (acc : List (Tm × Bool)) (prev : Option α) (t : Tm) (x : α) (k : Nat) (L : List (DV α))
    (hc : getLoc "self.comparison_op" env = .ok (.cmp c)) (hi : getLoc "sat1$in_sample" env = .ok (.smp t (.val x)))
    (hk : getLoc "sat1$i" env = .ok (.int k)) (hL : getLoc "sat1$input_list" env = .ok (.list L))
    (hp : getLoc "sat1$prev" env = .ok (encPrev prev)) (hr : getLoc "sat1$sample_result" env = .ok (encB acc))
    (hres : getLoc "abs" env = .error .key) (hresl : getLoc "len" env = .error .key) :
    ∃ env', exec call fuel satLoopBody env = .ok (env', .none) ∧
      getLoc "sat1$sample_result" env' = .ok (encB (acc ++
        if keepB prev (cmpOfDiff c x) || decide (k + 1 = L.length) then [(t, satOn c x)] else [])) ∧
      getLoc "sat1$prev" env' = .ok (encPrev (some (cmpOfDiff c x))) ∧
      Frame satVars env env' := by
  unfold satLoopBody
  rw [exec_seq_ok _ _ (satChain_spec call fuel habs env c t x hc hi hres)]
  generalize henv1 : setLoc "sat1$rval" (DV.val (cmpOfDiff c x))
    (setLoc "sat1$out_val" (DV.bool (satOn c x)) env) = env1
  have g1 : ∀ k', k' ≠ "sat1$rval" → k' ≠ "sat1$out_val" → getLoc k' env1 = getLoc k' env := by
    intro k' h1 h2; rw [← henv1]; simp [h1, h2]
  have grv : getLoc "sat1$rval" env1 = .ok (.val (cmpOfDiff c x)) := by rw [← henv1]; simp
  have gov : getLoc "sat1$out_val" env1 = .ok (.bool (satOn c x)) := by rw [← henv1]; simp
  have hrl : resolve env1 "len" = "len" := resolve_of_key (by rw [g1 _ (by decide) (by decide)]; exact hresl)
  have hcond : evalE call env1
      (.or_ (.bin .ne (.loc "sat1$rval") (.loc "sat1$prev"))
        (.bin .eq (.loc "sat1$i") (.bin .sub (.call1 "len" (.loc "sat1$input_list")) (.int 1)))) =
      .ok (.bool (keepB prev (cmpOfDiff c x) || decide (k + 1 = L.length))) := by
    cases hkb : keepB prev (cmpOfDiff c x) <;>
      simp [evalE, grv, g1, hp, hk, hL, hrl, hlen, evalBin, isCmp, cmpDV_ne_prev, hkb, Except.map, truthy, arith,
        cmpDV_eq_int, decide_last]
  have hfr : ∀ (v : DV α) (env2 : Env α), Frame satVars env1 env2 → Frame satVars env (setLoc "sat1$prev" v env2) := by
    intro v env2 f k' hk'
    have hk'' := hk'
    simp only [satVars, List.mem_cons, List.not_mem_nil, or_false, not_or] at hk''
    rw [getLoc_setLoc_ne _ _ _ _ hk''.2.2.2, f _ hk', g1 _ hk''.2.1 hk''.1]
  unfold satKeep
  have hite := exec_ite_bool call fuel _
    (.appendLoc "sat1$sample_result" (.list2 (.idx (.loc "sat1$in_sample") (.int 0)) (.loc "sat1$out_val"))) .skip
    _ _ hcond
  cases hB : (keepB prev (cmpOfDiff c x) || decide (k + 1 = L.length)) with
  | false =>
      rw [hB] at hite
      refine ⟨setLoc "sat1$prev" (.val (cmpOfDiff c x)) env1, ?_, ?_, ?_, hfr _ _ (Frame.refl _ _)⟩
      · rw [exec_seq_ok _ _ (hite.trans (exec_skip call fuel env1))]
        exact exec_setLoc call fuel (by simp [evalE, grv])
      · simp [g1, hr]
      · simp [encPrev]
  | true =>
      have ha := exec_appendLoc call fuel "sat1$sample_result"
        (.list2 (.idx (.loc "sat1$in_sample") (.int 0)) (.loc "sat1$out_val")) env1 (.smp t (.bool (satOn c x)))
        (acc.map (fun p => DV.smp p.1 (DV.bool p.2)))
        (by simp [evalE, g1, hi, gov, evalIdx_smp0, mkList2, toPayload])
        (by rw [g1 _ (by decide) (by decide)]; exact hr)
      refine ⟨setLoc "sat1$prev" (.val (cmpOfDiff c x)) (setLoc "sat1$sample_result"
        (.list (acc.map (fun p => DV.smp p.1 (DV.bool p.2)) ++ [.smp t (.bool (satOn c x))])) env1), ?_, ?_, ?_,
        hfr _ _ ?_⟩
      · rw [hB] at hite
        rw [exec_seq_ok _ _ (hite.trans ha)]
        exact exec_setLoc call fuel (by simp [evalE, grv])
      · simp [encB, encSigP]
      · simp [encPrev]
      · intro k' hk'
        simp only [satVars, List.mem_cons, List.not_mem_nil, or_false, not_or] at hk'
        exact getLoc_setLoc_ne _ _ _ _ hk'.2.2.1

def satBind : DV α × Nat → Env α → Env α :=
  fun p env => setLoc "sat1$in_sample" p.1 (setLoc "sat1$i" (.int p.2) env)

def satAll : List String :=
  ["sat1$i", "sat1$in_sample", "sat1$out_val", "sat1$rval", "sat1$sample_result", "sat1$prev"]

theorem satLoop_spec (habs : ∀ x : α, call "abs" [.val x] = .ok (.val (Val.abs x)))
    (hlen : ∀ l : List (DV α), call "len" [.list l] = .ok (.int l.length)) (c : Cmp) (L : List (DV α)) :
    ∀ (rest : ASig α) (k : Nat) (env : Env α) (acc : List (Tm × Bool)) (prev : Option α),
      k + rest.length = L.length →
      getLoc "self.comparison_op" env = .ok (.cmp c) → getLoc "sat1$input_list" env = .ok (.list L) →
      getLoc "sat1$prev" env = .ok (encPrev prev) → getLoc "sat1$sample_result" env = .ok (encB acc) →
      getLoc "abs" env = .error .key → getLoc "len" env = .error .key →
      ∃ env', forLoop satBind (exec call fuel satLoopBody) ((rest.map encSmp).zipIdx k) env = .ok (env', .none) ∧
        getLoc "sat1$sample_result" env' = .ok (encB (acc ++ satGo c prev rest)) ∧
        Frame satAll env env' := by
  intro rest
  induction rest with
  | nil =>
      intro k env acc prev _ hc hL hp hr hres hresl
      exact ⟨env, rfl, by simpa [satGo] using hr, Frame.refl _ _⟩
  | cons p rest ih =>
      obtain ⟨t, x⟩ := p
      intro k env acc prev hkl hc hL hp hr hres hresl
      have e0 : (((t, x) :: rest).map encSmp).zipIdx k = (DV.smp t (.val x), k) :: (rest.map encSmp).zipIdx (k + 1) := by
        simp [List.zipIdx_cons, encSmp]
      obtain ⟨env1, hb, r1, p1, f1⟩ := satLoopBody_spec call fuel habs hlen (satBind (DV.smp t (.val x), k) env) c acc
        prev t x k L (by simpa [satBind] using hc) (by simp [satBind]) (by simp [satBind])
        (by simpa [satBind] using hL) (by simpa [satBind] using hp) (by simpa [satBind] using hr)
        (by simpa [satBind] using hres) (by simpa [satBind] using hresl)
      have f1' : Frame satAll env env1 := by
        intro k' hk'
        have hk'' := hk'
        simp only [satAll, List.mem_cons, List.not_mem_nil, or_false, not_or] at hk''
        rw [f1 _ (by simp [satVars, hk''.2.2.1, hk''.2.2.2.1, hk''.2.2.2.2.1, hk''.2.2.2.2.2])]
        simp [satBind, hk''.1, hk''.2.1]
      obtain ⟨env', hx, r', f2⟩ := ih (k + 1) env1 _ (some (cmpOfDiff c x))
        (by simp only [List.length_cons] at hkl; omega)
        (by rw [f1' _ (by simp [satAll])]; exact hc) (by rw [f1' _ (by simp [satAll])]; exact hL) p1 r1
        (by rw [f1' _ (by simp [satAll])]; exact hres) (by rw [f1' _ (by simp [satAll])]; exact hresl)
      refine ⟨env', ?_, ?_, fun k' hk' => by rw [f2 _ hk', f1' _ hk']⟩
      · rw [e0, forLoop_cons]
        simp only [hb, ok_bind]
        exact hx
      · rw [r']
        congr 2
        cases rest with
        | nil =>
            have : k + 1 = L.length := by simpa using hkl
            simp [satGo, this]
        | cons q rest' =>
            have : ¬ (k + 1 = L.length) := by simp only [List.length_cons] at hkl; omega
            simp [satGo, this]

/-! ### the output loop `for i in range(len(sat_sample))` -/

def encBS (s : List (Tm × Bool)) : List (DV α) := s.map (fun p => DV.smp p.1 (DV.bool p.2))

theorem encB_eq (s : List (Tm × Bool)) : (encB s : DV α) = .list (encBS s) := rfl

theorem evalIdx_nat (L : List (DV α)) (k : Nat) (v : DV α) (h : L[k]? = some v) :
    evalIdx (.list L) (.int k) = .ok v := by
  have hk : k < L.length := by
    rcases Nat.lt_or_ge k L.length with h' | h'
    · exact h'
    · rw [List.getElem?_eq_none h'] at h; cases h
  have hv : L[k] = v := by
    rw [List.getElem?_eq_getElem hk] at h
    exact Option.some.inj h
  simp [evalIdx, pyIndex, hk, hv]

def outBind : DV α × Nat → Env α → Env α :=
  fun p env => setLoc "$elem_i" p.1 (setLoc "i" (.int p.2) env)

def outVars : List String := ["i", "$elem_i", "sample", "out_sample"]

theorem outLoopBody_spec (env : Env α) (L : List (DV α)) (k : Nat) (t : Tm) (b : Bool) (acc : ASig α)
    (hs : getLoc "sat_sample" env = .ok (.list L)) (hi : getLoc "i" env = .ok (.int k))
    (hk : L[k]? = some (.smp t (.bool b))) (ho : getLoc "out_sample" env = .ok (encSig acc)) :
    exec call fuel outLoopBody env =
      .ok (setLoc "out_sample" (encSig (acc ++ [(t, infOf b)])) (setLoc "sample" (.uinf (!b)) env), .none) := by
  cases b <;>
    simp [outLoopBody, si, exec, evalE, hs, hi, evalIdx_nat _ _ _ hk, evalIdx_smp0, evalIdx_smp1, evalBin, isCmp, cmpDV,
      Except.map, truthy, evalNeg, mkList2, toPayload, infOf, encSig, encSmp, ho]

theorem outLoop_spec : ∀ (rest pre : List (Tm × Bool)) (env : Env α) (acc : ASig α),
    getLoc "sat_sample" env = .ok (.list (encBS (pre ++ rest))) → getLoc "out_sample" env = .ok (encSig acc) →
    ∃ env', forLoop outBind (exec call fuel outLoopBody) ((encBS rest).zipIdx pre.length) env = .ok (env', .none) ∧
      getLoc "out_sample" env' = .ok (encSig (acc ++ rest.map (fun p => (p.1, infOf p.2)))) ∧
      Frame outVars env env' := by
  intro rest
  induction rest with
  | nil =>
      intro pre env acc _ ho
      exact ⟨env, rfl, by simpa using ho, Frame.refl _ _⟩
  | cons p rest ih =>
      obtain ⟨t, b⟩ := p
      intro pre env acc hs ho
      have e0 : (encBS ((t, b) :: rest) : List (DV α)).zipIdx pre.length =
          (DV.smp t (.bool b), pre.length) :: (encBS rest).zipIdx (pre.length + 1) := by
        simp [List.zipIdx_cons, encBS]
      have hk : (encBS (pre ++ (t, b) :: rest) : List (DV α))[pre.length]? = some (.smp t (.bool b)) := by
        simp [encBS]
      have hb := outLoopBody_spec call fuel (outBind (DV.smp t (.bool b), pre.length) env) _ pre.length t b acc
        (by simpa [outBind] using hs) (by simp [outBind]) hk (by simpa [outBind] using ho)
      generalize henv1 : setLoc "out_sample" (encSig (acc ++ [(t, infOf b)]))
        (setLoc "sample" (DV.uinf (!b)) (outBind (DV.smp t (.bool b), pre.length) env)) = env1 at hb
      have f1 : Frame outVars env env1 := by
        intro k' hk'
        simp only [outVars, List.mem_cons, List.not_mem_nil, or_false, not_or] at hk'
        rw [← henv1]
        simp [outBind, hk'.1, hk'.2.1, hk'.2.2.1, hk'.2.2.2]
      obtain ⟨env', hx, r', f2⟩ := ih (pre ++ [(t, b)]) env1 (acc ++ [(t, infOf b)])
        (by rw [f1 _ (by simp [outVars]), hs]; simp) (by rw [← henv1]; simp)
      refine ⟨env', ?_, ?_, fun k' hk' => by rw [f2 _ hk', f1 _ hk']⟩
      · rw [e0, forLoop_cons]
        simp only [hb, ok_bind]
        simpa using hx
      · simpa using r'

/-! ### the three parts of the body after the call of `self.sub.update` -/

theorem exec_forEnum_list (i x : String) (it : E) (body : S) (env : Env α) (l : List (DV α))
    (h : evalE call env it = .ok (.list l)) :
    exec call fuel (.forEnum i x it false body) env =
      forLoop (fun p env => setLoc x p.1 (setLoc i (.int p.2) env)) (exec call fuel body) l.zipIdx env := by
  simp [exec, h]

theorem exec_ret_loc (x : String) (env : Env α) (v : DV α) (h : getLoc x env = .ok v) :
    exec call fuel (.ret (.loc x)) env = .ok (env, .ret v) := by
  simp [exec, evalE, h]

/-- the inlined `update` of the parent: `self.subtraction_output = input_list`, the loop, `samples = sample_result` -/
theorem iaUpd_spec (habs : ∀ x : α, call "abs" [.val x] = .ok (.val (Val.abs x))) (c : Cmp) (d : ASig α) (env : Env α)
    (hil : getLoc "update0$input_list" env = .ok (encSig d))
    (hsr : getLoc "update0$sample_result" env = .ok (encSig ([] : ASig α)))
    (hc : getLoc "self.comparison_op" env = .ok (.cmp c)) (hres : getLoc "abs" env = .error .key) :
    ∃ env', (∀ tail, exec call fuel (.seq (.setLoc "self.subtraction_output" (.loc "update0$input_list"))
          (.seq (.setLoc "update0$prev" .nan) (.seq (.forIn "update0$i" (.loc "update0$input_list") updLoopBody)
            (.seq (.setLoc "samples" (.loc "update0$sample_result")) tail)))) env = exec call fuel tail env') ∧
      getLoc "self.subtraction_output" env' = .ok (encSig d) ∧
      Frame ("self.subtraction_output" :: "samples" :: updVars) env env' := by
  have h1 : exec call fuel (.setLoc "self.subtraction_output" (.loc "update0$input_list")) env =
      .ok (setLoc "self.subtraction_output" (encSig d) env, .none) := exec_setLoc call fuel (by simp [evalE, hil])
  have h2 : exec call fuel (.setLoc "update0$prev" .nan) (setLoc "self.subtraction_output" (encSig d) env) =
      .ok (setLoc "update0$prev" .nan (setLoc "self.subtraction_output" (encSig d) env), .none) :=
    exec_setLoc call fuel (by simp [evalE])
  generalize henv2 : setLoc "update0$prev" DV.nan (setLoc "self.subtraction_output" (encSig d) env) = env2 at h2
  have g2 : ∀ k', k' ≠ "update0$prev" → k' ≠ "self.subtraction_output" → getLoc k' env2 = getLoc k' env := by
    intro k' a b; rw [← henv2]; simp [a, b]
  have so2 : getLoc "self.subtraction_output" env2 = .ok (encSig d) := by rw [← henv2]; simp
  obtain ⟨env3, hx3, r3, f3⟩ := updLoop_spec call fuel habs c d env2 []
    (by rw [g2 _ (by decide) (by decide)]; exact hc) (by rw [g2 _ (by decide) (by decide)]; exact hsr)
    (by rw [g2 _ (by decide) (by decide)]; exact hres)
  have h3 := exec_forIn_list call fuel "update0$i" (.loc "update0$input_list") updLoopBody env2 (d.map encSmp)
    (by rw [evalE, g2 _ (by decide) (by decide)]; exact hil)
  rw [hx3] at h3
  have h4 : exec call fuel (.setLoc "samples" (.loc "update0$sample_result")) env3 =
      .ok (setLoc "samples" (encSig ([] ++ d.map (fun p => (p.1, cmpOfDiff c p.2)))) env3, .none) :=
    exec_setLoc call fuel (by simp [evalE, r3])
  refine ⟨_, fun tail => by rw [exec_seq_ok _ _ h1, exec_seq_ok _ _ h2, exec_seq_ok _ _ h3, exec_seq_ok _ _ h4], ?_, ?_⟩
  · rw [getLoc_setLoc_ne _ _ _ _ (by decide), f3 _ (by simp [updVars])]; exact so2
  · intro k' hk'
    have hk'' := hk'
    simp only [updVars, List.mem_cons, List.not_mem_nil, or_false, not_or] at hk''
    rw [getLoc_setLoc_ne _ _ _ _ hk''.2.1, f3 _ (by simp [updVars, hk''.2.2.1, hk''.2.2.2.1, hk''.2.2.2.2.1,
      hk''.2.2.2.2.2]), g2 _ hk''.2.2.2.2.2 hk''.1]

/-- the inlined `sat` of the parent up to its loop -/
theorem iaSat_spec (habs : ∀ x : α, call "abs" [.val x] = .ok (.val (Val.abs x)))
    (hlen : ∀ l : List (DV α), call "len" [.list l] = .ok (.int l.length)) (c : Cmp) (d : ASig α) (env : Env α)
    (hso : getLoc "self.subtraction_output" env = .ok (encSig d))
    (hc : getLoc "self.comparison_op" env = .ok (.cmp c)) (hres : getLoc "abs" env = .error .key)
    (hresl : getLoc "len" env = .error .key) :
    ∃ env', (∀ tail, exec call fuel (.seq (.setLoc "sat1$sample_result" .emptyList)
          (.seq (.setLoc "sat1$input_list" (.loc "self.subtraction_output")) (.seq (.setLoc "sat1$prev" .nan)
            (.seq (.forEnum "sat1$i" "sat1$in_sample" (.loc "sat1$input_list") false satLoopBody) tail)))) env =
          exec call fuel tail env') ∧
      getLoc "sat1$sample_result" env' = .ok (encB (satGo c none d)) ∧
      Frame ("sat1$input_list" :: satAll) env env' := by
  have h1 : exec call fuel (.setLoc "sat1$sample_result" .emptyList) env =
      .ok (setLoc "sat1$sample_result" (.list []) env, .none) := exec_setLoc call fuel (by simp [evalE])
  have h2 : exec call fuel (.setLoc "sat1$input_list" (.loc "self.subtraction_output"))
      (setLoc "sat1$sample_result" (.list []) env) =
      .ok (setLoc "sat1$input_list" (encSig d) (setLoc "sat1$sample_result" (.list []) env), .none) :=
    exec_setLoc call fuel (by simp [evalE, hso])
  have h3 : exec call fuel (.setLoc "sat1$prev" .nan)
      (setLoc "sat1$input_list" (encSig d) (setLoc "sat1$sample_result" (.list []) env)) =
      .ok (setLoc "sat1$prev" .nan (setLoc "sat1$input_list" (encSig d) (setLoc "sat1$sample_result" (.list []) env)),
        .none) := exec_setLoc call fuel (by simp [evalE])
  generalize henv3 : setLoc "sat1$prev" DV.nan (setLoc "sat1$input_list" (encSig d)
    (setLoc "sat1$sample_result" (DV.list []) env)) = env3 at h3
  have g3 : ∀ k', k' ≠ "sat1$prev" → k' ≠ "sat1$input_list" → k' ≠ "sat1$sample_result" →
      getLoc k' env3 = getLoc k' env := by
    intro k' a b c'; rw [← henv3]; simp [a, b, c']
  have il3 : getLoc "sat1$input_list" env3 = .ok (.list (d.map encSmp)) := by rw [← henv3]; simp [encSig]
  obtain ⟨env4, hx4, r4, f4⟩ := satLoop_spec call fuel habs hlen c (d.map encSmp) d 0 env3 [] none (by simp)
    (by rw [g3 _ (by decide) (by decide) (by decide)]; exact hc) il3 (by rw [← henv3]; simp [encPrev])
    (by rw [← henv3]; simp [encB, encSigP])
    (by rw [g3 _ (by decide) (by decide) (by decide)]; exact hres)
    (by rw [g3 _ (by decide) (by decide) (by decide)]; exact hresl)
  have h4 := exec_forEnum_list call fuel "sat1$i" "sat1$in_sample" (.loc "sat1$input_list") satLoopBody env3
    (d.map encSmp) (by rw [evalE]; exact il3)
  have h4' : exec call fuel (.forEnum "sat1$i" "sat1$in_sample" (.loc "sat1$input_list") false satLoopBody) env3 =
      .ok (env4, .none) := by rw [h4]; exact hx4
  refine ⟨env4, fun tail => by rw [exec_seq_ok _ _ h1, exec_seq_ok _ _ h2, exec_seq_ok _ _ h3, exec_seq_ok _ _ h4'],
    by simpa using r4, ?_⟩
  intro k' hk'
  have hk'' := hk'
  simp only [satAll, List.mem_cons, List.not_mem_nil, or_false, not_or] at hk''
  rw [f4 _ (by simp [satAll, hk''.2.1, hk''.2.2.1, hk''.2.2.2.1, hk''.2.2.2.2.1, hk''.2.2.2.2.2.1,
    hk''.2.2.2.2.2.2]), g3 _ hk''.2.2.2.2.2.2 hk''.1 hk''.2.2.2.2.2.1]

/-- from `sat_sample = …` on: output robustness with `out_vars` empty, `±inf` by the verdict -/
theorem iaTail_spec (s : List (Tm × Bool)) (env : Env α)
    (hs : getLoc "sat1$sample_result" env = .ok (encB s)) (hsem : getLoc "self.semantics" env = .ok (.int 1))
    (hov : getLoc "self.out_vars" env = .ok (.list [])) :
    ∃ env', exec call fuel iaTail env = .ok (env', .ret (encSig (s.map (fun p => (p.1, (infOf p.2 : α)))))) ∧
      Frame ("sat_sample" :: outVars) env env' := by
  have h1 : exec call fuel (.setLoc "sat_sample" (.loc "sat1$sample_result")) env =
      .ok (setLoc "sat_sample" (encB s) env, .none) := exec_setLoc call fuel (by simp [evalE, hs])
  have h2 : exec call fuel (.setLoc "out_sample" .emptyList) (setLoc "sat_sample" (encB s) env) =
      .ok (setLoc "out_sample" (.list []) (setLoc "sat_sample" (encB s) env), .none) :=
    exec_setLoc call fuel (by simp [evalE])
  generalize henv2 : setLoc "out_sample" (DV.list []) (setLoc "sat_sample" (encB s) env) = env2 at h2
  have g2 : ∀ k', k' ≠ "out_sample" → k' ≠ "sat_sample" → getLoc k' env2 = getLoc k' env := by
    intro k' a b; rw [← henv2]; simp [a, b]
  have ss2 : getLoc "sat_sample" env2 = .ok (.list (encBS s)) := by rw [← henv2]; simp [encB_eq]
  have hrob : evalE call env2 robCond = .ok (.bool true) := by
    simp [robCond, semIs, evalE, g2, hsem, hov, evalBin, isCmp, cmpDV_eq_int, Except.map, truthy]
  obtain ⟨env3, hx3, r3, f3⟩ := outLoop_spec call fuel s [] env2 [] (by simpa using ss2)
    (by rw [← henv2]; simp [encSig])
  have h3 := exec_forEnum_list call fuel "i" "$elem_i" (.loc "sat_sample") outLoopBody env2 (encBS s)
    (by rw [evalE]; exact ss2)
  have h3' : exec call fuel outStmt env2 = .ok (env3, .none) := by
    unfold outStmt
    rw [exec_ite_bool call fuel _ _ _ _ _ hrob]
    simp only [if_true]
    rw [h3]; exact hx3
  refine ⟨env3, ?_, ?_⟩
  · unfold iaTail
    rw [exec_seq_ok _ _ h1, exec_seq_ok _ _ h2, exec_seq_ok _ _ h3']
    exact exec_ret_loc call fuel _ _ _ (by simpa using r3)
  · intro k' hk'
    have hk'' := hk'
    simp only [outVars, List.mem_cons, List.not_mem_nil, or_false, not_or] at hk''
    rw [f3 _ (by simp [outVars, hk''.2.1, hk''.2.2.1, hk''.2.2.2.1, hk''.2.2.2.2]), g2 _ hk''.2.2.2.2 hk''.1]

/-- the locals (and `self.subtraction_output`) the body writes after the call of `self.sub.update` -/
def iaVars : List String :=
  ("self.subtraction_output" :: "samples" :: updVars) ++ ("sat1$input_list" :: satAll) ++ ("sat_sample" :: outVars)

/-- the body after the call of `self.sub.update`, which has returned the difference signal `d` -/
theorem iaRest_spec (habs : ∀ x : α, call "abs" [.val x] = .ok (.val (Val.abs x)))
    (hlen : ∀ l : List (DV α), call "len" [.list l] = .ok (.int l.length)) (c : Cmp) (d : ASig α) (env : Env α)
    (hil : getLoc "update0$input_list" env = .ok (encSig d))
    (hsr : getLoc "update0$sample_result" env = .ok (encSig ([] : ASig α)))
    (hc : getLoc "self.comparison_op" env = .ok (.cmp c)) (hsem : getLoc "self.semantics" env = .ok (.int 1))
    (hov : getLoc "self.out_vars" env = .ok (.list [])) (hres : getLoc "abs" env = .error .key)
    (hresl : getLoc "len" env = .error .key) :
    ∃ env', exec call fuel iaRest env = .ok (env', .ret (encSig (iaOut c d))) ∧
      getLoc "self.subtraction_output" env' = .ok (encSig d) ∧ Frame iaVars env env' := by
  obtain ⟨env1, hx1, so1, f1⟩ := iaUpd_spec call fuel habs c d env hil hsr hc hres
  obtain ⟨env2, hx2, r2, f2⟩ := iaSat_spec call fuel habs hlen c d env1 so1
    (by rw [f1 _ (by simp [updVars])]; exact hc) (by rw [f1 _ (by simp [updVars])]; exact hres)
    (by rw [f1 _ (by simp [updVars])]; exact hresl)
  obtain ⟨env3, hx3, f3⟩ := iaTail_spec call fuel (satGo c none d) env2 r2
    (by rw [f2 _ (by simp [satAll]), f1 _ (by simp [updVars])]; exact hsem)
    (by rw [f2 _ (by simp [satAll]), f1 _ (by simp [updVars])]; exact hov)
  refine ⟨env3, ?_, ?_, ?_⟩
  · unfold iaRest iaSat
    rw [hx1, hx2]
    exact hx3
  · rw [f3 _ (by simp [outVars]), f2 _ (by simp [satAll])]; exact so1
  · intro k' hk'
    simp only [iaVars, List.mem_append, not_or] at hk'
    rw [f3 _ hk'.2, f2 _ hk'.1.2, f1 _ hk'.1.1]

end loops

/-! ### the values `binUpdate f` returns are values of `f` -/

theorem bind_ok_iff {ε σ ρ : Type} (x : Except ε σ) (f : σ → Except ε ρ) (b : ρ) :
    (x >>= f) = .ok b ↔ ∃ a, x = .ok a ∧ f a = .ok b := by
  cases x with
  | error e => simp
  | ok a => simp

section range
variable {β : Type} (P : β → Prop)

def LastP : Last β → Prop
  | .item _ v => P v
  | _ => True

theorem appendD_range (ne : β → β → Bool) (out : ASig β) (item : Tm × β) (ho : ∀ p ∈ out, P p.2) (hi : P item.2) :
    ∀ p ∈ appendD ne out item, P p.2 := by
  unfold appendD
  split
  · intro p hp; simp at hp; subst hp; exact hi
  · split
    · intro p hp
      rcases List.mem_append.mp hp with h | h
      · exact ho p h
      · simp at h; subst h; exact hi
    · exact ho

theorem onLoop_range (f : α → α → β) (ne : β → β → Bool) (hP : ∀ a b, P (f a b)) (l1 l2 : ASig α) (out : ASig β)
    (last : Last β) :
    (∀ p ∈ out, P p.2) → LastP P last → ∀ res, onLoop f ne l1 l2 out last = .ok res →
      (∀ p ∈ res.1, P p.2) ∧ LastP P res.2.1 := by
  fun_induction onLoop f ne l1 l2 out last <;> intro ho hl res h
  all_goals first
    | (cases h; exact ⟨ho, hl⟩)
    | (cases h; done)
    | skip
  all_goals
    rename_i ih
    refine ih ?_ ?_ res h
    · first | exact ho | exact appendD_range P ne _ _ ho (hP _ _)
    · first | exact hl | exact hP _ _ | exact True.intro

theorem tail1_range (f : α → α → β) (ne : β → β → Bool) (hP : ∀ a b, P (f a b)) (p2 : Tm) (v2 : α) (l1 : ASig α)
    (out : ASig β) (last : Last β) :
    (∀ p ∈ out, P p.2) → LastP P last →
      (∀ p ∈ (tail1 f ne p2 v2 l1 out last).1, P p.2) ∧ LastP P (tail1 f ne p2 v2 l1 out last).2 := by
  fun_induction tail1 f ne p2 v2 l1 out last <;> intro ho hl
  all_goals first
    | exact ⟨ho, hl⟩
    | exact ⟨ho, hP _ _⟩
    | (rename_i ih
       refine ih ?_ ?_
       · first | exact ho | exact appendD_range P ne _ _ ho (hP _ _)
       · first | exact hP _ _ | exact True.intro)

theorem tail2_range (f : α → α → β) (ne : β → β → Bool) (hP : ∀ a b, P (f a b)) (p1 : Tm) (v1 : α) (l2 : ASig α)
    (out : ASig β) (last : Last β) :
    (∀ p ∈ out, P p.2) → LastP P last →
      (∀ p ∈ (tail2 f ne p1 v1 l2 out last).1, P p.2) ∧ LastP P (tail2 f ne p1 v1 l2 out last).2 := by
  fun_induction tail2 f ne p1 v1 l2 out last <;> intro ho hl
  all_goals first
    | exact ⟨ho, hl⟩
    | exact ⟨ho, hP _ _⟩
    | (rename_i ih
       refine ih ?_ ?_
       · first | exact ho | exact appendD_range P ne _ _ ho (hP _ _)
       · first | exact hP _ _ | exact True.intro)

theorem interOn_range (f : α → α → β) (ne : β → β → Bool) (hP : ∀ a b, P (f a b)) (s1 s2 : ASig α)
    (res : ASig β × Last β × ASig α × ASig α) (h : interOn f ne s1 s2 = .ok res) :
    (∀ p ∈ res.1, P p.2) ∧ LastP P res.2.1 := by
  unfold interOn at h
  split at h
  · cases h; exact ⟨by simp, True.intro⟩
  · cases h; exact ⟨by simp, True.intro⟩
  · rename_i p1 v1 t1 p2 v2 t2
    simp only [bind_ok_iff] at h
    obtain ⟨a, ha, h⟩ := h
    have h0 : LastP P (if (p1 == p2) = true then Last.item p1 (f v1 v2) else Last.nil) := by
      split
      · exact hP _ _
      · exact True.intro
    have hl := onLoop_range P f ne hP _ _ [] _ (by simp) h0 a ha
    split at h
    · cases h; exact tail1_range P f ne hP _ _ _ _ _ hl.1 hl.2
    · cases h; exact tail2_range P f ne hP _ _ _ _ _ hl.1 hl.2
    · cases h; exact hl

theorem binUpdate_range (P : α → Prop) (f : α → α → α) (hP : ∀ a b, P (f a b)) (st : BinSt α) (sl sr : ASig α)
    (st' : BinSt α) (d : ASig α) (h : binUpdate f st sl sr = .ok (st', d)) : ∀ p ∈ d, P p.2 := by
  rw [binUpdate_eq] at h
  split at h
  · cases h
  · rename_i result last left right hI
    have hr := interOn_range P f vne hP _ _ _ hI
    have hadd : ∀ p ∈ addLast result last, P p.2 := by
      cases last with
      | nil => exact hr.1
      | item t v =>
          simp only [addLast]
          split
          · intro p hp; simp at hp; subst hp; exact hr.2
          · split
            · intro p hp
              rcases List.mem_append.mp hp with h' | h'
              · exact hr.1 p h'
              · simp at h'; subst h'; exact hr.2
            · exact hr.1
    have hdrop : ∀ p ∈ dropFirst st.lastOut (addLast result last), P p.2 := by
      unfold dropFirst
      split
      · split
        · rename_i heq _
          intro p hp; exact hadd p (by rw [heq]; simp [hp])
        · exact hadd
      · exact hadd
    cases h; exact hdrop

end range

/-- the two readings of the verdict of `!=` agree on differences -/
def SatNeLaw (α : Type) [Val α] : Prop :=
  ∀ a b : α, satOn Cmp.ne (Val.sub a b) = satOfDiff Cmp.ne (Val.sub a b)

/-- `hcmp` of C06 (the verdict read off the difference is the comparison) implies it -/
theorem satNeLaw_of_hcmp (hcmp : ∀ (c : Cmp) (a b : α), satOfDiff c (Val.sub a b) = c.holds a b) : SatNeLaw α := by
  intro a b
  have h1 := hcmp .eq a b
  have h2 := hcmp .ne a b
  simp only [satOfDiff, Cmp.holds] at h1 h2
  simp only [satOn, numEq, satOfDiff, h1, h2]
  cases Val.lt a b <;> cases Val.lt b a <;> rfl

/-- so does `0 < abs d ↔ d < 0 ∨ 0 < d` -/
theorem satNeLaw_of_abs (habs : ∀ d : α, Val.lt Val.zero (Val.abs d) = (Val.lt d Val.zero || Val.lt Val.zero d)) :
    SatNeLaw α := by
  intro a b
  simp only [satOn, numEq, satOfDiff, habs]
  cases Val.lt (Val.sub a b) Val.zero <;> cases Val.lt Val.zero (Val.sub a b) <;> rfl

/-- the hypothesis of `gen_iapred_updateObj` from the law (needed for `!=` only) -/
theorem hsat_of_law (c : Cmp) (hne : c = .ne → SatNeLaw α) (st : BinSt α) (sl sr : ASig α) (st' : BinSt α) (d : ASig α)
    (h : binUpdate (fun a b => Val.sub a b) st sl sr = .ok (st', d)) : ∀ p ∈ d, satOn c p.2 = satOfDiff c p.2 := by
  by_cases hc : c = .ne
  · subst hc
    exact binUpdate_range (fun x => satOn Cmp.ne x = satOfDiff Cmp.ne x) _ (hne rfl) st sl sr st' d h
  · intro p _; exact satOn_of_ne hc p.2

theorem call_len (fuel k : Nat) (l : List (DV α)) :
    callAt Gen.DenseOn.fns fuel k "len" [.list l] = .ok (.int l.length : DV α) := by
  rw [callAt_builtin _ _ _ "len" _ rfl]; simp [builtin]

/-- the object `o` is the interface-aware `PredicateOperation(c, OUTPUT_ROBUSTNESS, in_vars, [])` whose subtraction object is
    in the state `st` -/
def IAPredRel (c : Cmp) (st : BinSt α) (o : DV α) : Prop :=
  ∃ store sub, o = .obj "IAPredicateOperation" store ∧
    store.lookup "self.sub" = some sub ∧ BinRel "SubtractionOperation" st sub ∧
    store.lookup "self.comparison_op" = some (.cmp c) ∧
    (∃ d : ASig α, store.lookup "self.subtraction_output" = some (encSig d)) ∧
    store.lookup "self.semantics" = some (.int 1) ∧
    (∃ vs : List (DV α), store.lookup "self.in_vars" = some (.list vs)) ∧
    store.lookup "self.out_vars" = some (.list []) ∧
    SelfKeys store

/-- the locals a method `update(self, sample_left, sample_right)` starts with: `len` is not one of them -/
theorem env0_len (store : Env α) (hk : SelfKeys store) (x y : DV α) :
    getLoc "len" (store ++ [("sample_left", x), ("sample_right", y)]) = .error .key := by
  rw [getLoc_append_right (lookup_none_of_selfKeys store hk _ (by simp [isSelfKey]))]; simp

end Rtamt.Py.DnOn.GOnIA

/-! ## main theorems: the interface-aware `PredicateOperation` -/

namespace Rtamt.Py.DnOn
open Rtamt Val Rtamt.Dense Rtamt.Dense.Alg Rtamt.Dense.AlgOn GOnBin GOnIA

set_option linter.unusedSectionVars false
set_option linter.unusedVariables false
set_option linter.unusedSimpArgs false

variable {α : Type} [Val α]

/-- the mirror clause: what `stepOn` does at a node `.bin (.predSat c)` once the operands have been stepped -/
def iaPredUpdate (c : Cmp) (st : BinSt α) (sl sr : ASig α) : Except PyErr (BinSt α × ASig α) := do
  let (st', d) ← binUpdate (fun a b => Val.sub a b) st sl sr
  let both := dedupGoK (fun (x : α × Bool) => x.1) none (d.map (fun p => (p.1, (cmpOfDiff c p.2, satOfDiff c p.2))))
  pure (st', both.map (fun p => (p.1, if p.2.2 then Val.pinf else Val.ninf)))

theorem stepOn_predSat (cfg : DCfg) (inp : String → ASig α) (c : Cmp) (φ ψ : F α) (st : BinSt α) (l r : OnSt α) :
    stepOn cfg inp (.bin (.predSat c) φ ψ) (.bin st l r) = (do
      let (l', sl) ← stepOn cfg inp φ l
      let (r', sr) ← stepOn cfg inp ψ r
      let (st', out) ← iaPredUpdate c st sl sr
      pure (.bin st' l' r', out)) := by
  rw [stepOn]
  cases h1 : stepOn cfg inp φ l with
  | error e => rfl
  | ok a =>
      cases h2 : stepOn cfg inp ψ r with
      | error e => rfl
      | ok b =>
          simp only [ok_bind, iaPredUpdate]
          cases h3 : binUpdate (fun a b => Val.sub a b) st a.2 b.2 with
          | error e => rfl
          | ok r => rfl

/-- what the TRANSLATED class computes: as `iaPredUpdate`, with the verdict `satOn` of the online `sat()` (for `!=`:
    `False if d == 0 else True`) in the place of `satOfDiff` (`abs(d) > 0`) -/
def iaPredUpdateOn (c : Cmp) (st : BinSt α) (sl sr : ASig α) : Except PyErr (BinSt α × ASig α) := do
  let (st', d) ← binUpdate (fun a b => Val.sub a b) st sl sr
  pure (st', iaOut c d)

/-- the two agree when the two readings of the verdict agree on the difference signal (for every operator but `!=` they are
    the same function) -/
theorem iaPredUpdateOn_eq (c : Cmp) (st : BinSt α) (sl sr : ASig α)
    (hsat : ∀ st' d, binUpdate (fun a b => Val.sub a b) st sl sr = .ok (st', d) →
      ∀ p ∈ d, satOn c p.2 = satOfDiff c p.2) :
    iaPredUpdateOn c st sl sr = iaPredUpdate c st sl sr := by
  unfold iaPredUpdateOn iaPredUpdate
  cases h : binUpdate (fun a b => Val.sub a b) st sl sr with
  | error e => rfl
  | ok r =>
      obtain ⟨st', d⟩ := r
      simp only [ok_bind, pure_eq_ok]
      rw [iaOut_eq c d (hsat st' d h)]

/-- `PredicateOperation(c, Semantics.OUTPUT_ROBUSTNESS, in_vars, [])` of the interface-aware package: the nested
    `SubtractionOperation()` is in the initial state -/
theorem gen_iapred_init (fuel k : Nat) (c : Cmp) (vs : List (DV α)) :
    ∃ o : DV α, callAt Gen.DenseOn.fns fuel (k + 2) "IAPredicateOperation.__init__"
        [.obj "IAPredicateOperation" [], .cmp c, .int 1, .list vs, .list []] = .ok (.list [o, .none]) ∧
      IAPredRel c {} o := by
  obtain ⟨sub, hsub, hrel⟩ := gen_bin_init (α := α) fuel k "SubtractionOperation" initClass_Subtraction
  rw [callAt_fn _ _ _ _ Gen.DenseOn.IAPredicateOperation_init _ rfl]
  have hx : exec (callAt (α := α) Gen.DenseOn.fns fuel (k + 1)) fuel Gen.DenseOn.IAPredicateOperation_init.body
      ([] ++ (Gen.DenseOn.IAPredicateOperation_init.params.drop 1).zip [DV.cmp c, .int 1, .list vs, .list []]) =
      .ok (setLoc "self.out_vars" (.list []) (setLoc "self.in_vars" (.list vs) (setLoc "self.semantics" (.int 1)
        (setLoc "self.subtraction_output" (.list []) (setLoc "self.comparison_op" (.cmp c)
          (setLoc "self.sub" sub [("comparison_op", .cmp c), ("semantics", .int 1), ("in_vars", .list vs),
            ("out_vars", .list [])]))))), .none) := by
    rw [IA_init_body]
    show exec _ fuel iaInit [("comparison_op", .cmp c), ("semantics", .int 1), ("in_vars", .list vs),
      ("out_vars", .list [])] = _
    unfold iaInit
    rw [GOnBin.exec_seq_ok _ fuel (exec_new0_ok _ fuel "self.sub" "SubtractionOperation" _ sub .none hsub)]
    simp [exec, evalE]
  refine ⟨_, runFn_method_none _ fuel _ rfl "IAPredicateOperation" [] [.cmp c, .int 1, .list vs, .list []] rfl _ hx,
    _, sub, rfl, ?_, hrel, ?_, ⟨[], ?_⟩, ?_, ⟨vs, ?_⟩, ?_, selfKeys_filter _⟩
  all_goals (rw [lookup_filter_self _ _ (by simp [isSelfKey])]; exact getLoc_ok_iff.mp (by simp [encSig]))

/-- the same through `construct` (call depth `depth = 7`): what `initOnG` builds at a node `.bin (.predSat c)` -/
theorem gen_iapred_construct (fuel : Nat) (c : Cmp) (vs : List (DV α)) :
    ∃ o : DV α, construct fuel "IAPredicateOperation" [.cmp c, .int 1, .list vs, .list []] = .ok o ∧
      IAPredRel c {} o := by
  obtain ⟨o, ho, hrel⟩ := gen_iapred_init (α := α) fuel 5 c vs
  refine ⟨o, ?_, hrel⟩
  have hd : (depth : Nat) = 5 + 2 := rfl
  have hn : ("IAPredicateOperation" ++ ".__init__" : String) = "IAPredicateOperation.__init__" := by decide
  simp only [construct, hd, hn, ho, ok_bind, pure_eq_ok]

/-- `update` of the interface-aware `PredicateOperation`: `binUpdate` with the subtraction, then `iaOut` (the verdicts `sat()`
    keeps, as `±inf`) - or the exception the mirror raises -/
theorem gen_iapred_update (fuel k : Nat) (c : Cmp) (hI : InterOnSpec α fuel k)
    (hm : ∀ a b, callAt Gen.DenseOn.fns fuel (k + 1) "subtraction" [.val a, .val b] = .ok (.val (Val.sub a b) : DV α))
    (st : BinSt α) (o : DV α) (hrel : IAPredRel c st o) (sl sr : ASig α) (hfuel : binFuel st sl sr ≤ fuel) :
    match binUpdate (fun a b => Val.sub a b) st sl sr with
    | .ok (st', d) =>
        ∃ o', callAt Gen.DenseOn.fns fuel (k + 4) "IAPredicateOperation.update" [o, encSig sl, encSig sr] =
            .ok (.list [o', encSig (iaOut c d)]) ∧ IAPredRel c st' o'
    | .error e =>
        callAt Gen.DenseOn.fns fuel (k + 4) "IAPredicateOperation.update" [o, encSig sl, encSig sr] = .error e := by
  obtain ⟨store, sub, rfl, hsub, hrelsub, hcmp, ⟨d0, hd0⟩, hsem, ⟨vs, hiv⟩, hov, hk⟩ := hrel
  have hupd := gen_bin_update_full fuel k "SubtractionOperation" "subtraction" binClass_Subtraction
    (fun a b => Val.sub a b) hI hm st sub hrelsub sl sr hfuel
  obtain ⟨substore, rfl, -⟩ := hrelsub
  rw [callAt_fn _ _ _ _ Gen.DenseOn.IAPredicateOperation_update _ rfl]
  obtain ⟨e1, e2, _, e4⟩ := env0_facts store hk (encSig sl) (encSig sr)
  have e5 := env0_len store hk (encSig sl) (encSig sr)
  have hname : ("SubtractionOperation" ++ "." ++ "update" : String) = "SubtractionOperation" ++ ".update" := rfl
  have hx1 : exec (callAt (α := α) Gen.DenseOn.fns fuel (k + 3)) fuel (.setLoc "update0$sample_result" .emptyList)
      (store ++ [("sample_left", encSig sl), ("sample_right", encSig sr)]) =
      .ok (setLoc "update0$sample_result" (.list [])
        (store ++ [("sample_left", encSig sl), ("sample_right", encSig sr)]), .none) :=
    GOnBin.exec_setLoc _ fuel (by simp [evalE])
  generalize henv1 : setLoc "update0$sample_result" (DV.list [])
    (store ++ [("sample_left", encSig sl), ("sample_right", encSig sr)]) = env1 at hx1
  have g1 : ∀ k', k' ≠ "update0$sample_result" →
      getLoc k' env1 = getLoc k' (store ++ [("sample_left", encSig sl), ("sample_right", encSig sr)]) := by
    intro k' hk'; rw [← henv1]; exact getLoc_setLoc_ne _ _ _ _ hk'
  have sl1 : evalE (callAt (α := α) Gen.DenseOn.fns fuel (k + 3)) env1 (.loc "sample_left") = .ok (encSig sl) := by
    rw [evalE, g1 _ (by decide)]; exact e1
  have sr1 : evalE (callAt (α := α) Gen.DenseOn.fns fuel (k + 3)) env1 (.loc "sample_right") = .ok (encSig sr) := by
    rw [evalE, g1 _ (by decide)]; exact e2
  have sub1 : getLoc "self.sub" env1 = .ok (.obj "SubtractionOperation" substore) := by
    rw [g1 _ (by decide)]; exact getLoc_append_left hsub
  revert hupd
  cases hb : binUpdate (fun a b => Val.sub a b) st sl sr with
  | error e =>
      intro hcall
      have hx2 := exec_mcall2_err (callAt (α := α) Gen.DenseOn.fns fuel (k + 3)) fuel "update0$input_list" "self.sub"
        "update" _ _ env1 _ _ "SubtractionOperation" substore e sl1 sr1 sub1 (by rw [hname]; exact hcall)
      refine runFn_method_err _ fuel _ rfl _ store _ rfl e ?_
      rw [IA_body]
      show exec _ fuel iaBody (store ++ [("sample_left", encSig sl), ("sample_right", encSig sr)]) = _
      unfold iaBody
      rw [GOnBin.exec_seq_ok _ fuel hx1, GOnBin.exec_seq_err _ fuel hx2]
  | ok r =>
      obtain ⟨st', d⟩ := r
      rintro ⟨sub', hcall, hrel'⟩
      have hx2 := exec_mcall2_ok (callAt (α := α) Gen.DenseOn.fns fuel (k + 3)) fuel "update0$input_list" "self.sub"
        "update" _ _ env1 _ _ "SubtractionOperation" substore sub' (encSig d) sl1 sr1 sub1 (by rw [hname]; exact hcall)
      generalize henv2 : setLoc "update0$input_list" (encSig d) (setLoc "self.sub" sub' env1) = env2 at hx2
      have g2 : ∀ k', k' ≠ "update0$input_list" → k' ≠ "self.sub" → k' ≠ "update0$sample_result" →
          getLoc k' env2 = getLoc k' (store ++ [("sample_left", encSig sl), ("sample_right", encSig sr)]) := by
        intro k' a b c'; rw [← henv2, getLoc_setLoc_ne _ _ _ _ a, getLoc_setLoc_ne _ _ _ _ b, g1 _ c']
      have sub2 : getLoc "self.sub" env2 = .ok sub' := by rw [← henv2]; simp
      obtain ⟨env3, hx3, so3, f3⟩ := iaRest_spec (callAt (α := α) Gen.DenseOn.fns fuel (k + 3)) fuel
        (call_abs fuel (k + 3)) (call_len fuel (k + 3)) c d env2
        (by rw [← henv2]; simp) (by rw [← henv2, ← henv1]; simp [encSig])
        (by rw [g2 _ (by decide) (by decide) (by decide)]; exact getLoc_append_left hcmp)
        (by rw [g2 _ (by decide) (by decide) (by decide)]; exact getLoc_append_left hsem)
        (by rw [g2 _ (by decide) (by decide) (by decide)]; exact getLoc_append_left hov)
        (by rw [g2 _ (by decide) (by decide) (by decide)]; exact e4)
        (by rw [g2 _ (by decide) (by decide) (by decide)]; exact e5)
      have hx : exec (callAt (α := α) Gen.DenseOn.fns fuel (k + 3)) fuel Gen.DenseOn.IAPredicateOperation_update.body
          (store ++ (Gen.DenseOn.IAPredicateOperation_update.params.drop 1).zip [encSig sl, encSig sr]) =
          .ok (env3, .ret (encSig (iaOut c d))) := by
        rw [IA_body]
        show exec _ fuel iaBody (store ++ [("sample_left", encSig sl), ("sample_right", encSig sr)]) = _
        unfold iaBody
        rw [GOnBin.exec_seq_ok _ fuel hx1, GOnBin.exec_seq_ok _ fuel hx2]
        exact hx3
      have hnot : ∀ k', isSelfKey k' = true → k' ≠ "self.subtraction_output" → k' ∉ iaVars := by
        intro k' hs hne hmem
        simp only [iaVars, updVars, satAll, outVars, List.mem_append, List.mem_cons, List.not_mem_nil, or_false] at hmem
        rcases hmem with ((h | h | h | h | h | h) | (h | h | h | h | h | h | h)) | (h | h | h | h | h) <;>
          first | exact hne h | (subst h; simp [isSelfKey] at hs)
      refine ⟨_, runFn_method_ret _ fuel _ rfl _ store _ rfl env3 _ hx,
        ⟨_, sub', rfl, ?_, hrel', ?_, ⟨d, ?_⟩, ?_, ⟨vs, ?_⟩, ?_, selfKeys_filter _⟩⟩
      · rw [lookup_filter_self _ _ (by simp [isSelfKey])]
        exact getLoc_ok_iff.mp (by rw [f3 _ (hnot _ (by simp [isSelfKey]) (by decide))]; exact sub2)
      · rw [lookup_filter_self _ _ (by simp [isSelfKey])]
        exact getLoc_ok_iff.mp (by
          rw [f3 _ (hnot _ (by simp [isSelfKey]) (by decide)), g2 _ (by decide) (by decide) (by decide)]
          exact getLoc_append_left hcmp)
      · rw [lookup_filter_self _ _ (by simp [isSelfKey])]
        exact getLoc_ok_iff.mp so3
      · rw [lookup_filter_self _ _ (by simp [isSelfKey])]
        exact getLoc_ok_iff.mp (by
          rw [f3 _ (hnot _ (by simp [isSelfKey]) (by decide)), g2 _ (by decide) (by decide) (by decide)]
          exact getLoc_append_left hsem)
      · rw [lookup_filter_self _ _ (by simp [isSelfKey])]
        exact getLoc_ok_iff.mp (by
          rw [f3 _ (hnot _ (by simp [isSelfKey]) (by decide)), g2 _ (by decide) (by decide) (by decide)]
          exact getLoc_append_left hiv)
      · rw [lookup_filter_self _ _ (by simp [isSelfKey])]
        exact getLoc_ok_iff.mp (by
          rw [f3 _ (hnot _ (by simp [isSelfKey]) (by decide)), g2 _ (by decide) (by decide) (by decide)]
          exact getLoc_append_left hov)

/-- the same through `updateObj` (call depth `depth = 7`), against `iaPredUpdateOn`: values and exceptions, no hypothesis on
    the value type -/
theorem gen_iapred_updateObj_on (fuel : Nat) (c : Cmp) (hI : InterOnSpec α fuel 3)
    (st : BinSt α) (o : DV α) (hrel : IAPredRel c st o) (sl sr : ASig α) (hfuel : binFuel st sl sr ≤ fuel) :
    match iaPredUpdateOn c st sl sr with
    | .ok (st', out) => ∃ o', updateObj fuel o [sl, sr] = .ok (o', out) ∧ IAPredRel c st' o'
    | .error e => updateObj fuel o [sl, sr] = .error e := by
  have h := gen_iapred_update fuel 3 c hI (fun a b => meth_subtraction fuel 3 a b) st o hrel sl sr hfuel
  obtain ⟨store, sub, rfl, -⟩ := hrel
  have hd : (depth : Nat) = 3 + 4 := rfl
  have hn : ("IAPredicateOperation" ++ ".update" : String) = "IAPredicateOperation.update" := by decide
  unfold iaPredUpdateOn
  revert h
  cases hb : binUpdate (fun a b => Val.sub a b) st sl sr with
  | error e =>
      intro h
      simp only [updateObj, hd, hn, List.map_cons, List.map_nil, h]; rfl
  | ok r =>
      obtain ⟨st', d⟩ := r
      rintro ⟨o', h, hr⟩
      refine ⟨o', ?_, hr⟩
      simp only [updateObj, hd, hn, List.map_cons, List.map_nil, h]; simp

/-- … and against the mirror clause `iaPredUpdate` (= `stepOn` at `.predSat c`, `stepOn_predSat`).  `hsat`: on the difference
    signal the verdict of the online `sat()` is `satOfDiff`; it holds by `rfl` for every operator but `!=`
    (`satOn_of_ne`), where it says `(0 < abs d) = not (d == 0)`. -/
theorem gen_iapred_updateObj (fuel : Nat) (c : Cmp) (hI : InterOnSpec α fuel 3)
    (st : BinSt α) (o : DV α) (hrel : IAPredRel c st o) (sl sr : ASig α)
    (hsat : ∀ st' d, binUpdate (fun a b => Val.sub a b) st sl sr = .ok (st', d) →
      ∀ p ∈ d, satOn c p.2 = satOfDiff c p.2)
    (hfuel : binFuel st sl sr ≤ fuel) :
    match iaPredUpdate c st sl sr with
    | .ok (st', out) => ∃ o', updateObj fuel o [sl, sr] = .ok (o', out) ∧ IAPredRel c st' o'
    | .error e => updateObj fuel o [sl, sr] = .error e := by
  rw [← iaPredUpdateOn_eq c st sl sr hsat]
  exact gen_iapred_updateObj_on fuel c hI st o hrel sl sr hfuel

/-- the form used in the assembly: the hypothesis is a law of the value type, needed for `!=` only (`GOnIA.SatNeLaw`: on
    differences, `(0 < abs d) = not (d == 0)`; it follows from `hcmp` of C06, `GOnIA.satNeLaw_of_hcmp`) -/
theorem gen_iapredop_updateObj (fuel : Nat) (c : Cmp) (hne : c = .ne → SatNeLaw α)
    (st : BinSt α) (o : DV α) (hrel : IAPredRel c st o) (sl sr : ASig α) (hfuel : binFuel st sl sr ≤ fuel)
    (hI : InterOnSpec α fuel 3) :
    match iaPredUpdate c st sl sr with
    | .ok (st', out) => ∃ o', updateObj fuel o [sl, sr] = .ok (o', out) ∧ IAPredRel c st' o'
    | .error e => updateObj fuel o [sl, sr] = .error e :=
  gen_iapred_updateObj fuel c hI st o hrel sl sr (fun st' d h => hsat_of_law c hne st sl sr st' d h) hfuel

end Rtamt.Py.DnOn
