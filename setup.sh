#!/bin/sh
# Build the framework offline from files on disk: model, driver, all proof modules.
set -e
cd "$(dirname "$0")"
PYTHONPATH=/repo /venv/bin/python harness/gen_tables.py
PYTHONPATH=/repo /venv/bin/python harness/py2lean.py
PYTHONPATH=/repo /venv/bin/python harness/g4_tables.py
cd lean
lake build Rtamt driver RtamtProofs
