#!/usr/bin/env python3
"""tools/add_known.py ID PROP REGION REPLAY_FILE "what" — append a known finding whose witness is the replay object."""
import json, sys
fid, prop, region, rf, what = sys.argv[1:6]
p = '/verif/known_findings.json'
d = json.load(open(p))
w = json.load(open(rf))["replay"]
for k in ("impl", "model_at", "impl_online", "impl_offline", "model_online", "model_rho", "domain"):
    w.pop(k, None)
d["findings"] = [f for f in d["findings"] if f["id"] != fid]
d["findings"].append({"id": fid, "properties": [prop], "status": "known", "what": what, "region": region, "witness": w})
json.dump(d, open(p, "w"), indent=1)
print("added", fid)
