#!/bin/sh
# tools/try_seed.sh <seed-dir> <PROP> [<PROP>...] : apply the seeded change to /repo, confirm its demonstration and the
# baseline suite, run the listed checks against it, undo the change.  Prints one summary line per step.
set -u
D="$1"; shift
cd /repo || exit 2
if [ -n "$(git status --porcelain --untracked-files=no)" ]; then echo "repo not clean"; exit 2; fi
git apply "$D/patch.diff" || { echo "patch does not apply"; exit 2; }
trap 'cd /repo && git checkout -- . ' EXIT
if [ -f "$D/demo.py" ]; then
  PYTHONPATH=/repo /venv/bin/python "$D/demo.py" >/dev/null 2>&1; echo "demo with patch: exit $? (expected 1)"
fi
/venv/bin/python -m pytest -q -p no:cacheprovider --continue-on-collection-errors tests/python 2>&1 | tail -1 | sed 's/^/suite with patch: /'
cd /verif
for P in "$@"; do
  out=$(timeout 1500 ./check "$P" --tier quick 2>/dev/null); rc=$?
  echo "check $P with patch: exit $rc; $(echo "$out" | grep -c '^VIOLATION') VIOLATION line(s); $(echo "$out" | grep '^VIOLATION' | head -1)"
done
cd /repo && git checkout -- . && trap - EXIT
if [ -f "$D/demo.py" ]; then
  PYTHONPATH=/repo /venv/bin/python "$D/demo.py" >/dev/null 2>&1; echo "demo without patch: exit $? (expected 0)"
fi
# the generated Lean files must describe the clean tree again
cd /repo && git checkout -- . 2>/dev/null; cd /verif && for g in gen_tables py2lean g4_tables; do PYTHONPATH=/repo /venv/bin/python harness/$g.py >/dev/null 2>&1; done
# evidence / replay files written while the change was applied do not describe the tree
git -C /verif checkout -- evidence replays 2>/dev/null
(cd /verif/lean && lake build Rtamt driver >/dev/null 2>&1)
