#!/usr/bin/env python3
"""Writes /verif/MANIFEST.json from the table below (kept next to the checks so that the
manifest is always valid and current)."""
import json, os
HERE = os.path.dirname(os.path.dirname(os.path.abspath(__file__)))

CLAIMED = {
    "C01": dict(
        text="Machine-checked proof (Lean 4): the 39 visitX methods of the discrete-time offline visitor are translated from the "
             "Python source on every run (harness/py2lean.py) into a deep embedding of the Python subset they are written in, and "
             "genOff_eval proves that the translated visitor computes - values and exceptions - what the hand-written mirror "
             "evalOff computes; C01_offline_eq_rho proves that the mirror returns README rho for every formula and every trace of "
             "length >= 1, one pair per sample, independent of the time column. Source -> translated terms = mirror = rho. The "
             "evaluate() wrapper and the visitor dispatch are mirrored by hand and covered by a differential correspondence run "
             "(implementation vs mirror vs translated code bit-for-bit, vs rho numerically) and a regenerated table of the "
             "overridden visitX.",
        note="Lean kernel + propext/Classical.choice/Quot.sound; values assumed to form a bounded linear order (no NaN); trusted: "
             "the syntactic translator and the Lean semantics of the Python subset (exercised against the real monitor on every "
             "run), the hand-written dispatch/evaluate glue (sampled correspondence); CPython/libm primitives modelled.",
        technique="Lean 4 proof (translated source = mirror by symbolic execution + loop invariants; mirror = rho by structural induction) + source-derived table + differential correspondence",
        design="DESIGN.md §4 C01"),
    "C02": dict(
        text="Machine-checked proof (Lean 4): the 33 discrete-time online operation classes are translated from the Python source on "
             "every run; GenOps proves that __init__/update/reset of every translated class act as the mirror state machines, "
             "genOn_run that the monitor assembled from them equals the mirror monitor, genOn_rho that it returns rho at every "
             "update. Further: a freshly constructed discrete-time online monitor (mirror of the operation "
             "classes and of the update visitor) returns rho(phi,w,i) at the i-th update for every formula without future operators, "
             "that this value depends on the samples fed so far only, and that it equals the offline value at sample i on every "
             "extension; tied to /repo by the regenerated table of the construction visitor and a differential correspondence run "
             "(update() stream vs mirror bit-for-bit, vs rho, vs the implementation's own evaluate()), including duplicated text "
             "and shared sub-specifications.",
        note="Lean kernel + propext/Classical.choice/Quot.sound; no NaN; trusted: the syntactic translator and the Lean semantics of "
             "the Python subset (run against the real monitor on every run); the construction/update visitors (which class for "
             "which node, the per-name dictionary and memo) are mirrored by hand (C09_program_eq_rho relates the name-keyed "
             "dictionary to per-position state) and tied by the sampled correspondence.",
        technique="Lean 4 proof (per-operator stream invariants + structural induction) + source-derived table + differential correspondence",
        design="DESIGN.md §4 C02"),
    "C03": dict(
        text="Machine-checked proof (Lean 4): the horizon visitors and the StlPastifier visitor are translated from the Python source on "
             "every run; genHor_eval and genPast_visit prove that the translated methods, with the visitor's dispatch, compute the "
             "mirrors hor? and past (RTAMTException exactly for unbounded future). About these mirrors: pastify is the identity on "
             "future-free specifications, its result has no future operator, and on the fragment `frag` (bounded future; past/event "
             "operators over future-free operands) the online monitor of the pastified specification returns, at every update "
             "i >= hor, rho of the original at i-hor on the trace seen so far. The full statement is proved false for the algorithm "
             "(C03_counterexample, known finding F15, replayed on the real code each run). Tied to /repo by the regenerated visitor "
             "table and by correspondence: spec_print() after pastify() vs the model's pastify, update() stream vs mirror, oracle = "
             "offline evaluate() of the original on each prefix.",
        note="Lean kernel + standard axioms; partial: fragment hypothesis; bounds in the default unit only (explicit units: F17); "
             "no NaN; correspondence sampled.",
        technique="Lean 4 proof (invariant over the remaining horizon, structural induction) + source-derived table + differential correspondence",
        design="DESIGN.md §4 C03"),
    "C16": dict(
        text="Machine-checked proof (Lean 4) that rho(phi,w,t) of a specification without unbounded future is determined by the "
             "samples 0..t+hor(phi) (any two trace lengths, any continuation), transferred to the offline evaluator through C01; "
             "correspondence: evaluate() on a trace and on random extensions, compared at all settled positions and with rho. Dense time: the same statement for the mirror of the dense offline "
             "visitor (C16_alg_settled) and, through genD_eval_all, for the visitor translated from the Python source on every run "
             "(C16_translated_dense_settled): two well-formed inputs agreeing up to t + hor give the same value at t.",
        note="Lean kernel + standard axioms; discrete and dense offline proved (dense: supported fragment without interface-aware "
             "predicates, signals starting at 0, no NaN); tie = translator for the dense visitor, sampled correspondence otherwise.",
        technique="Lean 4 proof by structural induction on the formula + metamorphic correspondence",
        design="DESIGN.md §4 C16"),
    "C07": dict(
        text="Machine-checked proof (Lean 4, model instantiated at the extended reals) that a strictly positive (negative) rho "
             "implies Boolean satisfaction (violation) for every iff/xor-free sorted formula, and that for simple-predicate "
             "formulas every trace whose samples all move by less than |rho| keeps the verdict; the monitors are tied to rho by "
             "C01/C02/C03 and, directly, by a correspondence run comparing the sign of every value the real monitors return with "
             "the model's Boolean evaluator, including perturbed traces at the extreme corners.",
        note="Lean kernel + standard axioms; real-valued signals/constants; arithmetic in the theorems restricted to + - * "
             "unary-minus abs; dense time covered by the correspondence stream; tie sampled.",
        technique="Lean 4 proof (one structural induction with a soundness relation parameterised by the margin) + differential oracle",
        design="DESIGN.md §4 C07"),
    "C18": dict(
        text="Machine-checked proof (Lean 4) of the nine duality / expansion laws as equalities of rho for all operands, bounds "
             "and traces, transferred to the discrete offline and online monitors through C01/C02; metamorphic correspondence: "
             "both sides of every law evaluated by the same real monitor on random operands and traces. Dense time: the laws on rhoD "
             "(C18Dense), on the mirror of the dense offline visitor, and the two bounded negation dualities on the visitor translated "
             "from the Python source on every run (C18_translated_not_once_bounded, C18_translated_not_ev_bounded).",
        note="Lean kernel + standard axioms; no NaN; the remaining dense-time laws on translated code are validated by the "
             "metamorphic stream; tie = translator for the two translated laws, sampled otherwise.",
        technique="Lean 4 proof (window algebra over a bounded linear order) + metamorphic correspondence",
        design="DESIGN.md §4 C18"),
    "C08": dict(
        text="Machine-checked proof (Lean 4): DiscreteTimeInterpreter.time_unit_transformer is translated from the Python source on every "
             "run and gen_time_unit_transformer proves that it computes the mirror SIv.toSamples (RTAMTException exactly for "
             "non-multiples of the period). About that mirror: the elaboration of a surface interval (number + optional unit on either end, "
             "default unit, sampling period in any unit) to samples depends only on the durations relative to the sampling period, "
             "that samples x period is exactly the written duration, that non-multiples are rejected with RTAMTException, and "
             "hence that specifications with the same durations elaborate to the same core formula (so every monitor and pastify "
             "give identical results); dense-time bounds depend on durations only - proved on DenseTimeInterpreter."
             "time_unit_transformer as translated from the source (gen_dense_time_unit_transformer, gen_dense_units_same_durations). "
             "Correspondence: metamorphic over random "
             "configurations and spellings on the real offline, online and pastified monitors, plus model elaboration vs real outcome.",
        note="Lean kernel + standard axioms; the commutation of the surface pastifier with elaboration is validated by the stream, "
             "not proved; known finding F35 (pastify of next under a period different from one default unit) excluded by region; "
             "tie sampled.",
        technique="Lean 4 proof (rational arithmetic of unit conversion + structural congruence) + metamorphic correspondence",
        design="DESIGN.md §4 C08"),
    "C10": dict(
        text="Machine-checked proof (Lean 4) that reset of any state reachable from a freshly constructed discrete-time online "
             "monitor is the freshly constructed state (mirror of every operation's reset(), incl. ring buffers refilled with "
             "neutral elements), that reset before the first update is the identity, and that after reset all updates and counters "
             "are those of a fresh monitor. Correspondence: reset monitor vs fresh monitor vs mirror on the real code, with "
             "sub-specifications, pastified specifications and empty histories.",
        note="Lean kernel + standard axioms; dense-time reset (operators are reconstructed) covered by correspondence only; tie sampled.",
        technique="Lean 4 proof (shape invariant preserved by step, reset maps it to init) + differential correspondence",
        design="DESIGN.md §4 C10"),
    "C13": dict(
        text="Machine-checked proof (Lean 4, rationals): update_sampling_violation_counter is translated from the Python source on every run "
             "and gen_update_counter proves that it increments the counter exactly when the mirror's test holds; so are the bookkeeping statements of online update() / reset() and the gap loop of offline evaluate() "
             "(gen_clock_tick / _reset / _run / _offline: they are the mirror's Clock.tick, Clock.reset and offlineCounter); the online fold and the offline loop of the sampling-violation counter "
             "count exactly the gaps outside [P(1-tol),P(1+tol)] with P the period in the unit of the time stamps, for time-stamp "
             "lists of any length, and that the robustness values do not depend on the time stamps. Correspondence: counters of "
             "the real online and offline monitors on exactly representable configurations incl. gaps on both boundaries.",
        note="Lean kernel + standard axioms; float rounding of the code not modelled (inputs are dyadic); tie sampled.",
        technique="Lean 4 proof (fold invariants, rational inequalities) + differential correspondence",
        design="DESIGN.md §4 C13"),
    "C09": dict(
        text="Machine-checked proof (Lean 4) that the online interpreter as the code organises it - one operator object per node "
             "name, all assertions evaluated at every update, every name stepped once per update (memo), later assertions sharing "
             "the nodes of earlier ones - returns for every assertion what a stand-alone monitor of the inlined formula returns "
             "(= rho), whatever the sharing. Correspondence: modular (multi-assertion text / add_sub_spec / declared constants) vs "
             "inlined specification on the real offline, online and pastified monitors, and online run vs the mirror runProgram. "
             "Translator: the update visitor (visitAst / visitBinary / visitUnary / visitLeaf of abstract_online_interpreter.py) is regenerated "
             "as Lean terms on every run and genGlue_visit / genGlue_run prove that its run is the mirror's visitM / runSpecs.",
        note="Lean kernel + standard axioms; the parser's substitution of references and constants, and name-injectivity of the "
             "printer, are validated by correspondence; dense monitors by correspondence only; tie sampled.",
        technique="Lean 4 proof (simulation between the name-keyed dictionary with memo and the family of stand-alone trees) + differential correspondence",
        design="DESIGN.md §4 C09"),
    "C12": dict(
        text="Machine-checked proof (Lean 4) that the results table read by get_value holds, online, for every assertion and every "
             "operator sub-formula the value of its stand-alone monitor (= rho) at every update, and offline the whole robustness "
             "signal of the node (one value per sample); input variables return the supplied data. Correspondence: get_value of "
             "every name and input variable on the real offline/online/pastified monitors vs stand-alone real monitors and the mirror.",
        note="Lean kernel + standard axioms; name resolution through phi_name_to_node_dict validated by correspondence; dense "
             "monitors by correspondence only; tie sampled.",
        technique="Lean 4 proof (corollaries of the C09 simulation and of C01) + differential correspondence",
        design="DESIGN.md §4 C12"),
    "C17": dict(
        text="Machine-checked proof (Lean 4) that the mirrors - written with an error monad for every partial Python primitive - "
             "return normally on every well-formed input (any n>=1, surplus variables, any order) for the visitor tables of the "
             "current tree, that the online construction rejects every specification containing a future operator with "
             "RTAMTException, and that pastify rejects exactly the unbounded-future specifications. Correspondence: outcome class "
             "(ok / RTAMTException / other exception type) of the real monitors vs the model on degenerate data shapes and on "
             "unsupported constructs.",
        note="Lean kernel + standard axioms; totality is about the mirrors, tied to the code by the regenerated tables and the "
             "sampled correspondence; dense-time rejection proved on the translated dense sources (GenDenseC17: an unsupported construct "
             "never yields a value, offline and online, and the visitor tables are exact) and sampled by the correspondence.",
        technique="Lean 4 proof (totality corollaries of C01/C02 + structural induction for rejection) + source-derived tables + outcome-class correspondence",
        design="DESIGN.md §4 C17"),
    "C06": dict(
        text="Machine-checked proof (Lean 4) that the interface-aware semantics is standard evaluation of the formula in which every "
             "insensitive predicate (no output variable under output-robustness/-vacuity, no input variable under input-...) is "
             "replaced by its +-inf-by-satisfaction form (robustness) or by 0 (vacuity), that in_vars/out_vars as built bottom-up by "
             "the node constructors are the syntactic variable sets, that STANDARD ignores the declarations, and that the offline and "
             "online IA monitors compute rho of the transformed formula (C01/C02); for dense time (robustness semantics) the "
             "interface-aware predicate of the offline visitor and of the online operation class is mirrored and proved to return "
             "the dense semantics of the transformed formula (offline list algorithm; online monitor under every chunking). "
             "On the dense algorithms translated from the source: the interface-aware visitPredicate of the robustness visitors (offline) is "
             "proved to be predicateIA / predicate (GenDenseIA), genD_eval_all covers every operator but the vacuity override, "
             "C06_translated_dense_offline_partial. "
             "Correspondence: 5 semantics x random io assignments on the real discrete offline/online/pastified and dense "
             "offline/online monitors vs the model, and the dense lists sample by sample vs the mirrors.",
        note="Lean kernel + standard axioms; the discrete IA override is translated from the source (GenIA); the dense one is a "
             "hand-written mirror tied by exact correspondence; the vacuity override in dense time is compared with rhoD only.",
        technique="Lean 4 proof (formula transformation + C01/C02) + differential correspondence",
        design="DESIGN.md §4 C06"),
    "C04": dict(
        text="Machine-checked proof (Lean 4) that the executable dense-time semantics rhoD (what the real monitor is compared with) "
             "is, for piecewise-constant inputs, the supremum/infimum semantics over closed time windows: every operator clause "
             "holds with IsLUB/IsGLB over the (infinite) set of time points of the window; the robustness signal of every formula "
             "is a right-continuous step function whose break-points lie among a computed finite candidate set, defined exactly "
             "from the start of the common input domain; the bottom-up evaluator used by the driver equals the point-wise "
             "definition. M-alg = M-spec: the list algorithms of the dense offline visitor (13-case merge, running extrema, segment "
             "stacks of the bounded operators, decomposition of bounded since/until) are mirrored statement by statement "
             "(Rtamt/Dense/Alg.lean) and proved, for every supported formula over well-formed signals that start at 0, to return a "
             "list with strictly increasing time stamps that starts at the beginning of the domain and equals rhoD at every time of "
             "the domain, raising nothing (C04_alg_eq_rhoD_partial). Source -> M-alg: intersection.py and the dense offline "
             "ast_visitor.py are translated from the source on every run (harness/py2lean.py -> GeneratedDense.lean, sub-language "
             "Rtamt/Py/Dn.lean) and genD_eval proves that the translated visitor returns - lists and exceptions, for all inputs, with "
             "explicit fuel bounds for its while loops - what the mirror returns; C04_translated_eq_rhoD_partial states C04 on the "
             "run of the translated code. Correspondence: the real dense offline evaluate() vs the translated code and the mirror "
             "sample by sample (same stamps, same doubles) and vs rhoD as step functions (all break-points of both sides, "
             "bound-shifted input break-points and mid-points), non-decreasing time stamps, start of the domain.",
        note="Lean kernel + standard axioms; trusted: the syntactic translator, the Lean semantics of the Python subset (two sorts "
             "of floats: time stamps and values; exercised against the real monitor on every run) and the hand-written visitor "
             "dispatch (RunDn.lean); until/since are read with the left operand on the closed "
             "interval up to the witness (what the monitors implement); the theorem assumes signals starting at 0 - known finding "
             "F37 (signals not starting at 0) is excluded by region for the comparison with rhoD, not for the mirror.",
        technique="Lean 4 proof (translated source = mirror by symbolic execution of the deep embedding with loop invariants; step-function theory: finite folds = LUB/GLB over real windows; loop invariants of the merge and of the segment stacks; structural induction) + differential correspondence against the translated code, the mirror and the proved semantics",
        design="DESIGN.md §4 C04"),
    "C05": dict(
        text="Partial (fragment). Machine-checked (Lean 4): (1) the dense semantics of a past formula at t depends on the input "
             "signals up to t only (causality); (2) on the algorithms: the online operation classes (buffers, the online "
             "intersection with remainders and its pending sample, pending segments and residual_start of the bounded operators) "
             "are mirrored with their state as values (Rtamt/Dense/AlgOn.lean), and for every specification of the fragment "
             "(everything the online monitor accepts: variables, unary and binary point-wise operations with at most one constant "
             "operand, unbounded and bounded once/historically/since, any nesting), all well-formed signals starting at 0 and EVERY "
             "cutting of them into successive "
             "update() calls (per variable consecutive, possibly empty pieces) the concatenated output has non-decreasing time "
             "stamps and equals rhoD at every time it covers, raises nothing, and two chunkings never disagree "
             "(C05_online_mirror_partial, C05_online_total_partial, C05_chunkings_agree_partial). The proof attempt found the "
             "genuine defect F48 (nested bounded operators fed in several updates), repaired by a fix: commit; extending it showed "
             "that the known finding F32 (online since) had been repaired by an earlier fix, and F30 (two constants) was repaired "
             "too: no region of C05 is excluded any more. Source -> M-alg: the online intersection.py and the 29 operation classes are "
             "translated from the source on every run (harness/py2lean.py -> GeneratedDenseOn.lean, sub-language Rtamt/Py/DnOn.lean with "
             "objects, break and in-place list operations); per class the translated __init__ / update are proved to establish and "
             "preserve a relation between the mirror's record and the object's attribute store and to return the mirror's list "
             "(values and exceptions, all inputs, explicit fuel bounds); genOn_run: the monitor built from the translated classes "
             "returns what the mirror returns; C05_translated_partial / C05_translated_total_partial state C05 (fragment) on the run "
             "of the translated code. Correspondence: the "
             "real update() vs the mirror (every list every call returns, sample by sample) and vs rhoD for, per generated "
             "(specification, signals), all chunkings at the input time stamps (up to 64; thorough 512) plus per-variable "
             "chunkings, nested bounded operators on grid-spaced signals, and modular specifications under the chunkings.",
        note="Lean kernel + standard axioms; trusted: the syntactic translator, the Lean semantics of the Python subset (exercised "
             "against the real monitor on every run), the hand-written update glue (one object per node of the formula tree; the code "
             "keys the objects by node name); the theorem leaves out constant-valued sub-formulas other than a constant operand of a binary "
             "point-wise operation, and signals not starting at 0 (F37).",
        technique="Lean 4 proof (translated source = mirror by symbolic execution of the deep embedding, state relations per class; stream invariants of the online operation classes; structural induction over the specification, "
                  "induction over the updates) + differential correspondence against the mirror and the proved semantics over "
                  "exhaustive small-scope chunkings",
        design="DESIGN.md §4 C05"),
    "C19": dict(
        text="Machine-checked proof (Lean 4) that for formulas of the fragment (arithmetic, comparisons, Boolean, once/historically "
             "bounded or not, bounded eventually/always) the dense-time semantics of the step signal sampled with period P, read at "
             "k*P, equals the discrete-time rho at sample k whenever k + hor < n; and, on the algorithms, that the list the mirror of "
             "the dense offline visitor returns, read at k*P, is entry k of the list of the mirror of the discrete offline visitor "
             "(C19_alg_dense_eq_discrete), and the same for the two visitors as translated from the Python source on every run "
             "(C19_translated_sampled, C19_translated_dense_eq_discrete). Correspondence: the real dense and the real "
             "discrete offline monitors on the same grid signal, against each other and against both models.",
        note="Lean kernel + standard axioms; signals start at time 0; tie sampled.",
        technique="Lean 4 proof (window LUB over the reals = discrete maximum over grid points, via the step-function theory) + differential correspondence",
        design="DESIGN.md §4 C19"),
    "C11": dict(
        text="Partial by nature. Machine-checked (Lean 4): two model monitors driven in any interleaving return what each returns "
             "alone; offline evaluation is a function of (specification, data); the padding of bounded future operators builds a "
             "fresh list. Decided on the real code by the correspondence stream: deep-copy comparison of every argument of "
             "evaluate()/update(), repeated evaluate() on one object, random interleavings of 2-3 objects vs each alone, and the "
             "same result fingerprint under several PYTHONHASHSEED values in sub-processes.",
        note="Python aliasing and hash-seed dependence are runtime behaviour the model cannot exhibit; they are explored, not proved.",
        technique="Lean 4 proof of the isolation/repeatability statements on the model + runtime exploration (argument snapshots, interleavings, hash-seed sweep)",
        design="DESIGN.md §4 C11"),
    "C14": dict(
        text="Partial. Machine-checked (Lean 4) about a total, fuel-indexed model of the lexer, of the precedence parser and of the "
             "parser visitor's side conditions: the lexer drops white space and comments only and reports every other unrecognised "
             "character; a successful parse derives, in an inductive grammar relation, exactly the tokens it consumed, the assertion "
             "list consumes every token after the declarations and is non-empty; accepted intervals satisfy 0 <= begin <= end as "
             "durations and use declared constants only; being total Lean functions, lexer and parser terminate with ok or a "
             "parse error on every string. The ANTLR-generated parser itself is not translated: it is tied to the model by a "
             "correspondence run over valid texts, single-edit mutants and token soup (accept/reject, exception class, and "
             "spec_print() vs the names computed from the model's parse tree), and its outcome class is checked on every text.",
        note="Lean kernel + standard axioms; termination and exception-cleanliness of the real ANTLR parser are observed per text "
             "(wall-clock limit), not proved; module imports, ROS annotations and object-typed variables not modelled; texts that "
             "ANTLR rejects with its own 'Ambiguity ERROR' are counted and compared for cleanliness only; tie sampled.",
        technique="Lean 4 proof (soundness of a total recursive-descent model w.r.t. an inductive grammar relation) + differential correspondence",
        design="DESIGN.md §4 C14"),
    "C15": dict(
        text="Partial. Machine-checked (Lean 4) on the lexer/parser model: every alias lexes to the token of its long form (so alias "
             "spellings give the same token stream and the same tree), ',' and ':' give the same interval, any number of redundant "
             "parentheses around an expression give the same tree, parsing the fully parenthesised rendering of any tree returns "
             "that tree, and so does parsing the MINIMALLY parenthesised rendering (C15_roundtrip_minimal: parentheses only where the "
             "precedence / left-associativity of the binary operators or a prefix operator in front of a binary operator require "
             "them); the precedence table and the aliases of the model are checked against the .g4 grammar files regenerated from "
             "the source (C15Grammar). Correspondence on the real front ends (STL, LTL): random formulas under aliases, separators, "
             "0-3 redundant parentheses, minimal parenthesisation by the precedence table, optional ';' and assertion head, `unless` "
             "sugar - same spec_print() and same evaluation results as the canonical spelling, and equal to the model's tree.",
        note="Lean kernel + standard axioms; the theorems are about the model parser: that ANTLR's generated parser groups as the model "
             "does is validated by the stream (same trees on minimally parenthesised texts), not proved; tie sampled.",
        technique="Lean 4 proof (lexer alias table, parser lemmas, round trip by structural induction) + metamorphic/differential correspondence",
        design="DESIGN.md §4 C15"),
    "C20": dict(
        text="Partial. Machine-checked (Lean 4) about the mirror of the explainer (top-down propagation of interval lists with a polarity "
             "flag, per operator): on the fragment explFrag (predicates over arithmetic terms; not/and/or/implies; weak and strong "
             "prev/next; bounded and unbounded once/historically/eventually/always) and for values with neg 0 = 0, the positions "
             "reported for a specification violated at time 0 are a sufficient cause - every trace of the same length that coincides "
             "with the original on all reported (variable, sample) positions violates the specification at 0 - and nothing is reported "
             "for a satisfied specification; the explainer is defined on the whole fragment. Proof: a monotone invariant with polarity "
             "(values on the positive side may only grow, on the negative side only shrink) over well-formed interval lists, by "
             "structural induction. Tie: reported positions of the real explainer vs the mirror on systematic (parent rule x child "
             "rule x polarity) and random formulas, and sufficiency tested directly on the real evaluator under adversarial "
             "re-assignments of the non-reported positions. Translator: the functions of explanations.py (LTL and STL) and the visit methods of "
             "explainer.py are regenerated as Lean terms on every run; genExpl_explain proves that their run equals the mirror with "
             "interval_union where the code applies it (24 function equations fn_*), C20Union that the union does not change the reported "
             "positions, and C20_sufficient_translated_partial states the property on the run of the translated code; the exact interval "
             "lists of the real explainer are compared with that run.",
        note="Lean kernel + standard axioms; Explanations.__setitem__ and explain()'s loop over assertions are modelled by hand; iff/xor violate the "
             "property on the real code (known finding F40, excluded by region); since/until/precedes raise in the explainer; tie sampled.",
        technique="Lean 4 proof (monotone invariant with polarity, structural induction) + differential correspondence + adversarial oracle on the real evaluator",
        design="DESIGN.md §4 C20"),
}

# additions of the session of 2026-09-25 (appended to the texts above)
EXTRA = {
    "C05": " For specifications with sub-specifications and repeated sub-formulas: the dense-time interpreter as the code organises it "
           "(operator dictionary keyed by node name, per-update memo, all assertions visited at every update, one constants_sent flag) is "
           "translated from the source (generate_glue_dense) and proved equal to the mirror ProgramOn (genGlueDn_update, genGlueDn_program), "
           "which refines the state trees the chunking theorems are about (C09_dense_modular_eq_inlined).",
    "C09": " Dense time: C09_dense_program_refines_trees / _trees_of_program / _ok_iff / _modular_eq_inlined (the dense-time online "
           "interpreter with its name-keyed dictionary, memo and several assertions returns, for every assertion and every update, what "
           "the stand-alone state tree of C05 returns; it raises iff some assertion's tree raises), on the mirror ProgramOn, which "
           "genGlueDn_visit / _round / _run / _program prove equal to the update visitor and update() as translated from the source.",
    "C10": " gen_spec_reset_fresh_noop (the translated spec.reset() before the first update leaves the object unchanged); dense time: "
           "genGlueDn_reset / genGlueDn_reset_run (the translated reset() = set_ast(): fresh objects, constants_sent cleared, every "
           "variable's batch emptied; a run after it = a run of a fresh program).",
    "C12": " Dense time: the memo part of C09_dense_program_refines_trees (after every update the entry of every operator sub-formula of "
           "every assertion is the list its stand-alone monitor returns) and genGlueDn_visit_frame (the translated visitor stores the "
           "returned list under the node in results, which get_value reads).",
    "C13": " The specification-level forwarding is translated from abstract_specification.py (GenFwd): gen_spec_set_sampling_period "
           "(every discrete-time interpreter the object owns receives period, unit and tolerance), gen_spec_violation_counter (the "
           "specification-level counter is the sum over its interpreters).",
    "C17": " gen_spec_ast_before_use (GenFwd): on the forwarding methods of abstract_specification.py as translated from the source, for "
           "every freshly constructed specification object (offline, online or both interpreters) and every sequence of evaluate / "
           "update / final_update / reset / set_sampling_period calls that return, every call that reaches an interpreter finds it with "
           "its AST set (the AttributeError of F54 cannot occur).",
    "C01": " gen_spec_set_sampling_period (GenFwd): a specification-level set_sampling_period reaches the offline interpreter of an "
           "object that also owns an online one.",
}
EXTRA2 = {
    "C01": " evaluate(dataset) of the offline interpreter is translated as a whole method (set_variable_to_ast_from_dataset, visitAst over all "
           "assertions, the value of the last one zipped with the time column, the gap loop; method resolution along the MRO pinned): "
           "genOffEval_evaluate, and C01_evaluate_translated states C01 - one [t, rho] pair per sample - on the run of the translated method.",
    "C02": " update(timestamp, dataset) of the online interpreter is translated as a whole method (the rows of the data set, the update "
           "visitor, the value of the last assertion, the clock): genGlue_update, genGlue_update_run, genGlue_update_program (a run of "
           "translated updates on the dictionary set_ast builds = the mirror program the refinement theorems are about).",
    "C10": " reset() of the discrete online interpreter as a whole method: genGlue_reset_whole / _init (reset visitor over all assertions, "
           "the clock attributes, every free variable back to its initial value).",
    "C13": " genGlue_update_program / genOffEval_evaluate: the counter after a run of translated update() calls is onlineCounter, after a "
           "translated evaluate() offlineCounter; gen_interp_set_sampling_period (the translated interpreter-level method assigns period, "
           "unit, tolerance; rejects a tolerance outside [0,1]).",
    "C17": " genGlue_set_vars (rows naming no free variable are ignored, in any order; later rows win), genOffEval_no_ast.",
    "C20": " Explanations.__setitem__, explain() of both explainer classes and spec.explain() are translated (GenExplDrv): "
           "genExplDrv_setitem, genExplDrv_explain, and C20_sufficient_translated_driver_partial states the sufficiency on the run of the "
           "translated driver (which explains the assertion whose value evaluate() returns, after the repair of F61).",
}
for _p, _t in EXTRA2.items():
    EXTRA[_p] = EXTRA.get(_p, "") + _t
for _p, _t in EXTRA.items():
    CLAIMED[_p]["text"] = CLAIMED[_p]["text"] + _t

NOT_YET = {}

def main():
    props = [json.loads(l)["id"] for l in open(os.path.join(HERE, "properties.jsonl"))]
    checks = []
    for pid in props:
        if pid in CLAIMED:
            c = CLAIMED[pid]
            checks.append({
                "property_id": pid,
                "quick_cmd": "./check %s --tier quick" % pid,
                "thorough_cmd": "./check %s --tier thorough" % pid,
                "evidence_file": "evidence/%s.json" % pid,
                "replay_cmd_template": "./check %s --replay {path}" % pid,
                "engine": "lean-proof+correspondence",
                "level_claimed": {"category": "proof", "text": c["text"], "design_ref": c["design"]},
                "level_note": c["note"],
                "technique": c["technique"],
            })
    na = [{"property_id": p, "reason": NOT_YET.get(p, "check not built yet (work in progress, see DESIGN.md §4); not claimed")}
          for p in props if p not in CLAIMED]
    m = {
        "version": 1,
        "setup_cmd": "./setup.sh",
        "hooks": {"guard": "RTAMT_VERIF", "enable": "no hooks are needed: the checks use the public API of /repo's working tree (PYTHONPATH=/repo)",
                  "baseline_off_cmd": "cd /repo && /venv/bin/python -m pytest -ra -q -p no:cacheprovider --timeout=900 --continue-on-collection-errors",
                  "source_commits": [], "add_only": True},
        "engines": [{"name": "lean-proof+correspondence", "path": "lean/ (model + theorems), harness/ (correspondence), check (entry point)",
                     "serves_properties": sorted(CLAIMED), "kind_free_text": "Lean 4 machine-checked proofs about an executable model; "
                     "model tied to the code by a regenerated source table and a differential correspondence check"}],
        "checks": checks,
        "notes": "See DESIGN.md. Known findings: known_findings.json. fix: commits in /repo are listed there as 'fixed'.",
        "not_applicable": na,
    }
    json.dump(m, open(os.path.join(HERE, "MANIFEST.json"), "w"), indent=1)
    print("claimed:", sorted(CLAIMED), "not claimed:", len(na))

if __name__ == "__main__":
    main()
