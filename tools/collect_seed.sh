#!/bin/sh
# tools/collect_seed.sh <worktree> <seed-id> : copy the change of a sub-agent's worktree into seeded/<seed-id>/
set -eu
WT="$1"; ID="$2"; D=/verif/seeded/$ID
mkdir -p "$D"
git -C "$WT" diff -- rtamt > "$D/patch.diff"
cp "$WT/demo.py" "$D/demo.py"
echo "collected $(wc -l < "$D/patch.diff") diff lines into $D"
