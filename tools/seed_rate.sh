#!/bin/sh
# tools/seed_rate.sh <seed-dir> <PROP> <seed>... : detection of a seeded change under several VERIF_SEED values (no Lean rebuild)
D="$1"; P="$2"; shift 2
cd /repo || exit 2
[ -n "$(git status --porcelain --untracked-files=no)" ] && { echo "repo not clean"; exit 2; }
git apply "$D/patch.diff" || exit 2
trap 'cd /repo && git checkout -- .' EXIT
cd /verif
for s in "$@"; do
  out=$(VERIF_SEED=$s timeout 1500 ./check "$P" --tier quick --no-build 2>/dev/null); rc=$?
  echo "seed $s: exit $rc, $(echo "$out" | grep -c '^VIOLATION') VIOLATION line(s)"
done
# the generated Lean files must describe the clean tree again
cd /repo && git checkout -- . 2>/dev/null; cd /verif && for g in gen_tables py2lean g4_tables; do PYTHONPATH=/repo /venv/bin/python harness/$g.py >/dev/null 2>&1; done
# evidence / replay files written while the change was applied do not describe the tree
git -C /verif checkout -- evidence replays 2>/dev/null
