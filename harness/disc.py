"""Helpers shared by the discrete-time checks."""
from . import common, formula as F
from .common import f2b


def sigs(data):
    return " | ".join("%s:%s" % (v, ",".join(str(f2b(x)) for x in data[v])) for v in sorted(data))


def proto_case(cmd, f, data, n, extra=None):
    parts = [cmd]
    if extra:
        parts += list(extra)
    parts += [F.to_proto(f), str(n), sigs(data)]
    return " | ".join(parts)


def parse_model(line):
    line = line.strip()
    if line == "undef":
        return ("undef",)
    return common.parse_vals(line)


def data_key(text, data):
    return (text, tuple((k, tuple(v)) for k, v in sorted(data.items())))


def nontrivial(vals):
    return not all(v in (common.INF, -common.INF) for v in vals) or len(set(vals)) > 1


def known_region(ctx, case, regions):
    for kf in ctx.known:
        if kf.get("status") == "known" and kf.get("region") in regions and regions[kf["region"]](case):
            return True
    return False


def shrink_case(case, fails, budget=120):
    """Greedy shrink of case['f'], case['data'], case['n'] keeping `fails(case) == True`."""
    def f2(f, data, n):
        c = dict(case, f=f, data={k: list(v) for k, v in data.items()}, n=n)
        c["decl"] = sorted(set(F.variables(f)) | set(data))
        try:
            return bool(fails(c))
        except common.HarnessError:
            return False
    try:
        f, data, n = F.shrink(f2, case["f"], case["data"], case["n"], budget=budget)
    except Exception:  # noqa: BLE001
        return case
    c = dict(case, f=f, data=data, n=n)
    c["decl"] = sorted(set(F.variables(f)) | set(data))
    return c


def corpus(prop_id):
    import json, os
    p = os.path.join(common.VERIF, "corpus", "%s.jsonl" % prop_id)
    if not os.path.exists(p):
        return []
    return [json.loads(l) for l in open(p) if l.strip()]
