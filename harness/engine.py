"""The run of one check (DESIGN §5): known-finding witnesses, Lean build + audit,
correspondence + property oracle, failing-input search, evidence, exit code."""
import argparse, importlib, json, os, random, sys, time, traceback

from . import common
from .common import HarnessError, log


class Violation:
    def __init__(self, what, replay, failing_input=True, stream=None):
        self.what = what              # one-line description
        self.replay = replay          # JSON-able object (spec text, data, calls, expected, observed)
        self.failing_input = failing_input
        self.stream = stream


class Ctx:
    def __init__(self, prop_id, tier, seed):
        self.id = prop_id
        self.tier = tier
        self.seed = seed
        self.rng = random.Random((hash(prop_id) & 0xFFFF) * 1000003 + seed) if False else random.Random("%s-%d" % (prop_id, seed))
        self.evaluations = 0
        self.nontrivial = set()
        self.samples = []
        self.stats = {}
        self.violations = []          # property violations with a concrete failing input
        self.diffs = []               # correspondence differences without a property violation
        self.traces_validated = 0
        self.skipped_known = 0
        self.skipped_undef = 0
        self.known = common.known_findings(prop_id)
        self.t0 = time.time()
        self.notes = []

    def budget(self, quick, thorough):
        return thorough if self.tier == "thorough" else quick

    def count(self, key, k=1):
        self.stats[key] = self.stats.get(key, 0) + k

    def sample(self, obj, limit=6):
        if len(self.samples) < limit:
            self.samples.append(obj)

    def subrng(self, name):
        return random.Random("%s-%d-%s" % (self.id, self.seed, name))


def replay_path(prop_id, seed, k):
    os.makedirs(common.REPLAYS, exist_ok=True)
    return os.path.join(common.REPLAYS, "%s-%d-%d.json" % (prop_id, seed, k))


def main(argv=None):
    ap = argparse.ArgumentParser()
    ap.add_argument("prop")
    ap.add_argument("--tier", default=os.environ.get("VERIF_TIER") or "quick")
    ap.add_argument("--replay", default=None)
    ap.add_argument("--no-build", action="store_true", help="(debug) skip lake build + audit")
    args = ap.parse_args(argv)
    prop = args.prop.upper()
    tier = args.tier if args.tier in ("quick", "thorough") else "quick"
    try:
        seed = int(os.environ.get("VERIF_SEED", "0") or 0)
    except ValueError:
        seed = 0
    try:
        return run_check(prop, tier, seed, args)
    except HarnessError as e:
        log("HARNESS-ERROR: %s" % e)
        return 2
    except Exception:  # noqa: BLE001
        log("HARNESS-ERROR (unexpected):\n" + traceback.format_exc())
        return 2


def run_check(prop, tier, seed, args):
    t0 = time.time()
    mod = importlib.import_module("harness.props.%s" % prop.lower())
    ctx = Ctx(prop, tier, seed)
    with common.workdir() as wd:
        ctx.workdir = wd
        if args.replay:
            obj = json.load(open(args.replay))
            if "no_longer_checks" in obj:
                # a violation without a failing input: the file names the obligations / correspondences that broke
                for w in obj["no_longer_checks"]:
                    print("REPLAY property=%s recorded: %s" % (prop, w))
                bad = 0
                for d in obj.get("diffs", []):
                    try:
                        ok, msg = mod.replay(ctx, d)
                    except (KeyError, TypeError):
                        ok, msg = True, "correspondence case (not replayable as a property input)"
                    bad += 0 if ok else 1
                    print(("REPLAY property=%s reproduces: " % prop if not ok else "REPLAY property=%s does not fail: " % prop) + msg)
                print("REPLAY property=%s: run ./check %s to re-check the obligations against the current tree" % (prop, prop))
                return 1 if bad else 0
            obj = obj.get("replay", obj)
            ok, msg = mod.replay(ctx, obj)
            print(("REPLAY property=%s reproduces: " % prop if not ok else "REPLAY property=%s does not fail: " % prop) + msg)
            return 1 if not ok else 0

        # 0. known findings: replay witnesses
        for kf in ctx.known:
            if kf.get("status") != "known":
                continue
            try:
                still = not mod.replay(ctx, kf["witness"])[0]
            except HarnessError:
                raise
            if still:
                print("KNOWN-FINDING: property=%s %s [%s]" % (prop, kf["what"], kf["id"]))

        # 1-2. build, regenerate table, audit
        if args.no_build:
            audit = {"ok": True, "obligations": len(common.property_theorems().get(prop, {}).get("theorems", [])),
                     "discharged": 0, "failures": [], "theorems": {}, "build_s": 0}
        else:
            audit = common.lean_build_and_audit(prop, recheck=(tier == "thorough"))
        ctx.audit = audit
        model_ok = audit.get("model_ok", True)

        # 3-4. correspondence + oracle
        if model_ok:
            mod.run(ctx)
        else:
            # the model does not build (e.g. a generated obligation fails): the executable
            # model is unavailable; explore the implementation against the Python-side oracle only
            if hasattr(mod, "run_without_model"):
                mod.run_without_model(ctx)

        # 6. failing-input search when something broke but no failing input yet
        broken = (not audit["ok"]) or bool(ctx.diffs)
        if broken and not ctx.violations and hasattr(mod, "search"):
            mod.search(ctx)

        wall = time.time() - t0
        nviol = len(ctx.violations)
        exit_code = 0
        out_lines = []
        k = 0
        if ctx.violations:
            for v in ctx.violations[:5]:
                p = replay_path(prop, seed, k)
                k += 1
                common.write_json(p, {"property": prop, "what": v.what, "stream": v.stream, "seed": seed, "tier": tier,
                                      "replay": v.replay})
                out_lines.append("VIOLATION property=%s replay=%s" % (prop, os.path.relpath(p, common.VERIF)))
                log("  " + v.what)
            exit_code = 1
        elif broken:
            p = replay_path(prop, seed, k)
            what = {"property": prop, "seed": seed, "tier": tier,
                    "no_longer_checks": audit["failures"] + [d.what for d in ctx.diffs[:10]],
                    "diffs": [d.replay for d in ctx.diffs[:5]],
                    "note": "a proof obligation or the model/implementation correspondence no longer checks; "
                            "the search found no input on which the property itself fails"}
            common.write_json(p, what)
            out_lines.append("VIOLATION property=%s replay=%s no-failing-input-found" % (prop, os.path.relpath(p, common.VERIF)))
            for f in audit["failures"]:
                log("  obligation: " + f)
            for d in ctx.diffs[:5]:
                log("  correspondence: " + d.what)
            exit_code = 1
            nviol = 1

        ev = {
            "property_id": prop, "tier": tier, "seed": seed, "level": "proof",
            "coverage": {
                "obligations": max(audit["obligations"], 1),
                "discharged": audit["discharged"],
                "checker_cmd": "cd lean && lake build Rtamt driver " + " ".join(common.property_theorems().get(prop, {}).get("modules", [])) + "  # then `#print axioms` on each listed theorem",
                "trusted_base": common.TRUSTED_BASE + getattr(mod, "TRUSTED_EXTRA", []),
                "theorems": audit["theorems"],
                "traces_validated_against_impl": ctx.traces_validated,
                "evaluations": ctx.evaluations,
                "distinct_nontrivial": len(ctx.nontrivial),
                "rule": getattr(mod, "RULE", ""),
                "samples": ctx.samples or [{"note": "no case generated"}],
                "streams": ctx.stats,
                "skipped_known_finding_region": ctx.skipped_known,
                "skipped_undefined_nan": ctx.skipped_undef,
                "explanation": getattr(mod, "EXPLANATION", ""),
            },
            "assumptions": getattr(mod, "ASSUMPTIONS", []),
            "wall_s": round(wall, 2),
            "violations": nviol,
            "lean_build_s": audit.get("build_s"),
            "leanchecker": audit.get("leanchecker", "not run (quick tier)"),
            "notes": ctx.notes,
        }
        if not args.no_build:          # the debug mode proves nothing: it leaves the evidence of the last full run in place
            common.write_json(os.path.join(common.EVID, "%s.json" % prop), ev)
        for l in out_lines:
            print(l)
        print("%s %s tier=%s seed=%d: theorems %d/%d, cases %d (distinct non-trivial %d), violations %d, %.1fs"
              % (prop, "FAIL" if exit_code else "ok", tier, seed, audit["discharged"], audit["obligations"],
                 ctx.evaluations, len(ctx.nontrivial), nviol, wall))
        return exit_code
