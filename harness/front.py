"""Front-end side of the checks: rendering of formulas under spelling choices (aliases,
interval separators, redundant / minimal parentheses, optional ';' and assertion head), the query
of the Lean lexer+parser model, the expected `spec_print()` text computed from the model's parse
tree (mirroring the node-name construction of rtamt/syntax/node/**), and text mutators."""
from decimal import Decimal
from fractions import Fraction
from . import common, formula as F, impl

ALIASES = {
    "always": ["always", "G"], "eventually": ["eventually", "F"], "until": ["until", "U"], "unless": ["unless", "W"],
    "since": ["since", "S"], "once": ["once", "O"], "historically": ["historically", "H"], "next": ["next", "X"],
    "prev": ["prev", "Y"], "s_next": ["s_next", "sX"], "s_prev": ["s_prev", "sY"], "not": ["not", "!"],
    "and": ["and", "&"], "or": ["or", "|"], "implies": ["implies", "->"], "iff": ["iff", "<->"], "xor": ["xor"],
}
T1_KW = {"prev": "prev", "sprev": "s_prev", "next": "next", "snext": "s_next", "once": "once", "hist": "historically",
         "ev": "eventually", "alw": "always"}
# binary levels of the grammar (higher binds tighter); prefix operators take operands of level >= 18, unary minus >= 21
LEVEL = {"mul": 20, "div": 20, "add": 19, "sub": 19, "lt": 18, "le": 18, "gt": 18, "ge": 18, "eq": 18, "ne": 18,
         "until": 8, "unless": 7, "since": 6, "and": 5, "or": 4, "implies": 3, "iff": 2, "xor": 1}
BIN_SYM = {"mul": "*", "div": "/", "add": "+", "sub": "-", "lt": "<", "le": "<=", "gt": ">", "ge": ">=", "eq": "==", "ne": "!=="}


class Style:
    """Spelling choices; `rng=None` gives the canonical spelling."""

    def __init__(self, rng=None, alias=True, minimal=False, extra_parens=0, sep=None):
        self.rng, self.alias, self.minimal, self.extra, self.sep = rng, alias, minimal, extra_parens, sep

    def kw(self, name):
        opts = ALIASES.get(name, [name])
        if self.rng is None or not self.alias:
            return opts[0]
        return self.rng.choice(opts)

    def separator(self):
        if self.sep:
            return self.sep
        return "," if self.rng is None else self.rng.choice([",", ":"])

    def wrap(self, s):
        k = 0 if self.rng is None else (self.rng.randint(0, self.extra) if self.extra else 0)
        return "(" * k + s + ")" * k


def render(f, st, bound=lambda k: str(k)):
    """Text of formula f. Returns (text, level) where level is the binding level of the outermost
    construct (100 for primaries) — used for minimal parenthesisation."""
    def paren(txt_lvl, need):
        txt, lvl = txt_lvl
        if st.minimal and lvl >= need:
            return st.wrap(txt)
        return st.wrap("(" + txt + ")")

    def iv(a, b):
        return "[%s%s%s]" % (bound(a), st.separator(), bound(b))

    k = f[0]
    if k == "v":
        return st.wrap(f[1]), 100
    if k == "c":
        return st.wrap(F.lit(f[1])), 100
    if k == "u":
        op = f[1]
        if op == "negate":
            return "-" + sp(st) + paren(render(f[2], st, bound), 21), 50
        if op == "not":
            return st.kw("not") + " " + paren(render(f[2], st, bound), 18), 17
        return "%s(%s)" % (op, render(f[2], st, bound)[0]), 100
    if k == "b":
        op = f[1]
        if op in ("pow", "log"):
            return "%s(%s,%s)" % (op, render(f[2], st, bound)[0], render(f[3], st, bound)[0]), 100
        lvl = LEVEL[op]
        sym = BIN_SYM.get(op) or st.kw(op)
        l = paren(render(f[2], st, bound), lvl)          # left-associative: same level allowed on the left
        r = paren(render(f[3], st, bound), lvl + 1)
        return "%s %s %s" % (l, sym, r), lvl
    if k == "t1":
        op = f[1]
        if op in ("rise", "fall"):
            return "%s(%s)" % (op, render(f[2], st, bound)[0]), 100
        return st.kw(T1_KW[op]) + " " + paren(render(f[2], st, bound), 18), 17
    if k == "t2":
        lvl = LEVEL[f[1]]
        l = paren(render(f[2], st, bound), lvl)
        r = paren(render(f[3], st, bound), lvl + 1)
        return "%s %s %s" % (l, st.kw(f[1]), r), lvl
    if k == "tb1":
        return st.kw(T1_KW[f[1]]) + iv(f[2], f[3]) + " " + paren(render(f[4], st, bound), 18), 17
    if k == "tb2":
        lvl = LEVEL[f[1]]
        l = paren(render(f[4], st, bound), lvl)
        r = paren(render(f[5], st, bound), lvl + 1)
        return "%s %s%s %s" % (l, st.kw(f[1]), iv(f[2], f[3]), r), lvl
    raise ValueError(f)


def sp(st):
    return "" if st.rng is None else st.rng.choice(["", " "])


def spec_text(f, st, head=True, semi=True, bound=lambda k: str(k)):
    body = render(f, st, bound)[0]
    return ("out = " if head else "") + body + (";" if semi else "")


# ------------------------------------------------------------------------------- model query
def model_parse(texts, unit="s", consts=(), variables=("a", "b", "c")):
    """`variables`: the variables declared through the API (all float) - the model needs them for `x.field` only."""
    cs = ",".join(["%s=%s" % (k, v) for k, v in consts] + ["@%s=float" % v for v in variables])
    lines = ["parse | %s | %s | %s" % (unit, cs, t.encode("utf-8").hex()) for t in texts]
    res = []
    for o in common.driver_run(lines):
        if o.startswith("ok "):
            res.append(("ok", o[3:]))
        elif o.startswith("err rtamt"):
            res.append(("rtamt", o[10:]))
        else:
            raise common.HarnessError("front model: " + o)
    return res


# ------------------------------------------------------------------------------- expected spec_print
def to_number(text):
    t = str(text).replace("_", "")
    if t[:2].lower() in ("0x", "0b"):
        return int(t, 0)
    return t


def parse_tree(s):
    """Parse the model's prefix serialisation of one assertion: 'NAME = <expr tokens>'."""
    name, body = s.split(" = ", 1)
    toks = body.split()
    pos = [0]

    def nxt():
        t = toks[pos[0]]
        pos[0] += 1
        return t

    def iv():
        t = nxt()
        if t == "_":
            return None
        assert t == "["
        out = []
        for _ in range(2):
            kind, val, unit = nxt(), nxt(), nxt()
            out.append((kind, val, "" if unit == "-" else unit))
        assert nxt() == "]"
        return tuple(out)

    def expr():
        k = nxt()
        if k in ("id", "lit"):
            return (k, nxt())
        if k == "pre":
            op = nxt()
            i = iv()
            return ("pre", op, i, expr())
        if k == "fn1":
            return ("fn1", nxt(), expr())
        if k == "fn2":
            f = nxt()
            a = expr()
            return ("fn2", f, a, expr())
        if k == "bin":
            op = nxt()
            i = iv()
            l = expr()
            return ("bin", op, i, l, expr())
        raise common.HarnessError("bad model tree: " + s)
    e = expr()
    assert pos[0] == len(toks), s
    return (None if name == "_" else name), e


def bound_txt(b, consts):
    kind, val, unit = b
    if kind == "C":
        val = consts[val]
    return str(Fraction(Decimal(to_number(val)))) + unit


def name_of(e, consts, subspecs):
    k = e[0]
    if k == "id":
        x = e[1]
        if x in consts:
            return str(float(to_number(consts[x])))
        if x in subspecs:
            return subspecs[x]
        if x.endswith(".") and x.count(".") == 1:
            return x[:-1]                   # `x.`: the empty field; the node prints as the variable
        return x
    if k == "lit":
        return str(float(to_number(e[1])))
    if k == "pre":
        op, i, c = e[1], e[2], name_of(e[3], consts, subspecs)
        if i is None:
            return "%s(%s)" % (op, c)
        return "%s[%s,%s](%s)" % (op, bound_txt(i[0], consts), bound_txt(i[1], consts), c)
    if k == "fn1":
        return "%s(%s)" % (e[1], name_of(e[2], consts, subspecs))
    if k == "fn2":
        return "%s(%s,%s)" % (e[1], name_of(e[2], consts, subspecs), name_of(e[3], consts, subspecs))
    if k == "bin":
        op, i = e[1], e[2]
        l, r = name_of(e[3], consts, subspecs), name_of(e[4], consts, subspecs)
        if op == "unless":
            if i is None:
                return "(always(%s))or((%s)until(%s))" % (l, l, r)
            b, en = i
            return "(always[0%s,%s](%s))or((%s)until[%s,%s](%s))" % (b[2], bound_txt(en, consts), l, l, bound_txt(b, consts),
                                                                      bound_txt(en, consts), r)
        if i is None:
            return "(%s)%s(%s)" % (l, op, r)
        return "(%s)%s[%s,%s](%s)" % (l, op, bound_txt(i[0], consts), bound_txt(i[1], consts), r)
    raise common.HarnessError("bad tree " + repr(e))


def expected_print(model_ok_text, consts):
    """spec_print() expected from the model's parse of a whole specification text."""
    consts = dict(consts)
    subs, out = {}, []
    for part in model_ok_text.split(" ;; "):
        nm, e = parse_tree(part)
        n = name_of(e, consts, subs)
        subs[nm or "out"] = n
        out.append(n)
    return "".join(x + "\n" for x in out)


# ------------------------------------------------------------------------------- implementation
def impl_parse(text, variables=(), consts=(), unit=None, kind="offd", limit=20.0):
    def go():
        import zlib
        import rtamt
        spec = impl.make_spec(kind, text, list(variables), consts=[(k, "float", v) for k, v in consts], unit=unit)
        if zlib.crc32(("again:" + text).encode("utf-8")) % 3 == 0:
            # a caller that retries: a text that was rejected must be rejected again by the same object (nothing of the failed
            # attempt may make the second one succeed)
            try:
                spec.parse()
            except rtamt.RTAMTException:
                spec.parse()
            return spec.spec_print()
        spec.parse()
        return spec.spec_print()
    return impl.guarded(go, limit, True)


# ------------------------------------------------------------------------------- mutators
ILLEGAL = ["~", "#", "?", "`", "\\", "^", "%", "\"", "'", "é", "€"]
SOUP = ["always", "G", "eventually", "until", "U", "since", "once", "historically", "next", "prev", "not", "!", "and", "&", "or", "|",
        "implies", "->", "iff", "<->", "xor", "rise", "fall", "abs", "sqrt", "pow", "(", ")", "[", "]", ",", ":", ";", "=", "==", "!==",
        "<=", ">=", "<", ">", "+", "-", "*", "/", "a", "b", "x1", "0", "1", "2.5", "1e3", "0x1F", "s", "ms", "out", "float", "input",
        "const", "K", "1_000", ".5", "unless", "W", "s_next", "sY", "true", "//c\n", "/*c*/"]


def mutate(rng, text):
    """One edit of a valid text."""
    k = rng.choice(["del", "dup", "ins-illegal", "ins-token", "trunc", "append", "swap", "del-token"])
    if not text:
        return rng.choice(ILLEGAL), "ins-illegal"
    i = rng.randrange(len(text))
    if k == "del":
        return text[:i] + text[i + 1:], k
    if k == "dup":
        return text[:i] + text[i] + text[i:], k
    if k == "ins-illegal":
        return text[:i] + rng.choice(ILLEGAL) + text[i:], k
    if k == "ins-token":
        return text[:i] + " " + rng.choice(SOUP) + " " + text[i:], k
    if k == "trunc":
        return text[:i], k
    if k == "append":
        return text + " " + rng.choice(SOUP + ILLEGAL), k
    if k == "swap" and len(text) > 1:
        j = min(i + 1, len(text) - 1)
        l = list(text)
        l[i], l[j] = l[j], l[i]
        return "".join(l), k
    words = text.split(" ")
    if len(words) > 1:
        w = rng.randrange(len(words))
        return " ".join(words[:w] + words[w + 1:]), "del-token"
    return text[:i], "trunc"


def soup(rng):
    return " ".join(rng.choice(SOUP) for _ in range(rng.randint(1, 12)))
