"""Modular specifications: random decompositions of formulas into named sub-specifications
(multi-assertion text or add_sub_spec), repeated / nested references, declared constants in
expressions and bounds; runners returning, per monitor kind, the main result and get_value() of
every name.  Shared by the C09 and C12 checks."""
from . import common, formula as F, impl, disc

VARS = ["a", "b", "c"]


def stateful(f):
    return f[0] in ("t1", "t2", "tb1", "tb2")


def subst(f, env):
    if f[0] == "v" and f[1] in env:
        return env[f[1]]
    return F.rebuild(f, [subst(c, env) for c in F.children(f)])


def decompose(rng, f, prefix="p", prob=0.35, limit=4):
    """Pick random proper sub-formula occurrences of f, name them (inner first).  Returns the list of
    (name, body-with-references) ending with ('out', top)."""
    counter = [0]
    defs = []

    def go(x, top):
        kids = [go(c, False) for c in F.children(x)]
        y = F.rebuild(x, kids)
        if not top and x[0] not in ("v", "c") and rng.random() < prob and counter[0] < limit:
            nm = "%s%d" % (prefix, counter[0])
            counter[0] += 1
            defs.append((nm, y))
            return ("v", nm)
        return y
    top = go(f, True)
    defs.append(("out", top))
    return defs


def add_repeats(rng, defs):
    """Reference some sub-specification a second / third time from the top assertion."""
    names = [nm for nm, _ in defs[:-1]]
    if not names:
        return defs
    top = defs[-1][1]
    for _ in range(rng.randint(0, 2)):
        nm = rng.choice(names)
        top = ("b", rng.choice(["and", "or"]), top, rng.choice([("v", nm), ("u", "not", ("v", nm))]))
    return defs[:-1] + [("out", top)]


def inline(defs):
    env = {}
    for nm, body in defs:
        env[nm] = subst(body, env)
    return env          # name -> inlined formula


def gen_case(rng, allow, monitor, with_consts=True):
    g = F.Gen(rng, VARS, allow, max_bound=rng.choice([1, 2, 3, 4]))
    for _ in range(30):
        f = g.formula(rng.choice([2, 3, 4, 5]))
        if F.size(f) >= 4:
            break
    full = rng.random() < 0.25          # every operator node gets a name: the operand of every operator can be read back
    defs = add_repeats(rng, decompose(rng, f, prob=1.0, limit=8) if full else decompose(rng, f))
    short = None
    if rng.random() < 0.3:
        # a temporal operator applied directly to a named operand (the value of the name must survive whatever the operator
        # does to its operand's result), often on a trace that is shorter than the operator's bound
        inner = g.formula(rng.choice([1, 2]))
        want = ("tb1", "tb2") if rng.random() < 0.6 else ("t1", "tb1", "t2", "tb2")
        for _ in range(60):
            w = g.formula(1)
            if w[0] in want and inner[0] not in ("v", "c"):
                kids = list(F.children(w))
                kids[rng.randrange(len(kids))] = ("v", "p0")
                if len(kids) == 2 and rng.random() < 0.3:
                    kids = [("v", "p0"), ("v", "p0")]
                defs = add_repeats(rng, [("p0", inner), ("out", F.rebuild(w, kids))])
                if w[0] in ("tb1", "tb2"):
                    short = w[3] + 1
                break
    if rng.random() < 0.3:
        # an independent assertion that the main one does not reference (its nodes are in no other assertion)
        extra = g.formula(rng.choice([1, 2, 3]))
        k = rng.randint(0, len(defs) - 1)
        defs = defs[:k] + [("q9", extra)] + defs[k:]
    consts = []
    cmap = {}
    if with_consts and rng.random() < 0.5:
        # replace some literal constants by declared constants
        lits = sorted({x[1] for nm, b in defs for x in F.subformulas(b) if x[0] == "c"})
        for i, v in enumerate(lits[:2]):
            cmap[v] = "K%d" % i
            consts.append(("K%d" % i, "float", F.lit(v)))
    style = rng.choice(["text", "text", "sub_spec"])
    n = rng.randint(1, 10)
    if full and rng.random() < 0.5:
        n = rng.randint(1, 4)
    if short is not None and rng.random() < 0.7:
        n = rng.randint(1, short)
    inl = inline(defs)
    allvars = sorted({v for nm in inl for v in F.variables(inl[nm])})
    # spelling of the interval bounds: plain numbers (default unit) or explicit units (same durations; default unit s, period 1 s)
    unit_mode = rng.choice([None, None, None, "s", "ms", "us", "constmix"])
    comments = [rng.choice([0, 1, 2, 3]) for _ in defs] if rng.random() < 0.3 else None
    return {"monitor": monitor, "defs": defs, "inl": inl, "f": inl["out"], "consts": consts, "cmap": cmap, "style": style,
            "n": n, "vars": allvars or ["a"], "data": F.gen_trace(rng, allvars or ["a"], n), "unit_mode": unit_mode, "comments": comments}


def bound_fn(case, with_names=False):
    m = case.get("unit_mode")
    if m is None:
        return lambda k: str(k)
    if m == "constmix":
        # [a, b] is written `[<1000a> : <1000b>ms]`: the lower bound has no unit and takes the one of the upper bound; in the
        # modular text the lower numeral is a declared constant `const int KB<a> = <1000a>` (to_text asks for the lower bound,
        # then for the upper bound of every interval)
        state = {"k": 0}
        used = set()

        def fn(k):
            state["k"] += 1
            if state["k"] % 2 == 0:
                return "%dms" % (k * 1000)
            if with_names:
                used.add(k)
                return "KB%d" % k
            return str(k * 1000)
        fn.used = used
        return fn
    mult = {"s": 1, "ms": 1000, "us": 1000000}[m]
    return lambda k: "%d%s" % (k * mult, m)


def render_body(b, cmap, bound=lambda k: str(k)):
    def go(x):
        if x[0] == "c" and x[1] in cmap:
            return ("v", cmap[x[1]])
        return F.rebuild(x, [go(k) for k in F.children(x)])
    return F.to_text(go(b), bound=bound)


def ia_kw(case):
    """Interface-aware semantics of a case (`case["ia"] = [semantics name, {variable: "input" | "output"}]`)."""
    if not case.get("ia"):
        return {}
    from .props import c06
    return {"semantics": c06.SEMS[case["ia"][0]], "io": dict(case["ia"][1])}


def build(case, kind, modular=True, only=None):
    """Construct and parse the specification object. `only`: name of a single assertion to build stand-alone (inlined)."""
    if only is not None:
        text = "%s = %s" % (only, F.to_text(case["inl"][only], bound=bound_fn(case)))
        spec = impl.make_spec(kind, text, case["vars"], extra_decl=[only] if only != "out" else [], **ia_kw(case))
        spec.parse()
        return spec
    if not modular:
        spec = impl.make_spec(kind, "out = " + F.to_text(case["f"], bound=bound_fn(case)), case["vars"], **ia_kw(case))
        spec.parse()
        return spec
    defs = case["defs"]
    names = [nm for nm, _ in defs[:-1]]
    bf = bound_fn(case, with_names=True)
    lines = ["%s = %s;" % (nm, render_body(b, case["cmap"], bf)) for nm, b in defs]
    bconsts = [("KB%d" % a, "int", str(a * 1000)) for a in sorted(getattr(bf, "used", ()))]
    # comments of the specification language after an assertion (line comments run to the end of the line)
    cm = case.get("comments")
    if cm:
        # (not after the last assertion: parse() appends a ';' to a text that does not end with one)
        lines = [l + {0: "", 1: " // " + nm_, 2: " /* " + nm_ + " */", 3: "   // x >= 1; y = 2;"}[k if j < len(lines) - 1 else 0]
                 for j, (l, (nm_, _), k) in enumerate(zip(lines, defs, cm))]
    if case["style"] == "text":
        spec = impl.make_spec(kind, "\n".join(lines), case["vars"], extra_decl=names, consts=list(case["consts"]) + bconsts, **ia_kw(case))
    else:
        spec = impl.make_spec(kind, lines[-1], case["vars"], extra_decl=names, consts=list(case["consts"]) + bconsts, sub_specs=lines[:-1],
                              **ia_kw(case))
    spec.parse()
    return spec


def spec_text(case):
    bf = bound_fn(case, with_names=True)
    return "\n".join("%s = %s;" % (nm, render_body(b, case["cmap"], bf)) for nm, b in case["defs"]) + \
        ("   [consts %s]" % case["consts"] if case["consts"] else "") + "   [%s]" % case["style"]


def run_discrete(case, monitor, modular=True, only=None, read_names=False, pre=None):
    """monitor: offd | ond | past.  Returns outcome; payload = (main result list, {name: values})."""
    data, n, vs = case["data"], case["n"], case["vars"]
    names = [nm for nm, _ in case["defs"]]

    def go():
        if monitor == "offd":
            spec = build(case, "offd", modular, only)
            if pre:
                # the object has evaluated another trace before
                k_ = len(next(iter(pre.values())))
                ds0 = {"time": list(range(k_))}
                ds0.update({v: list(pre[v]) for v in vs})
                spec.evaluate(ds0)
            ds = {"time": list(range(n))}
            ds.update({v: list(data[v]) for v in vs})
            res = [p[1] for p in spec.evaluate(ds)]
            got = {}
            if read_names:
                for nm in names:
                    got[nm] = list(spec.get_value(nm))
                for v in vs:
                    got["var:" + v] = list(spec.get_value(v))
            return res, got
        spec = build(case, "ond", modular, only)
        if monitor == "past":
            spec.pastify()
        if pre:
            # the object has a history: another trace, then reset()
            for i in range(len(next(iter(pre.values())))):
                spec.update(i, [(v, pre[v][i]) for v in vs])
            spec.reset()
        res, got = [], {}
        for i in range(n):
            res.append(spec.update(i, [(v, data[v][i]) for v in vs]))
            if read_names:
                for nm in names:
                    got.setdefault(nm, []).append(spec.get_value(nm))
                for v in vs:
                    got.setdefault("var:" + v, []).append(spec.get_value(v))
        return res, got
    return impl.guarded(go)


def rep_of(case):
    return {"monitor": case["monitor"], "defs": [[nm, F.to_proto(b)] for nm, b in case["defs"]], "consts": case["consts"],
            "cmap": [[k, v] for k, v in case["cmap"].items()], "style": case["style"], "n": case["n"], "data": case["data"], "unit_mode": case.get("unit_mode"), "comments": case.get("comments"),
            "ia": case.get("ia"), "spec": spec_text(case), "inlined": "out = " + F.to_text(case["f"])}


def case_of_rep(obj):
    defs = [(nm, F.from_proto(b)) for nm, b in obj["defs"]]
    inl = inline(defs)
    allvars = sorted({v for nm in inl for v in F.variables(inl[nm])})
    return {"monitor": obj["monitor"], "defs": defs, "inl": inl, "f": inl["out"], "consts": [tuple(c) for c in obj["consts"]],
            "cmap": {float(k): v for k, v in obj["cmap"]}, "style": obj["style"], "n": obj["n"], "vars": allvars or ["a"],
            "data": {k: [float(x) for x in v] for k, v in obj["data"].items()}, "unit_mode": obj.get("unit_mode"), "comments": obj.get("comments"), "ia": obj.get("ia")}


def model_prog(cases):
    """Lean mirror of the dictionary+memo interpreter on the list of inlined assertions (online)."""
    lines = []
    for c in cases:
        fs = " ;; ".join(F.to_proto(c["inl"][nm]) for nm, _ in c["defs"])
        lines.append("prog | %s | %d | %s" % (fs, c["n"], disc.sigs(c["data"])))
    res = []
    # the same program through the update visitor translated from the source (`proggen`, Rtamt/Py/RunGlue.lean)
    gens = common.driver_run([l.replace("prog |", "proggen |", 1).replace(" | %d | " % c["n"], " | 0 | %d | " % c["n"], 1)
                              for l, c in zip(lines, cases)])
    for o, g in zip(common.driver_run(lines), gens):
        if o.strip() != g.strip():
            res.append(("err", "the update visitor translated from the source gives %r, the mirror %r" % (g.strip()[:200], o.strip()[:200])))
            continue
        if o.startswith("ok"):
            rounds = [[common.b2f(x) for x in r.split()] for r in o[2:].strip().split(";")] if o[2:].strip() else []
            res.append(("ok", rounds))
        else:
            res.append(("err", o))
    return res
