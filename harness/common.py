"""Shared infrastructure of the checks: paths, locking, Lean build + audit, driver I/O,
evidence, replay files, known findings, exit protocol (DESIGN §2.2, §2.3, §5)."""
import contextlib, fcntl, hashlib, json, math, os, random, re, shutil, struct, subprocess, sys, time

VERIF = os.path.dirname(os.path.dirname(os.path.abspath(__file__)))
REPO = os.environ.get("RTAMT_REPO", "/repo")
LEAN = os.path.join(VERIF, "lean")
WORK = os.path.join(VERIF, ".work")
EVID = os.path.join(VERIF, "evidence")
REPLAYS = os.path.join(VERIF, "replays")
PY = "/venv/bin/python"
ALLOWED_AXIOMS = {"propext", "Classical.choice", "Quot.sound"}

INF = float("inf")


class HarnessError(Exception):
    """Anything that is the machinery's fault: exit 2, never a VIOLATION line."""


def log(*a):
    print(*a, file=sys.stderr, flush=True)


# ---------------------------------------------------------------- floats <-> bits
def f2b(x):
    return struct.unpack("<Q", struct.pack("<d", float(x)))[0]


def b2f(b):
    return struct.unpack("<d", struct.pack("<Q", int(b)))[0]


def canon(x):
    """Canonical comparable form of a double: all NaNs equal, -0.0 == 0.0 kept distinct by bits."""
    x = float(x)
    if x != x:
        return "nan"
    return f2b(x)


def same_vals(a, b):
    """bit-for-bit (all NaNs identified)."""
    return len(a) == len(b) and all(canon(x) == canon(y) for x, y in zip(a, b))


def num_eq(x, y):
    """equal as extended reals: -0.0 == 0.0, NaN only equals NaN."""
    x, y = float(x), float(y)
    return (x != x and y != y) or x == y


def same_nums(a, b):
    return len(a) == len(b) and all(num_eq(x, y) for x, y in zip(a, b))


# ---------------------------------------------------------------- locking / work dir
@contextlib.contextmanager
def lean_lock():
    os.makedirs(LEAN, exist_ok=True)
    with open(os.path.join(LEAN, ".lock"), "w") as f:
        fcntl.flock(f, fcntl.LOCK_EX)
        try:
            yield
        finally:
            fcntl.flock(f, fcntl.LOCK_UN)


@contextlib.contextmanager
def workdir():
    d = os.path.join(WORK, str(os.getpid()))
    os.makedirs(d, exist_ok=True)
    try:
        yield d
    finally:
        shutil.rmtree(d, ignore_errors=True)


# ---------------------------------------------------------------- Lean build + audit
def run(cmd, cwd=None, timeout=3600, env=None, inp=None):
    e = dict(os.environ)
    if env:
        e.update(env)
    p = subprocess.run(cmd, cwd=cwd, env=e, input=inp, stdout=subprocess.PIPE, stderr=subprocess.STDOUT,
                       text=True, timeout=timeout)
    return p.returncode, p.stdout


def regen_tables():
    rc, out = run([PY, os.path.join(VERIF, "harness", "gen_tables.py")], env={"PYTHONPATH": REPO, "RTAMT_REPO": REPO})
    if rc != 0:
        return False, out
    # the operation classes translated from the source (Rtamt/Py/GeneratedOps.lean)
    rc2, out2 = run([PY, os.path.join(VERIF, "harness", "py2lean.py")], env={"PYTHONPATH": REPO, "RTAMT_REPO": REPO})
    if rc2 != 0:
        return False, out2
    # tables of the ANTLR grammar files (Rtamt/Front/GeneratedGrammar.lean)
    rc3, out3 = run([PY, os.path.join(VERIF, "harness", "g4_tables.py")], env={"PYTHONPATH": REPO, "RTAMT_REPO": REPO})
    if rc3 != 0:
        return False, out3
    return True, out + out2 + out3


def lean_sources_hash():
    h = hashlib.sha256()
    for root, dirs, files in sorted(os.walk(LEAN)):
        dirs[:] = sorted(d for d in dirs if d not in (".lake",))
        for fn in sorted(files):
            if fn.endswith(".lean") or fn in ("lakefile.toml",):
                p = os.path.join(root, fn)
                h.update(p.encode())
                h.update(open(p, "rb").read())
    return h.hexdigest()


FORBIDDEN = re.compile(r"\b(sorry|admit|native_decide|bv_decide|implemented_by)\b|^\s*axiom\s|unsafe\s|maxHeartbeats\s+0")


def strip_comments(src):
    # remove /- ... -/ (nested not handled beyond one level; sources avoid nesting) and -- comments
    out, i, depth = [], 0, 0
    while i < len(src):
        if src.startswith("/-", i):
            depth += 1
            i += 2
            continue
        if src.startswith("-/", i) and depth > 0:
            depth -= 1
            i += 2
            continue
        if depth == 0:
            if src.startswith("--", i):
                j = src.find("\n", i)
                i = len(src) if j < 0 else j
                continue
            out.append(src[i])
        elif src[i] == "\n":
            out.append("\n")
        i += 1
    return "".join(out)


def module_closure(modules):
    """Project-local transitive imports of the given modules (file paths)."""
    seen, todo = {}, list(modules) + ["Main"]
    while todo:
        m = todo.pop()
        if m in seen:
            continue
        p = os.path.join(LEAN, *m.split(".")) + ".lean"
        if not os.path.exists(p):
            continue
        seen[m] = p
        for line in open(p):
            mm = re.match(r"\s*import\s+((?:Rtamt|RtamtProofs)[\w.]*)", line)
            if mm:
                todo.append(mm.group(1))
    return seen


def grep_forbidden(modules):
    """sorry / axiom / native_decide ... in the property's proof modules and everything
    they import from this project (comments stripped)."""
    hits = []
    for m, p in sorted(module_closure(modules).items()):
        for n, line in enumerate(strip_comments(open(p).read()).split("\n"), 1):
            if FORBIDDEN.search(line):
                hits.append("%s:%d: %s" % (os.path.relpath(p, VERIF), n, line.strip()))
    return hits


def lean_build_and_audit(prop_id, recheck=False):
    """Regenerate the source-derived table, build model + driver, build the proof modules of
    `prop_id`, audit its property theorems.  Returns a dict:
       ok (bool), obligations, discharged, failures [text], theorems {name: [axioms] | None}."""
    res = {"ok": True, "obligations": 0, "discharged": 0, "failures": [], "theorems": {}, "build_s": 0.0,
           "model_ok": True}
    t0 = time.time()
    entry = property_theorems().get(prop_id, {"modules": [], "theorems": []})
    thms, modules = entry["theorems"], entry["modules"]
    res["obligations"] = len(thms)
    with lean_lock():
        ok, out = regen_tables()
        if not ok:
            res["ok"] = False
            res["failures"].append("gen_tables.py could not import the visitor classes: " + out[-1500:])
        rc, out = run(["lake", "build", "Rtamt", "driver"], cwd=LEAN, timeout=3000)
        if rc != 0:
            res["ok"] = False
            res["model_ok"] = False
            res["failures"].append("model does not build: " + "; ".join(sorted(set(re.findall(r"error: ([^\n]*)", out)))[:6]))
        built = []
        for m in modules:
            rc, out = run(["lake", "build", m], cwd=LEAN, timeout=3000)
            if rc != 0:
                res["ok"] = False
                errs = re.findall(r"error: ([^\n]*(?:\n(?!\S*error)[^\n]*){0,3})", out)
                res["failures"].append("proof module %s no longer checks: %s" % (m, " || ".join(e.replace("\n", " ")[:300] for e in errs[:4])))
            else:
                built.append(m)
        if recheck and built:
            # thorough tier: the toolchain's independent re-checker replays the compiled proof modules in the kernel
            rc, out = run(["lake", "env", "leanchecker"] + built, cwd=LEAN, timeout=3000)
            res["leanchecker"] = "ok" if rc == 0 else "failed"
            if rc != 0:
                res["ok"] = False
                res["failures"].append("leanchecker rejects %s: %s" % (" ".join(built), out[-600:].replace("\n", " ")))
        hits = grep_forbidden(modules)
        if hits:
            res["ok"] = False
            res["failures"].append("forbidden tokens: " + "; ".join(hits[:5]))
        axioms = print_axioms(thms, built) if (thms and built) else {t: None for t in thms}
        for t in thms:
            ax = axioms.get(t)
            res["theorems"][t] = ax
            if ax is None:
                res["ok"] = False
                if not any(t in f for f in res["failures"]):
                    res["failures"].append("theorem %s is not available (its module does not check)" % t)
            elif not set(ax) <= ALLOWED_AXIOMS:
                res["ok"] = False
                res["failures"].append("theorem %s depends on %s" % (t, sorted(set(ax) - ALLOWED_AXIOMS)))
            else:
                res["discharged"] += 1
    res["build_s"] = round(time.time() - t0, 2)
    return res


def property_theorems():
    """Theorem names per property: lean/RtamtProofs/THEOREMS.json (committed)."""
    p = os.path.join(LEAN, "RtamtProofs", "THEOREMS.json")
    if not os.path.exists(p):
        return {}
    return json.load(open(p))


_AX_CACHE = os.path.join(LEAN, ".lake", "axioms_cache.json")


def print_axioms(thms, modules):
    """`#print axioms` for each theorem (cached by the hash of all Lean sources)."""
    key = lean_sources_hash() + "|" + ",".join(modules)
    cache = {}
    if os.path.exists(_AX_CACHE):
        try:
            cache = json.load(open(_AX_CACHE))
        except Exception:
            cache = {}
    if cache.get("key") != key:
        cache = {"key": key, "axioms": {}}
    todo = [t for t in thms if t not in cache["axioms"]]
    if todo:
        d = os.path.join(WORK, "audit%d" % os.getpid())
        os.makedirs(d, exist_ok=True)
        fn = os.path.join(d, "Audit.lean")
        # all theorems in one run of lean ...
        open(fn, "w").write("".join("import %s\n" % m for m in modules) + "".join("#print axioms %s\n" % t for t in todo))
        rc, out = run(["lake", "env", "lean", fn], cwd=LEAN, timeout=1200)
        if rc == 0:
            for t in todo:
                m = re.search(r"'%s' depends on axioms: \[([^\]]*)\]" % re.escape(t), out)
                if m:
                    cache["axioms"][t] = [a.strip() for a in m.group(1).replace("\n", " ").split(",") if a.strip()]
                elif re.search(r"'%s' does not depend on any axioms" % re.escape(t), out):
                    cache["axioms"][t] = []
        for t in [t for t in todo if t not in cache["axioms"]]:
            # ... and one file per theorem for what is left: an unknown name must not hide the others
            src = "".join("import %s\n" % m for m in modules) + "#print axioms %s\n" % t
            open(fn, "w").write(src)
            rc, out = run(["lake", "env", "lean", fn], cwd=LEAN, timeout=1200)
            m = re.search(r"depends on axioms: \[([^\]]*)\]", out)
            if rc == 0 and m:
                cache["axioms"][t] = [a.strip() for a in m.group(1).replace("\n", " ").split(",") if a.strip()]
            elif rc == 0 and "does not depend on any axioms" in out:
                cache["axioms"][t] = []
        shutil.rmtree(d, ignore_errors=True)
        try:
            json.dump(cache, open(_AX_CACHE, "w"))
        except Exception:
            pass
    return {t: cache["axioms"].get(t) for t in thms}


# ---------------------------------------------------------------- driver
def driver_run(lines, timeout=1800):
    """Pipe protocol lines to the Lean driver, return the list of output lines (large batches are spread over several
    driver processes; the driver is a pure function of each line)."""
    lines = list(lines)
    nproc = min(12, os.cpu_count() or 1, len(lines) // 100)
    if nproc >= 2:
        from concurrent.futures import ThreadPoolExecutor
        chunks = [lines[i::nproc] for i in range(nproc)]
        with ThreadPoolExecutor(max_workers=nproc) as ex:
            outs = list(ex.map(lambda c: _driver_run1(c, timeout), chunks))
        res = [None] * len(lines)
        for i, o in enumerate(outs):
            res[i::nproc] = o
        return res
    return _driver_run1(lines, timeout)


def _driver_run1(lines, timeout=1800):
    exe = os.path.join(LEAN, ".lake", "build", "bin", "driver")
    inp = "\n".join(lines) + "\n"
    if os.path.exists(exe):
        cmd = [exe]
    else:
        cmd = ["lake", "env", "lean", "--run", "Main.lean"]
    p = subprocess.run(cmd, cwd=LEAN, input=inp, stdout=subprocess.PIPE, stderr=subprocess.PIPE, text=True, timeout=timeout)
    if p.returncode != 0:
        raise HarnessError("driver failed: " + p.stderr[-2000:])
    out = p.stdout.split("\n")
    if out and out[-1] == "":
        out.pop()
    if len(out) != len(lines):
        raise HarnessError("driver returned %d lines for %d cases" % (len(out), len(lines)))
    return out


def parse_vals(line):
    """'ok b0 b1 ...' -> ('ok', [floats]); 'err kind' -> ('err', kind)"""
    parts = line.split()
    if not parts:
        return ("bad", line)
    if parts[0] == "ok":
        return ("ok", [b2f(p) for p in parts[1:]])
    if parts[0] == "err":
        return ("err", parts[1] if len(parts) > 1 else "")
    return ("bad", line)


# ---------------------------------------------------------------- evidence / replay / findings
def write_json(path, obj):
    os.makedirs(os.path.dirname(path), exist_ok=True)
    tmp = path + ".tmp%d" % os.getpid()
    with open(tmp, "w") as f:
        json.dump(obj, f, indent=1, default=str)
    os.replace(tmp, path)


def known_findings(prop_id):
    p = os.path.join(VERIF, "known_findings.json")
    if not os.path.exists(p):
        return []
    return [f for f in json.load(open(p))["findings"] if prop_id in f["properties"]]


TRUSTED_BASE = [
    "Lean 4.33.0 kernel; axioms of the property theorems limited to propext, Classical.choice, Quot.sound (audited by #print axioms each run)",
    "correspondence harness (generators, adapters to the rtamt public API, canonicalisation) and harness/gen_tables.py",
    "modelled, not verified: ANTLR runtime and generated parser, CPython list/dict/float primitives, libm, Fraction/Decimal",
]
