"""Formulas as nested tuples mirroring lean/Rtamt/Syntax.lean, their renderings
(rtamt specification text, driver protocol, canonical `spec_print` name), generators
and shrinkers.  Every random choice comes from the `random.Random` passed in."""
from fractions import Fraction
from .common import f2b

UN = ["abs", "sqrt", "exp", "ln", "negate", "not"]
ARITH = ["add", "sub", "mul", "div", "pow", "log"]
CMP = ["lt", "le", "gt", "ge", "eq", "ne"]
BOOL = ["and", "or", "implies", "iff", "xor"]
T1_EVENT = ["rise", "fall"]
T1_PAST = ["prev", "sprev", "once", "hist"]
T1_FUT = ["next", "snext", "ev", "alw"]
T2 = ["since", "until"]
TB1_PAST = ["once", "hist"]
TB1_FUT = ["ev", "alw"]

CMP_TXT = {"lt": "<", "le": "<=", "gt": ">", "ge": ">=", "eq": "==", "ne": "!=="}
CMP_NAME = {"lt": "<", "le": "<=", "gt": ">", "ge": ">=", "eq": "==", "ne": "!="}
BIN_TXT = {"add": "+", "sub": "-", "mul": "*", "div": "/", "and": "and", "or": "or",
           "implies": "implies", "iff": "iff", "xor": "xor"}
BIN_NAME = {"add": "+", "sub": "-", "mul": "*", "div": "/", "and": "and", "or": "or",
            "implies": "->", "iff": "<->", "xor": "xor"}
T1_TXT = {"rise": "rise", "fall": "fall", "prev": "prev", "sprev": "s_prev", "next": "next",
          "snext": "s_next", "once": "once", "hist": "historically", "ev": "eventually", "alw": "always"}
T1_NAME = {"rise": "rise", "fall": "fall", "prev": "previous", "sprev": "s_previous", "next": "next",
           "snext": "s_next", "once": "once", "hist": "historically", "ev": "eventually", "alw": "always"}
UN_TXT = {"abs": "abs", "sqrt": "sqrt", "exp": "exp", "ln": "ln", "negate": "-", "not": "not"}
KIND = {
    "abs": "Abs", "sqrt": "Sqrt", "exp": "Exp", "ln": "Ln", "negate": "Negate", "not": "Neg",
    "add": "Addition", "sub": "Subtraction", "mul": "Multiplication", "div": "Division", "pow": "Pow",
    "log": "Log", "and": "Conjunction", "or": "Disjunction", "implies": "Implies", "iff": "Iff", "xor": "Xor",
}


def lit(c):
    """Text of a non-negative float literal accepted by the lexer and equal to repr()."""
    c = float(c)
    assert c >= 0 and c == c and c != float("inf")
    return repr(c)          # '0.5', '2.0000001', '1e-07', '1.5e+16': all RealLiterals of the lexer grammar


def to_text(f, bound=lambda a: str(a)):
    """Fully parenthesised rtamt text."""
    k = f[0]
    if k == "v":
        return f[1]
    if k == "c":
        return lit(f[1])
    if k == "u":
        op = f[1]
        if op == "negate":
            return "-(%s)" % to_text(f[2], bound)
        return "%s(%s)" % (UN_TXT[op], to_text(f[2], bound))
    if k == "b":
        op, l, r = f[1], to_text(f[2], bound), to_text(f[3], bound)
        if op in ("pow", "log"):
            return "%s(%s,%s)" % (op, l, r)
        if op in CMP_TXT:
            return "((%s) %s (%s))" % (l, CMP_TXT[op], r)
        return "((%s) %s (%s))" % (l, BIN_TXT[op], r)
    if k == "t1":
        return "%s(%s)" % (T1_TXT[f[1]], to_text(f[2], bound)) if f[1] in ("rise", "fall") else "(%s (%s))" % (T1_TXT[f[1]], to_text(f[2], bound))
    if k == "t2":
        return "((%s) %s (%s))" % (to_text(f[2], bound), f[1], to_text(f[3], bound))
    if k == "tb1":
        return "(%s[%s,%s] (%s))" % (T1_TXT[f[1]], bound(f[2]), bound(f[3]), to_text(f[4], bound))
    if k == "tb2":
        return "((%s) %s[%s,%s] (%s))" % (to_text(f[4], bound), f[1], bound(f[2]), bound(f[3]), to_text(f[5], bound))
    raise ValueError(f)


def to_proto(f):
    k = f[0]
    if k == "v":
        return "v %s" % f[1]
    if k == "c":
        return "c %d" % f2b(f[1])
    if k == "u":
        return "u %s %s" % (f[1], to_proto(f[2]))
    if k == "b":
        return "b %s %s %s" % (f[1], to_proto(f[2]), to_proto(f[3]))
    if k == "t1":
        return "t1 %s %s" % (f[1], to_proto(f[2]))
    if k == "t2":
        return "t2 %s %s %s" % (f[1], to_proto(f[2]), to_proto(f[3]))
    if k == "tb1":
        return "tb1 %s %d %d %s" % (f[1], f[2], f[3], to_proto(f[4]))
    if k == "tb2":
        return "tb2 %s %d %d %s %s" % (f[1], f[2], f[3], to_proto(f[4]), to_proto(f[5]))
    raise ValueError(f)


def from_proto(s):
    toks = s.split()

    def go(i):
        k = toks[i]
        if k == "v":
            return ("v", toks[i + 1]), i + 2
        if k == "c":
            from .common import b2f
            return ("c", b2f(toks[i + 1])), i + 2
        if k in ("u", "t1"):
            a, j = go(i + 2)
            return (k, toks[i + 1], a), j
        if k in ("b", "t2"):
            a, j = go(i + 2)
            b, j = go(j)
            return (k, toks[i + 1], a, b), j
        if k == "tb1":
            a, j = go(i + 4)
            return (k, toks[i + 1], int(toks[i + 2]), int(toks[i + 3]), a), j
        if k == "tb2":
            a, j = go(i + 4)
            b, j = go(j)
            return (k, toks[i + 1], int(toks[i + 2]), int(toks[i + 3]), a, b), j
        raise ValueError(s)

    f, j = go(0)
    assert j == len(toks), s
    return f


def to_name(f, bound=lambda a: str(a)):
    """The `name` attribute the node constructors of rtamt build (spec_print())."""
    k = f[0]
    if k == "v":
        return f[1]
    if k == "c":
        return str(float(f[1]))
    if k == "u":
        op = f[1]
        return "%s(%s)" % (UN_TXT[op], to_name(f[2], bound))
    if k == "b":
        op, l, r = f[1], to_name(f[2], bound), to_name(f[3], bound)
        if op in ("pow", "log"):
            return "%s(%s,%s)" % (op, l, r)
        if op in CMP_NAME:
            return "(%s)%s(%s)" % (l, CMP_NAME[op], r)
        return "(%s)%s(%s)" % (l, BIN_NAME[op], r)
    if k == "t1":
        return "%s(%s)" % (T1_NAME[f[1]], to_name(f[2], bound))
    if k == "t2":
        return "(%s)%s(%s)" % (to_name(f[2], bound), f[1], to_name(f[3], bound))
    if k == "tb1":
        return "%s[%s,%s](%s)" % (T1_NAME[f[1]], bound(f[2]), bound(f[3]), to_name(f[4], bound))
    if k == "tb2":
        return "(%s)%s[%s,%s](%s)" % (to_name(f[4], bound), f[1], bound(f[2]), bound(f[3]), to_name(f[5], bound))
    raise ValueError(f)


def children(f):
    k = f[0]
    if k in ("v", "c"):
        return []
    if k in ("u", "t1"):
        return [f[2]]
    if k in ("b", "t2"):
        return [f[2], f[3]]
    if k == "tb1":
        return [f[4]]
    return [f[4], f[5]]


def rebuild(f, kids):
    k = f[0]
    if k in ("v", "c"):
        return f
    if k in ("u", "t1"):
        return (k, f[1], kids[0])
    if k in ("b", "t2"):
        return (k, f[1], kids[0], kids[1])
    if k == "tb1":
        return (k, f[1], f[2], f[3], kids[0])
    return (k, f[1], f[2], f[3], kids[0], kids[1])


def subformulas(f):
    yield f
    for c in children(f):
        yield from subformulas(c)


def variables(f):
    return sorted({g[1] for g in subformulas(f) if g[0] == "v"})


def ops(f):
    out = []
    for g in subformulas(f):
        if g[0] in ("v", "c"):
            out.append(g[0])
        elif g[0] in ("tb1", "tb2"):
            out.append(g[0] + ":" + g[1])
        else:
            out.append(g[0] + ":" + g[1])
    return out


def depth(f):
    cs = children(f)
    return 1 + (max(depth(c) for c in cs) if cs else 0)


def size(f):
    return 1 + sum(size(c) for c in children(f))


def is_future(f):
    return any((g[0] == "t1" and g[1] in T1_FUT) or (g[0] == "t2" and g[1] == "until") or
               (g[0] == "tb1" and g[1] in TB1_FUT) or (g[0] == "tb2" and g[1] == "until") for g in subformulas(f))


def has_unbounded_future(f):
    return any((g[0] == "t1" and g[1] in ("ev", "alw")) or (g[0] == "t2" and g[1] == "until") for g in subformulas(f))


def is_past_only(f):
    return not is_future(f)


# ------------------------------------------------------------------ generation
class Gen:
    """Type-directed generator (terms vs. formulas) with an untyped mode.

    allow: set of operator groups to draw from: 'arith','fn','cmp','bool','iffxor','event',
           'past','future','ufuture','bpast','bfuture','since','until','bsince','buntil'
    """

    def __init__(self, rng, vars_, allow, max_bound=4, consts=(0.0, 1.0, 2.0, 3.0, 0.5), safe_arith=True):
        self.r = rng
        self.vars = list(vars_)
        self.allow = set(allow)
        self.max_bound = max_bound
        self.consts = list(consts)
        self.safe = safe_arith

    def bounds(self):
        a = self.r.randint(0, self.max_bound)
        b = self.r.randint(a, self.max_bound)
        if self.r.random() < 0.15:
            b = a
        return a, b

    def term(self, d):
        r = self.r
        if d <= 0 or r.random() < 0.35 or not ({"arith", "fn"} & self.allow):
            if r.random() < 0.7:
                return ("v", r.choice(self.vars))
            return ("c", r.choice(self.consts))
        choices = []
        if "arith" in self.allow:
            choices += ["add", "sub", "mul", "negate", "abs", "div"]
        if "fn" in self.allow:
            choices += ["sqrt", "exp", "ln", "pow", "log"]
        op = r.choice(choices)
        if op in ("add", "sub", "mul"):
            return ("b", op, self.term(d - 1), self.term(d - 1))
        if op in ("negate", "abs"):
            return ("u", op, self.term(d - 1))
        pos = lambda t: ("b", "add", ("u", "abs", t), ("c", 1.0))  # noqa: E731  (>= 1)
        if op == "div":
            return ("b", "div", self.term(d - 1), pos(self.term(d - 2)))
        if op == "sqrt":
            return ("u", "sqrt", ("u", "abs", self.term(d - 2)))
        if op == "exp":
            return ("u", "exp", ("u", "negate", ("u", "abs", self.term(d - 2))))
        if op == "ln":
            return ("u", "ln", pos(self.term(d - 2)))
        if op == "pow":
            return ("b", "pow", pos(self.term(d - 2)), ("c", r.choice([0.0, 1.0, 2.0, 0.5])))
        if op == "log":
            return ("b", "log", pos(self.term(d - 2)), ("c", r.choice([2.0, 3.0])))
        raise AssertionError(op)

    def formula(self, d):
        r = self.r
        groups = []
        if d > 0:
            for g in ("bool", "iffxor", "event", "past", "future", "ufuture", "bpast", "bfuture", "since", "until",
                      "bsince", "buntil", "not"):
                if g in self.allow:
                    groups.append(g)
        if not groups or r.random() < 0.22:
            op = r.choice(CMP)
            return ("b", op, self.term(min(d, 2)), self.term(min(d, 1)))
        g = r.choice(groups)
        if g == "not":
            return ("u", "not", self.formula(d - 1))
        if g == "bool":
            return ("b", r.choice(["and", "or", "implies"]), self.formula(d - 1), self.formula(d - 1))
        if g == "iffxor":
            return ("b", r.choice(["iff", "xor"]), self.formula(d - 1), self.formula(d - 1))
        if g == "event":
            return ("t1", r.choice(T1_EVENT), self.formula(d - 1))
        if g == "past":
            return ("t1", r.choice(T1_PAST), self.formula(d - 1))
        if g == "future":
            return ("t1", r.choice(["next", "snext"]), self.formula(d - 1))
        if g == "ufuture":
            return ("t1", r.choice(["ev", "alw"]), self.formula(d - 1))
        if g == "bpast":
            a, b = self.bounds()
            return ("tb1", r.choice(TB1_PAST), a, b, self.formula(d - 1))
        if g == "bfuture":
            a, b = self.bounds()
            return ("tb1", r.choice(TB1_FUT), a, b, self.formula(d - 1))
        if g == "since":
            return ("t2", "since", self.formula(d - 1), self.formula(d - 1))
        if g == "until":
            return ("t2", "until", self.formula(d - 1), self.formula(d - 1))
        if g == "bsince":
            a, b = self.bounds()
            return ("tb2", "since", a, b, self.formula(d - 1), self.formula(d - 1))
        if g == "buntil":
            a, b = self.bounds()
            return ("tb2", "until", a, b, self.formula(d - 1), self.formula(d - 1))
        raise AssertionError(g)

    def untyped(self, d):
        """Any expression of the single-sorted grammar (values may become inf-inf = NaN)."""
        r = self.r
        if d <= 0 or r.random() < 0.2:
            return ("v", r.choice(self.vars)) if r.random() < 0.75 else ("c", r.choice(self.consts))
        pool = []
        if "arith" in self.allow:
            pool += [("b", o) for o in ("add", "sub", "mul")] + [("u", "negate"), ("u", "abs")]
        if "cmp" in self.allow:
            pool += [("b", o) for o in CMP]
        if "bool" in self.allow:
            pool += [("b", o) for o in ("and", "or", "implies")] + [("u", "not")]
        if "iffxor" in self.allow:
            pool += [("b", "iff"), ("b", "xor")]
        if "event" in self.allow:
            pool += [("t1", o) for o in T1_EVENT]
        if "past" in self.allow:
            pool += [("t1", o) for o in T1_PAST]
        if "future" in self.allow:
            pool += [("t1", "next"), ("t1", "snext")]
        if "ufuture" in self.allow:
            pool += [("t1", "ev"), ("t1", "alw")]
        if "bpast" in self.allow:
            pool += [("tb1", o) for o in TB1_PAST]
        if "bfuture" in self.allow:
            pool += [("tb1", o) for o in TB1_FUT]
        if "since" in self.allow:
            pool += [("t2", "since")]
        if "until" in self.allow:
            pool += [("t2", "until")]
        if "bsince" in self.allow:
            pool += [("tb2", "since")]
        if "buntil" in self.allow:
            pool += [("tb2", "until")]
        k, op = r.choice(pool)
        if k in ("u", "t1"):
            return (k, op, self.untyped(d - 1))
        if k in ("b", "t2"):
            return (k, op, self.untyped(d - 1), self.untyped(d - 1))
        a, b = self.bounds()
        if k == "tb1":
            return (k, op, a, b, self.untyped(d - 1))
        return (k, op, a, b, self.untyped(d - 1), self.untyped(d - 1))


ALL_DISCRETE_OFFLINE = {"arith", "fn", "cmp", "bool", "iffxor", "event", "past", "future", "ufuture", "bpast",
                        "bfuture", "since", "until", "bsince", "buntil", "not"}
PAST_ONLY = {"arith", "fn", "cmp", "bool", "iffxor", "event", "past", "bpast", "since", "bsince", "not"}


def shared_variable_formula(rng, g, vars_):
    """One variable read directly (no predicate in between) by two or three temporal operators: what the first one does with the
    list of the variable must not be seen by the others.  To be used with traces that are often shorter than the bounds."""
    x = ("v", rng.choice(list(vars_)))

    def top():
        k = rng.choice(["t1", "tb1", "tb1", "t2", "tb2"])
        a = rng.randint(0, 3)
        b = a + rng.randint(0, 4)
        y = x if rng.random() < 0.7 else g.formula(1)
        if k == "t1":
            return ("t1", rng.choice(["once", "hist", "ev", "alw", "prev", "next", "sprev", "snext"]), x)
        if k == "tb1":
            return ("tb1", rng.choice(["once", "hist", "ev", "alw"]), a, b, x)
        if k == "t2":
            return ("t2", rng.choice(["since", "until"]), x, y) if rng.random() < 0.5 else ("t2", rng.choice(["since", "until"]), y, x)
        return ("tb2", rng.choice(["since", "until"]), a, b, x, y) if rng.random() < 0.5 else ("tb2", rng.choice(["since", "until"]), a, b, y, x)
    f = ("b", rng.choice(["and", "or", "implies"]), top(), top())
    if rng.random() < 0.3:
        f = ("b", rng.choice(["and", "or", "implies"]), f, top())
    return f


def gen_trace(rng, vars_, n, vals=(-3.0, -2.0, -1.0, -0.5, 0.0, 0.5, 1.0, 2.0, 3.0, 4.0)):
    """Small dyadic values with many ties."""
    mode = rng.random()
    out = {}
    for v in vars_:
        if mode < 0.2:
            pool = rng.sample(list(vals), 2)
        elif mode < 0.5:
            pool = rng.sample(list(vals), 3)
        else:
            pool = list(vals)
        out[v] = [rng.choice(pool) for _ in range(n)]
    return out


# ------------------------------------------------------------------ shrinking
def shrink_candidates(f):
    """Smaller formulas: a child in place of the node, smaller bounds, shrunk children."""
    for c in children(f):
        yield c
    if f[0] in ("tb1", "tb2"):
        a, b = f[2], f[3]
        for (a2, b2) in ((0, b), (a, a), (a // 2, b // 2), (a, b - 1) if b > a else (a, b), (max(a - 1, 0), b)):
            if (a2, b2) != (a, b) and a2 <= b2:
                yield f[:2] + (a2, b2) + f[4:]
    cs = children(f)
    for i, c in enumerate(cs):
        for c2 in shrink_candidates(c):
            yield rebuild(f, cs[:i] + [c2] + cs[i + 1:])


def shrink(case_fails, f, data, n, budget=400):
    """Greedy shrink of (formula, data dict of lists, n). `case_fails(f, data, n)` -> bool."""
    steps = 0
    improved = True
    while improved and steps < budget:
        improved = False
        # shorter traces: drop last / first sample
        for cut in ("last", "first"):
            if n > 1:
                d2 = {k: (v[:-1] if cut == "last" else v[1:]) for k, v in data.items()}
                steps += 1
                if case_fails(f, d2, n - 1):
                    data, n, improved = d2, n - 1, True
                    break
        if improved:
            continue
        for g in shrink_candidates(f):
            steps += 1
            if steps > budget:
                break
            d2 = {k: v for k, v in data.items()}
            if case_fails(g, d2, n):
                f, improved = g, True
                break
        if improved:
            continue
        # simplify values
        for k in list(data):
            for i in range(n):
                if data[k][i] != 0.0:
                    d2 = {kk: list(vv) for kk, vv in data.items()}
                    d2[k][i] = 0.0
                    steps += 1
                    if steps > budget:
                        break
                    if case_fails(f, d2, n):
                        data, improved = d2, True
    return f, data, n
