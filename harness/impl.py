"""Adapters: run the real rtamt (working tree of /repo, imported in-process through the
public API only) on cases produced by the generators.  Outcomes are canonicalised to
('ok', payload) | ('rtamt', message) | ('other', ExceptionTypeName, message)."""
import copy, io, logging, os, signal, sys, contextlib

from .common import REPO, HarnessError

if REPO not in sys.path:
    sys.path.insert(0, REPO)
logging.disable(logging.WARNING)

import rtamt  # noqa: E402
from rtamt.exception.exception import RTAMTException  # noqa: E402

if not os.path.abspath(rtamt.__file__).startswith(os.path.abspath(REPO) + os.sep):
    raise HarnessError("rtamt imported from %s, not from %s" % (rtamt.__file__, REPO))


_DEVNULL = open(os.devnull, "w")


class CaseTimeout(Exception):
    pass


@contextlib.contextmanager
def time_limit(seconds):
    def handler(signum, frame):
        raise CaseTimeout()
    old = signal.signal(signal.SIGALRM, handler)
    signal.setitimer(signal.ITIMER_REAL, seconds)
    try:
        yield
    finally:
        signal.setitimer(signal.ITIMER_REAL, 0)
        signal.signal(signal.SIGALRM, old)


@contextlib.contextmanager
def memory_limit(gib=6):
    """Cap the address space of this process while the implementation runs: a changed implementation that pads a list to 10^9
    entries (a bound read in the wrong unit) gets a MemoryError - an outcome - instead of taking the machine down; the alarm of
    `time_limit` cannot interrupt a single huge allocation."""
    import resource
    soft, hard = resource.getrlimit(resource.RLIMIT_AS)
    cap = gib * 2 ** 30
    try:
        resource.setrlimit(resource.RLIMIT_AS, (cap if hard == resource.RLIM_INFINITY else min(cap, hard), hard))
    except (ValueError, OSError):
        yield
        return
    try:
        yield
    finally:
        resource.setrlimit(resource.RLIMIT_AS, (soft, hard))


def guarded(fn, limit=20.0, timeout_is_outcome=False):
    try:
        with time_limit(limit), memory_limit(), contextlib.redirect_stdout(_DEVNULL):
            return ("ok", fn())
    except CaseTimeout:
        if timeout_is_outcome:
            return ("other", "Timeout", "no result within %.0fs" % limit)
        raise HarnessError("implementation call exceeded %.0fs" % limit)
    except RTAMTException as e:
        return ("rtamt", str(e))
    except HarnessError:
        raise
    except Exception as e:  # noqa: BLE001
        return ("other", type(e).__name__, str(e)[:200])


def struct_text(text, struct):
    """The specification text with every variable of `struct` read through its field: `x` -> `x.value`."""
    import re
    for v in struct:
        text = re.sub(r"(?<![\w.])%s(?![\w.])" % re.escape(v), v + ".value", text)
    return text


def wrap(values, is_struct):
    from .msgs import Msg
    return [Msg(x) for x in values] if is_struct else list(values)


def make_spec(kind, text, variables, semantics=None, io=None, consts=(), unit=None, sampling=None,
              sub_specs=(), declare_out=True, extra_decl=(), struct=(), single=False):
    """kind: 'offd' | 'ond' | 'bothd' | 'offc' | 'onc'.  `struct`: variables declared with the user-defined type `Msg` (the text
    has to read them as `x.value`, see `struct_text`)."""
    sem = semantics if semantics is not None else rtamt.Semantics.STANDARD
    # the offline-only / online-only classes, or (for one text in three, chosen by the text so that a replay makes the same
    # choice) the class that owns both interpreters
    import zlib
    both = semantics is not None or (not single and zlib.crc32(text.encode("utf-8")) % 3 == 0)     # `single`: explain() exists on the offline-only class
    if kind == "offd":
        spec = rtamt.StlDiscreteTimeSpecification(semantics=sem) if both else rtamt.StlDiscreteTimeOfflineSpecification()
    elif kind == "ond":
        spec = rtamt.StlDiscreteTimeSpecification(semantics=sem) if both else rtamt.StlDiscreteTimeOnlineSpecification()
    elif kind == "bothd":
        spec = rtamt.StlDiscreteTimeSpecification(semantics=sem)
    elif kind == "offc":
        spec = rtamt.StlDenseTimeSpecification(semantics=sem) if both else rtamt.StlDenseTimeOfflineSpecification()
    elif kind == "onc":
        spec = rtamt.StlDenseTimeSpecification(semantics=sem) if both else rtamt.StlDenseTimeOnlineSpecification()
    else:
        raise HarnessError("unknown monitor kind " + kind)
    if struct:
        spec.import_module("harness.msgs", "Msg")
    for v in variables:
        spec.declare_var(v, "Msg" if v in struct else "float")
    for v in extra_decl:
        spec.declare_var(v, "float")
    for (name, typ, val) in consts:
        spec.declare_const(name, typ, val)
    if io:
        for v, t in io.items():
            if zlib.crc32((text + v).encode("utf-8")) % 4 == 0 and t in ("input", "output"):
                # the io type is changed after it has been set to the other one: the last call is the one that counts
                spec.set_var_io_type(v, "output" if t == "input" else "input")
            spec.set_var_io_type(v, t)
    if unit is not None:
        spec.unit = unit
    if sampling is not None:
        spec.set_sampling_period(*sampling)
    for s in sub_specs:
        spec.add_sub_spec(s)
    spec.spec = text
    return spec


def name_collisions(spec):
    """Nodes of the parsed specification that print the same name although they differ in class, interval (numbers and units),
    comparison operator, value, variable or operands.  The online interpreters store one operator object per node name, and the
    model keys them by the formula: it relies on the printed name being injective."""
    seen, out = {}, []

    def key(n):
        k = [type(n).__name__]
        for a in ("begin", "end", "begin_unit", "end_unit", "operator", "val", "var", "field"):
            if hasattr(n, a):
                k.append((a, str(getattr(n, a))))
        k.append(tuple(key(c) for c in getattr(n, "children", [])))
        return tuple(k)

    def walk(n):
        for c in getattr(n, "children", []):
            walk(c)
        nm, kk = getattr(n, "name", None), key(n)
        if nm in seen and seen[nm] != kk:
            out.append(nm)
        seen.setdefault(nm, kk)
    for s in spec.ast.specs:
        walk(s)
    return out


def eval_offline_discrete(text, variables, data, n, time=None, limit=20.0, timeout_is_outcome=False, **kw):
    """Returns outcome with payload = list of [t, v] as returned by evaluate()."""
    struct = kw.get("struct", ())

    def go():
        spec = make_spec("offd", struct_text(text, struct), variables, **kw)
        spec.parse()
        ds = {"time": list(time) if time is not None else list(range(n))}
        for v in data:
            ds[v] = wrap(data[v], v in struct)
        return spec.evaluate(ds)
    return guarded(go, limit, timeout_is_outcome)


def twice(text):
    """One specification text in four is pastified twice (pastify() of a specification without future operators is the identity)."""
    import zlib
    return zlib.crc32(("twice:" + text).encode()) % 4 == 0


def run_online_discrete(text, variables, data, n, pastify=False, time=None, limit=20.0, timeout_is_outcome=False, extra_entries=None, **kw):
    """payload = list of update() return values, one per step.  `extra_entries`: (position, name) - an entry that is not an input
    of the specification (an unused log column, the output variable) is put at that position of every row: it has to be ignored."""
    struct = kw.get("struct", ())

    def go():
        from .msgs import Msg
        spec = make_spec("ond", struct_text(text, struct), variables, **kw)
        spec.parse()
        if pastify:
            spec.pastify()
            if twice(text):
                spec.pastify()
        outs = []
        for i in range(n):
            t = time[i] if time is not None else i
            row = [(v, Msg(data[v][i]) if v in struct else data[v][i]) for v in data]
            if extra_entries:
                row.insert(min(extra_entries[0], len(row)), (extra_entries[1], 7.0))
            outs.append(spec.update(t, row))
        return outs
    return guarded(go, limit, timeout_is_outcome)
