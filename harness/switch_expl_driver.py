"""After the repair `for spec in self.spec.specs[-1:]:` has landed: rewrite the section `the current source` of GenExplDrv.lean."""
import sys
p = sys.argv[1]
s = open(p).read()
k = s.index("-/", s.index("  SWITCH.  Everything above"))
head, tail = s[:k], s[k:]
tail = (tail.replace("explainTermOf itAll", "explainTermOf itLast")
            .replace("genExplDrv_explain_of_all", "genExplDrv_explain_of_last")
            .replace("liftEx (explainDriverU σ n specs)", "liftEx (explainDriverLastU σ n specs)")
            .replace("C20_driver_of_all", "C20_driver_of_last")
            .replace("(hmem : φ ∈ specs)", "(hmem : φ ∈ lastSpec specs)"))
open(p, "w").write(head + tail)
