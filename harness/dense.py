"""Dense-time side of the checks: signal generators (piecewise-constant, per-variable unaligned
break-points on a 1/8 grid), adapters to the real dense-time offline / online monitors, the query
of the Lean reference semantics `rhoD` (Rtamt/Dense/Ref.lean) and the comparison of sample lists
as right-continuous step functions.

Bounds: the core formula carries natural numbers k; in dense time they denote k * SCALE time
units (the specification text gets the decimal of k*SCALE, the model is told `scale`)."""
from fractions import Fraction
from . import common, formula as F, impl
from .common import f2b
from .engine import Violation, Ctx

SCALE = Fraction(1, 4)
GRID = Fraction(1, 8)
VARS = ["x", "y", "z"]

DENSE_OFF = {"arith", "fn", "cmp", "bool", "iffxor", "not", "past_c", "ufuture", "bpast", "bfuture", "since", "until", "bsince", "buntil"}
DENSE_ON = {"arith", "fn", "cmp", "bool", "iffxor", "not", "past_c", "bpast", "since", "bsince"}


class DGen(F.Gen):
    """Dense time has no prev/next/rise/fall: group 'past_c' = unbounded once/historically only."""

    def formula(self, d):
        r = self.r
        groups = [g for g in ("bool", "iffxor", "past_c", "ufuture", "bpast", "bfuture", "since", "until", "bsince", "buntil", "not")
                  if g in self.allow] if d > 0 else []
        if not groups or r.random() < 0.22:
            return ("b", r.choice(F.CMP), self.term(min(d, 2)), self.term(min(d, 1)))
        g = r.choice(groups)
        sub = lambda: self.formula(d - 1)  # noqa: E731
        if g == "past_c":
            return ("t1", r.choice(["once", "hist"]), sub())
        if g == "not":
            return ("u", "not", sub())
        if g == "bool":
            return ("b", r.choice(["and", "or", "implies"]), sub(), sub())
        if g == "iffxor":
            return ("b", r.choice(["iff", "xor"]), sub(), sub())
        if g == "ufuture":
            return ("t1", r.choice(["ev", "alw"]), sub())
        if g == "since":
            return ("t2", "since", sub(), sub())
        if g == "until":
            return ("t2", "until", sub(), sub())
        a, b = self.bounds()
        if g == "bpast":
            return ("tb1", r.choice(["once", "hist"]), a, b, sub())
        if g == "bfuture":
            return ("tb1", r.choice(["ev", "alw"]), a, b, sub())
        if g == "bsince":
            return ("tb2", "since", a, b, sub(), sub())
        return ("tb2", "until", a, b, sub(), sub())


def bound_txt(k):
    q = Fraction(k) * SCALE
    return ("%d" % q) if q.denominator == 1 else repr(float(q))


def spec_text(f):
    return "out = " + F.to_text(f, bound=bound_txt)


def gen_signal(rng, start, nmax=8, end=None):
    """[(time Fraction, value float)] strictly increasing times on the GRID."""
    n = rng.randint(1, nmax)
    t = Fraction(start)
    vals = (-3.0, -2.0, -1.0, -0.5, 0.0, 0.5, 1.0, 2.0, 3.0, 4.0)
    pool = rng.sample(list(vals), rng.choice([2, 3, 10]))
    out = []
    for i in range(n):
        out.append((t, rng.choice(pool)))
        t += GRID * rng.choice([1, 2, 2, 3, 4, 4, 6, 8])
    if end is not None and out[-1][0] < end:
        out.append((Fraction(end), rng.choice(pool)))
    return out


def gen_signals(rng, vs, aligned_start=True):
    start = Fraction(0)
    sig = {}
    for v in vs:
        s0 = start if aligned_start else start + GRID * rng.choice([0, 0, 2, 4, 8])
        sig[v] = gen_signal(rng, s0)
    # the harness ends all signals at a common last time stamp (the end of the input domain)
    end = max(s[-1][0] for s in sig.values())
    for v in vs:
        if sig[v][-1][0] < end:
            sig[v] = sig[v] + [(end, rng.choice((-1.0, 0.0, 1.0, 2.0)))]
    return sig


def py_sig(s):
    return [[float(t), v] for (t, v) in s]


def proto_sigs(sig):
    return " | ".join("%s:%s" % (v, ",".join("%d/%d@%d" % (t.numerator, t.denominator, f2b(x)) for (t, x) in sig[v])) for v in sorted(sig))


def model_query(items):
    """items: (formula, sig, query times[Fraction]) -> list of (values|None list, dom, end)."""
    lines = []
    for f, sig, ts in items:
        vs = F.variables(f)
        lines.append("dense | %d/%d | %s | %s | %s" % (SCALE.numerator, SCALE.denominator, F.to_proto(f),
                                                     " ".join("%d/%d" % (t.numerator, t.denominator) for t in ts),
                                                     proto_sigs({v: sig[v] for v in vs})))
    res = []
    for o, ln in zip(common.driver_run(lines), lines):
        if o.startswith("undef"):
            body, tail = "", o.split("|")[1]
            nq = len(ln.split("|")[3].split())
            d, e = tail.split()
            res.append(([float("nan")] * nq, Fraction(d), None if e == "inf" else Fraction(e)))
            continue
        if not o.startswith("ok "):
            raise common.HarnessError("dense model: " + o + " on: " + ln)
        body, tail = o[3:].split("|")
        vals = [None if x == "U" else common.b2f(x) for x in body.split()]
        d, e = tail.split()
        res.append((vals, Fraction(d), None if e == "inf" else Fraction(e)))
    return res


def alg_query(items, cmd="densealg"):
    """items: (formula, sig) -> the sample list of the mirror of the dense offline list algorithms (Rtamt/Dense/Alg.lean), or
    with cmd="densealggen" of the visitor translated from the source (GeneratedDense.lean) run under the semantics of Dn.lean:
    ("ok", [(Fraction | inf, float)]) | ("err", kind) | ("undef",)."""
    lines = ["%s | %d/%d | %s | %s" % (cmd, SCALE.numerator, SCALE.denominator, F.to_proto(f), proto_sigs(sig)) for f, sig in items]
    res = []
    for o, ln in zip(common.driver_run(lines), lines):
        if o.startswith("undef"):
            res.append(("undef",))
        elif o.startswith("err "):
            res.append(("err", o[4:].strip()))
        elif o.startswith("ok"):
            out = []
            for it in o[2:].split():
                t, v = it.split("@")
                out.append((float("inf") if t == "inf" else Fraction(t), common.b2f(v)))
            res.append(("ok", out))
        else:
            raise common.HarnessError("dense mirror: " + o + " on: " + ln)
    return res


def same_samples(impl_res, model):
    """The list `evaluate()` returned and the mirror's list: same time stamps, same values (as doubles; -0.0 = 0.0)."""
    if len(impl_res) != len(model):
        return False
    for p, (t, v) in zip(impl_res, model):
        pt = float("inf") if p[0] == float("inf") else Fraction(p[0])
        if pt != t or not common.num_eq(p[1], v):
            return False
    return True


def step_value(samples, t):
    """Value of the sample list read as a right-continuous step function; None before the first sample."""
    cur = None
    for (ts, v) in samples:
        if ts <= t:
            cur = v
        else:
            break
    return cur


def eval_offline(f, sig, semantics=None, io=None, unit=None, text=None, extra=None):
    vs = sorted(sig)
    text = text or spec_text(f)

    def go():
        spec = impl.make_spec("offc", text, vs, semantics=semantics, io=io, unit=unit, **(extra or {}))
        spec.parse()
        return spec.evaluate(*[[v, py_sig(sig[v])] for v in vs])
    return text, impl.guarded(go)


def chunk_signal(s, cuts):
    """Split a signal at the given time stamps (each chunk holds the samples with cut[i-1] <= t < cut[i])."""
    chunks, cur, k = [], [], 0
    for (t, v) in s:
        while k < len(cuts) and t >= cuts[k]:
            chunks.append(cur)
            cur = []
            k += 1
        cur.append((t, v))
    chunks.append(cur)
    while k < len(cuts):
        chunks.append([])
        k += 1
    return chunks


def online_chunks(sig, cuts):
    """The batches of every variable for every update: (number of updates, {variable: [batch, ...]})."""
    vs = sorted(sig)
    if isinstance(cuts, dict):
        # per-variable chunking; an entry "@v" places the chunks of v at the given (increasing) update indices,
        # the other updates deliver an empty batch for v
        nup = max([len(c) for k, c in cuts.items() if not k.startswith("@")] +
                  [max(c) for k, c in cuts.items() if k.startswith("@") and not k.startswith("@@") and c]) + 1
        chunks = {}
        for v in vs:
            ch = chunk_signal(sig[v], cuts[v])
            pos = cuts.get("@" + v)
            if pos and len(pos) == len(ch):
                row = [[] for _ in range(nup)]
                for k_, c_ in zip(pos, ch):
                    row[k_] = c_
                chunks[v] = row
            else:
                chunks[v] = ch + [[] for _ in range(nup - len(ch))]
    else:
        nup = len(cuts) + 1
        chunks = {v: chunk_signal(sig[v], cuts) for v in vs}
    return nup, chunks


def alg_online_query(items, cmd="denseon"):
    """items: (formula, sig, cuts) -> what the mirror of the dense online operation classes (Rtamt/Dense/AlgOn.lean) - or with
    cmd="denseongen" the classes translated from the source (GeneratedDenseOn.lean) run under DnOn.lean - returns
    for every update: ("ok", [[(Fraction | inf, float)], ...]) | ("err", kind) | ("undef",)."""
    lines = []
    for f, sig, cuts in items:
        nup, chunks = online_chunks(sig, cuts)
        fields = []
        for i in range(nup):
            parts = ["%s:%s" % (v, ",".join("%d/%d@%d" % (t.numerator, t.denominator, f2b(x)) for (t, x) in chunks[v][i]))
                     for v in sorted(sig) if chunks[v][i]]
            fields.append(" & ".join(parts) if parts else "-")
        lines.append("%s | %d/%d | %s | %s" % (cmd, SCALE.numerator, SCALE.denominator, F.to_proto(f), " | ".join(fields)))
    res = []
    for o, ln in zip(common.driver_run(lines), lines):
        if o.startswith("undef"):
            res.append(("undef",))
        elif o.startswith("err "):
            res.append(("err", o[4:].strip()))
        elif o.startswith("ok"):
            outs = []
            for part in o[2:].split(";"):
                part = part.strip()
                row = []
                if part and part != "-":
                    for it in part.split():
                        t, v = it.split("@")
                        row.append((float("inf") if t == "inf" else Fraction(t), common.b2f(v)))
                outs.append(row)
            res.append(("ok", outs))
        else:
            raise common.HarnessError("dense online mirror: " + o + " on: " + ln)
    return res


def prog_online_query(items):
    """items: (list of inlined assertions, sig, cuts) -> what the dense-time online INTERPRETER as translated from the source
    (operator dictionary keyed by name, memo, several assertions, constants_sent: GeneratedGlueDn.lean under GlueDn.lean, proved equal
    to the mirror ProgramOn.lean) returns for every update: ("ok", [[(Fraction | inf, float)], ...]) | ("err", kind) | ("undef",)."""
    lines = []
    for specs, sig, cuts in items:
        nup, chunks = online_chunks(sig, cuts)
        fields = []
        for i in range(nup):
            parts = ["%s:%s" % (v, ",".join("%d/%d@%d" % (t.numerator, t.denominator, f2b(x)) for (t, x) in chunks[v][i]))
                     for v in sorted(sig) if chunks[v][i]]
            fields.append(" & ".join(parts) if parts else "-")
        lines.append("denseprogen | %d/%d | %s | %s" % (SCALE.numerator, SCALE.denominator, " ## ".join(F.to_proto(f) for f in specs),
                                                        " | ".join(fields)))
    res = []
    for o, ln in zip(common.driver_run(lines), lines):
        if o.startswith("undef"):
            res.append(("undef",))
        elif o.startswith("err "):
            res.append(("err", o[4:].strip()))
        elif o.startswith("ok"):
            outs = []
            for part in o[2:].split(";"):
                part = part.strip()
                row = []
                if part and part != "-":
                    for it in part.split():
                        t, v = it.split("@")
                        row.append((float("inf") if t == "inf" else Fraction(t), common.b2f(v)))
                outs.append(row)
            res.append(("ok", outs))
        else:
            raise common.HarnessError("dense online interpreter (translated): " + o + " on: " + ln)
    return res


def flush_online_mirror(ctx):
    """Compare the runs recorded in ctx.pending_mirror (formula, signals, cuts, text, outcome of the real monitor) with the
    mirror of the online operation classes: every list every update() returned, sample by sample."""
    pend = getattr(ctx, "pending_mirror", [])
    ctx.pending_mirror = []
    if not pend:
        return
    for which, cmd, stream in (("the operation classes translated from the source (GeneratedDenseOn.lean under DnOn.lean)", "denseongen",
                                "on-c/translated"), (None, "denseon", "on-c/mirror")):
        if which is None:
            break
        for (f, sig, cuts, text, out), m in zip(pend, alg_online_query([(f, sig, cuts) for f, sig, cuts, _, _ in pend], cmd=cmd)):
            ctx.count("on-translated:" + m[0])
            if m[0] == "undef" or m[0] == "err":
                # NaN samples; exceptions: the kinds differ between the float `last` of case 1 and the mirror's TypeError
                if not (m[0] == "err" and out[0] == "ok" and not any(p[1] != p[1] for row in out[1] for p in row)):
                    continue
            if out[0] == "ok" and any(p[1] != p[1] for row in out[1] for p in row):
                continue
            if out[0] == "ok" and m[0] == "ok":
                same = len(out[1]) == len(m[1]) and all(same_samples(a, b) for a, b in zip(out[1], m[1]))
            else:
                same = out[0] != "ok" and m[0] == "err"
            if not same:
                rep = {"monitor": "onc", "spec": text, "formula": F.to_proto(f), "signals": sig_rep(sig),
                       "cuts": ({k: [str(c) for c in cs] for k, cs in cuts.items()} if isinstance(cuts, dict) else [str(c) for c in cuts]),
                       "impl": out, "translated": [[[str(t), v] for t, v in row] for row in m[1]] if m[0] == "ok" else list(m)}
                ctx.diffs.append(Violation("%s return %r, update() returned %r: %s"
                                           % (which, m[1] if m[0] == "ok" else m, out[1] if out[0] == "ok" else out[1:], text), rep,
                                           failing_input=False, stream=stream))
    for (f, sig, cuts, text, out), m in zip(pend, alg_online_query([(f, sig, cuts) for f, sig, cuts, _, _ in pend])):
        ctx.count("on-mirror:" + m[0])
        if m[0] == "undef" or (m[0] == "err" and m[1] == "type"):
            continue          # NaN samples / the float `last` of case 1 of the online intersection: outside the mirror
        if out[0] == "ok" and any(p[1] != p[1] for row in out[1] for p in row):
            ctx.count("on-mirror:nan")
            continue          # inf - inf somewhere: outside the domain of the semantics and of the mirror (`vne`)
        if out[0] == "ok" and m[0] == "ok":
            same = len(out[1]) == len(m[1]) and all(same_samples(a, b) for a, b in zip(out[1], m[1]))
        else:
            same = out[0] != "ok" and m[0] == "err"
        if not same:
            rep = {"monitor": "onc", "spec": text, "formula": F.to_proto(f), "signals": sig_rep(sig),
                   "cuts": ({k: [str(c) for c in cs] for k, cs in cuts.items()} if isinstance(cuts, dict) else [str(c) for c in cuts]),
                   "impl": out, "mirror": [[[str(t), v] for t, v in row] for row in m[1]] if m[0] == "ok" else list(m)}
            ctx.diffs.append(Violation("the mirror of the dense online operation classes (Dense/AlgOn.lean) returns %r, update() returned %r: %s"
                                       % (m[1] if m[0] == "ok" else m, out[1] if out[0] == "ok" else out[1:], text), rep,
                                       failing_input=False, stream="on-c/mirror"))


def run_online(f, sig, cuts, pastify=False, text=None, reset_after=None, semantics=None, io=None, consts=()):
    """Feed the signals in len(cuts)+1 updates; returns the list of returned sample lists."""
    vs = sorted(sig)
    text = text or spec_text(f)

    def go():
        spec = impl.make_spec("onc", text, vs, semantics=semantics, io=io, consts=list(consts))
        spec.parse()
        if pastify:
            spec.pastify()
        nup, chunks = online_chunks(sig, cuts)
        outs = []
        omit = isinstance(cuts, dict) and bool(cuts.get("@@omit"))
        for i in range(nup):
            args = [[v, py_sig(chunks[v][i])] for v in vs]
            if omit and i > 0 and any(a[1] for a in args):
                # a variable without new samples is left out of the call (instead of being passed with an empty list)
                args = [a for a in args if a[1]]
            outs.append(spec.update(*args))
            if reset_after is not None and i == reset_after:
                spec.reset()
        return outs
    return text, impl.guarded(go)


def query_times(sig, f, impl_times, dom, end):
    pts = set()
    base = set(t for v in sig for (t, _) in sig[v])
    ks = sorted({0} | {Fraction(g[2]) * SCALE for g in F.subformulas(f) if g[0] in ("tb1", "tb2")}
                | {Fraction(g[3]) * SCALE for g in F.subformulas(f) if g[0] in ("tb1", "tb2")})
    for t in base:
        for k in ks:
            pts.add(t + k)
            pts.add(t - k)
    for t in impl_times:
        pts.add(Fraction(t))
    pts.add(dom)
    if end is not None:
        pts.add(end)
    pts = sorted(p for p in pts if p >= dom and (end is None or p <= end))
    mids = [(a + b) / 2 for a, b in zip(pts, pts[1:])]
    return sorted(set(pts) | set(mids))


def compare_offline(ctx, f, sig, stream, ctxname="C04"):
    """Run the dense offline monitor and compare with rhoD on the input domain. Returns Violation | None."""
    text, out = eval_offline(f, sig)
    rep = {"monitor": "offc", "spec": text, "formula": F.to_proto(f), "signals": {v: [[str(t), x] for t, x in sig[v]] for v in sig},
           "impl": out}
    if out[0] != "ok":
        return Violation("dense offline evaluate() raised %r: %s" % (out[1:], text), rep, stream=stream)
    res = out[1]
    times = [Fraction(p[0]) for p in res]
    if any(b < a for a, b in zip(times, times[1:])):
        return Violation("dense offline output time stamps decrease: %r: %s" % ([float(t) for t in times], text), rep, stream=stream)
    (_, dom, end), = model_query([(f, sig, [])])
    qs = query_times(sig, f, [t for t in times if t != float("inf")], dom, end)
    (vals, _, _), = model_query([(f, sig, qs)])
    rep.update({"domain": [str(dom), str(end)], "model_at": [[str(q), v] for q, v in zip(qs, vals)]})
    samples = [(Fraction(p[0]), p[1]) for p in res]
    if not res or Fraction(res[0][0]) != dom:
        first = res[0][0] if res else None
        return Violation("dense offline output starts at %r, the common input domain starts at %s: %s" % (first, dom, text), rep,
                         stream=stream)
    for q, mv in zip(qs, vals):
        iv = step_value(samples, q)
        if mv is None:
            raise common.HarnessError("model undefined inside the domain at %s for %s" % (q, text))
        if mv != mv or (iv is not None and iv != iv):
            ctx.skipped_undef += 1
            return None
        if iv is None or not common.num_eq(iv, mv):
            return Violation("dense offline value at t=%s is %r, the dense semantics gives %r: %s" % (q, iv, mv, text), rep, stream=stream)
    vs = [step_value(samples, q) for q in qs]
    if any(v not in (common.INF, -common.INF) for v in vs) or len(set(vs)) > 1:
        ctx.nontrivial.add((text, tuple((v, tuple(sig[v])) for v in sorted(sig))))
    return None


def compare_offline_batch(ctx, cases):
    """cases: dicts with f, sig, stream.  The same comparison as compare_offline with the model queried in two driver calls for
    all cases.  Yields (case, Violation | None)."""
    work = []
    for c in cases:
        f, sig = c["f"], c["sig"]
        if c.get("units_seed") is not None:
            # the same durations with explicit units on either / both bounds (the time stamps are seconds, default unit s)
            import random
            from .props import c08
            consts = []
            text, out = eval_offline(f, sig, text=c08.render(random.Random(c["units_seed"]), f, "s", int(SCALE * 10 ** 9), [], False, consts),
                                     unit="s", extra={"consts": consts})
        elif c.get("text"):
            text, out = eval_offline(f, sig, text=c["text"])
        else:
            text, out = eval_offline(f, sig)
        rep = {"sugar_text": c.get("text"), "units_seed": c.get("units_seed"), "monitor": "offc", "spec": text, "formula": F.to_proto(f), "signals": {v: [[str(t), x] for t, x in sig[v]] for v in sig},
               "impl": out}
        work.append((c, text, out, rep))
    doms = model_query([(c["f"], c["sig"], []) for c, _, _, _ in work])
    pend, results = [], {}
    for k, ((c, text, out, rep), (_, dom, end)) in enumerate(zip(work, doms)):
        if out[0] != "ok":
            results[k] = Violation("dense offline evaluate() raised %r: %s" % (out[1:], text), rep, stream=c["stream"])
            continue
        res = out[1]
        times = [Fraction(p[0]) for p in res]
        if any(b < a for a, b in zip(times, times[1:])):
            results[k] = Violation("dense offline output time stamps decrease: %r: %s" % ([float(t) for t in times], text), rep,
                                   stream=c["stream"])
            continue
        qs = query_times(c["sig"], c["f"], [t for t in times if t != float("inf")], dom, end)
        pend.append((k, qs, dom, end))
    vals_all = model_query([(work[k][0]["f"], work[k][0]["sig"], qs) for k, qs, _, _ in pend])
    for (k, qs, dom, end), (vals, _, _) in zip(pend, vals_all):
        c, text, out, rep = work[k]
        res = out[1]
        rep.update({"domain": [str(dom), str(end)], "model_at": [[str(q), v] for q, v in zip(qs, vals)]})
        samples = [(Fraction(p[0]), p[1]) for p in res]
        if not res or Fraction(res[0][0]) != dom:
            results[k] = Violation("dense offline output starts at %r, the common input domain starts at %s: %s"
                                   % (res[0][0] if res else None, dom, text), rep, stream=c["stream"])
            continue
        verdict = None
        for q, mv in zip(qs, vals):
            iv = step_value(samples, q)
            if mv is None:
                raise common.HarnessError("model undefined inside the domain at %s for %s" % (q, text))
            if mv != mv or (iv is not None and iv != iv):
                ctx.skipped_undef += 1
                verdict = "undef"
                break
            if iv is None or not common.num_eq(iv, mv):
                verdict = Violation("dense offline value at t=%s is %r, the dense semantics gives %r: %s" % (q, iv, mv, text), rep,
                                    stream=c["stream"])
                break
        if isinstance(verdict, Violation):
            results[k] = verdict
            continue
        if verdict is None:
            vs = [step_value(samples, q) for q in qs]
            if any(v not in (common.INF, -common.INF) for v in vs) or len(set(vs)) > 1:
                ctx.nontrivial.add((text, tuple((v, tuple(c["sig"][v])) for v in sorted(c["sig"]))))
        results[k] = None
    # the mirror of the list algorithms (M-alg): the very list, sample by sample
    todo = [k for k, (c, text, out, rep) in enumerate(work) if results.get(k) is None and out[0] == "ok"]
    for k, m in zip(todo, alg_query([(work[k][0]["f"], work[k][0]["sig"]) for k in todo])):
        c, text, out, rep = work[k]
        ctx.count("alg:" + m[0])
        if m[0] == "undef" or any(p[1] != p[1] for p in out[1]):
            continue
        if m[0] != "ok" or not same_samples(out[1], m[1]):
            ctx.diffs.append(Violation("the mirror of the dense offline list algorithms (Dense/Alg.lean) gives %r, evaluate() returned %r: %s"
                                       % (m[1] if m[0] == "ok" else m, out[1], text),
                                       dict(rep, mirror=[[str(t), v] for t, v in m[1]] if m[0] == "ok" else list(m)),
                                       failing_input=False, stream="off-c/mirror"))
    # the visitor as translated from the source on this run (GeneratedDense.lean), run by the model under Dn.lean
    for k, m in zip(todo, alg_query([(work[k][0]["f"], work[k][0]["sig"]) for k in todo], cmd="densealggen")):
        c, text, out, rep = work[k]
        ctx.count("alg-translated:" + m[0])
        if m[0] == "undef" or any(p[1] != p[1] for p in out[1]):
            continue
        if m[0] != "ok" or not same_samples(out[1], m[1]):
            ctx.diffs.append(Violation("the dense offline visitor translated from the source (GeneratedDense.lean under the Lean semantics "
                                       "of the Python subset) gives %r, evaluate() returned %r: %s"
                                       % (m[1] if m[0] == "ok" else m, out[1], text),
                                       dict(rep, translated=[[str(t), v] for t, v in m[1]] if m[0] == "ok" else list(m)),
                                       failing_input=False, stream="off-c/translated"))
    for k, (c, _, _, _) in enumerate(work):
        yield c, results.get(k)


def compare_mirror_only(ctx, cases):
    """Cases inside the region of a known finding: the implementation is not compared with `rhoD` there, but its list must
    still be the list the mirror of the list algorithms computes (the mirror follows the code, defects included)."""
    work = []
    for c in cases:
        text, out = eval_offline(c["f"], c["sig"])
        work.append((c, text, out))
    for (c, text, out), m in zip(work, alg_query([(c["f"], c["sig"]) for c, _, _ in work])):
        ctx.count("alg-known-region:" + m[0])
        if m[0] == "undef" or (out[0] == "ok" and any(p[1] != p[1] for p in out[1])):
            continue
        rep = {"monitor": "offc", "spec": text, "formula": F.to_proto(c["f"]), "signals": sig_rep(c["sig"]), "impl": out,
               "mirror": [[str(t), v] for t, v in m[1]] if m[0] == "ok" else list(m)}
        same = (out[0] == "ok" and m[0] == "ok" and same_samples(out[1], m[1])) or (out[0] != "ok" and m[0] == "err")
        if not same:
            ctx.diffs.append(Violation("the mirror of the dense offline list algorithms (Dense/Alg.lean) gives %r, evaluate() %r: %s"
                                       % (m[1] if m[0] == "ok" else m, out[1:] if out[0] != "ok" else out[1], text), rep,
                                       failing_input=False, stream="off-c/mirror"))
    for (c, text, out), m in zip(work, alg_query([(c["f"], c["sig"]) for c, _, _ in work], cmd="densealggen")):
        ctx.count("alg-translated-known-region:" + m[0])
        if m[0] == "undef" or (out[0] == "ok" and any(p[1] != p[1] for p in out[1])):
            continue
        same = (out[0] == "ok" and m[0] == "ok" and same_samples(out[1], m[1])) or (out[0] != "ok" and m[0] == "err")
        if not same:
            ctx.diffs.append(Violation("the dense offline visitor translated from the source gives %r, evaluate() %r: %s"
                                       % (m[1] if m[0] == "ok" else m, out[1:] if out[0] != "ok" else out[1], text),
                                       {"monitor": "offc", "spec": text, "formula": F.to_proto(c["f"]), "signals": sig_rep(c["sig"]),
                                        "impl": out, "translated": [[str(t), v] for t, v in m[1]] if m[0] == "ok" else list(m)},
                                       failing_input=False, stream="off-c/translated"))


# ======================================================================================
# dense-time streams of the other properties (called from harness/props/cNN.py)
# ======================================================================================
def step_equal(a, b, lo, hi, extra_pts=()):
    """Compare two sample lists as step functions on [lo, hi]. Returns None or (t, va, vb)."""
    pts = sorted({t for (t, _) in a if lo <= t <= hi} | {t for (t, _) in b if lo <= t <= hi} | {lo, hi} | set(extra_pts))
    pts = pts + [(x + y) / 2 for x, y in zip(pts, pts[1:])]
    for t in sorted(pts):
        va, vb = step_value(a, t), step_value(b, t)
        if va is None or vb is None:
            if va is not vb:
                return (t, va, vb)
            continue
        if va != va or vb != vb:
            continue
        if not common.num_eq(va, vb):
            return (t, va, vb)
    return None


def samples_of(res):
    return [(Fraction(p[0]), p[1]) for p in res if p[0] != float("inf")]


def sig_rep(sig):
    return {v: [[str(t), x] for t, x in sig[v]] for v in sig}


def sig_of_rep(obj):
    return {v: [(Fraction(t), float(x)) for t, x in s] for v, s in obj.items()}


def domain_of(f, sig):
    (_, dom, end), = model_query([(f, sig, [])])
    if end is None:          # formula without variables: the signals given still delimit what is compared
        end = max([s[-1][0] for s in sig.values()] + [dom])
    return dom, end


def online_flat(f, sig, cuts=(), **kw):
    text, out = run_online(f, sig, cuts if isinstance(cuts, dict) else list(cuts), **kw)
    if out[0] != "ok":
        return text, out
    return text, ("ok", [p for chunk in out[1] for p in chunk])


# -------------------------------------------------------------------------------- C18
def window_signals(rng, vs):
    """Unit-spaced signals whose values make the segment stacks of the sliding-window operators work: runs after an extreme
    sample, plateaus, a value strictly between two earlier ones."""
    from .props import c04
    n = rng.randint(5, 14)
    step = rng.choice([GRID, GRID, GRID * 2])        # several samples inside one window (bounds are multiples of 1/4)
    return {v: [(step * k, x) for k, x in enumerate(c04.pattern_values(rng, n))] for v in vs}


def law_stream(ctx):
    try:
        _law_stream(ctx)
    finally:
        flush_online_mirror(ctx)


def _law_stream(ctx):
    from .props import c18
    rng = ctx.subrng("laws-c")
    for _ in range(ctx.budget(120, 900)):
        mon = rng.choice(["offc", "offc", "onc"])
        g = DGen(rng, VARS[:2], DENSE_ON if mon == "onc" else DENSE_OFF, max_bound=rng.choice([2, 4]))
        laws = [l for l in c18.laws(rng, g, mon == "onc") if "expansion" not in l[0]]
        for name, lhs, rhs in laws:
            vs = sorted(set(F.variables(lhs)) | set(F.variables(rhs))) or ["x"]
            sig = window_signals(rng, vs) if rng.random() < 0.4 else gen_signals(rng, vs)
            ctx.evaluations += 1
            ctx.count("law:%s/%s" % (name, mon))
            # the online monitor is fed in several updates (the same way on both sides), also per variable and with variables
            # left out of a call
            cuts = []
            if mon == "onc" and rng.random() < 0.6:
                from .props import c05
                cuts = rng.choice(c05.chunkings(rng, sig, 8))
                ctx.count("law-online-chunked" + ("/per-variable" if isinstance(cuts, dict) else ""))
            v = check_law(ctx, mon, name, lhs, rhs, sig, cuts)
            if v is None:
                ctx.traces_validated += 1
            else:
                ctx.violations.append(v)
                if len(ctx.violations) >= 3:
                    return


def window_law_stream(ctx):
    try:
        _window_law_stream(ctx)
    finally:
        flush_online_mirror(ctx)


def _window_law_stream(ctx):
    """The bounded dualities with wide windows directly over a variable (or a predicate), on signals with several samples inside a
    window: the once / historically (and eventually / always) implementations are twins of each other and must stay twins."""
    rng = ctx.subrng("laws-window")
    for _ in range(ctx.budget(200, 1200)):
        mon = rng.choice(["onc", "onc", "offc"])
        x = ("v", rng.choice(VARS[:2]))
        p = x if rng.random() < 0.6 else ("b", rng.choice(["ge", "le"]), x, ("c", rng.choice([0.0, 1.0, 2.0])))
        a = rng.randint(0, 2)
        b = a + rng.randint(2, 6)
        if mon == "onc" or rng.random() < 0.5:
            name, lhs, rhs = "not-once[a,b]", ("u", "not", ("tb1", "once", a, b, p)), ("tb1", "hist", a, b, ("u", "not", p))
        else:
            name, lhs, rhs = "not-ev[a,b]", ("u", "not", ("tb1", "ev", a, b, p)), ("tb1", "alw", a, b, ("u", "not", p))
        sig = window_signals(rng, F.variables(lhs))
        ctx.evaluations += 1
        ctx.count("law:%s/%s/window" % (name, mon))
        v = check_law(ctx, mon, name, lhs, rhs, sig)
        if v is None:
            ctx.traces_validated += 1
        else:
            ctx.violations.append(v)
            if len(ctx.violations) >= 3:
                return


def check_law(ctx, mon, name, lhs, rhs, sig, cuts=()):
    cuts = cuts if isinstance(cuts, dict) else list(cuts)
    if mon == "offc":
        tl, l = eval_offline(lhs, sig)
        tr, r = eval_offline(rhs, sig)
    else:
        tl, l0 = run_online(lhs, sig, cuts)
        tr, r0 = run_online(rhs, sig, cuts)
        if not hasattr(ctx, "pending_mirror"):
            ctx.pending_mirror = []
        ctx.pending_mirror += [(lhs, sig, cuts, tl, l0), (rhs, sig, cuts, tr, r0)]
        l = ("ok", [p for chunk in l0[1] for p in chunk]) if l0[0] == "ok" else l0
        r = ("ok", [p for chunk in r0[1] for p in chunk]) if r0[0] == "ok" else r0
    from .props import c05 as _c05
    rep = {"law": name, "monitor": mon, "lhs": tl, "rhs": tr, "lhs_proto": F.to_proto(lhs), "rhs_proto": F.to_proto(rhs),
           "signals": sig_rep(sig), "cuts": _c05.cuts_txt(cuts), "impl_lhs": l, "impl_rhs": r}
    if l[0] != "ok" or r[0] != "ok":
        return Violation("law %s on the %s monitor: evaluation raised %r / %r (%s)" % (name, mon, l[:2], r[:2], tl), rep, stream="laws-c")
    a, b = samples_of(l[1]), samples_of(r[1])
    dom, end = domain_of(lhs, sig)
    if mon == "onc":
        if not a or not b:
            return None
        lo, hi = max(a[0][0], b[0][0]), min(a[-1][0], b[-1][0])
    else:
        lo, hi = dom, end
    if hi is None or lo > hi:
        return None
    d = step_equal(a, b, lo, hi)
    if d:
        return Violation("law %s fails on the %s monitor at t=%s: lhs %r, rhs %r (%s)" % (name, mon, d[0], d[1], d[2], tl), rep, stream="laws-c")
    ctx.nontrivial.add((name, mon, tl, str(rep["signals"])))
    return None


def replay_law(ctx, obj):
    cuts = obj.get("cuts") or []
    cuts = {v: ([int(c) for c in cs] if v.startswith("@") else [Fraction(c) for c in cs]) for v, cs in cuts.items()} \
        if isinstance(cuts, dict) else [Fraction(c) for c in cuts]
    v = check_law(Ctx(ctx.id, ctx.tier, ctx.seed), obj["monitor"], obj["law"], F.from_proto(obj["lhs_proto"]),
                  F.from_proto(obj["rhs_proto"]), sig_of_rep(obj["signals"]), cuts)
    return (v is None), (v.what if v else "both sides agree")


# -------------------------------------------------------------------------------- C07
def sign_stream(ctx):
    """Batched: the Boolean forms, the domains and the Boolean model values of all cases are obtained in three driver calls."""
    rng = ctx.subrng("sign-c")
    cases = []
    for k in range(ctx.budget(400, 4000)):
        mon = rng.choice(["offc", "offc", "onc"])
        allow = (DENSE_ON if mon == "onc" else DENSE_OFF) - {"iffxor"}
        g = DGen(rng, VARS[:2], allow, max_bound=rng.choice([2, 4, 6]))
        if k % 3 == 0 and mon == "offc":
            # one bounded binary temporal operator with a positive lower bound over predicates (the decomposition of
            # until[a,b] / since[a,b] into eventually/always parts), possibly negated or under another operator
            a = rng.randint(1, 4)
            f = ("tb2", rng.choice(["until", "since"]), a, a + rng.randint(0, 4), g.formula(rng.choice([0, 1])), g.formula(rng.choice([0, 1])))
            if rng.random() < 0.3:
                f = ("u", "not", f)
        else:
            f = g.formula(rng.choice([1, 2, 3]))
        vs = F.variables(f) or ["x"]
        cases.append((mon, f, gen_signals(rng, vs)))
    bforms = [F.from_proto(o[3:]) for o in common.driver_run(["ia | outRob | %s | %s" % (",".join(F.variables(f)), F.to_proto(f))
                                                              for _, f, _ in cases])]
    doms = model_query([(f, sig, []) for _, f, sig in cases])
    pend = []
    for (mon, f, sig), bf, (_, dom, end) in zip(cases, bforms, doms):
        if end is None:
            end = max([s_[-1][0] for s_ in sig.values()] + [dom])
        ctx.evaluations += 1
        ctx.count("monitor:" + mon)
        text, out = eval_offline(f, sig) if mon == "offc" else online_flat(f, sig)
        rep = {"monitor": mon, "spec": text, "formula": F.to_proto(f), "signals": sig_rep(sig), "impl": out}
        if out[0] != "ok":
            ctx.violations.append(Violation("%s raised %r on %s" % (mon, out[1:], text), rep, stream="sign-c"))
            if len(ctx.violations) >= 3:
                return
            continue
        a = samples_of(out[1])
        if not a:
            continue
        lo, hi = (dom, end) if mon == "offc" else (a[0][0], a[-1][0])
        qs = [q for q in query_times(sig, f, [t for t, _ in a], dom, end) if lo <= q <= hi]
        pend.append((mon, f, sig, bf, a, qs, rep, text))
    sats = model_query([(bf, sig, qs) for (_, _, sig, bf, _, qs, _, _) in pend])
    for (mon, f, sig, bf, a, qs, rep, text), (sat, _, _) in zip(pend, sats):
        v = sign_verdict(ctx, mon, a, qs, sat, rep, text)
        if v is None:
            ctx.traces_validated += 1
        else:
            ctx.violations.append(v)
            if len(ctx.violations) >= 3:
                return


def sign_verdict(ctx, mon, a, qs, sat, rep, text):
    for q, s in zip(qs, sat):
        v = step_value(a, q)
        if v is None or s is None or v != v:
            continue
        if (v > 0 and s != common.INF) or (v < 0 and s != -common.INF):
            rep["model_boolean"] = [[str(x), y] for x, y in zip(qs, sat)]
            return Violation("%s monitor: value %r at t=%s but the specification is %s there: %s"
                             % (mon, v, q, "satisfied" if s == common.INF else "violated", text), rep, stream="sign-c")
    if any(step_value(a, q) not in (common.INF, -common.INF, 0.0, None) for q in qs):
        ctx.nontrivial.add((mon, text, str(rep["signals"])))
    return None


def boolean_form(f):
    """All predicates replaced by their +-inf form: rhoD of it is the Boolean semantics."""
    o = common.driver_run(["ia | outRob | %s | %s" % (",".join(F.variables(f)), F.to_proto(f))])[0]
    return F.from_proto(o[3:])


def check_sign(ctx, mon, f, sig):
    text, out = eval_offline(f, sig) if mon == "offc" else online_flat(f, sig)
    rep = {"monitor": mon, "spec": text, "formula": F.to_proto(f), "signals": sig_rep(sig), "impl": out}
    if out[0] != "ok":
        return Violation("%s raised %r on %s" % (mon, out[1:], text), rep, stream="sign-c")
    a = samples_of(out[1])
    if not a:
        return None
    dom, end = domain_of(f, sig)
    lo, hi = (dom, end) if mon == "offc" else (a[0][0], a[-1][0])
    qs = [q for q in query_times(sig, f, [t for t, _ in a], dom, end) if lo <= q <= hi]
    (sat, _, _), = model_query([(boolean_form(f), sig, qs)])
    for q, s in zip(qs, sat):
        v = step_value(a, q)
        if v is None or s is None or v != v:
            continue
        if (v > 0 and s != common.INF) or (v < 0 and s != -common.INF):
            rep["model_boolean"] = [[str(x), y] for x, y in zip(qs, sat)]
            return Violation("%s monitor: value %r at t=%s but the specification is %s there: %s"
                             % (mon, v, q, "satisfied" if s == common.INF else "violated", text), rep, stream="sign-c")
    if any(step_value(a, q) not in (common.INF, -common.INF, 0.0, None) for q in qs):
        ctx.nontrivial.add((mon, text, str(rep["signals"])))
    return None


def replay_sign(ctx, obj):
    v = check_sign(Ctx(ctx.id, ctx.tier, ctx.seed), obj["monitor"], F.from_proto(obj["formula"]), sig_of_rep(obj["signals"]))
    return (v is None), (v.what if v else "sign is sound")


# -------------------------------------------------------------------------------- C16
def extension_stream(ctx):
    rng = ctx.subrng("ext-c")
    for _ in range(ctx.budget(320, 2500)):
        g = DGen(rng, VARS[:2], DENSE_OFF - {"ufuture", "until"}, max_bound=rng.choice([2, 4]))
        f = g.formula(rng.choice([1, 2, 3]))
        if rng.random() < 0.3:
            # an unbounded past operator whose operand contains another one (horizon 0: nothing after t may matter)
            inner = ("t1", rng.choice(["once", "hist"]), g.formula(rng.choice([0, 1])))
            if rng.random() < 0.7:
                inner = ("b", rng.choice(["and", "or"]), inner, g.formula(rng.choice([0, 1])))
            f = ("t1", rng.choice(["once", "hist"]), inner)
        elif rng.random() < 0.45:
            # a bounded until / since with a positive lower bound directly over shallow operands (the code decomposes it into a
            # bounded eventually / once and a bounded always / historically of the unbounded operator): what lies beyond
            # t + b must not matter
            a_ = rng.randint(1, 4)
            opnd = lambda: ("v", rng.choice(VARS[:2])) if rng.random() < 0.5 else g.formula(rng.choice([0, 0, 1]))  # noqa: E731
            f = ("tb2", rng.choice(["until", "until", "until", "since"]), a_, a_ + rng.randint(0, 4), opnd(), opnd())
            if rng.random() < 0.3:
                f = ("u", "not", f)
        vs = F.variables(f) or ["x"]
        w1 = gen_signals(rng, vs)
        end1 = max(s[-1][0] for s in w1.values())
        w2 = {}
        for v in vs:
            tail = gen_signal(rng, end1 + GRID * rng.choice([1, 2, 4]), nmax=4)
            w2[v] = w1[v] + [(t, rng.choice((-9.0, 9.0, 100.0, -100.0, 0.0))) for (t, _) in tail]
        ctx.evaluations += 1
        ctx.count("stream:ext-c")
        if rng.random() < 0.2:
            # one bounded future operator directly over a shallow operand, its interval spelled with units (the conversion of the
            # two bounds must not depend on each other's unit: a too wide window reads beyond t + b)
            a_ = rng.randint(0, 4)
            f = ("tb1", rng.choice(["ev", "alw"]), a_, a_ + rng.randint(1, 4), g.formula(rng.choice([0, 0, 1])))
            if rng.random() < 0.3:
                f = ("b", rng.choice(["and", "or"]), f, g.formula(rng.choice([0, 1])))
            vs = F.variables(f) or ["x"]
            w1 = gen_signals(rng, vs)
            end1 = max(s_[-1][0] for s_ in w1.values())
            w2 = {}
            for v_ in vs:
                tail = gen_signal(rng, end1 + GRID * rng.choice([1, 2, 4]), nmax=4)
                w2[v_] = w1[v_] + [(t_, rng.choice((-9.0, 9.0, 100.0, -100.0, 0.0))) for (t_, _) in tail]
            us = rng.randint(0, 10 ** 6)
            # prefer a rendering whose interval carries two DIFFERENT explicit units
            import random as _random
            import re as _re
            from .props import c08 as _c08
            for _k in range(30):
                _t = _c08.render(_random.Random(us), f, "s", int(SCALE * 10 ** 9), [])
                _m = _re.search(r"\[[0-9.]+(s|ms|us|ns),[0-9.]+(s|ms|us|ns)\]", _t)
                if _m and _m.group(1) != _m.group(2):
                    break
                us = rng.randint(0, 10 ** 6)
        else:
            us = rng.randint(0, 10 ** 6) if rng.random() < 0.3 and any(x[0] in ("tb1", "tb2") for x in F.subformulas(f)) else None
        if us is not None:
            ctx.count("stream:ext-c/units")
        v = check_extension(ctx, f, w1, w2, us)
        if v is None:
            ctx.traces_validated += 1
        else:
            ctx.violations.append(v)
            if len(ctx.violations) >= 3:
                return


def dense_horizon(f):
    o = common.driver_run(["past | " + F.to_proto(strip_unsupported(f))])[0]
    return Fraction(int(o[3:].split("|")[0])) * SCALE if o.startswith("ok ") else None


def strip_unsupported(f):
    return f


def check_extension(ctx, f, w1, w2, units_seed=None):
    text = None
    if units_seed is not None:
        # the same durations with explicit units on either / both bounds (possibly two different units on one interval)
        import random
        from .props import c08
        text = c08.render(random.Random(units_seed), f, "s", int(SCALE * 10 ** 9), [])
    t1, o1 = eval_offline(f, w1, text=text)
    t2, o2 = eval_offline(f, w2, text=text)
    h = dense_horizon(f)
    rep = {"monitor": "offc", "units_seed": units_seed, "spec": t1, "formula": F.to_proto(f), "w1": sig_rep(w1), "w2": sig_rep(w2), "horizon": str(h),
           "impl_w1": o1, "impl_w2": o2}
    if o1[0] != "ok" or o2[0] != "ok":
        return Violation("dense offline raised %r / %r: %s" % (o1[:2], o2[:2], t1), rep, stream="ext-c")
    dom, end1 = domain_of(f, w1)
    if h is None or end1 is None or end1 - h <= dom:
        return None
    a, b = samples_of(o1[1]), samples_of(o2[1])
    hi = end1 - h - GRID / 2          # strictly inside: t + h < end of w1
    if hi < dom:
        return None
    d = step_equal(a, b, dom, hi)
    if d:
        return Violation("settled value at t=%s (horizon %s, end of w1 %s) changes from %r to %r when the signals are extended: %s"
                         % (d[0], h, end1, d[1], d[2], t1), rep, stream="ext-c")
    ctx.nontrivial.add((t1, str(rep["w1"])))
    return None


# -------------------------------------------------------------------------------- C10
def reset_stream(ctx):
    rng = ctx.subrng("reset-c")
    for _ in range(ctx.budget(80, 1200)):
        g = DGen(rng, VARS[:2], DENSE_ON, max_bound=rng.choice([2, 4]))
        f = g.formula(rng.choice([1, 2, 3]))
        vs = F.variables(f) or ["x"]
        pre = gen_signals(rng, vs)
        post = gen_signals(rng, vs)
        ctx.evaluations += 1
        ctx.count("stream:reset-c")
        useed = rng.randint(0, 10 ** 6) if rng.random() < 0.3 and any(x[0] in ("tb1", "tb2") for x in F.subformulas(f)) else None
        v = check_reset(ctx, f, pre, post, rng.random() < 0.15, useed)
        if v is None:
            ctx.traces_validated += 1
        else:
            ctx.violations.append(v)
            if len(ctx.violations) >= 3:
                return


def check_reset(ctx, f, pre, post, no_history, units_seed=None):
    vs = sorted(post)
    text = spec_text(f)
    if units_seed is not None:
        # the same durations with explicit units (default unit s): what reset() rebuilds must not depend on the spelling
        import random
        from .props import c08
        text = c08.render(random.Random(units_seed), f, "s", int(SCALE * 10 ** 9), [])

    def go():
        a = impl.make_spec("onc", text, vs)
        a.parse()
        if not no_history:
            a.update(*[[v, py_sig(pre[v])] for v in vs])
        a.reset()
        ra = a.update(*[[v, py_sig(post[v])] for v in vs])
        b = impl.make_spec("onc", text, vs)
        b.parse()
        rb = b.update(*[[v, py_sig(post[v])] for v in vs])
        return ra, rb
    out = impl.guarded(go)
    rep = {"monitor": "onc", "spec": text, "formula": F.to_proto(f), "pre": sig_rep(pre), "post": sig_rep(post),
           "no_history": no_history, "units_seed": units_seed, "impl": out}
    if out[0] != "ok":
        # a fresh monitor that raises on the post inputs alone is not a reset problem
        def fresh():
            b = impl.make_spec("onc", text, vs)
            b.parse()
            return b.update(*[[v, py_sig(post[v])] for v in vs])
        if impl.guarded(fresh)[0] != "ok":
            return None
        return Violation("dense online reset()/update() raised %r: %s" % (out[1:], text), rep, stream="reset-c")
    ra, rb = out[1]
    if [[float(p[0]), common.canon(p[1])] for p in ra] != [[float(p[0]), common.canon(p[1])] for p in rb]:
        return Violation("dense online: after reset() the monitor returns %r, a fresh one %r: %s" % (ra, rb, text), rep, stream="reset-c")
    if rb:
        ctx.nontrivial.add((text, str(rep["pre"]), str(rep["post"])))
    return None


def replay_reset(ctx, obj):
    v = check_reset(Ctx(ctx.id, ctx.tier, ctx.seed), F.from_proto(obj["formula"]), sig_of_rep(obj["pre"]), sig_of_rep(obj["post"]),
                    obj["no_history"], obj.get("units_seed"))
    return (v is None), (v.what if v else "reset monitor behaves like a fresh one")


# -------------------------------------------------------------------------------- C17
DENSE_UNSUPPORTED_BOTH = [("t1", "prev"), ("t1", "next"), ("t1", "sprev"), ("t1", "snext"), ("t1", "rise"), ("t1", "fall")]
DENSE_UNSUPPORTED_ONLINE = [("t1", "ev"), ("t1", "alw"), ("t2", "until"), ("tb1", "ev"), ("tb1", "alw"), ("tb2", "until")]


def wf_stream(ctx):
    from .props import c17
    rng = ctx.subrng("wf-c")
    for _ in range(ctx.budget(300, 2000)):
        mon = rng.choice(["offc", "onc"])
        g = DGen(rng, VARS[:2], DENSE_ON if mon == "onc" else DENSE_OFF, max_bound=4)
        f = g.formula(rng.choice([1, 2, 3]))
        bad = rng.random() < 0.5
        past = mon == "onc" and rng.random() < 0.35
        if bad:
            ops = DENSE_UNSUPPORTED_BOTH + (DENSE_UNSUPPORTED_ONLINE if mon == "onc" else [])
            if past:       # pastify() makes bounded eventually / always monitorable
                ops = [o for o in ops if o not in (("tb1", "ev"), ("tb1", "alw"))]
            f = c17.inject(rng, g, f, ops)
        vs = F.variables(f) or ["x"]
        sig = gen_signals(rng, vs)
        if not bad and rng.random() < 0.3:
            sig = {v: s[:1] for v, s in sig.items()}          # one-sample signals
        surplus = rng.random() < 0.3
        # the online monitor after pastify(): bounded future operators become supported; what dense time has no meaning for
        # (next, prev, rise, fall) must still be rejected - pastify() must not make it disappear
        if past and not bad and rng.random() < 0.6:
            g2 = DGen(rng, VARS[:2], DENSE_ON | {"bfuture"}, max_bound=4)
            f = g2.formula(rng.choice([1, 2, 3]))
            vs = F.variables(f) or ["x"]
            sig = gen_signals(rng, vs)
        ctx.evaluations += 1
        ctx.count("kind:%s-%s%s" % ("bad" if bad else "ok", mon, "-pastified" if past else ""))
        cuts = None
        if mon == "onc" and not bad and len(sig) > 0 and rng.random() < 0.6:
            # the input arrives in several update() calls, per variable, a variable without new samples left out of a call
            from .props import c05
            allc = c05.chunkings(rng, sig, 8)
            om = [c for c in allc if isinstance(c, dict) and c.get("@@omit")]
            cuts = rng.choice(om) if om and rng.random() < 0.5 else rng.choice(allc)
            ctx.count("ok-onc-chunked" + ("/per-variable" if isinstance(cuts, dict) else "") +
                      ("/omitted" if isinstance(cuts, dict) and cuts.get("@@omit") else ""))
        v = check_wf(ctx, mon, f, sig, bad, surplus, past, cuts)
        if v is None:
            ctx.traces_validated += 1
        else:
            ctx.violations.append(v)
            if len(ctx.violations) >= 3:
                return


def check_wf(ctx, mon, f, sig, bad, surplus, past=False, cuts=None):
    text = spec_text(f)
    vs = sorted(sig)
    if cuts:
        from .props import c05 as _c05
        _, out = run_online(f, sig, cuts, pastify=past)
        rep = {"kind": "ok-onc", "pastify": past, "spec": text, "formula": F.to_proto(f), "signals": sig_rep(sig), "surplus": False,
               "cuts": _c05.cuts_txt(cuts), "impl": out}
        ctx.nontrivial.add((rep["kind"], text, str(rep["signals"]), str(rep["cuts"])))
        if out[0] != "ok":
            return Violation("dense online monitor%s: well-formed use (input fed in several update() calls, chunking %s) raised %r: %s"
                             % (" after pastify()" if past else "", rep["cuts"], out[1:], text), rep, stream="wf-c")
        return None

    def go():
        spec = impl.make_spec(mon, text, vs, extra_decl=["unused1"] if surplus else [])
        spec.parse()
        if past:
            spec.pastify()
        args = [[v, py_sig(sig[v])] for v in vs]
        return spec.evaluate(*args) if mon == "offc" else spec.update(*args)
    out = impl.guarded(go)
    rep = {"kind": ("bad-" if bad else "ok-") + mon, "pastify": past, "spec": text, "formula": F.to_proto(f), "signals": sig_rep(sig),
           "surplus": surplus, "impl": out}
    ctx.nontrivial.add((rep["kind"], text, str(rep["signals"])))
    if bad and out[0] != "rtamt":
        return Violation("dense %s monitor%s: unsupported construct not rejected with RTAMTException (outcome %r): %s"
                         % (mon, " after pastify()" if past else "", out[:2] if out[0] != "ok" else "ok", text), rep, stream="wf-c")
    if not bad and out[0] != "ok":
        return Violation("dense %s monitor%s: well-formed use raised %r: %s" % (mon, " after pastify()" if past else "", out[1:], text), rep,
                         stream="wf-c")
    return None


def replay_wf(ctx, obj):
    mon = obj["kind"].split("-")[1]
    cuts = obj.get("cuts") or None
    if cuts:
        cuts = {v: ([int(c) for c in cs] if v.startswith("@") else [Fraction(c) for c in cs]) for v, cs in cuts.items()} \
            if isinstance(cuts, dict) else [Fraction(c) for c in cuts]
    v = check_wf(Ctx(ctx.id, ctx.tier, ctx.seed), mon, F.from_proto(obj["formula"]), sig_of_rep(obj["signals"]),
                 obj["kind"].startswith("bad"), obj["surplus"], bool(obj.get("pastify")), cuts)
    return (v is None), (v.what if v else "outcome as required")


# -------------------------------------------------------------------------------- C06
def ia_stream(ctx):
    """Batched (three driver calls for all cases)."""
    from .props import c06
    rng = ctx.subrng("ia-c")
    cases = []
    for k in range(ctx.budget(1500, 9000)):
        mon = rng.choice(["offc", "onc"])
        allow = DENSE_ON if mon == "onc" else DENSE_OFF
        g = DGen(rng, VARS, allow, max_bound=rng.choice([2, 4]))
        sem = rng.choice(list(c06.SEMS))
        if k % 3 == 0:
            # the predicate override itself: one to three simple predicates (== and !== as often as the orderings) over
            # small-integer signals, with an interface that makes at least one of them insensitive
            def pred():
                op = rng.choice(["eq", "ne", "eq", "ne", "lt", "le", "gt", "ge"])
                rhs = ("c", rng.choice([0.0, 1.0, 2.0])) if rng.random() < 0.6 else ("v", rng.choice(VARS[:2]))
                return ("b", op, ("v", rng.choice(VARS[:2])), rhs)
            f = pred()
            for _ in range(rng.choice([0, 1, 1, 2])):
                f = ("b", rng.choice(["and", "or", "implies"]), f, pred()) if rng.random() < 0.8 else ("u", "not", f)
            if rng.random() < 0.3:
                f = ("t1", rng.choice(["once", "hist"]), f)
            vs = F.variables(f) or ["x"]
            kind = rng.choice(["input", "output"])
            io = {v: kind for v in vs} if rng.random() < 0.6 else {v: rng.choice(["input", "output"]) for v in vs}
            nk = rng.randint(4, 10)
            sig = {v: [(GRID * 2 * i, float(rng.randint(-2, 2))) for i in range(nk)] for v in vs}
        else:
            f = g.formula(rng.choice([0, 1, 1, 2, 3]))
            vs = F.variables(f) or ["x"]
            io = {v: rng.choice(["input", "output"]) for v in vs if rng.random() < 0.8}
            sig = gen_signals(rng, vs)
        # the online monitor is fed in several updates, also with batches that differ between the variables and with
        # variables left out of a call (an operation that gets no new sample in an update must not return old ones)
        cuts = []
        if mon == "onc" and rng.random() < 0.6:
            from .props import c05
            cuts = rng.choice(c05.chunkings(rng, sig, 8))
        cases.append((mon, f, sig, sem, io, cuts))
    tfs = [F.from_proto(o[3:]) for o in common.driver_run(["ia | %s | %s | %s" % (sem, ",".join(v for v, t in io.items() if t == "input"),
                                                                                   F.to_proto(f)) for _, f, _, sem, io, _ in cases])]
    doms = model_query([(f, sig, []) for _, f, sig, _, _, _ in cases])
    pend = []
    for (mon, f, sig, sem, io, cuts), tf, (_, dom, end) in zip(cases, tfs, doms):
        if end is None:
            end = max([s_[-1][0] for s_ in sig.values()] + [dom])
        ctx.evaluations += 1
        ctx.count("monitor:%s/%s" % (mon, sem))
        kw = dict(semantics=c06.SEMS[sem], io=io)
        text, out = eval_offline(f, sig, **kw) if mon == "offc" else online_flat(f, sig, cuts, **kw)
        if cuts:
            ctx.count("ia-online-chunked" + ("/per-variable" if isinstance(cuts, dict) else ""))
        from .props import c05 as _c05
        rep = {"cuts": _c05.cuts_txt(cuts), "monitor": mon, "semantics": sem, "io": io, "spec": text, "formula": F.to_proto(f), "transformed": F.to_proto(tf),
               "signals": sig_rep(sig), "impl": out}
        if out[0] != "ok":
            # inf - inf (iff / xor / arithmetic over the +-inf of two insensitive predicates) is NaN in the code and undefined in the
            # semantics (DESIGN 2.1): where a sub-formula of the transformed formula takes the value NaN the driver reports every
            # model value as NaN, and what the monitor does there - also an exception out of a comparison with NaN - is not judged
            qs0 = [q for q in query_times(sig, f, [], dom, end) if dom <= q <= end]
            (vals0, _, _), = model_query([(tf, sig, qs0)])
            if any(v_ is not None and v_ != v_ for v_ in vals0):
                ctx.count("ia-c:raised-where-undefined(nan)")
                continue
            ctx.violations.append(Violation("dense %s monitor, %s semantics, io=%r raised %r: %s" % (mon, sem, io, out[1:], text), rep,
                                            stream="ia-c"))
            if len(ctx.violations) >= 3:
                return
            continue
        a = samples_of(out[1])
        if not a:
            continue
        lo, hi = (dom, end) if mon == "offc" else (a[0][0], a[-1][0])
        qs = [q for q in query_times(sig, f, [t for t, _ in a], dom, end) if lo <= q <= hi]
        rep["raw"] = out[1]
        pend.append((mon, sem, io, text, tf, sig, a, qs, rep, cuts))
    allvals = model_query([(tf, sig, qs) for (_, _, _, _, tf, sig, _, qs, _, _) in pend])
    # the mirrors of the list algorithms on the transformed formula (robustness semantics; the vacuity override is not mirrored)
    # (not where a sub-formula takes the value NaN - inf - inf under iff / xor / arithmetic of +-inf -: the driver reports such
    # cases as undefined, all model values NaN)
    clean = [p_ for p_, (vals_, _, _) in zip(pend, allvals) if not any(v_ is not None and v_ != v_ for v_ in vals_)]
    offs = [p_ for p_ in clean if p_[0] == "offc"]
    ons = [p_ for p_ in clean if p_[0] == "onc"]
    mirr = list(zip(offs, alg_query([(p_[4], p_[5]) for p_ in offs]))) + \
        [(p_, (m[0], [x for row in m[1] for x in row]) if m[0] == "ok" else m)
         for p_, m in zip(ons, alg_online_query([(p_[4], p_[5], p_[9]) for p_ in ons]))]
    # the interface-aware offline visitor as translated from the source (`densealggen` on the transformed formula: the predicate
    # override of the robustness semantics is `visitPredicate_outRob` of GeneratedDense.lean)
    for p_, m in zip(offs, alg_query([(p_[4], p_[5]) for p_ in offs], cmd="densealggen")):
        raw = p_[8]["raw"]
        ctx.count("ia-translated:offc/%s" % (m[0] if m[0] != "err" else "err-" + m[1]))
        if m[0] == "ok" and not any(x[1] != x[1] for x in raw) and not same_samples(raw, m[1]):
            ctx.diffs.append(Violation("the dense offline visitor translated from the source gives %r on the transformed formula, the monitor under %s "
                                       "semantics returned %r: %s" % (m[1], p_[1], raw, p_[3]),
                                       dict(p_[8], translated=[[str(t), v] for t, v in m[1]]), failing_input=False, stream="ia-c/translated"))
    # the interface-aware online classes as translated from the source (`denseongen` on the transformed formula: an insensitive
    # predicate of a robustness semantics is an `IAPredicateOperation` object of GeneratedDenseOn.lean)
    for p_, m in zip(ons, alg_online_query([(p_[4], p_[5], p_[9]) for p_ in ons], cmd="denseongen")):
        raw = p_[8]["raw"]
        ctx.count("ia-translated:onc/%s" % (m[0] if m[0] != "err" else "err-" + m[1]))
        flat = [x for row in m[1] for x in row] if m[0] == "ok" else None
        if m[0] == "ok" and not any(x[1] != x[1] for x in raw) and not same_samples(raw, flat):
            ctx.diffs.append(Violation("the dense online classes translated from the source give %r on the transformed formula, the monitor under %s "
                                       "semantics returned %r: %s" % (flat, p_[1], raw, p_[3]),
                                       dict(p_[8], translated=[[str(t), v] for t, v in flat]), failing_input=False, stream="ia-c/translated"))
    for (mon, sem, io, text, tf, sig, a, qs, rep, cuts), m in mirr:
        ctx.count("ia-mirror:%s/%s" % (mon, m[0] if m[0] != "err" else "err-" + m[1]))
        raw = rep["raw"]
        if m[0] == "ok" and not any(x[1] != x[1] for x in raw) and not same_samples(raw, m[1]):
            ctx.diffs.append(Violation("the mirror of the dense %s list algorithms on the transformed formula gives %r, the monitor under %s "
                                       "semantics returned %r: %s" % ("offline" if mon == "offc" else "online", m[1], sem, raw, text),
                                       dict(rep, mirror=[[str(t), v] for t, v in m[1]]), failing_input=False, stream="ia-c/mirror"))
    for (mon, sem, io, text, tf, sig, a, qs, rep, cuts), (vals, _, _) in zip(pend, allvals):
        bad = None
        for q, mv in zip(qs, vals):
            iv = step_value(a, q)
            if mv is None or iv is None or mv != mv or iv != iv:
                continue
            if not common.num_eq(iv, mv):
                rep["model_at"] = [[str(x), y] for x, y in zip(qs, vals)]
                bad = Violation("dense %s monitor, %s semantics, io=%r: value at t=%s is %r; standard evaluation with the insensitive "
                                "predicates replaced gives %r: %s" % (mon, sem, io, q, iv, mv, text), rep, stream="ia-c")
                break
        if bad is None:
            ctx.traces_validated += 1
            ctx.nontrivial.add((mon, sem, text, str(rep["signals"]), str(io)))
        else:
            ctx.violations.append(bad)
            if len(ctx.violations) >= 3:
                return


def check_ia(ctx, mon, f, sig, sem, io, cuts=()):
    from .props import c06
    kw = dict(semantics=c06.SEMS[sem], io=io)
    text, out = eval_offline(f, sig, **kw) if mon == "offc" else online_flat(f, sig, cuts, **kw)
    o = common.driver_run(["ia | %s | %s | %s" % (sem, ",".join(v for v, t in io.items() if t == "input"), F.to_proto(f))])[0]
    tf = F.from_proto(o[3:])
    rep = {"monitor": mon, "semantics": sem, "io": io, "spec": text, "formula": F.to_proto(f), "transformed": F.to_proto(tf),
           "signals": sig_rep(sig), "impl": out}
    if out[0] != "ok":
        (_, dom0, end0), = model_query([(f, sig, [])])
        if end0 is None:
            end0 = max([s_[-1][0] for s_ in sig.values()] + [dom0])
        qs0 = [q for q in query_times(sig, f, [], dom0, end0) if dom0 <= q <= end0]
        (vals0, _, _), = model_query([(tf, sig, qs0)])
        if any(v_ is not None and v_ != v_ for v_ in vals0):
            return None          # inf - inf somewhere: undefined (see ia_stream)
        return Violation("dense %s monitor, %s semantics, io=%r raised %r: %s" % (mon, sem, io, out[1:], text), rep, stream="ia-c")
    a = samples_of(out[1])
    if not a:
        return None
    dom, end = domain_of(f, sig)
    lo, hi = (dom, end) if mon == "offc" else (a[0][0], a[-1][0])
    qs = [q for q in query_times(sig, f, [t for t, _ in a], dom, end) if lo <= q <= hi]
    (vals, _, _), = model_query([(tf, sig, qs)])
    for q, mv in zip(qs, vals):
        iv = step_value(a, q)
        if mv is None or iv is None or mv != mv or iv != iv:
            continue
        if not common.num_eq(iv, mv):
            rep["model_at"] = [[str(x), y] for x, y in zip(qs, vals)]
            return Violation("dense %s monitor, %s semantics, io=%r: value at t=%s is %r; standard evaluation with the insensitive "
                             "predicates replaced gives %r: %s" % (mon, sem, io, q, iv, mv, text), rep, stream="ia-c")
    ctx.nontrivial.add((mon, sem, str(sorted(io.items())), text, str(rep["signals"])))
    # the mirrors of the list algorithms on the transformed formula (robustness semantics; the vacuity override is not mirrored)
    if mon == "offc":
        m, = alg_query([(tf, sig)])
        raw = out[1]
    else:
        m, = alg_online_query([(tf, sig, cuts)])
        raw = out[1]
        if m[0] == "ok":
            m = ("ok", [p for row in m[1] for p in row])
    ctx.count("ia-mirror:" + m[0])
    if m[0] == "ok" and not any(p[1] != p[1] for p in raw) and not same_samples(raw, m[1]):
        ctx.diffs.append(Violation("the mirror of the dense %s list algorithms on the transformed formula gives %r, the monitor under %s "
                                   "semantics returned %r: %s" % ("offline" if mon == "offc" else "online", m[1], sem, raw, text),
                                   dict(rep, mirror=[[str(t), v] for t, v in m[1]]), failing_input=False, stream="ia-c/mirror"))
    return None


def replay_ia(ctx, obj):
    cuts = obj.get("cuts") or []
    cuts = {v: ([int(c) for c in cs] if v.startswith("@") else [Fraction(c) for c in cs]) for v, cs in cuts.items()} \
        if isinstance(cuts, dict) else [Fraction(c) for c in cuts]
    v = check_ia(Ctx(ctx.id, ctx.tier, ctx.seed), obj["monitor"], F.from_proto(obj["formula"]), sig_of_rep(obj["signals"]),
                 obj["semantics"], obj["io"], cuts)
    return (v is None), (v.what if v else "IA result agrees with the model")


# -------------------------------------------------------------------------------- C08
def units_stream(ctx):
    rng = ctx.subrng("units-c")
    for _ in range(ctx.budget(60, 1000)):
        mon = rng.choice(["offc", "offc", "onc"])
        allow = ({"cmp", "arith", "bool", "not", "bpast", "bfuture", "buntil", "bsince"} if mon == "offc"
                 else {"cmp", "arith", "bool", "not", "bpast"})
        g = DGen(rng, VARS[:2], allow, max_bound=rng.choice([2, 4, 8]))
        for _k in range(30):
            f = g.formula(rng.choice([2, 3]))
            if any(x[0] in ("tb1", "tb2") for x in F.subformulas(f)):
                break
        vs = F.variables(f) or ["x"]
        sig = gen_signals(rng, vs)
        ctx.evaluations += 1
        ctx.count("monitor:" + mon)
        v = check_units(ctx, mon, f, sig, rng.randint(0, 10 ** 6))
        if v is None:
            ctx.traces_validated += 1
        else:
            ctx.violations.append(v)
            if len(ctx.violations) >= 3:
                return


def check_units(ctx, mon, f, sig, seed):
    import random
    from .props import c08
    rng = random.Random(seed)
    base_t, base = eval_offline(f, sig) if mon == "offc" else online_flat(f, sig)
    rep = {"monitor": mon, "formula": F.to_proto(f), "signals": sig_rep(sig), "baseline_spec": base_t, "baseline": base, "seed": seed}
    if base[0] != "ok":
        return Violation("dense %s baseline raised %r: %s" % (mon, base[1:], base_t), rep, stream="units-c")
    a = samples_of(base[1])
    for _ in range(3):
        # same default unit (s: the time stamps are seconds), each bound spelled in a random unit on either/both ends
        rec, consts = [], []
        text = c08.render(rng, f, "s", int(SCALE * 10 ** 9), rec, False, consts)
        t2, out = eval_offline(f, sig, text=text, unit="s", extra={"consts": consts}) if mon == "offc" else online_flat(f, sig, text=text, consts=consts)
        rep2 = dict(rep, spec=text, impl=out)
        if out[0] != "ok":
            return Violation("dense %s: rendering with the same durations raised %r: %s" % (mon, out[1:], text), rep2, stream="units-c")
        b = samples_of(out[1])
        if not a or not b:
            continue
        d = step_equal(a, b, max(a[0][0], b[0][0]), min(a[-1][0], b[-1][0]))
        if d:
            return Violation("dense %s: results differ between two renderings with the same durations at t=%s (%r vs %r): %s  vs  %s"
                             % (mon, d[0], d[1], d[2], text, base_t), rep2, stream="units-c")
    if a:
        ctx.nontrivial.add((mon, base_t, str(rep["signals"])))
    return None


def replay_units(ctx, obj):
    v = check_units(Ctx(ctx.id, ctx.tier, ctx.seed), obj["monitor"], F.from_proto(obj["formula"]), sig_of_rep(obj["signals"]), obj["seed"])
    return (v is None), (v.what if v else "renderings agree")


# -------------------------------------------------------------------------------- C09 / C12
def modular_cases(ctx, rng, count, allow_on):
    from . import modular as M
    for _ in range(count):
        mon = rng.choice(["offc", "offc", "onc"])
        allow = allow_on if mon == "onc" else DENSE_OFF
        c = None
        for _k in range(20):
            g = DGen(rng, VARS, allow, max_bound=rng.choice([2, 4]))
            f = g.formula(rng.choice([2, 3, 4]))
            if F.size(f) >= 4:
                break
        defs = M.add_repeats(rng, M.decompose(rng, f))
        inl = M.inline(defs)
        vs = sorted({v for nm in inl for v in F.variables(inl[nm])}) or ["x"]
        yield {"monitor": mon, "defs": defs, "inl": inl, "f": inl["out"], "vars": vs, "sig": gen_signals(rng, vs),
               "style": rng.choice(["text", "sub_spec"])}


def dense_build(case, modular=True, only=None):
    from . import modular as M
    kind = case["monitor"]
    if only is not None:
        text = "%s = %s" % (only, F.to_text(case["inl"][only], bound=bound_txt))
        spec = impl.make_spec(kind, text, case["vars"], extra_decl=[only] if only != "out" else [])
    elif not modular:
        spec = impl.make_spec(kind, spec_text(case["f"]), case["vars"])
    else:
        names = [nm for nm, _ in case["defs"][:-1]]
        lines = ["%s = %s;" % (nm, F.to_text(b, bound=bound_txt)) for nm, b in case["defs"]]
        if case["style"] == "text":
            spec = impl.make_spec(kind, "\n".join(lines), case["vars"], extra_decl=names)
        else:
            spec = impl.make_spec(kind, lines[-1], case["vars"], extra_decl=names, sub_specs=lines[:-1])
    spec.parse()
    return spec


def dense_run(case, modular=True, only=None, read_names=False):
    vs, sig = case["vars"], case["sig"]
    names = [nm for nm, _ in case["defs"]]

    def go():
        spec = dense_build(case, modular, only)
        # the interface type of a variable has no effect under the standard semantics (neither on the results nor on get_value)
        for v, t in (case.get("io") or {}).items():
            spec.set_var_io_type(v, t)
        args = [[v, py_sig(sig[v])] for v in vs]
        res = spec.evaluate(*args) if case["monitor"] == "offc" else spec.update(*args)
        got = {}
        if read_names:
            for nm in names:
                got[nm] = spec.get_value(nm)
            for v in vs:
                got["var:" + v] = spec.get_value(v)
        return res, got
    return impl.guarded(go)


def mod_rep(case):
    return {"monitor": case["monitor"], "defs": [[nm, F.to_proto(b)] for nm, b in case["defs"]], "style": case["style"], "io": case.get("io"),
            "signals": sig_rep(case["sig"]), "spec": "; ".join("%s = %s" % (nm, F.to_text(b, bound=bound_txt)) for nm, b in case["defs"])}


def mod_case(obj):
    from . import modular as M
    defs = [(nm, F.from_proto(b)) for nm, b in obj["defs"]]
    inl = M.inline(defs)
    sig = sig_of_rep(obj["signals"])
    return {"monitor": obj["monitor"], "defs": defs, "inl": inl, "f": inl["out"], "vars": sorted(sig), "sig": sig, "style": obj["style"],
            "io": obj.get("io")}


def same_steps(a, b, mon, f, sig):
    a, b = samples_of(a), samples_of(b)
    if not a and not b:
        return None
    if not a or not b:
        return ("-", a[:1], b[:1])
    if mon == "offc":
        lo, hi = domain_of(f, sig)
    else:
        lo, hi = max(a[0][0], b[0][0]), min(a[-1][0], b[-1][0])
        if a[0][0] != b[0][0] or a[-1][0] != b[-1][0]:
            return ("coverage", (str(a[0][0]), str(a[-1][0])), (str(b[0][0]), str(b[-1][0])))
    return step_equal(a, b, lo, hi)


def check_modular(ctx, case):
    rep = mod_rep(case)
    mod = dense_run(case, True)
    inl = dense_run(case, False)
    rep.update({"impl_modular": mod, "impl_inlined": inl})
    if inl[0] != "ok":
        return None if case["monitor"] == "onc" else Violation("dense inlined specification raised %r: %s" % (inl[1:], rep["spec"]), rep, stream="mod-c")
    if mod[0] != "ok":
        return Violation("dense %s: modular specification raised %r (the inlined one evaluates): %s" % (case["monitor"], mod[1:], rep["spec"]),
                         rep, stream="mod-c")
    d = same_steps(mod[1][0], inl[1][0], case["monitor"], case["f"], case["sig"])
    if d:
        return Violation("dense %s: modular and inlined specification differ at t=%s (%r vs %r): %s" % (case["monitor"], d[0], d[1], d[2], rep["spec"]),
                         rep, stream="mod-c")
    ctx.nontrivial.add((case["monitor"], rep["spec"], str(rep["signals"])))
    return None


def modular_stream(ctx):
    rng = ctx.subrng("mod-c")
    for c in modular_cases(ctx, rng, ctx.budget(60, 1000), DENSE_ON):
        ctx.evaluations += 1
        ctx.count("monitor:" + c["monitor"])
        v = check_modular(ctx, c)
        if v is None:
            ctx.traces_validated += 1
        else:
            ctx.violations.append(v)
            if len(ctx.violations) >= 3:
                return


def replay_modular(ctx, obj):
    v = check_modular(Ctx(ctx.id, ctx.tier, ctx.seed), mod_case(obj))
    return (v is None), (v.what if v else "modular and inlined agree")


def check_getvalue(ctx, case):
    rep = mod_rep(case)
    got = dense_run(case, True, read_names=True)
    rep["impl"] = got
    if got[0] != "ok":
        ok_inl = dense_run(case, False)
        if ok_inl[0] != "ok" and case["monitor"] == "onc":
            return None
        return Violation("dense %s: evaluate/update/get_value raised %r: %s" % (case["monitor"], got[1:], rep["spec"]), rep, stream="getv-c")
    # input variables (those the specification reads): the data supplied
    for v in case["vars"]:
        if v not in F.variables(case["f"]):
            continue
        gv = got[1][1].get("var:" + v)
        want = [[float(t), x] for t, x in case["sig"][v]]
        if gv is None or [[float(p[0]), float(p[1])] for p in gv] != want:
            return Violation("dense %s: get_value(%r) returns %r, the data supplied is %r (io types %r): %s"
                             % (case["monitor"], v, gv, want, case.get("io"), rep["spec"]), rep, stream="getv-c/input")
    for nm, _ in case["defs"]:
        alone = dense_run(case, only=nm)
        ctx.evaluations += 1
        if alone[0] != "ok":
            continue
        d = same_steps(got[1][1][nm], alone[1][0], case["monitor"], case["inl"][nm], case["sig"])
        if d:
            return Violation("dense %s: get_value(%r) differs from the stand-alone specification at t=%s (%r vs %r): %s"
                             % (case["monitor"], nm, d[0], d[1], d[2], rep["spec"]), dict(rep, name=nm, standalone=alone), stream="getv-c")
    ctx.nontrivial.add((case["monitor"], rep["spec"], str(rep["signals"])))
    return None


def getvalue_stream(ctx):
    rng = ctx.subrng("getv-c")
    for c in modular_cases(ctx, rng, ctx.budget(50, 800), DENSE_ON):
        ctx.evaluations += 1
        ctx.count("monitor:" + c["monitor"])
        if rng.random() < 0.5:
            c["io"] = {v_: rng.choice(["input", "output"]) for v_ in c["vars"] if rng.random() < 0.8}
            ctx.count("io-types-declared")
        v = check_getvalue(ctx, c)
        if v is None:
            ctx.traces_validated += 1
        else:
            ctx.violations.append(v)
            if len(ctx.violations) >= 3:
                return


def replay_getvalue(ctx, obj):
    v = check_getvalue(Ctx(ctx.id, ctx.tier, ctx.seed), mod_case(obj))
    return (v is None), (v.what if v else "get_value agrees with stand-alone specifications")
