"""Dense-time side of the checks: signal generators (piecewise-constant, per-variable unaligned
break-points on a 1/8 grid), adapters to the real dense-time offline / online monitors, the query
of the Lean reference semantics `rhoD` (Rtamt/Dense/Ref.lean) and the comparison of sample lists
as right-continuous step functions.

Bounds: the core formula carries natural numbers k; in dense time they denote k * SCALE time
units (the specification text gets the decimal of k*SCALE, the model is told `scale`)."""
from fractions import Fraction
from . import common, formula as F, impl
from .common import f2b
from .engine import Violation, Ctx

SCALE = Fraction(1, 4)
GRID = Fraction(1, 8)
VARS = ["x", "y", "z"]

DENSE_OFF = {"arith", "cmp", "bool", "iffxor", "not", "past_c", "ufuture", "bpast", "bfuture", "since", "until", "bsince", "buntil"}
DENSE_ON = {"arith", "cmp", "bool", "iffxor", "not", "past_c", "bpast", "since", "bsince"}


class DGen(F.Gen):
    """Dense time has no prev/next/rise/fall: group 'past_c' = unbounded once/historically only."""

    def formula(self, d):
        r = self.r
        groups = [g for g in ("bool", "iffxor", "past_c", "ufuture", "bpast", "bfuture", "since", "until", "bsince", "buntil", "not")
                  if g in self.allow] if d > 0 else []
        if not groups or r.random() < 0.22:
            return ("b", r.choice(F.CMP), self.term(min(d, 2)), self.term(min(d, 1)))
        g = r.choice(groups)
        sub = lambda: self.formula(d - 1)  # noqa: E731
        if g == "past_c":
            return ("t1", r.choice(["once", "hist"]), sub())
        if g == "not":
            return ("u", "not", sub())
        if g == "bool":
            return ("b", r.choice(["and", "or", "implies"]), sub(), sub())
        if g == "iffxor":
            return ("b", r.choice(["iff", "xor"]), sub(), sub())
        if g == "ufuture":
            return ("t1", r.choice(["ev", "alw"]), sub())
        if g == "since":
            return ("t2", "since", sub(), sub())
        if g == "until":
            return ("t2", "until", sub(), sub())
        a, b = self.bounds()
        if g == "bpast":
            return ("tb1", r.choice(["once", "hist"]), a, b, sub())
        if g == "bfuture":
            return ("tb1", r.choice(["ev", "alw"]), a, b, sub())
        if g == "bsince":
            return ("tb2", "since", a, b, sub(), sub())
        return ("tb2", "until", a, b, sub(), sub())


def bound_txt(k):
    q = Fraction(k) * SCALE
    return ("%d" % q) if q.denominator == 1 else repr(float(q))


def spec_text(f):
    return "out = " + F.to_text(f, bound=bound_txt)


def gen_signal(rng, start, nmax=8, end=None):
    """[(time Fraction, value float)] strictly increasing times on the GRID."""
    n = rng.randint(1, nmax)
    t = Fraction(start)
    vals = (-3.0, -2.0, -1.0, -0.5, 0.0, 0.5, 1.0, 2.0, 3.0, 4.0)
    pool = rng.sample(list(vals), rng.choice([2, 3, 10]))
    out = []
    for i in range(n):
        out.append((t, rng.choice(pool)))
        t += GRID * rng.choice([1, 2, 2, 3, 4, 4, 6, 8])
    if end is not None and out[-1][0] < end:
        out.append((Fraction(end), rng.choice(pool)))
    return out


def gen_signals(rng, vs, aligned_start=True):
    start = Fraction(0)
    sig = {}
    for v in vs:
        s0 = start if aligned_start else start + GRID * rng.choice([0, 0, 2, 4, 8])
        sig[v] = gen_signal(rng, s0)
    # the harness ends all signals at a common last time stamp (the end of the input domain)
    end = max(s[-1][0] for s in sig.values())
    for v in vs:
        if sig[v][-1][0] < end:
            sig[v] = sig[v] + [(end, rng.choice((-1.0, 0.0, 1.0, 2.0)))]
    return sig


def py_sig(s):
    return [[float(t), v] for (t, v) in s]


def proto_sigs(sig):
    return " | ".join("%s:%s" % (v, ",".join("%d/%d@%d" % (t.numerator, t.denominator, f2b(x)) for (t, x) in sig[v])) for v in sorted(sig))


def model_query(items):
    """items: (formula, sig, query times[Fraction]) -> list of (values|None list, dom, end)."""
    lines = []
    for f, sig, ts in items:
        vs = F.variables(f)
        lines.append("dense | %d/%d | %s | %s | %s" % (SCALE.numerator, SCALE.denominator, F.to_proto(f),
                                                     " ".join("%d/%d" % (t.numerator, t.denominator) for t in ts),
                                                     proto_sigs({v: sig[v] for v in vs})))
    res = []
    for o, ln in zip(common.driver_run(lines), lines):
        if not o.startswith("ok "):
            raise common.HarnessError("dense model: " + o + " on: " + ln)
        body, tail = o[3:].split("|")
        vals = [None if x == "U" else common.b2f(x) for x in body.split()]
        d, e = tail.split()
        res.append((vals, Fraction(d), None if e == "inf" else Fraction(e)))
    return res


def step_value(samples, t):
    """Value of the sample list read as a right-continuous step function; None before the first sample."""
    cur = None
    for (ts, v) in samples:
        if ts <= t:
            cur = v
        else:
            break
    return cur


def eval_offline(f, sig, semantics=None, io=None, unit=None, text=None, extra=None):
    vs = sorted(sig)
    text = text or spec_text(f)

    def go():
        spec = impl.make_spec("offc", text, vs, semantics=semantics, io=io, unit=unit, **(extra or {}))
        spec.parse()
        return spec.evaluate(*[[v, py_sig(sig[v])] for v in vs])
    return text, impl.guarded(go)


def chunk_signal(s, cuts):
    """Split a signal at the given time stamps (each chunk holds the samples with cut[i-1] <= t < cut[i])."""
    chunks, cur, k = [], [], 0
    for (t, v) in s:
        while k < len(cuts) and t >= cuts[k]:
            chunks.append(cur)
            cur = []
            k += 1
        cur.append((t, v))
    chunks.append(cur)
    while k < len(cuts):
        chunks.append([])
        k += 1
    return chunks


def run_online(f, sig, cuts, pastify=False, text=None, reset_after=None, semantics=None, io=None):
    """Feed the signals in len(cuts)+1 updates; returns the list of returned sample lists."""
    vs = sorted(sig)
    text = text or spec_text(f)

    def go():
        spec = impl.make_spec("onc", text, vs, semantics=semantics, io=io)
        spec.parse()
        if pastify:
            spec.pastify()
        if isinstance(cuts, dict):
            nup = max(len(c) for c in cuts.values()) + 1
            chunks = {}
            for v in vs:
                ch = chunk_signal(sig[v], cuts[v])
                chunks[v] = ch + [[] for _ in range(nup - len(ch))]
        else:
            nup = len(cuts) + 1
            chunks = {v: chunk_signal(sig[v], cuts) for v in vs}
        outs = []
        for i in range(nup):
            args = [[v, py_sig(chunks[v][i])] for v in vs]
            outs.append(spec.update(*args))
            if reset_after is not None and i == reset_after:
                spec.reset()
        return outs
    return text, impl.guarded(go)


def query_times(sig, f, impl_times, dom, end):
    pts = set()
    base = set(t for v in sig for (t, _) in sig[v])
    ks = sorted({0} | {Fraction(g[2]) * SCALE for g in F.subformulas(f) if g[0] in ("tb1", "tb2")}
                | {Fraction(g[3]) * SCALE for g in F.subformulas(f) if g[0] in ("tb1", "tb2")})
    for t in base:
        for k in ks:
            pts.add(t + k)
            pts.add(t - k)
    for t in impl_times:
        pts.add(Fraction(t))
    pts.add(dom)
    if end is not None:
        pts.add(end)
    pts = sorted(p for p in pts if p >= dom and (end is None or p <= end))
    mids = [(a + b) / 2 for a, b in zip(pts, pts[1:])]
    return sorted(set(pts) | set(mids))


def compare_offline(ctx, f, sig, stream, ctxname="C04"):
    """Run the dense offline monitor and compare with rhoD on the input domain. Returns Violation | None."""
    text, out = eval_offline(f, sig)
    rep = {"monitor": "offc", "spec": text, "formula": F.to_proto(f), "signals": {v: [[str(t), x] for t, x in sig[v]] for v in sig},
           "impl": out}
    if out[0] != "ok":
        return Violation("dense offline evaluate() raised %r: %s" % (out[1:], text), rep, stream=stream)
    res = out[1]
    times = [Fraction(p[0]) for p in res]
    if any(b < a for a, b in zip(times, times[1:])):
        return Violation("dense offline output time stamps decrease: %r: %s" % ([float(t) for t in times], text), rep, stream=stream)
    (_, dom, end), = model_query([(f, sig, [])])
    qs = query_times(sig, f, [t for t in times if t != float("inf")], dom, end)
    (vals, _, _), = model_query([(f, sig, qs)])
    rep.update({"domain": [str(dom), str(end)], "model_at": [[str(q), v] for q, v in zip(qs, vals)]})
    samples = [(Fraction(p[0]), p[1]) for p in res]
    if not res or Fraction(res[0][0]) != dom:
        first = res[0][0] if res else None
        return Violation("dense offline output starts at %r, the common input domain starts at %s: %s" % (first, dom, text), rep,
                         stream=stream)
    for q, mv in zip(qs, vals):
        iv = step_value(samples, q)
        if mv is None:
            raise common.HarnessError("model undefined inside the domain at %s for %s" % (q, text))
        if mv != mv or (iv is not None and iv != iv):
            ctx.skipped_undef += 1
            return None
        if iv is None or not common.num_eq(iv, mv):
            return Violation("dense offline value at t=%s is %r, the dense semantics gives %r: %s" % (q, iv, mv, text), rep, stream=stream)
    vs = [step_value(samples, q) for q in qs]
    if any(v not in (common.INF, -common.INF) for v in vs) or len(set(vs)) > 1:
        ctx.nontrivial.add((text, tuple((v, tuple(sig[v])) for v in sorted(sig))))
    return None
