"""Translator: the Python source of rtamt's discrete-time online operation classes -> Lean terms of the
deep embedding `Rtamt/Py/Sem.lean` (file `lean/Rtamt/Py/GeneratedOps.lean`, regenerated on every run).

Purely syntactic: every construct is mapped to the constructor of the same meaning, nothing is evaluated,
simplified or type-checked here.  The only transformations are
  * `self.reset()` / `self.__init__()` are replaced by the (translated) body of that method,
  * `float("inf")` / `-float("inf")` become the literals `pinf` / `ninf`,
  * `StlComparisonOperator.X.value` and `self.comparison_op.value` lose the `.value`,
  * `print(...)` statements are dropped,
  * anything else that is not in the subset becomes `unsupported "<source text>"`, which evaluates to an error,
    so that the equivalence theorems about that class can no longer be proved.
"""
import ast, glob, os, sys

HERE = os.path.dirname(os.path.abspath(__file__))
REPO = os.environ.get("RTAMT_REPO", "/repo")
DIRS = ["rtamt/semantics/stl/discrete_time/online", "rtamt/semantics/arithmetic/discrete_time/online"]
OUT = os.path.join(os.path.dirname(HERE), "lean", "Rtamt", "Py", "GeneratedOps.lean")

CMP = {"EQ": "eq", "EQUAL": "eq", "NEQ": "ne", "LEQ": "le", "LESS": "lt", "GEQ": "ge", "GREATER": "gt"}
BINOPS = {ast.Add: "add", ast.Sub: "sub", ast.Mult: "mul", ast.Div: "div"}
CMPOPS = {ast.Lt: "lt", ast.LtE: "le", ast.Gt: "gt", ast.GtE: "ge", ast.Eq: "eq", ast.NotEq: "ne"}
MATH1 = {"sqrt": "sqrt", "exp": "exp"}


def q(s):
    return '"' + s.replace("\\", "\\\\").replace('"', '\\"').replace("\n", " ") + '"'


def src(node):
    return ast.unparse(node)


class Tr:
    def __init__(self, cls):
        self.cls = cls
        self.methods = {n.name: n for n in cls.body if isinstance(n, ast.FunctionDef)}

    # ---------------------------------------------------------------- expressions
    def is_inf(self, e):
        return (isinstance(e, ast.Call) and isinstance(e.func, ast.Name) and e.func.id == "float" and len(e.args) == 1
                and isinstance(e.args[0], ast.Constant) and e.args[0].value in ("inf", "Inf", "infinity"))

    parents = None             # {alias: Tr of the parent class} for calls `Alias.method(self, ...)` (inlined)
    enum_strs = None           # {"Semantics.X": "value"}: members of a string-valued enumeration
    offline = False            # True while translating the offline visitor (node / args / self.ast accessors allowed)
    shared = None              # names of the method being translated that may be bound to a list somebody else refers to
    interp = False             # True while translating methods of DiscreteTimeInterpreter (exact unit arithmetic)
    clock = False              # True while translating the sampling bookkeeping of update() / evaluate()
    normalize_expr = None      # the expression returned by the `normalize` property

    def interp_expr(self, e):
        t = src(e)
        special = {"node.begin": "$begin", "node.end": "$end", "node.begin_unit": "$bunit", "node.end_unit": "$eunit",
                   "self.ast.unit": "$unit"}
        if t in special:
            return "(.loc %s)" % q(special[t])
        if isinstance(e, ast.Subscript) and src(e.value) == "self.ast.U":
            return "(.un .unitNs %s)" % self.expr(e.slice)
        if self.clock:
            if t == "dataset['time']":
                return "(.loc \"$time\")"
            if t == "self.normalize" and self.normalize_expr is not None:
                return self.expr(self.normalize_expr)              # the property getter, inlined
            if isinstance(e, ast.Constant) and isinstance(e.value, float) and e.value == int(e.value):
                return "(.un .frac (.int %d))" % int(e.value)      # a float literal with an integer value (exact numbers)
            if isinstance(e, ast.Call) and isinstance(e.func, ast.Name) and e.func.id == "float" and len(e.args) == 1 and not e.keywords \
                    and not self.is_inf(e):
                return "(.un .frac %s)" % self.expr(e.args[0])     # float(x): numbers are exact in the model
        if getattr(self, "dense_units", False) and isinstance(e, ast.Call) and isinstance(e.func, ast.Name) and e.func.id == "float" \
                and len(e.args) == 1 and not e.keywords and not self.is_inf(e):
            return "(.un .frac %s)" % self.expr(e.args[0])         # float(x) of an exact number: numbers are exact in the model
        if isinstance(e, ast.Call) and isinstance(e.func, ast.Name) and len(e.args) == 1 and not e.keywords:
            if e.func.id == "Fraction":
                return "(.un .frac %s)" % self.expr(e.args[0])
            if e.func.id == "int":
                return "(.un .toInt %s)" % self.expr(e.args[0])
            if e.func.id == "len":
                return "(.len %s)" % self.expr(e.args[0])
        if isinstance(e, ast.Attribute) and e.attr in ("numerator", "denominator") and isinstance(e.value, ast.Name):
            return "(.un .%s (.loc %s))" % ("numer" if e.attr == "numerator" else "denom", q(e.value.id))
        if isinstance(e, ast.BinOp) and isinstance(e.op, ast.Mod):
            return "(.bin .mod %s %s)" % (self.expr(e.left), self.expr(e.right))
        if isinstance(e, ast.Tuple) and len(e.elts) == 2:
            return "(.tuple %s %s)" % (self.expr(e.elts[0]), self.expr(e.elts[1]))
        return None

    def find_method(self, name):
        """A method of this class or, failing that, of a parent class: (translator of the defining class, FunctionDef)."""
        if name in self.methods:
            return self, self.methods[name]
        for ptr in (self.parents or {}).values():
            r = ptr.find_method(name)
            if r is not None:
                return r
        return None

    def inline_call(self, owner, m, args, depth, target=None):
        """Statements of `m` (a method of the translator `owner`) with its parameters bound to `args`; its final
        `return e` becomes `target = e`."""
        params = [x.arg for x in m.args.args[1:]]
        if len(params) != len(args) or depth > 3:
            return "(.unsupported %s)" % q("call of " + m.name)
        items = ["(.setLoc %s %s)" % (q(p_), self.expr(a_)) for p_, a_ in zip(params, args) if not (isinstance(a_, ast.Name) and a_.id == p_)]
        body = list(m.body)
        ret = None
        if body and isinstance(body[-1], ast.Return):
            ret = body.pop().value
        if any(isinstance(x, ast.Return) for st in body for x in ast.walk(st)):
            return "(.unsupported %s)" % q("return inside " + m.name)
        items.append(owner.block(body, depth + 1))
        if target is not None:
            items.append("(.setLoc %s %s)" % (q(target), owner.expr(ret) if ret is not None else ".noneLit"))
        return self.seq(items)

    def expr(self, e):
        if self.enum_strs and isinstance(e, ast.Attribute) and src(e) in self.enum_strs:
            return "(.strLit %s)" % q(self.enum_strs[src(e)])
        if self.parents is not None and isinstance(e, ast.UnaryOp) and isinstance(e.op, ast.Not) and isinstance(e.operand, ast.Attribute) \
                and src(e.operand.value) == "self":
            return "(.un .not (.un .truthy (.attr %s)))" % q(e.operand.attr)       # `not self.xs` on a list attribute
        if self.parents is not None and isinstance(e, ast.IfExp):
            return "(.ifExp %s %s %s)" % (self.expr(e.test), self.expr(e.body), self.expr(e.orelse))
        if self.parents is not None and isinstance(e, ast.Constant) and e.value is True:
            return "(.bin .eq (.int 0) (.int 0))"
        if self.interp:
            r = self.interp_expr(e)
            if r is not None:
                return r
        if self.offline:
            t = src(e)
            if self.horizon and t in ("node.end", "node.begin"):
                return "(.loc %s)" % q("$" + t[5:])
            if t in ("node.out_vars", "node.in_vars"):
                return "(.un .truthy (.loc %s))" % q("$" + t[5:])          # non-empty list: passed as a Boolean
            special = {"args[0]": "$length", "self.ast.var_object_dict[node.var]": "$var", "node.field": "$field",
                       "node.operator.value": "$operator", "node.operator": "$operator", "node.val": "$val"}
            if t in special:
                return "(.loc %s)" % q(special[t])
            r = self.list_expr(e)
            if r is not None:
                return r
        if self.is_inf(e):
            return ".pinf"
        if isinstance(e, ast.UnaryOp) and isinstance(e.op, ast.USub) and self.is_inf(e.operand):
            return ".ninf"
        if isinstance(e, ast.Constant):
            if e.value is None:
                return ".noneLit"
            if isinstance(e.value, bool) or not isinstance(e.value, int):
                return "(.unsupported %s)" % q(src(e))
            return "(.int %d)" % e.value
        if isinstance(e, ast.Name):
            return "(.loc %s)" % q(e.id)
        if isinstance(e, ast.Attribute):
            # self.x | self.x.value | StlComparisonOperator.X.value | StlComparisonOperator.X
            if isinstance(e.value, ast.Name) and e.value.id == "self":
                return "(.attr %s)" % q(e.attr)
            if e.attr == "value":
                return self.expr(e.value)
            if isinstance(e.value, ast.Name) and e.value.id == "StlComparisonOperator" and e.attr in CMP:
                return "(.cmpc .%s)" % CMP[e.attr]
            return "(.unsupported %s)" % q(src(e))
        if isinstance(e, ast.UnaryOp):
            if isinstance(e.op, ast.USub):
                return "(.un .neg %s)" % self.expr(e.operand)
            if isinstance(e.op, ast.Not):
                return "(.un .not %s)" % self.expr(e.operand)
            return "(.unsupported %s)" % q(src(e))
        if isinstance(e, ast.BinOp) and type(e.op) in BINOPS:
            return "(.bin .%s %s %s)" % (BINOPS[type(e.op)], self.expr(e.left), self.expr(e.right))
        if isinstance(e, ast.Compare) and len(e.ops) == 1 and type(e.ops[0]) in CMPOPS:
            return "(.bin .%s %s %s)" % (CMPOPS[type(e.ops[0])], self.expr(e.left), self.expr(e.comparators[0]))
        if isinstance(e, ast.BoolOp) and isinstance(e.op, (ast.Or, ast.And)):
            op = "or" if isinstance(e.op, ast.Or) else "and"
            out = self.expr(e.values[0])
            for v in e.values[1:]:
                out = "(.bin .%s %s %s)" % (op, out, self.expr(v))
            return out
        if isinstance(e, ast.Subscript):
            return "(.idx %s %s)" % (self.expr(e.value), self.expr(e.slice))
        if isinstance(e, ast.List) and not e.elts:
            return ".emptyList"
        if isinstance(e, ast.Call):
            f = src(e.func)
            a = e.args
            if f in ("min", "max") and len(a) == 2 and not e.keywords:
                return "(.bin .%s %s %s)" % (f, self.expr(a[0]), self.expr(a[1]))
            if f == "abs" and len(a) == 1:
                return "(.un .abs %s)" % self.expr(a[0])
            if f in ("math.sqrt", "math.exp") and len(a) == 1:
                return "(.un .%s %s)" % (f[5:], self.expr(a[0]))
            if f == "math.log" and len(a) == 1:
                return "(.un .ln %s)" % self.expr(a[0])
            if f == "math.log" and len(a) == 2:
                return "(.bin .log %s %s)" % (self.expr(a[0]), self.expr(a[1]))
            if f == "math.pow" and len(a) == 2:
                return "(.bin .pow %s %s)" % (self.expr(a[0]), self.expr(a[1]))
            if f == "collections.deque" and not a and len(e.keywords) == 1 and e.keywords[0].arg == "maxlen":
                return "(.newDeque %s)" % self.expr(e.keywords[0].value)
        return "(.unsupported %s)" % q(src(e))

    def list_expr(self, e):
        """Expression forms over lists of floats (offline visitor); None if `e` is not one of them."""
        if isinstance(e, ast.IfExp):
            return "(.ifExp %s %s %s)" % (self.expr(e.test), self.expr(e.body), self.expr(e.orelse))
        if isinstance(e, ast.Constant) and isinstance(e.value, bool):
            return "(.bin .eq (.int 0) (.int %d))" % (0 if e.value else 1)      # True / False
        if isinstance(e, ast.Constant) and isinstance(e.value, float) and e.value == 0.0:
            return "(.loc \"$zero\")"                                     # the float literal 0.0 (passed as a local)
        if isinstance(e, ast.Call) and isinstance(e.func, ast.Name) and not e.keywords:
            f, a = e.func.id, e.args
            if f == "len" and len(a) == 1:
                return "(.len %s)" % self.expr(a[0])
            if f in ("min", "max") and len(a) == 1:
                return "(.agg %s %s)" % ("true" if f == "max" else "false", self.expr(a[0]))
            if f == "reversed" and len(a) == 1:
                return "(.reversed %s)" % self.expr(a[0])
            if f == "list" and len(a) == 1 and isinstance(a[0], ast.Call) and src(a[0].func) == "map" and len(a[0].args) == 2 \
                    and isinstance(a[0].args[0], ast.Name) and a[0].args[0].id in ("min", "max") \
                    and isinstance(a[0].args[1], ast.Call) and src(a[0].args[1].func) == "zip" and len(a[0].args[1].args) == 2:
                z = a[0].args[1].args
                return "(.compZip (.bin .%s (.loc \"$l\") (.loc \"$r\")) \"$l\" \"$r\" %s %s)" % (a[0].args[0].id, self.expr(z[0]), self.expr(z[1]))
        if isinstance(e, ast.Subscript) and isinstance(e.slice, ast.Slice):
            sl = e.slice
            if sl.step is not None:
                return "(.unsupported %s)" % q(src(e))
            lo = "(.int 0)" if sl.lower is None else self.expr(sl.lower)
            hi = ".noneLit" if sl.upper is None else self.expr(sl.upper)
            return "(.slice %s %s %s)" % (self.expr(e.value), lo, hi)
        if isinstance(e, ast.BinOp) and isinstance(e.op, ast.Mult) and isinstance(e.left, ast.List) and len(e.left.elts) == 1:
            return "(.rep %s %s)" % (self.expr(e.left.elts[0]), self.expr(e.right))
        if isinstance(e, ast.ListComp) and len(e.generators) == 1 and not e.generators[0].ifs and not e.generators[0].is_async:
            g = e.generators[0]
            it = g.iter
            if isinstance(it, ast.Call) and isinstance(it.func, ast.Name) and it.func.id == "range" and not it.keywords \
                    and 1 <= len(it.args) <= 2 and isinstance(g.target, ast.Name):
                lo, hi = ("(.int 0)", self.expr(it.args[0])) if len(it.args) == 1 else (self.expr(it.args[0]), self.expr(it.args[1]))
                return "(.compRange %s %s %s %s)" % (self.expr(e.elt), q(g.target.id), lo, hi)
            if isinstance(it, ast.Call) and isinstance(it.func, ast.Name) and it.func.id == "zip" and len(it.args) == 2 \
                    and isinstance(g.target, ast.Tuple) and len(g.target.elts) == 2 and all(isinstance(x, ast.Name) for x in g.target.elts):
                return "(.compZip %s %s %s %s %s)" % (self.expr(e.elt), q(g.target.elts[0].id), q(g.target.elts[1].id),
                                                       self.expr(it.args[0]), self.expr(it.args[1]))
            if isinstance(g.target, ast.Name):
                return "(.compList %s %s %s)" % (self.expr(e.elt), q(g.target.id), self.expr(it))
        return None

    def list_stmt(self, s, depth):
        """Statement forms on local lists / deques (offline visitor); None if `s` is not one of them."""
        if isinstance(s, ast.Expr) and isinstance(s.value, ast.Call) and isinstance(s.value.func, ast.Attribute) \
                and isinstance(s.value.func.value, ast.Name) and s.value.func.value.id != "self" and not s.value.keywords:
            x, m, a = s.value.func.value.id, s.value.func.attr, s.value.args
            if m == "append" and len(a) == 1:
                return "(.appendLoc %s %s)" % (q(x), self.expr(a[0]))
            if m == "reverse" and not a:
                return "(.reverseLoc %s)" % q(x)
            if m == "insert" and len(a) == 2:
                return "(.insertLoc %s %s %s)" % (q(x), self.expr(a[0]), self.expr(a[1]))
        if isinstance(s, ast.AugAssign) and isinstance(s.op, ast.Add) and isinstance(s.target, ast.Name):
            # `x += e` extends a list in place: the same as `x = x + e` only when nothing else refers to the list, i.e. when
            # every binding of x in this method is a freshly built list (or a number); otherwise the list may be the result
            # of an operand or the caller's data, and the value semantics of the embedding cannot express the change
            if self.shared is not None and s.target.id in self.shared:
                return "(.unsupported %s)" % q("in-place extension of a list that may be shared: " + src(s))
            return "(.setLoc %s (.bin .add (.loc %s) %s))" % (q(s.target.id), q(s.target.id), self.expr(s.value))
        if isinstance(s, ast.For) and not s.orelse and isinstance(s.target, ast.Tuple) and len(s.target.elts) == 2 \
                and all(isinstance(x, ast.Name) for x in s.target.elts) and isinstance(s.iter, ast.Call) \
                and src(s.iter.func) == "enumerate" and len(s.iter.args) == 1:
            return "(.forEnum %s %s %s %s)" % (q(s.target.elts[0].id), q(s.target.elts[1].id), self.expr(s.iter.args[0]),
                                               self.block(s.body, depth))
        if isinstance(s, ast.For) and not s.orelse and isinstance(s.target, ast.Name):
            it = s.iter
            if isinstance(it, ast.Call) and isinstance(it.func, ast.Name) and it.func.id == "range" and not it.keywords:
                if len(it.args) == 3 and src(it.args[2]) == "-1":
                    return "(.forDown %s %s %s %s)" % (q(s.target.id), self.expr(it.args[0]), self.expr(it.args[1]), self.block(s.body, depth))
                return None
            return "(.forIn %s %s %s)" % (q(s.target.id), self.expr(it), self.block(s.body, depth))
        return None

    # ---------------------------------------------------------------- statements
    def seq(self, items):
        items = [i for i in items if i != ".skip"]
        if not items:
            return ".skip"
        out = items[-1]
        for i in reversed(items[:-1]):
            out = "(.seq %s %s)" % (i, out)
        return out

    def block(self, stmts, depth):
        return self.seq([self.stmt(s, depth) for s in stmts])

    horizon = False

    def stmt(self, s, depth):
        if self.parents is not None:
            call = None
            target = None
            if isinstance(s, ast.Expr) and isinstance(s.value, ast.Call):
                call = s.value
            elif isinstance(s, ast.Assign) and len(s.targets) == 1 and isinstance(s.targets[0], ast.Name) and isinstance(s.value, ast.Call):
                call, target = s.value, s.targets[0].id
            if call is not None and isinstance(call.func, ast.Attribute) and isinstance(call.func.value, ast.Name) and not call.keywords:
                owner_name, mname, args = call.func.value.id, call.func.attr, list(call.args)
                if owner_name in self.parents and args and isinstance(args[0], ast.Name) and args[0].id == "self":
                    r = self.parents[owner_name].find_method(mname)            # Parent.method(self, ...)
                    if r is not None:
                        return self.inline_call(r[0], r[1], args[1:], depth, target)
                if owner_name == "self" and mname not in ("reset", "__init__"):
                    r = self.find_method(mname)                                # self.method(...), possibly inherited
                    if r is not None:
                        return self.inline_call(r[0], r[1], args, depth, target)
        if self.horizon and isinstance(s, ast.Assign) and len(s.targets) == 1 and src(s.targets[0]) == "self.horizons[node]":
            return ".skip"                       # the table of sub-formula horizons is not part of the value computed
        if self.offline:
            r = self.list_stmt(s, depth)
            if r is not None:
                return r
        if isinstance(s, ast.Pass):
            return ".skip"
        if isinstance(s, ast.Assign) and len(s.targets) == 1:
            t = s.targets[0]
            if isinstance(t, ast.Name):
                return "(.setLoc %s %s)" % (q(t.id), self.expr(s.value))
            if isinstance(t, ast.Attribute) and isinstance(t.value, ast.Name) and t.value.id == "self":
                return "(.setAttr %s %s)" % (q(t.attr), self.expr(s.value))
            return "(.unsupported %s)" % q(src(s))
        if isinstance(s, ast.Expr) and isinstance(s.value, ast.Call):
            c = s.value
            f = c.func
            if isinstance(f, ast.Name) and f.id == "print":
                return ".skip"
            if isinstance(f, ast.Attribute) and isinstance(f.value, ast.Name) and f.value.id == "self" and not c.args and not c.keywords \
                    and f.attr in ("reset", "__init__") and f.attr in self.methods and depth < 3:
                m = self.methods[f.attr]
                if len(m.args.args) == 1 and not any(isinstance(x, ast.Return) for x in ast.walk(m)):
                    return self.block(m.body, depth + 1)                      # inlined
                return "(.unsupported %s)" % q(src(s))
            if isinstance(f, ast.Attribute) and f.attr == "append" and len(c.args) == 1 and not c.keywords:
                tgt = f.value
                if isinstance(tgt, ast.Attribute) and isinstance(tgt.value, ast.Name) and tgt.value.id == "self":
                    return "(.append %s none %s)" % (q(tgt.attr), self.expr(c.args[0]))
                if isinstance(tgt, ast.Subscript) and isinstance(tgt.value, ast.Attribute) and isinstance(tgt.value.value, ast.Name) \
                        and tgt.value.value.id == "self" and isinstance(tgt.slice, ast.Constant) and isinstance(tgt.slice.value, int) \
                        and tgt.slice.value >= 0:
                    return "(.append %s (some %d) %s)" % (q(tgt.value.attr), tgt.slice.value, self.expr(c.args[0]))
            return "(.unsupported %s)" % q(src(s))
        if isinstance(s, ast.For) and not s.orelse and isinstance(s.target, ast.Name) and isinstance(s.iter, ast.Call) \
                and isinstance(s.iter.func, ast.Name) and s.iter.func.id == "range" and 1 <= len(s.iter.args) <= 2 and not s.iter.keywords:
            a = s.iter.args
            lo, hi = ("(.int 0)", self.expr(a[0])) if len(a) == 1 else (self.expr(a[0]), self.expr(a[1]))
            return "(.for_ %s %s %s %s)" % (q(s.target.id), lo, hi, self.block(s.body, depth))
        if isinstance(s, ast.If):
            test = self.expr(s.test)
            if not isinstance(s.test, (ast.Compare, ast.BoolOp)) and not (isinstance(s.test, ast.UnaryOp) and isinstance(s.test.op, ast.Not)):
                test = "(.un .truthy %s)" % test          # `if x:` on a value that is not a Boolean expression
            return "(.ite %s %s %s)" % (test, self.block(s.body, depth), self.block(s.orelse, depth))
        if isinstance(s, ast.Raise) and isinstance(s.exc, ast.Call) and isinstance(s.exc.func, ast.Name):
            return "(.raise .rtamt)" if s.exc.func.id == "RTAMTException" else "(.raise .other)"
        return "(.unsupported %s)" % q(src(s))

    def method(self, name):
        m = self.methods.get(name)
        if m is None:
            return None
        a = m.args
        if a.vararg or a.kwarg or a.kwonlyargs or a.defaults or not a.args or a.args[0].arg != "self":
            return "{ params := [], body := .unsupported %s, ret := none }" % q("signature of " + name)
        params = [x.arg for x in a.args[1:]]
        body = list(m.body)
        ret = "none"
        if body and isinstance(body[-1], ast.Return):
            r = body.pop()
            ret = "none" if r.value is None else "(some %s)" % self.expr(r.value)
        if any(isinstance(x, ast.Return) for st in body for x in ast.walk(st)):
            btxt = "(.unsupported %s)" % q("return inside " + name)
        else:
            btxt = self.block(body, 0)
        return "{ params := [%s], body := %s, ret := %s }" % (", ".join(q(p) for p in params), btxt, ret)


def classes():
    out = []
    for d in DIRS:
        for f in sorted(glob.glob(os.path.join(REPO, d, "*_operation.py"))):
            tree = ast.parse(open(f).read())
            for n in tree.body:
                if isinstance(n, ast.ClassDef):
                    out.append((os.path.relpath(f, REPO), n))
    return out


def generate():
    lines = ["/- GENERATED by harness/py2lean.py from the source of /repo on every run - do not edit. -/",
             "import Rtamt.Py.Sem", "", "namespace Rtamt.Py.Gen", "open Rtamt Rtamt.Py", ""]
    names = []
    for path, c in classes():
        tr = Tr(c)
        ms = {k: tr.method(k) for k in ("__init__", "reset", "update", "sat")}
        skip = "{ params := [], body := .unsupported \"missing method\", ret := none }"
        lines.append("/-- `%s` (%s) -/" % (c.name, path))
        lines.append("def %s : Class :=" % c.name)
        lines.append("  { name := %s," % q(c.name))
        lines.append("    init := %s," % (ms["__init__"] or skip))
        lines.append("    reset := %s," % (ms["reset"] or skip))
        lines.append("    update := %s," % (ms["update"] or skip))
        lines.append("    sat := %s }" % ("none" if ms["sat"] is None else "some " + ms["sat"]))
        lines.append("")
        names.append(c.name)
    lines.append("def all : List Class := [%s]" % ", ".join(names))
    lines.append("")
    lines.append("end Rtamt.Py.Gen")
    return "\n".join(lines) + "\n"


OFF_FILE = "rtamt/semantics/stl/discrete_time/offline/ast_visitor.py"
OUT_OFF = os.path.join(os.path.dirname(HERE), "lean", "Rtamt", "Py", "GeneratedOff.lean")


def offline_method(tr, m):
    """visitX(self, node, *args, **kwargs): the statements that fetch the children's results and the interval become the
    parameters of the translated method."""
    a = m.args
    if [x.arg for x in a.args] != ["self", "node"]:
        return None
    kids, interval, body = [], False, []
    for st in m.body:
        t = src(st)
        if isinstance(st, ast.Assign) and len(st.targets) == 1 and isinstance(st.targets[0], ast.Name) \
                and isinstance(st.value, ast.Call) and src(st.value.func) == "self.visit" and len(st.value.args) >= 1 \
                and isinstance(st.value.args[0], ast.Subscript) and src(st.value.args[0].value) == "node.children" \
                and isinstance(st.value.args[0].slice, ast.Constant) and st.value.args[0].slice.value == len(kids) and not body:
            kids.append(st.targets[0].id)
            continue
        if t.replace(" ", "") == "begin,end=self.time_unit_transformer(node)" and not body and not interval:
            interval = True
            continue
        body.append(st)
    # names that may be bound to a shared list: the results of the operands, and every name with a binding that is not a
    # freshly built value (comprehension, list literal, concatenation, repetition, slice, arithmetic, constant, call of len/min/max)
    def fresh(e):
        if isinstance(e, (ast.ListComp, ast.List, ast.Constant, ast.Compare, ast.BoolOp)):
            return True
        if isinstance(e, ast.BinOp):
            return True
        if isinstance(e, ast.UnaryOp):
            return True
        if isinstance(e, ast.Subscript) and isinstance(e.slice, ast.Slice):
            return True
        if isinstance(e, ast.Call) and isinstance(e.func, ast.Name) and e.func.id in ("len", "min", "max", "float", "int", "abs", "list"):
            return True
        if isinstance(e, ast.Call) and src(e.func).startswith(("math.", "collections.deque")):
            return True
        return False
    shared = set(kids)
    for st in body:
        for x in ast.walk(st):
            if isinstance(x, ast.Assign):
                for t_ in x.targets:
                    if isinstance(t_, ast.Name) and not fresh(x.value):
                        shared.add(t_.id)
            elif isinstance(x, (ast.For, ast.comprehension)) and isinstance(x.target, ast.Name):
                pass
    tr.shared = shared
    ret = "none"
    if body and isinstance(body[-1], ast.Return):
        r = body.pop()
        ret = "none" if r.value is None else "(some %s)" % tr.expr(r.value)
    if any(isinstance(x, ast.Return) for st in body for x in ast.walk(st)):
        btxt = "(.unsupported %s)" % q("return inside " + m.name)
    else:
        btxt = tr.block(body, 0)
    tr.shared = None
    return "{ name := %s, kids := [%s], interval := %s, body := %s, ret := %s }" % (
        q(m.name), ", ".join(q(k) for k in kids), "true" if interval else "false", btxt, ret)


def generate_offline():
    tree = ast.parse(open(os.path.join(REPO, OFF_FILE)).read())
    cls = [n for n in tree.body if isinstance(n, ast.ClassDef)][0]
    tr = Tr(cls)
    tr.offline = True
    lines = ["/- GENERATED by harness/py2lean.py from %s of /repo on every run - do not edit. -/" % OFF_FILE,
             "import Rtamt.Py.Off", "", "namespace Rtamt.Py.Gen.Off", "open Rtamt Rtamt.Py", ""]
    names = []
    for m in cls.body:
        if isinstance(m, ast.FunctionDef) and m.name.startswith("visit") and m.name != "visit":
            t = offline_method(tr, m)
            if t is None:
                continue
            lines.append("def %s : OffMethod :=\n  %s" % (m.name, t))
            lines.append("")
            names.append(m.name)
    lines.append("/-- the methods the class `%s` defines, by name -/" % cls.name)
    lines.append("def methods : List (String × OffMethod) := [%s]" % ", ".join("(%s, %s)" % (q(n), n) for n in names))
    lines.append("")
    lines.append("end Rtamt.Py.Gen.Off")
    return "\n".join(lines) + "\n"


HOR_FILES = ["rtamt/pastifier/stl/horizon.py", "rtamt/pastifier/ltl/horizon.py"]      # StlHorizon first: it overrides LtlHorizon
OUT_HOR = os.path.join(os.path.dirname(HERE), "lean", "Rtamt", "Py", "GeneratedHorizon.lean")


def generate_horizon():
    """The visit methods of StlHorizon / LtlHorizon (horizon of a specification, computed before pastify()).  The children's
    horizons are the parameters (as for the offline visitor); `self.horizons[node] = x` (a table the pastifier reads
    later) is dropped; `node.end` becomes the local `$end`."""
    seen, lines, names = set(), [], []
    lines = ["/- GENERATED by harness/py2lean.py from %s of /repo on every run - do not edit. -/" % " and ".join(HOR_FILES),
             "import Rtamt.Py.Off", "", "namespace Rtamt.Py.Gen.Hor", "open Rtamt Rtamt.Py", ""]
    for fn in HOR_FILES:
        tree = ast.parse(open(os.path.join(REPO, fn)).read())
        for cls in [n for n in tree.body if isinstance(n, ast.ClassDef)]:
            tr = Tr(cls)
            tr.offline = True
            tr.horizon = True
            for m in cls.body:
                if isinstance(m, ast.FunctionDef) and m.name.startswith("visit") and m.name not in ("visit", "visitDefault") \
                        and m.name not in seen:
                    t = offline_method(tr, m)
                    if t is None:
                        continue
                    seen.add(m.name)
                    lines.append("/-- `%s.%s` -/" % (cls.name, m.name))
                    lines.append("def %s : OffMethod :=\n  %s" % (m.name, t))
                    lines.append("")
                    names.append(m.name)
    lines.append("def methods : List (String × OffMethod) := [%s]" % ", ".join("(%s, %s)" % (q(n), n) for n in names))
    lines.append("")
    lines.append("end Rtamt.Py.Gen.Hor")
    return "\n".join(lines) + "\n"


IAON_FILE = "rtamt/semantics/iastl/discrete_time/online/predicate_operation.py"
OUT_IAON = os.path.join(os.path.dirname(HERE), "lean", "Rtamt", "Py", "GeneratedIAOn.lean")


def enum_strings(path, cls_name):
    out = {}
    tree = ast.parse(open(os.path.join(REPO, path)).read())
    for n in tree.body:
        if isinstance(n, ast.ClassDef) and n.name == cls_name:
            for st in n.body:
                if isinstance(st, ast.Assign) and len(st.targets) == 1 and isinstance(st.targets[0], ast.Name) \
                        and isinstance(st.value, ast.Constant) and isinstance(st.value.value, str):
                    out["%s.%s" % (cls_name, st.targets[0].id)] = st.value.value
    return out


def generate_iaon():
    """The interface-aware PredicateOperation of the discrete-time online monitor: a subclass of the standard one; calls of the
    parent's methods (`StlPredicateOperation.update(self, ...)`) and of inherited methods (`self.sat(...)`) are inlined."""
    tree = ast.parse(open(os.path.join(REPO, IAON_FILE)).read())
    cls = [n for n in tree.body if isinstance(n, ast.ClassDef)][0]
    parents = {}
    for n in tree.body:
        if isinstance(n, ast.ImportFrom) and n.module and n.module.startswith("rtamt.semantics.stl.discrete_time.online"):
            ptree = ast.parse(open(os.path.join(REPO, n.module.replace(".", "/") + ".py")).read())
            for a in n.names:
                pc = [c for c in ptree.body if isinstance(c, ast.ClassDef) and c.name == a.name]
                if pc:
                    parents[a.asname or a.name] = Tr(pc[0])
    tr = Tr(cls)
    tr.parents = parents
    tr.enum_strs = enum_strings("rtamt/semantics/enumerations/options.py", "Semantics")
    for ptr in parents.values():
        ptr.parents = {}
    skip = "{ params := [], body := .unsupported \"missing method\", ret := none }"
    ms = {}
    for k in ("__init__", "reset", "update"):
        r = tr.find_method(k)
        if r is None:
            ms[k] = skip
        elif r[0] is tr:
            ms[k] = tr.method(k)
        else:
            ms[k] = r[0].method(k)                 # inherited unchanged
    lines = ["/- GENERATED by harness/py2lean.py from %s of /repo on every run - do not edit. -/" % IAON_FILE,
             "import Rtamt.Py.Sem", "", "namespace Rtamt.Py.Gen", "open Rtamt Rtamt.Py", "",
             "/-- `%s` of the interface-aware discrete-time online monitor -/" % cls.name,
             "def IAPredicateOperation : Class :=",
             "  { name := %s," % q("IA" + cls.name),
             "    init := %s," % ms["__init__"],
             "    reset := %s," % ms["reset"],
             "    update := %s," % ms["update"],
             "    sat := none }", "", "end Rtamt.Py.Gen"]
    return "\n".join(lines) + "\n"


IAOFF_FILE = "rtamt/semantics/iastl/discrete_time/offline/ast_visitor.py"
OUT_IAOFF = os.path.join(os.path.dirname(HERE), "lean", "Rtamt", "Py", "GeneratedIAOff.lean")


def generate_iaoff():
    """visitPredicate of the interface-aware offline visitors.  A first statement of the form
    `a, b = Parent.visitPredicate(self, node, *args, **kwargs)` is replaced by the parent's body followed by the
    assignment of the two returned expressions to `a` and `b`."""
    tree = ast.parse(open(os.path.join(REPO, IAOFF_FILE)).read())
    classes = {n.name: n for n in tree.body if isinstance(n, ast.ClassDef)}
    lines = ["/- GENERATED by harness/py2lean.py from %s of /repo on every run - do not edit. -/" % IAOFF_FILE,
             "import Rtamt.Py.Off", "", "namespace Rtamt.Py.Gen.IAOff", "open Rtamt Rtamt.Py", ""]
    names = []
    for cname, cls in classes.items():
        ms = {m.name: m for m in cls.body if isinstance(m, ast.FunctionDef)}
        m = ms.get("visitPredicate")
        if m is None or (isinstance(m.body[-1], ast.Return) and isinstance(m.body[-1].value, ast.Tuple)):
            continue          # the common base class returns (values, verdicts) and is only called by the four subclasses
        body = list(m.body)
        pre = []
        if body and isinstance(body[0], ast.Assign) and len(body[0].targets) == 1 and isinstance(body[0].targets[0], ast.Tuple) \
                and len(body[0].targets[0].elts) == 2 and isinstance(body[0].value, ast.Call) \
                and isinstance(body[0].value.func, ast.Attribute) and body[0].value.func.attr == "visitPredicate" \
                and isinstance(body[0].value.func.value, ast.Name) and body[0].value.func.value.id in classes:
            par = {x.name: x for x in classes[body[0].value.func.value.id].body if isinstance(x, ast.FunctionDef)}.get("visitPredicate")
            if par is not None and isinstance(par.body[-1], ast.Return) and isinstance(par.body[-1].value, ast.Tuple) \
                    and len(par.body[-1].value.elts) == 2:
                tg = body[0].targets[0].elts
                rv = par.body[-1].value.elts
                pre = list(par.body[:-1]) + [ast.Assign(targets=[ast.Name(id=tg[k].id, ctx=ast.Store())], value=rv[k]) for k in (0, 1)
                                              if src(tg[k]) != src(rv[k])]
                body = pre + body[1:]
        fake = ast.FunctionDef(name="visitPredicate", args=m.args, body=body, decorator_list=[])
        tr = Tr(cls)
        tr.offline = True
        t = offline_method(tr, fake)
        if t is None:
            continue
        lines.append("/-- `%s.visitPredicate` -/" % cname)
        lines.append("def %s : OffMethod :=\n  %s" % (cname, t))
        lines.append("")
        names.append(cname)
    lines.append("def classes : List (String × OffMethod) := [%s]" % ", ".join("(%s, %s)" % (q(n), n) for n in names))
    lines.append("")
    lines.append("end Rtamt.Py.Gen.IAOff")
    return "\n".join(lines) + "\n"


ONCTOR_FILE = "rtamt/semantics/stl/discrete_time/online/ast_visitor.py"
OUT_ONCTOR = os.path.join(os.path.dirname(HERE), "lean", "Rtamt", "Py", "GeneratedOnCtor.lean")


def generate_onctor():
    """The construction visitor of the discrete-time online monitor: per visitX, the operation class that is stored in
    online_operator_dict[node.name] and its constructor arguments - or that the method only raises RTAMTException."""
    tree = ast.parse(open(os.path.join(REPO, ONCTOR_FILE)).read())
    cls = [n for n in tree.body if isinstance(n, ast.ClassDef)][0]
    last = {}
    for m in cls.body:
        if isinstance(m, ast.FunctionDef) and m.name.startswith("visit") and m.name != "visit":
            last[m.name] = m
    rows = []
    for name, m in last.items():
        body = [st for st in m.body if not (isinstance(st, ast.Expr) and isinstance(st.value, ast.Constant))]
        row = None
        if len(body) == 1 and isinstance(body[0], ast.Raise) and isinstance(body[0].exc, ast.Call) \
                and src(body[0].exc.func) == "RTAMTException":
            row = ".raises"
        else:
            ok = len(body) >= 2 and src(body[0]).replace(" ", "") == "self.visitChildren(node,*args,**kwargs)"
            rest = body[1:]
            iv = False
            if ok and rest and src(rest[0]).replace(" ", "") == "begin,end=self.time_unit_transformer(node)":
                iv = True
                rest = rest[1:]
            if ok and len(rest) == 1 and isinstance(rest[0], ast.Assign) and len(rest[0].targets) == 1 \
                    and src(rest[0].targets[0]) == "self.online_operator_dict[node.name]" and isinstance(rest[0].value, ast.Call) \
                    and isinstance(rest[0].value.func, ast.Name) and not rest[0].value.keywords:
                amap = {"node.operator": ".operator", "begin": ".begin_", "end": ".end_", "node.val": ".val"}
                args = [amap.get(src(a)) for a in rest[0].value.args]
                if all(a is not None for a in args) and (iv or not any(a in (".begin_", ".end_") for a in args)):
                    row = "(.builds %s [%s])" % (q(rest[0].value.func.id), ", ".join(args))
        if row is None:
            row = "(.unsupported %s)" % q(" ; ".join(src(st) for st in m.body)[:200])
        rows.append("(%s, %s)" % (q(name), row))
    lines = ["/- GENERATED by harness/py2lean.py from %s of /repo on every run - do not edit. -/" % ONCTOR_FILE,
             "import Rtamt.Py.OnCtor", "", "namespace Rtamt.Py.Gen.OnCtor", "open Rtamt Rtamt.Py", "",
             "/-- what `visitX` of the construction visitor does after visiting the children -/",
             "def table : List (String × CtorAction) :=", "  [" + ",\n   ".join(rows) + "]", "", "end Rtamt.Py.Gen.OnCtor"]
    return "\n".join(lines) + "\n"


PAST_FILE = "rtamt/pastifier/stl/pastifier.py"
OUT_PAST = os.path.join(os.path.dirname(HERE), "lean", "Rtamt", "Py", "GeneratedPast.lean")


class PastTr:
    """Translator of the visit methods of StlPastifier into the sub-language of `Rtamt/Py/Past.lean`."""

    def __init__(self):
        self.node_reassigned = False

    def expr(self, e):
        t = src(e)
        if t == "args[0]":
            return '(.loc "$horizon")'
        if t == "self.subformula_horizons[node]":
            return '(.loc "$node_horizon")'
        if t in ("node.begin", "node.end", "node.operator"):
            if self.node_reassigned:
                return "(.unsupported %s)" % q(t + " after node was re-assigned")
            return "(.loc %s)" % q("$" + t[5:])
        if isinstance(e, ast.Constant) and isinstance(e.value, int) and not isinstance(e.value, bool):
            return "(.int %d)" % e.value
        if isinstance(e, ast.Name):
            return "(.loc %s)" % q(e.id)
        if isinstance(e, ast.BinOp) and isinstance(e.op, (ast.Add, ast.Sub)):
            return "(.%s %s %s)" % ("add" if isinstance(e.op, ast.Add) else "sub", self.expr(e.left), self.expr(e.right))
        if isinstance(e, ast.Compare) and len(e.ops) == 1 and isinstance(e.ops[0], ast.Gt):
            return "(.gt %s %s)" % (self.expr(e.left), self.expr(e.comparators[0]))
        if isinstance(e, ast.Call) and not e.keywords:
            f = src(e.func)
            a = e.args
            if f == "self.visit" and len(a) == 2 and isinstance(a[0], ast.Subscript) and src(a[0].value) == "node.children" \
                    and isinstance(a[0].slice, ast.Constant) and isinstance(a[0].slice.value, int) and not self.node_reassigned:
                return "(.visit %d %s)" % (a[0].slice.value, self.expr(a[1]))
            if f == "Interval" and len(a) == 2:
                return "(.interval %s %s)" % (self.expr(a[0]), self.expr(a[1]))
            if (f == "Variable" and [src(x) for x in a] == ["node.var", "node.field", "node.io_type"]) or \
                    (f == "Constant" and [src(x) for x in a] == ["node.val"]):
                return ".selfLeaf" if not self.node_reassigned else "(.unsupported %s)" % q(t)
            if isinstance(e.func, ast.Name) and f[:1].isupper() and 1 <= len(a) <= 3:
                return "(.mk%d %s %s)" % (len(a), q(f), " ".join(self.expr(x) for x in a))
        return "(.unsupported %s)" % q(t)

    def seq(self, items):
        items = [i for i in items if i != ".skip"]
        if not items:
            return ".skip"
        out = items[-1]
        for i in reversed(items[:-1]):
            out = "(.seq %s %s)" % (i, out)
        return out

    def block(self, stmts):
        return self.seq([self.stmt(x) for x in stmts])

    def stmt(self, st):
        if isinstance(st, ast.Pass):
            return ".skip"
        if isinstance(st, ast.Assign) and len(st.targets) == 1 and isinstance(st.targets[0], ast.Name):
            r = "(.setLoc %s %s)" % (q(st.targets[0].id), self.expr(st.value))
            if st.targets[0].id == "node":
                self.node_reassigned = True
            return r
        if isinstance(st, ast.If):
            c = self.expr(st.test)
            before = self.node_reassigned
            t = self.block(st.body)
            after_t = self.node_reassigned
            self.node_reassigned = before
            e = self.block(st.orelse)
            self.node_reassigned = self.node_reassigned or after_t
            return "(.ite %s %s %s)" % (c, t, e)
        if isinstance(st, ast.For) and not st.orelse and isinstance(st.target, ast.Name) and isinstance(st.iter, ast.Call) \
                and src(st.iter.func) == "range" and len(st.iter.args) == 1 and not st.iter.keywords:
            n = self.expr(st.iter.args[0])
            return "(.forRange %s %s %s)" % (q(st.target.id), n, self.block(st.body))
        if isinstance(st, ast.Raise) and isinstance(st.exc, ast.Call) and isinstance(st.exc.func, ast.Name):
            return "(.raise .rtamt)" if st.exc.func.id == "RTAMTException" else "(.raise .other)"
        return "(.unsupported %s)" % q(src(st))


def generate_past():
    tree = ast.parse(open(os.path.join(REPO, PAST_FILE)).read())
    cls = [n for n in tree.body if isinstance(n, ast.ClassDef) and n.name == "StlPastifier"][0]
    last = {}
    for m in cls.body:                      # a name defined twice in the class body: the last definition is the method
        if isinstance(m, ast.FunctionDef):
            last[m.name] = m
    lines = ["/- GENERATED by harness/py2lean.py from %s of /repo on every run - do not edit. -/" % PAST_FILE,
             "import Rtamt.Py.Past", "", "namespace Rtamt.Py.Gen.Past", "open Rtamt Rtamt.Py", ""]
    names = []
    for name, m in last.items():
        if not name.startswith("visit") or name in ("visit", "visitDefault"):
            continue
        a = m.args
        if [x.arg for x in a.args] != ["self", "node"]:
            continue
        tr = PastTr()
        body = list(m.body)
        ret = "none"
        if body and isinstance(body[-1], ast.Return) and body[-1].value is not None:
            r = body.pop()
            btxt = tr.block(body)
            ret = "(some %s)" % tr.expr(r.value)
        else:
            btxt = tr.block(body)
        if any(isinstance(x, ast.Return) for st in body for x in ast.walk(st)):
            btxt = "(.unsupported %s)" % q("return inside " + name)
        lines.append("def %s : PMethod :=\n  { name := %s, body := %s, ret := %s }" % (name, q(name), btxt, ret))
        lines.append("")
        names.append(name)
    lines.append("def methods : List (String × PMethod) := [%s]" % ", ".join("(%s, %s)" % (q(n), n) for n in names))
    lines.append("")
    lines.append("end Rtamt.Py.Gen.Past")
    return "\n".join(lines) + "\n"


# ---------------------------------------------------------------------------------------------------------------------
# dense-time offline monitor: intersection.py and the offline ast_visitor.py -> Rtamt/Py/GeneratedDense.lean
# (sub-language and semantics: Rtamt/Py/Dn.lean)
DENSE_INTER = "rtamt/semantics/stl/dense_time/offline/intersection.py"
DENSE_VISITOR = "rtamt/semantics/stl/dense_time/offline/ast_visitor.py"
OUT_DENSE = os.path.join(os.path.dirname(HERE), "lean", "Rtamt", "Py", "GeneratedDense.lean")
DENSE_IA_VISITOR = "rtamt/semantics/iastl/dense_time/offline/ast_visitor.py"


class _Subst(ast.NodeTransformer):
    def __init__(self, m):
        self.m = m

    def visit_Name(self, node):
        if node.id in self.m:
            return ast.copy_location(ast.Name(id=self.m[node.id], ctx=node.ctx), node)
        return node


class DnTr:
    """Translator of a function / visit method of the dense-time offline monitor into `Rtamt.Py.Dn`."""

    BUILTIN1 = {"len": "len", "list": "list", "abs": "abs", "float": "float", "math.sqrt": "math.sqrt", "math.exp": "math.exp",
                "math.log": "math.log"}
    BUILTIN2 = {"max": "max", "min": "min", "math.pow": "math.pow", "math.log": "math.log"}

    def __init__(self, fn, module_funcs, visitor=False):
        self.fn = fn
        self.funcs = module_funcs          # name -> FunctionDef of the module (for `_append`, the one function that is inlined)
        self.visitor = visitor
        # a name may be changed in place only if every binding of it in the function is a freshly built list
        self.fresh_only = {}
        params = set(a.arg for a in fn.args.args)
        self.bindings = {}
        for x in ast.walk(fn):
            if isinstance(x, ast.Assign):
                for t in x.targets:
                    for nm in ([t] if isinstance(t, ast.Name) else (t.elts if isinstance(t, ast.Tuple) else [])):
                        if isinstance(nm, ast.Name):
                            ok = isinstance(t, ast.Name) and self.is_fresh_list(x.value)
                            self.fresh_only[nm.id] = self.fresh_only.get(nm.id, True) and ok
                            self.bindings.setdefault(nm.id, []).append((x, ok))
            elif isinstance(x, (ast.For,)):
                for nm in ast.walk(x.target):
                    if isinstance(nm, ast.Name):
                        self.fresh_only[nm.id] = False
                        self.bindings[nm.id] = [(x, False)]
        for p_ in params:
            # a parameter that the function first of all replaces by a copy (`p = list(p)`) is a fresh list from then on
            first = next((st for st in fn.body if any(isinstance(x, ast.Name) and x.id == p_ for x in ast.walk(st))), None)
            copied = (isinstance(first, ast.Assign) and len(first.targets) == 1 and isinstance(first.targets[0], ast.Name)
                      and first.targets[0].id == p_ and src(first.value) == "list(%s)" % p_)
            if not (copied and self.fresh_only.get(p_, False)):
                self.fresh_only[p_] = False
                self.bindings.pop(p_, None)

    @staticmethod
    def is_fresh_list(e):
        if isinstance(e, ast.List) and not e.elts:
            return True
        if isinstance(e, ast.Call) and isinstance(e.func, ast.Name) and e.func.id == "list" and not e.keywords and len(e.args) <= 1:
            return True
        return False

    def _index(self):
        """For every statement of the function: the chain of (If node, branch) it sits in, and whether a loop encloses that If."""
        if getattr(self, "_anc", None) is not None:
            return
        self._anc = {}

        def walk(stmts, chain, in_loop):
            for st in stmts:
                self._anc[id(st)] = list(chain)
                if isinstance(st, ast.If):
                    walk(st.body, chain + [(id(st), 0, in_loop)], in_loop)
                    walk(st.orelse, chain + [(id(st), 1, in_loop)], in_loop)
                elif isinstance(st, (ast.For, ast.While)):
                    walk(st.body, chain, True)
                    walk(st.orelse, chain, True)
        walk(self.fn.body, [], False)

    def mutable(self, name, at=None):
        """May the list bound to `name` be changed in place at statement `at`?  Yes if every binding of the name in the function
        is a freshly built list - or if every binding that is not sits in the OTHER branch of an `if` (outside every loop) than
        `at`: it cannot reach that statement."""
        if self.fresh_only.get(name, False):
            return True
        if at is None or name not in getattr(self, "bindings", {}):
            return False
        self._index()
        here = self._anc.get(id(at))
        if here is None:
            return False
        for b, fresh in self.bindings[name]:
            if fresh:
                continue
            there = self._anc.get(id(b))
            if there is None:
                return False
            excl = any(i1 == i2 and br1 != br2 and not loop1 for (i1, br1, loop1) in here for (i2, br2, _l) in there)
            if not excl:
                return False
        return True

    def is_float_lit(self, e, what):
        return (isinstance(e, ast.Call) and isinstance(e.func, ast.Name) and e.func.id == "float" and len(e.args) == 1
                and not e.keywords and isinstance(e.args[0], ast.Constant) and isinstance(e.args[0].value, str)
                and e.args[0].value.lower() in what)

    def pure(self, e):
        return not any(isinstance(x, ast.Call) for x in ast.walk(e))

    def expr(self, e):
        t = src(e)
        un = lambda: "(.unsupported %s)" % q(t)
        if self.visitor:
            special = {"node.operator.value": "$operator", "node.val": "$val", "node.field": "$field",
                       "self.ast.var_object_dict[node.var]": "$var", "node.out_vars": "$out_vars", "node.in_vars": "$in_vars"}
            if t in special:
                return "(.loc %s)" % q(special[t])
            if isinstance(e, ast.Attribute) and e.attr == "value" and isinstance(e.value, ast.Attribute) \
                    and src(e.value.value) == "StlComparisonOperator" and e.value.attr in CMP:
                return "(.cmpc .%s)" % CMP[e.value.attr]
            if isinstance(e, ast.Attribute) and isinstance(e.value, ast.Name) and e.value.id == "self":
                return "(.loc %s)" % q("self." + e.attr)
        if self.is_float_lit(e, ("inf", "infinity")):
            return ".inf"
        if self.is_float_lit(e, ("nan",)):
            return ".nan"
        if isinstance(e, ast.Constant):
            if e.value is True or e.value is False:
                return "(.boolLit %s)" % ("true" if e.value else "false")
            if e.value is None:
                return ".noneLit"
            if isinstance(e.value, int):
                return "(.int %d)" % e.value
            return un()
        if isinstance(e, ast.Name):
            return "(.loc %s)" % q(e.id)
        if isinstance(e, ast.Attribute) and isinstance(e.value, ast.Name) and e.value.id == "intersect":
            return "(.fnRef %s)" % q(e.attr)
        if isinstance(e, ast.UnaryOp) and isinstance(e.op, ast.USub):
            return "(.neg %s)" % self.expr(e.operand)
        if isinstance(e, ast.UnaryOp) and isinstance(e.op, ast.Not):
            return "(.not %s)" % self.expr(e.operand)
        if isinstance(e, ast.BinOp) and type(e.op) in BINOPS:
            return "(.bin .%s %s %s)" % (BINOPS[type(e.op)], self.expr(e.left), self.expr(e.right))
        if isinstance(e, ast.Compare) and all(type(o) in CMPOPS for o in e.ops):
            operands = [e.left] + list(e.comparators)
            if len(operands) > 2 and not all(self.pure(x) for x in operands[1:-1]):
                return un()
            parts = ["(.bin .%s %s %s)" % (CMPOPS[type(o)], self.expr(a), self.expr(b))
                     for o, a, b in zip(e.ops, operands, operands[1:])]
            out = parts[-1]
            for p_ in reversed(parts[:-1]):
                out = "(.and_ %s %s)" % (p_, out)
            return out
        if isinstance(e, ast.BoolOp):
            c = ".and_" if isinstance(e.op, ast.And) else ".or_"
            out = self.expr(e.values[-1])
            for v in reversed(e.values[:-1]):
                out = "(%s %s %s)" % (c, self.expr(v), out)
            return out
        if isinstance(e, ast.Subscript):
            sl = e.slice
            if isinstance(sl, ast.Slice):
                if sl.upper is None and sl.step is None and isinstance(sl.lower, ast.Constant) and isinstance(sl.lower.value, int) \
                        and sl.lower.value >= 0:
                    return "(.sliceFrom %s %d)" % (self.expr(e.value), sl.lower.value)
                return un()
            return "(.idx %s %s)" % (self.expr(e.value), self.expr(sl))
        if isinstance(e, ast.List):
            if not e.elts:
                return ".emptyList"
            if len(e.elts) == 2:
                return "(.list2 %s %s)" % (self.expr(e.elts[0]), self.expr(e.elts[1]))
            return un()
        if isinstance(e, ast.Tuple):
            if len(e.elts) == 3:
                return "(.tup3 %s)" % " ".join(self.expr(x) for x in e.elts)
            if len(e.elts) == 4:
                return "(.tup4 %s)" % " ".join(self.expr(x) for x in e.elts)
            return un()
        if isinstance(e, ast.Call) and not e.keywords and not any(isinstance(a, ast.Starred) for a in e.args):
            f = src(e.func)
            n = len(e.args)
            if f == "list" and n == 0:
                return ".emptyList"
            if (n == 1 and f in self.BUILTIN1) or (n == 2 and f in self.BUILTIN2):
                name = f
            elif isinstance(e.func, ast.Name) and f != "_append":
                name = f
            elif isinstance(e.func, ast.Attribute) and isinstance(e.func.value, ast.Name) and e.func.value.id == "intersect":
                name = e.func.attr
            else:
                return un()
            if 1 <= n <= 4:
                return "(.call%d %s %s)" % (n, q(name), " ".join(self.expr(a) for a in e.args))
        return un()

    def seq(self, items):
        items = [i for i in items if i != ".skip"]
        if not items:
            return ".skip"
        out = items[-1]
        for i in reversed(items[:-1]):
            out = "(.seq %s %s)" % (i, out)
        return out

    def block(self, stmts):
        return self.seq([self.stmt(x) for x in stmts])

    def target_name(self, t):
        if isinstance(t, ast.Name):
            return t.id
        if self.visitor and isinstance(t, ast.Attribute) and isinstance(t.value, ast.Name) and t.value.id == "self":
            return "self." + t.attr
        return None

    def stmt(self, st):
        t = src(st)
        un = "(.unsupported %s)" % q(t)
        if isinstance(st, ast.Pass):
            return ".skip"
        if isinstance(st, ast.Assign) and len(st.targets) == 1 and isinstance(st.value, ast.IfExp) and self.target_name(st.targets[0]):
            # x = a if c else b
            tg = q(self.target_name(st.targets[0]))
            return "(.ite %s (.setLoc %s %s) (.setLoc %s %s))" % (self.expr(st.value.test), tg, self.expr(st.value.body), tg,
                                                                  self.expr(st.value.orelse))
        if isinstance(st, ast.Assign) and len(st.targets) == 1:
            tg = st.targets[0]
            nm = self.target_name(tg)
            if nm is not None:
                return "(.setLoc %s %s)" % (q(nm), self.expr(st.value))
            if isinstance(tg, ast.Tuple) and all(isinstance(x, ast.Name) for x in tg.elts):
                return "(.unpack [%s] %s)" % (", ".join(q(x.id) for x in tg.elts), self.expr(st.value))
            return un
        if isinstance(st, ast.Expr) and isinstance(st.value, ast.Call) and not st.value.keywords:
            c = st.value
            if isinstance(c.func, ast.Attribute) and isinstance(c.func.value, ast.Name):
                x, m, a = c.func.value.id, c.func.attr, c.args
                if not self.mutable(x, st):
                    return "(.unsupported %s)" % q(t + "  # in-place change of a list that may be shared")
                if m == "append" and len(a) == 1:
                    return "(.appendLoc %s %s)" % (q(x), self.expr(a[0]))
                if m == "insert" and len(a) == 2 and isinstance(a[0], ast.Constant) and a[0].value == 0:
                    return "(.insert0 %s %s)" % (q(x), self.expr(a[1]))
                if m == "pop" and len(a) == 1:
                    return "(.delIdx %s %s)" % (q(x), self.expr(a[0]))
                return un
            if isinstance(c.func, ast.Name) and c.func.id == "_append" and "_append" in self.funcs and len(c.args) == 2 \
                    and isinstance(c.args[0], ast.Name):
                # the one function that changes its argument in place: inlined, its locals renamed
                f = self.funcs["_append"]
                ps = [p_.arg for p_ in f.args.args]
                if len(ps) != 2 or not self.mutable(c.args[0].id):
                    return un
                ren = {ps[0]: c.args[0].id, ps[1]: "_append$" + ps[1]}
                for x in ast.walk(f):
                    if isinstance(x, ast.Name) and x.id not in ren and isinstance(x.ctx, ast.Store):
                        ren[x.id] = "_append$" + x.id
                import copy
                body = [_Subst(ren).visit(copy.deepcopy(b)) for b in f.body]
                self.fresh_only.setdefault("_append$" + ps[1], False)
                return self.seq(["(.setLoc %s %s)" % (q("_append$" + ps[1]), self.expr(c.args[1]))] + [self.stmt(b) for b in body])
            return un
        if isinstance(st, ast.Delete) and len(st.targets) == 1 and isinstance(st.targets[0], ast.Subscript) \
                and isinstance(st.targets[0].value, ast.Name) and not isinstance(st.targets[0].slice, ast.Slice):
            x = st.targets[0].value.id
            if not self.mutable(x):
                return "(.unsupported %s)" % q(t + "  # in-place change of a list that may be shared")
            return "(.delIdx %s %s)" % (q(x), self.expr(st.targets[0].slice))
        if isinstance(st, ast.If):
            return "(.ite %s %s %s)" % (self.expr(st.test), self.block(st.body), self.block(st.orelse))
        if isinstance(st, ast.While) and not st.orelse:
            return "(.while_ %s %s)" % (self.expr(st.test), self.block(st.body))
        if isinstance(st, ast.For) and not st.orelse:
            it, tg = st.iter, st.target
            if isinstance(tg, ast.Name):
                return "(.forIn %s %s %s)" % (q(tg.id), self.expr(it), self.block(st.body))
            if isinstance(tg, ast.Tuple) and len(tg.elts) == 2 and all(isinstance(x, ast.Name) for x in tg.elts):
                rev = False
                its = src(it)
                inner = None
                if isinstance(it, ast.Call) and src(it.func) == "enumerate" and len(it.args) == 1 and not it.keywords:
                    inner = it.args[0]
                elif its.startswith("reversed(list(enumerate(") and isinstance(it, ast.Call) and len(it.args) == 1 \
                        and isinstance(it.args[0], ast.Call) and src(it.args[0].func) == "list" and len(it.args[0].args) == 1 \
                        and isinstance(it.args[0].args[0], ast.Call) and src(it.args[0].args[0].func) == "enumerate" \
                        and len(it.args[0].args[0].args) == 1:
                    inner = it.args[0].args[0].args[0]
                    rev = True
                if inner is not None:
                    return "(.forEnum %s %s %s %s %s)" % (q(tg.elts[0].id), q(tg.elts[1].id), self.expr(inner),
                                                           "true" if rev else "false", self.block(st.body))
            return un
        if isinstance(st, ast.Return):
            return "(.ret %s)" % (self.expr(st.value) if st.value is not None else ".noneLit")
        if isinstance(st, ast.Raise) and isinstance(st.exc, ast.Call) and isinstance(st.exc.func, ast.Name):
            return "(.raise .rtamt)" if st.exc.func.id == "RTAMTException" else "(.raise .other)"
        return un


def generate_dense():
    lines = ["/- GENERATED by harness/py2lean.py from %s and %s of /repo on every run - do not edit. -/" % (DENSE_INTER, DENSE_VISITOR),
             "import Rtamt.Py.Dn", "", "namespace Rtamt.Py.Gen.Dense", "open Rtamt Rtamt.Py.Dn", ""]
    fn_names = []
    for path in (DENSE_INTER, DENSE_VISITOR):
        tree = ast.parse(open(os.path.join(REPO, path)).read())
        funcs = {n.name: n for n in tree.body if isinstance(n, ast.FunctionDef)}
        for name, f in funcs.items():
            if name == "_append":
                continue                    # inlined at its call sites
            a = f.args
            if a.vararg or a.kwarg or a.kwonlyargs or a.defaults:
                body = "(.unsupported %s)" % q("signature of " + name)
                params = []
            else:
                tr = DnTr(f, funcs)
                params = [x.arg for x in a.args]
                body = tr.block(f.body)
            if name in fn_names:
                lines.append("-- %s of %s shadows nothing: defined once per module; a second definition is reported" % (name, path))
                body = "(.unsupported %s)" % q("two functions named " + name)
                name_l = name + "'"
            else:
                name_l = name
            lines.append("def fn_%s : Fn :=\n  { name := %s, params := [%s], body := %s }" % (
                name_l.replace("'", "_dup"), q(name), ", ".join(q(x) for x in params), body))
            lines.append("")
            fn_names.append(name_l)
    lines.append("/-- the module-level functions of intersection.py and of the visitor module, by name -/")
    lines.append("def fns : List (String × Fn) := [%s]" % ", ".join("(%s, fn_%s)" % (q(n.replace("'", "")), n.replace("'", "_dup")) for n in fn_names))
    lines.append("")
    tree = ast.parse(open(os.path.join(REPO, DENSE_VISITOR)).read())
    funcs = {n.name: n for n in tree.body if isinstance(n, ast.FunctionDef)}
    cls = [n for n in tree.body if isinstance(n, ast.ClassDef) and n.name == "StlDenseTimeOfflineAstVisitor"][0]
    last = {}
    for m in cls.body:
        if isinstance(m, ast.FunctionDef):
            last[m.name] = m
    names = []
    for name, m in last.items():
        if not name.startswith("visit") or name == "visit":
            continue
        if [x.arg for x in m.args.args] != ["self", "node"]:
            continue
        kids, interval, body = [], False, []
        for st in m.body:
            t = src(st)
            if isinstance(st, ast.Assign) and len(st.targets) == 1 and isinstance(st.targets[0], ast.Name) \
                    and isinstance(st.value, ast.Call) and src(st.value.func) == "self.visit" and len(st.value.args) >= 1 \
                    and isinstance(st.value.args[0], ast.Subscript) and src(st.value.args[0].value) == "node.children" \
                    and isinstance(st.value.args[0].slice, ast.Constant) and st.value.args[0].slice.value == len(kids) and not body:
                kids.append(st.targets[0].id)
                continue
            if t.replace(" ", "") == "begin,end=self.time_unit_transformer(node)" and not body and not interval:
                interval = True
                continue
            body.append(st)
        tr = DnTr(m, funcs, visitor=True)
        lines.append("def %s : DMethod :=\n  { name := %s, kids := [%s], interval := %s, body := %s }" % (
            name, q(name), ", ".join(q(k) for k in kids), "true" if interval else "false", tr.block(body)))
        lines.append("")
        names.append(name)
    # the interface-aware subclasses (robustness semantics): `visitPredicate` with the parent's method inlined
    ia_names = []
    try:
        itree = ast.parse(open(os.path.join(REPO, DENSE_IA_VISITOR)).read())
        icls = {n.name: n for n in itree.body if isinstance(n, ast.ClassDef)}
        parent = [m for m in icls["IAStlDenseTimeOfflineAstVisitor"].body if isinstance(m, ast.FunctionDef) and m.name == "visitPredicate"][0]
        for cname, short in (("IAStlOutputRobustnessDenseTimeOfflineAstVisitor", "visitPredicate_outRob"),
                             ("IAStlInputRobustnessDenseTimeOfflineAstVisitor", "visitPredicate_inRob")):
            child = [m for m in icls[cname].body if isinstance(m, ast.FunctionDef) and m.name == "visitPredicate"][0]
            first = child.body[0]
            pret = parent.body[-1]
            ok = (isinstance(first, ast.Assign) and isinstance(first.targets[0], ast.Tuple) and len(first.targets[0].elts) == 2
                  and src(first.value).replace(" ", "") == "IAStlDenseTimeOfflineAstVisitor.visitPredicate(self,node,*args,**kwargs)"
                  and isinstance(pret, ast.Return) and isinstance(pret.value, ast.Tuple) and len(pret.value.elts) == 2)
            kids, body = [], []
            for st in parent.body[:-1]:
                if isinstance(st, ast.Assign) and len(st.targets) == 1 and isinstance(st.targets[0], ast.Name) \
                        and isinstance(st.value, ast.Call) and src(st.value.func) == "self.visit" and not body:
                    kids.append(st.targets[0].id)
                    continue
                body.append(st)
            if ok:
                import copy
                # `a, b = Parent.visitPredicate(...)`: the two returned lists are bound to the child's names
                for tgt, val in zip(first.targets[0].elts, pret.value.elts):
                    if src(tgt) != src(val):
                        body.append(ast.parse("%s = %s" % (src(tgt), src(val))).body[0])
                body += list(child.body[1:])
                fake = copy.copy(child)
                fake.body = body
                tr = DnTr(fake, funcs, visitor=True)
                btxt = tr.block(body)
            else:
                btxt = "(.unsupported %s)" % q("shape of " + cname + ".visitPredicate")
            lines.append("def %s : DMethod :=\n  { name := %s, kids := [%s], interval := false, body := %s }" % (
                short, q(short), ", ".join(q(k) for k in kids), btxt))
            lines.append("")
            ia_names.append(short)
    except (OSError, KeyError, IndexError) as e:
        lines.append("-- interface-aware visitors not found: %s" % e)
    lines.append("/-- `visitPredicate` of the interface-aware robustness visitors (rtamt/semantics/iastl/dense_time/offline), parent inlined -/")
    lines.append("def iaMethods : List (String × DMethod) := [%s]" % ", ".join("(%s, %s)" % (q(n), n) for n in ia_names))
    lines.append("")
    lines.append("/-- the methods the class `StlDenseTimeOfflineAstVisitor` defines, by name -/")
    lines.append("def methods : List (String × DMethod) := [%s]" % ", ".join("(%s, %s)" % (q(n), n) for n in names))
    lines.append("")
    lines.append("end Rtamt.Py.Gen.Dense")
    return "\n".join(lines) + "\n"


# ---------------------------------------------------------------------------------------------------------------------
# dense-time online monitor: online/intersection.py and the operation classes -> Rtamt/Py/GeneratedDenseOn.lean
# (sub-language and semantics: Rtamt/Py/DnOn.lean)
SEMANTICS_ORDER = ["STANDARD", "OUTPUT_ROBUSTNESS", "INPUT_VACUITY", "INPUT_ROBUSTNESS", "OUTPUT_VACUITY"]
DENSE_ON_IA = "rtamt/semantics/iastl/dense_time/online/predicate_operation.py"
DENSE_ON_INTER = "rtamt/semantics/stl/dense_time/online/intersection.py"
DENSE_ON_DIRS = ["rtamt/semantics/stl/dense_time/online", "rtamt/semantics/arithmetic/dense_time/online"]
DENSE_ON_CTOR = "rtamt/semantics/stl/dense_time/online/ast_visitor.py"
OUT_DENSE_ON = os.path.join(os.path.dirname(HERE), "lean", "Rtamt", "Py", "GeneratedDenseOn.lean")


class DnOnTr(DnTr):
    """Methods of the operation classes: `self.x` is the local "self.x"; calls of a method of an attribute object and object
    construction are statements of their own; `break`; `x.copy()`."""

    def __init__(self, fn, module_funcs, class_names, method=False):
        self.class_names = class_names
        self.method = method
        DnTr.__init__(self, fn, module_funcs, visitor=False)
        if method:
            self.fresh_only.pop("self", None)
        # bindings that DnTr.__init__ judged: re-judge with the wider notion of a freshly built list
        params = set(a.arg for a in fn.args.args)
        judged = {}

        def note(name, ok):
            judged[name] = judged.get(name, True) and ok
        for blk in self.blocks(fn):
            for k, st in enumerate(blk):
                if isinstance(st, ast.Assign):
                    nxt = blk[k + 1] if k + 1 < len(blk) else None
                    for t in st.targets:
                        if isinstance(t, ast.Tuple):
                            for nm in t.elts:
                                n_ = self.target_name(nm)
                                if n_:
                                    note(n_, isinstance(st.value, ast.Call))       # the parts of a callee's result
                        else:
                            n_ = self.target_name(t)
                            if n_:
                                note(n_, self.is_fresh(st.value) or self.is_handover(st, nxt))
                elif isinstance(st, ast.For):
                    for nm in ast.walk(st.target):
                        if isinstance(nm, ast.Name):
                            note(nm.id, False)
        for p_ in params:
            first = next((st for st in fn.body if any(isinstance(x, ast.Name) and x.id == p_ for x in ast.walk(st))), None)
            copied = (isinstance(first, ast.Assign) and len(first.targets) == 1 and isinstance(first.targets[0], ast.Name)
                      and first.targets[0].id == p_ and src(first.value) == "list(%s)" % p_)
            if not (copied and judged.get(p_, False)):
                judged[p_] = False
        self.fresh_only = judged

    @staticmethod
    def blocks(fn):
        out = []
        for x in ast.walk(fn):
            for f_ in ("body", "orelse"):
                b = getattr(x, f_, None)
                if isinstance(b, list) and b and isinstance(b[0], ast.stmt):
                    out.append(b)
        return out

    def is_fresh(self, e):
        if DnTr.is_fresh_list(e):
            return True
        if isinstance(e, ast.BinOp) and isinstance(e.op, ast.Add):
            return True                      # a concatenation (or a number: never changed in place)
        if isinstance(e, ast.Subscript) and isinstance(e.slice, ast.Slice):
            return True
        if isinstance(e, ast.Call):
            f = src(e.func)
            if f.endswith(".copy") and not e.args:
                return True
            if f in ("len", "max", "min", "abs", "float"):
                return True
            return True                      # the result of a function / method: built by the callee
        if isinstance(e, (ast.Constant, ast.Tuple, ast.UnaryOp, ast.Compare, ast.BoolOp)):
            return True
        if isinstance(e, ast.List):
            return True
        return False

    def is_handover(self, st, nxt):
        """`x = self.a` directly followed by `self.a = <fresh>`: the list changes its owner, nobody else refers to it."""
        if not (isinstance(st.value, ast.Attribute) and isinstance(st.value.value, ast.Name) and st.value.value.id == "self"):
            return False
        return (isinstance(nxt, ast.Assign) and len(nxt.targets) == 1 and src(nxt.targets[0]) == src(st.value)
                and self.is_fresh(nxt.value))

    def target_name(self, t):
        if isinstance(t, ast.Name):
            return t.id
        if self.method and isinstance(t, ast.Attribute) and isinstance(t.value, ast.Name) and t.value.id == "self":
            return "self." + t.attr
        return None

    def expr(self, e):
        t = src(e)
        if self.method:
            if isinstance(e, ast.Attribute) and e.attr == "value" and isinstance(e.value, ast.Attribute) \
                    and isinstance(e.value.value, ast.Name) and e.value.value.id == "self":
                return "(.loc %s)" % q("self." + e.value.attr)          # self.comparison_op.value
            if isinstance(e, ast.Attribute) and e.attr == "value" and isinstance(e.value, ast.Attribute) \
                    and src(e.value.value) == "StlComparisonOperator" and e.value.attr in CMP:
                return "(.cmpc .%s)" % CMP[e.value.attr]
            if isinstance(e, ast.Attribute) and isinstance(e.value, ast.Name) and e.value.id == "self":
                return "(.loc %s)" % q("self." + e.attr)
        if isinstance(e, ast.Call) and isinstance(e.func, ast.Attribute) and e.func.attr == "copy" and not e.args and not e.keywords:
            return "(.call1 \"list\" %s)" % self.expr(e.func.value)
        if isinstance(e, ast.Attribute) and isinstance(e.value, ast.Name) and e.value.id == "Semantics" and e.attr in SEMANTICS_ORDER:
            return "(.int %d)" % SEMANTICS_ORDER.index(e.attr)          # a member of the enumeration: its position
        return DnTr.expr(self, e)

    def stmt(self, st):
        t = src(st)
        if isinstance(st, ast.Break):
            return ".brk"
        if isinstance(st, ast.For) and not st.orelse and isinstance(st.target, ast.Name) and isinstance(st.iter, ast.Call) \
                and src(st.iter.func) == "range" and len(st.iter.args) == 1 and isinstance(st.iter.args[0], ast.Call) \
                and src(st.iter.args[0].func) == "len" and len(st.iter.args[0].args) == 1:
            # for i in range(len(L)): the indices of L
            return "(.forEnum %s %s %s false %s)" % (q(st.target.id), q("$elem_" + st.target.id), self.expr(st.iter.args[0].args[0]),
                                                     self.block(st.body))
        if isinstance(st, ast.Assign) and len(st.targets) > 1 and all(isinstance(x, ast.Name) for x in st.targets) \
                and isinstance(st.value, ast.Constant):
            return self.seq(["(.setLoc %s %s)" % (q(x.id), self.expr(st.value)) for x in st.targets])
        if isinstance(st, ast.Assign) and len(st.targets) == 1 and isinstance(st.value, ast.IfExp) and self.target_name(st.targets[0]):
            # x = a if c else b
            tg = q(self.target_name(st.targets[0]))
            return "(.ite %s (.setLoc %s %s) (.setLoc %s %s))" % (self.expr(st.value.test), tg, self.expr(st.value.body), tg,
                                                                  self.expr(st.value.orelse))
        if self.method and isinstance(st, ast.Assign) and len(st.targets) == 1 and isinstance(st.value, ast.Call) \
                and all(k.arg is None for k in st.value.keywords):
            c = st.value
            tg = self.target_name(st.targets[0])
            args = [a for a in c.args if not isinstance(a, ast.Starred)]
            # t = self.a.m(args)
            if tg and isinstance(c.func, ast.Attribute) and isinstance(c.func.value, ast.Attribute) \
                    and isinstance(c.func.value.value, ast.Name) and c.func.value.value.id == "self":
                return "(.mcall (some %s) %s %s [%s])" % (q(tg), q("self." + c.func.value.attr), q(c.func.attr),
                                                          ", ".join(self.expr(a) for a in args))
            # t = Cls(args)
            if tg and isinstance(c.func, ast.Name) and c.func.id in self.class_names and len(args) == len(c.args) and not c.keywords:
                return "(.new %s %s [%s])" % (q(tg), q(c.func.id), ", ".join(self.expr(a) for a in args))
        if self.method and isinstance(st, ast.Expr) and isinstance(st.value, ast.Call) and not st.value.keywords \
                and isinstance(st.value.func, ast.Attribute) and isinstance(st.value.func.value, ast.Attribute) \
                and isinstance(st.value.func.value.value, ast.Name) and st.value.func.value.value.id == "self":
            c = st.value
            x, m, a = "self." + c.func.value.attr, c.func.attr, c.args
            if m in ("append", "insert", "pop"):
                if not self.mutable(x):
                    return "(.unsupported %s)" % q(t + "  # in-place change of a list that may be shared")
                if m == "append" and len(a) == 1:
                    return "(.appendLoc %s %s)" % (q(x), self.expr(a[0]))
                if m == "insert" and len(a) == 2 and isinstance(a[0], ast.Constant) and a[0].value == 0:
                    return "(.insert0 %s %s)" % (q(x), self.expr(a[1]))
                if m == "pop" and len(a) == 1:
                    return "(.delIdx %s %s)" % (q(x), self.expr(a[0]))
        return DnTr.stmt(self, st)


def generate_dense_on():
    lines = ["/- GENERATED by harness/py2lean.py from %s and the operation classes of %s of /repo on every run - do not edit. -/"
             % (DENSE_ON_INTER, ", ".join(DENSE_ON_DIRS)),
             "import Rtamt.Py.DnOn", "import Rtamt.Py.OnCtor", "", "namespace Rtamt.Py.Gen.DenseOn", "open Rtamt Rtamt.Py Rtamt.Py.DnOn", ""]
    entries = []
    tree = ast.parse(open(os.path.join(REPO, DENSE_ON_INTER)).read())
    funcs = {n.name: n for n in tree.body if isinstance(n, ast.FunctionDef)}
    classes = {}
    for d in DENSE_ON_DIRS:
        for path in sorted(glob.glob(os.path.join(REPO, d, "*_operation.py"))):
            for n in ast.parse(open(path).read()).body:
                if isinstance(n, ast.ClassDef):
                    classes[n.name] = n
    for name, f in funcs.items():
        if name == "_append":
            continue
        a = f.args
        if a.vararg or a.kwarg or a.kwonlyargs or a.defaults:
            params, body = [], "(.unsupported %s)" % q("signature of " + name)
        else:
            tr = DnOnTr(f, funcs, set(classes))
            params, body = [x.arg for x in a.args], tr.block(f.body)
        ident = "fn_" + name
        lines.append("def %s : Fn :=\n  { name := %s, params := [%s], body := %s }" % (ident, q(name), ", ".join(q(x) for x in params), body))
        lines.append("")
        entries.append((name, ident))
    for cname, cls in classes.items():
        meths = {}
        for m in cls.body:
            if isinstance(m, ast.FunctionDef):
                meths[m.name] = m
        for mname in ("__init__", "update", "sat"):
            m = meths.get(mname)
            if m is None:
                continue
            a = m.args
            if a.kwonlyargs or a.defaults or not a.args or a.args[0].arg != "self":
                params, body = ["self"], "(.unsupported %s)" % q("signature of %s.%s" % (cname, mname))
            else:
                tr = DnOnTr(m, funcs, set(classes), method=True)
                params, body = [x.arg for x in a.args], tr.block(m.body)
            ident = "%s_%s" % (cname, mname.strip("_"))
            lines.append("def %s : Fn :=\n  { name := %s, params := [%s], body := %s, isMethod := true }" % (
                ident, q("%s.%s" % (cname, mname)), ", ".join(q(x) for x in params), body))
            lines.append("")
            entries.append(("%s.%s" % (cname, mname), ident))
    # the interface-aware subclass of PredicateOperation: calls `Parent.m(self, ...)` are replaced by the parent's body
    try:
        ia = [n for n in ast.parse(open(os.path.join(REPO, DENSE_ON_IA)).read()).body if isinstance(n, ast.ClassDef)][0]
        parent = classes["PredicateOperation"]
        pm = {m.name: m for m in parent.body if isinstance(m, ast.FunctionDef)}
        import copy
        for m in ia.body:
            if not (isinstance(m, ast.FunctionDef) and m.name in ("__init__", "update")):
                continue
            body, okb = [], True
            for k, st in enumerate(m.body):
                call = st.value if isinstance(st, (ast.Assign, ast.Expr)) and isinstance(st.value, ast.Call) else None
                if call is not None and isinstance(call.func, ast.Attribute) and src(call.func.value) == "StlPredicateOperation" \
                        and call.func.attr in pm and call.args and src(call.args[0]) == "self" and not call.keywords:
                    pf = pm[call.func.attr]
                    pparams = [a.arg for a in pf.args.args][1:]
                    args = call.args[1:]
                    if len(args) != len(pparams) or not all(isinstance(a, ast.Name) for a in args):
                        okb = False
                        break
                    pref = "%s%d$" % (call.func.attr.strip("_"), k)
                    ren = dict(zip(pparams, [a.id for a in args]))
                    for x in ast.walk(pf):
                        if isinstance(x, ast.Name) and isinstance(x.ctx, ast.Store) and x.id not in ren:
                            ren[x.id] = pref + x.id
                    pbody = [_Subst(ren).visit(copy.deepcopy(b)) for b in pf.body]
                    ret = None
                    if pbody and isinstance(pbody[-1], ast.Return):
                        ret = pbody.pop().value
                    if any(isinstance(x, ast.Return) for b in pbody for x in ast.walk(b)):
                        okb = False
                        break
                    body += pbody
                    if isinstance(st, ast.Assign) and ret is not None:
                        body.append(ast.Assign(targets=st.targets, value=ret, lineno=st.lineno))
                else:
                    body.append(st)
            ident = "IAPredicateOperation_%s" % m.name.strip("_")
            if okb:
                fake = copy.copy(m)
                fake.body = [ast.fix_missing_locations(b) for b in body]
                tr = DnOnTr(fake, funcs, set(classes), method=True)
                btxt = tr.block(fake.body)
            else:
                btxt = "(.unsupported %s)" % q("parent call in IAPredicateOperation." + m.name)
            lines.append("def %s : Fn :=\n  { name := %s, params := [%s], body := %s, isMethod := true }" % (
                ident, q("IAPredicateOperation.%s" % m.name), ", ".join(q(x.arg) for x in m.args.args), btxt))
            lines.append("")
            entries.append(("IAPredicateOperation.%s" % m.name, ident))
    except (OSError, KeyError, IndexError) as e:
        lines.append("-- interface-aware predicate operation not found: %s" % e)
    lines.append("/-- the functions of the online intersection.py and the methods `Cls.__init__` / `Cls.update` / `Cls.sat` of the operation classes -/")
    lines.append("def fns : List (String × Fn) := [%s]" % ", ".join("(%s, %s)" % (q(n), i) for n, i in entries))
    lines.append("")
    # the construction visitor: which class for which node
    global ONCTOR_FILE
    keep = ONCTOR_FILE
    ONCTOR_FILE = DENSE_ON_CTOR
    try:
        txt = generate_onctor()
    finally:
        ONCTOR_FILE = keep
    tab = txt[txt.index("def table"):txt.index("end Rtamt.Py.Gen.OnCtor")]
    lines.append("/-- what `visitX` of the construction visitor (%s) does after visiting the children -/" % DENSE_ON_CTOR)
    lines.append(tab.rstrip())
    lines.append("")
    lines.append("end Rtamt.Py.Gen.DenseOn")
    return "\n".join(lines) + "\n"


INTERP_FILE = "rtamt/semantics/discrete_time_interpreter.py"
OUT_UNITS = os.path.join(os.path.dirname(HERE), "lean", "Rtamt", "Py", "GeneratedUnits.lean")


def generate_units():
    """`DiscreteTimeInterpreter.time_unit_transformer` (bounds -> samples) and `update_sampling_violation_counter`."""
    tree = ast.parse(open(os.path.join(REPO, INTERP_FILE)).read())
    cls = [n for n in tree.body if isinstance(n, ast.ClassDef) and n.name == "DiscreteTimeInterpreter"][0]
    tr = Tr(cls)
    tr.interp = True
    lines = ["/- GENERATED by harness/py2lean.py from %s of /repo on every run - do not edit. -/" % INTERP_FILE,
             "import Rtamt.Py.Sem", "", "namespace Rtamt.Py.Gen.Units", "open Rtamt Rtamt.Py", ""]
    want = {"time_unit_transformer": ["$begin", "$end", "$bunit", "$eunit", "$unit"], "update_sampling_violation_counter": None}
    for name, params in want.items():
        m = tr.methods.get(name)
        if m is None:
            lines.append("def %s : Method := { params := [], body := .unsupported \"missing method\", ret := none }" % name)
            continue
        t = tr.method(name)
        if params is not None:
            # the node attributes and the default unit the method reads are passed as arguments
            t = t.replace("params := [%s]" % ", ".join(q(x.arg) for x in m.args.args[1:]), "params := [%s]" % ", ".join(q(x) for x in params), 1)
        lines.append("/-- `DiscreteTimeInterpreter.%s` -/" % name)
        lines.append("def %s : Method :=\n  %s" % (name, t))
        lines.append("")
    # dense time: `DenseTimeInterpreter.time_unit_transformer` (bounds -> numbers in the default unit)
    try:
        dtree = ast.parse(open(os.path.join(REPO, "rtamt/semantics/dense_time_interpreter.py")).read())
        dcls = [n for n in dtree.body if isinstance(n, ast.ClassDef) and n.name == "DenseTimeInterpreter"][0]
        dtr = Tr(dcls)
        dtr.interp = True
        dtr.dense_units = True
        m = dtr.methods.get("time_unit_transformer")
        if m is None:
            t = "{ params := [], body := .unsupported \"missing method\", ret := none }"
        else:
            t = dtr.method("time_unit_transformer")
            t = t.replace("params := [%s]" % ", ".join(q(x.arg) for x in m.args.args[1:]),
                          "params := [%s]" % ", ".join(q(x) for x in ["$begin", "$end", "$bunit", "$eunit", "$unit"]), 1)
        lines.append("/-- `DenseTimeInterpreter.time_unit_transformer` (`float(x)` of an exact number is the number: rounding is not modelled) -/")
        lines.append("def dense_time_unit_transformer : Method :=\n  %s" % t)
        lines.append("")
    except (OSError, IndexError) as e:
        lines.append("-- dense_time_interpreter.py not found: %s" % e)
    lines.append("end Rtamt.Py.Gen.Units")
    return "\n".join(lines) + "\n"


ONLINE_INTERP_FILE = "rtamt/semantics/abstract_discrete_time_online_interpreter.py"
OFFLINE_INTERP_FILE = "rtamt/semantics/abstract_discrete_time_offline_interpreter.py"
OUT_CLOCK = os.path.join(os.path.dirname(HERE), "lean", "Rtamt", "Py", "GeneratedClock.lean")
CLOCK_ATTRS = ("update_counter", "previous_time", "sampling_violation_counter")


def _mentions_clock(node):
    return any(isinstance(x, ast.Attribute) and x.attr in CLOCK_ATTRS + ("normalize", "update_sampling_violation_counter")
               for x in ast.walk(node))


def generate_clock():
    """The sampling bookkeeping around the operator tree: the tail of online `update(timestamp, dataset)`, online `reset()`
    and the gap loop of offline `evaluate(dataset)`, with `self.normalize` and `update_sampling_violation_counter` inlined.
    The statements of these methods that do not touch the bookkeeping (evaluation of the specification) are left out; a
    statement outside the tail that does touch it makes the generated term `.unsupported`."""
    base_tree = ast.parse(open(os.path.join(REPO, INTERP_FILE)).read())
    base = [n for n in base_tree.body if isinstance(n, ast.ClassDef) and n.name == "DiscreteTimeInterpreter"][0]
    btr = Tr(base)
    btr.interp = True
    btr.clock = True
    btr.parents = {}
    norm = btr.methods.get("normalize")
    nexpr = None
    if norm is not None and len(norm.body) == 1 and isinstance(norm.body[0], ast.Try) and len(norm.body[0].body) == 1 \
            and isinstance(norm.body[0].body[0], ast.Return):
        nexpr = norm.body[0].body[0].value
    elif norm is not None and len(norm.body) == 1 and isinstance(norm.body[0], ast.Return):
        nexpr = norm.body[0].value
    btr.normalize_expr = nexpr

    def sub_tr(path, cname):
        tree = ast.parse(open(os.path.join(REPO, path)).read())
        cls = [n for n in tree.body if isinstance(n, ast.ClassDef) and n.name == cname][0]
        tr = Tr(cls)
        tr.interp = True
        tr.clock = True
        tr.normalize_expr = nexpr
        tr.parents = {"DiscreteTimeInterpreter": btr}
        return tr

    def body_of(tr, mname, ret_ok):
        """The statements of `mname` that touch the bookkeeping, provided they are top-level statements (an `if` or a `for`
        counts as one statement)."""
        m = tr.methods.get(mname)
        if m is None:
            return "(.unsupported %s)" % q("missing method " + mname)
        stmts = list(m.body)
        if stmts and isinstance(stmts[-1], ast.Return) and ret_ok and not _mentions_clock(stmts[-1]):
            stmts.pop()
        keep = []
        for st in stmts:
            if isinstance(st, ast.Expr) and isinstance(st.value, ast.Constant):
                continue
            if isinstance(st, ast.Return) or any(isinstance(x, ast.Return) for x in ast.walk(st)):
                return "(.unsupported %s)" % q("return inside " + mname)
            if _mentions_clock(st) or (isinstance(st, ast.Assign) and src(st.value) == "dataset['time']" and len(st.targets) == 1
                                       and isinstance(st.targets[0], ast.Name) and st.targets[0].id == "ts"):
                keep.append(st)
        return tr.block(keep, 0)

    on = sub_tr(ONLINE_INTERP_FILE, "AbstractDiscreteTimeOnlineInterpreter")
    off = sub_tr(OFFLINE_INTERP_FILE, "AbstractDiscreteTimeOfflineInterpreter")
    lines = ["/- GENERATED by harness/py2lean.py from %s, %s and %s of /repo on every run - do not edit. -/"
             % (ONLINE_INTERP_FILE, OFFLINE_INTERP_FILE, INTERP_FILE),
             "import Rtamt.Py.Sem", "", "namespace Rtamt.Py.Gen.Clock", "open Rtamt Rtamt.Py", "",
             "/-- the sampling bookkeeping of `AbstractDiscreteTimeOnlineInterpreter.update(timestamp, dataset)` -/",
             "def online_tick : Method :=\n  { params := [\"timestamp\", \"$unit\"], body := %s, ret := none }" % body_of(on, "update", True), "",
             "/-- the sampling bookkeeping of `AbstractDiscreteTimeOnlineInterpreter.reset()` -/",
             "def online_reset : Method :=\n  { params := [], body := %s, ret := none }" % body_of(on, "reset", True), "",
             "/-- the sampling bookkeeping of `AbstractDiscreteTimeOfflineInterpreter.evaluate(dataset)` -/",
             "def offline_count : Method :=\n  { params := [\"$time\", \"$unit\"], body := %s, ret := none }" % body_of(off, "evaluate", True), "",
             "end Rtamt.Py.Gen.Clock"]
    return "\n".join(lines) + "\n"


EXPL_LTL = "rtamt/explanation/ltl/discrete_time/explanations.py"
EXPL_STL = "rtamt/explanation/stl/discrete_time/explanations.py"
EXPLAINER_LTL = "rtamt/explanation/ltl/discrete_time/explainer.py"
EXPLAINER_STL = "rtamt/explanation/stl/discrete_time/explainer.py"
OUT_EXPL = os.path.join(os.path.dirname(HERE), "lean", "Rtamt", "Py", "GeneratedExpl.lean")


class _Rename(ast.NodeTransformer):
    def __init__(self, prefix, keep):
        self.prefix = prefix
        self.keep = keep

    def visit_Name(self, node):
        if node.id in self.keep:
            return node
        return ast.copy_location(ast.Name(id=self.prefix + node.id, ctx=node.ctx), node)


class ExplTr(Tr):
    """Module-level functions of explanations.py: loops over interval lists (`[[b, e], ...]`) and signals (lists of floats)."""

    def __init__(self, funcs):
        self.cls = None
        self.methods = {}
        self.funcs = funcs            # name -> FunctionDef (all functions visible in the module)
        self.offline = True

    def expr(self, e):
        if isinstance(e, ast.BoolOp):
            # `a and b` / `a or b` evaluate `b` only when needed
            vals = [self.cond(v) for v in e.values]
            out = vals[-1]
            for v in reversed(vals[:-1]):
                out = "(.ifExp %s %s (.bin .eq (.int 0) (.int 1)))" % (v, out) if isinstance(e.op, ast.And) \
                    else "(.ifExp %s (.bin .eq (.int 0) (.int 0)) %s)" % (v, out)
            return out
        if isinstance(e, ast.Compare) and len(e.ops) == 2 and all(type(o) in CMPOPS for o in e.ops):
            a, b, c = e.left, e.comparators[0], e.comparators[1]          # a < b <= c  (b has no side effect)
            return "(.ifExp (.bin .%s %s %s) (.bin .%s %s %s) (.bin .eq (.int 0) (.int 1)))" % (
                CMPOPS[type(e.ops[0])], self.expr(a), self.expr(b), CMPOPS[type(e.ops[1])], self.expr(b), self.expr(c))
        if isinstance(e, ast.UnaryOp) and isinstance(e.op, ast.Not):
            return "(.un .not %s)" % self.cond(e.operand)
        if isinstance(e, ast.List) and len(e.elts) == 2:
            return "(.tuple %s %s)" % (self.expr(e.elts[0]), self.expr(e.elts[1]))           # an interval [b, e]
        if isinstance(e, ast.Tuple) and len(e.elts) == 2:
            return "(.tuple %s %s)" % (self.expr(e.elts[0]), self.expr(e.elts[1]))
        if isinstance(e, ast.Call) and isinstance(e.func, ast.Name) and len(e.args) == 1 and not e.keywords:
            if e.func.id == "sorted":
                return "(.sorted %s)" % self.expr(e.args[0])
            if e.func.id == "int":
                return "(.un .toInt %s)" % self.expr(e.args[0])
        if isinstance(e, ast.Subscript) and src(e.slice) == "1" and isinstance(e.value, ast.Subscript) and src(e.value.slice) == "-1":
            return "(.lastSnd %s)" % self.expr(e.value.value)                                  # out[-1][1]
        return Tr.expr(self, e)

    def cond(self, e):
        """`e` in a Boolean position: a bare name is tested for truth (a Boolean or a list)."""
        t = self.expr(e)
        return "(.un .truthy %s)" % t if isinstance(e, ast.Name) else t

    def stmt(self, s, depth):
        if isinstance(s, ast.Assign) and len(s.targets) == 1:
            t = s.targets[0]
            if isinstance(t, ast.Tuple) and len(t.elts) == 2 and all(isinstance(x, ast.Name) for x in t.elts):
                return "(.unpack %s %s %s)" % (q(t.elts[0].id), q(t.elts[1].id), self.expr(s.value))
            if isinstance(t, ast.Subscript) and src(t.slice) == "1" and isinstance(t.value, ast.Subscript) and src(t.value.slice) == "-1" \
                    and isinstance(t.value.value, ast.Name):
                return "(.setLastSnd %s %s)" % (q(t.value.value.id), self.expr(s.value))       # out[-1][1] = e
            if isinstance(t, ast.Name) and isinstance(s.value, ast.Call) and isinstance(s.value.func, ast.Name) \
                    and s.value.func.id in self.funcs and not s.value.keywords:
                return self.inline_fn(self.funcs[s.value.func.id], s.value.args, t.id, depth)
        if isinstance(s, ast.For) and not s.orelse and isinstance(s.target, ast.Tuple) and len(s.target.elts) == 2 \
                and all(isinstance(x, ast.Name) for x in s.target.elts) and not (isinstance(s.iter, ast.Call) and src(s.iter.func) == "enumerate"):
            return "(.forPair %s %s %s %s)" % (q(s.target.elts[0].id), q(s.target.elts[1].id), self.expr(s.iter), self.block(s.body, depth))
        if isinstance(s, ast.If):
            return "(.ite %s %s %s)" % (self.cond(s.test), self.block(s.body, depth), self.block(s.orelse, depth))
        return Tr.stmt(self, s, depth)

    def inline_fn(self, fn, args, target, depth):
        """`target = fn(args)`: the body of `fn` with its local names prefixed, its `return e` assigned to `target`."""
        params = [x.arg for x in fn.args.args]
        a = fn.args
        if len(params) != len(args) or depth > 2 or a.vararg or a.kwarg or a.kwonlyargs or a.defaults:
            return "(.unsupported %s)" % q("call of " + fn.name)
        pre = fn.name + "$"
        keep = set(self.funcs) | {"sorted", "max", "min", "len", "int", "range", "float", "abs"}
        body = [_Rename(pre, keep).visit(ast.parse(ast.unparse(st)).body[0]) for st in fn.body]
        if not body or not isinstance(body[-1], ast.Return) or body[-1].value is None \
                or any(isinstance(x, ast.Return) for st in body[:-1] for x in ast.walk(st)):
            return "(.unsupported %s)" % q("return inside " + fn.name)
        ret = body.pop().value
        items = ["(.setLoc %s %s)" % (q(pre + p_), self.expr(a_)) for p_, a_ in zip(params, args)]
        items.append(self.block(body, depth + 1))
        items.append("(.setLoc %s %s)" % (q(target), self.expr(ret)))
        return self.seq(items)

    def alias_of(self, fn):
        """`def f(p1..pn): return g(p1..pn)` -> "g"."""
        if len(fn.body) == 1 and isinstance(fn.body[0], ast.Return) and isinstance(fn.body[0].value, ast.Call):
            c = fn.body[0].value
            if isinstance(c.func, ast.Name) and c.func.id in self.funcs and not c.keywords \
                    and [src(x) for x in c.args] == [x.arg for x in fn.args.args]:
                return c.func.id
        return None

    def function(self, fn):
        a = fn.args
        if a.vararg or a.kwarg or a.kwonlyargs or a.defaults:
            return "{ params := [], body := .unsupported %s, ret := none }" % q("signature of " + fn.name)
        body = list(fn.body)
        ret = "none"
        if body and isinstance(body[-1], ast.Return):
            r = body.pop()
            ret = "none" if r.value is None else "(some %s)" % self.expr(r.value)
        if any(isinstance(x, ast.Return) for st in body for x in ast.walk(st)):
            btxt = "(.unsupported %s)" % q("return inside " + fn.name)
        else:
            btxt = self.block(body, 0)
        return "{ params := [%s], body := %s, ret := %s }" % (", ".join(q(x.arg) for x in a.args), btxt, ret)


def _module_funcs(path):
    tree = ast.parse(open(os.path.join(REPO, path)).read())
    return [n for n in tree.body if isinstance(n, ast.FunctionDef)]


def explainer_action(m):
    """The action of one `visitX(self, element, args)` of the explainer, as a term of `Rtamt.Py.ExplAction` - the method has to
    have one of the few shapes the explainer is written in, anything else is `.unsupported`."""
    body = [st for st in m.body if not (isinstance(st, ast.Expr) and isinstance(st.value, ast.Constant))]
    if len(body) == 1 and isinstance(body[0], ast.Raise):
        return ".raises"
    lines = [src(st) for st in body]
    def bad(why):
        return "(.unsupported %s)" % q(m.name + ": " + why)
    if [x.arg for x in m.args.args] != ["self", "element", "args"]:
        return bad("signature")
    if lines in (["intervals = args[0]", "self.explanations[element.name] = intervals"],
                 ["intervals = args[0]", "self.explanations[element] = intervals"]):
        return ".leaf"
    if len(lines) < 5 or lines[0] != "intervals = args[0]" or lines[1] != "flag = args[1]":
        return bad("prologue")
    rest = body[2:]
    def flag_of(t):
        return {"flag": "false", "not flag": "true"}.get(t)
    def call_of(e, nsig, timed_ok):
        """`f(op_signal.., intervals[, element.begin, element.end])` -> (f, timed)"""
        if not (isinstance(e, ast.Call) and isinstance(e.func, ast.Name) and not e.keywords):
            return None
        a = [src(x) for x in e.args]
        sig = ["op_signal"] if nsig == 1 else ["op1_signal", "op2_signal"]
        if a == sig + ["intervals"]:
            return e.func.id, False
        if timed_ok and a in (sig + ["intervals", "element.begin", "element.end"], sig + ["intervals", "*self.bounds(element)"]):
            # `self.bounds(element)`: the interval in samples (time_unit_transformer of the offline interpreter) - the bounds the
            # model's formulas carry
            return e.func.id, True
        return None
    def choose(st, tgt, nsig):
        """`tgt = f(..)`  or  `if flag: tgt = f(..) else: tgt = g(..)` -> (sat, unsat, timed)"""
        if isinstance(st, ast.Assign) and len(st.targets) == 1 and src(st.targets[0]) == tgt:
            r = call_of(st.value, nsig, True)
            return None if r is None else (r[0], r[0], r[1])
        if isinstance(st, ast.If) and src(st.test) == "flag" and len(st.body) == 1 and len(st.orelse) == 1:
            x, y = choose(st.body[0], tgt, nsig), choose(st.orelse[0], tgt, nsig)
            if x is None or y is None or x[2] != y[2] or not isinstance(st.body[0], ast.Assign) or not isinstance(st.orelse[0], ast.Assign):
                return None
            return (x[0], y[0], x[2])
        return None
    rec = "self.explanations[element.name] = intervals"
    if lines[2] == "op_signal = self.spec.results[element.children[0]]":
        if len(rest) != 4 or src(rest[2]) != rec:
            return bad("unary shape")
        ch = choose(rest[1], "op_intervals", 1)
        v = rest[3]
        if ch is None or not (isinstance(v, ast.Expr) and isinstance(v.value, ast.Call) and src(v.value.func) == "self.visit"
                              and len(v.value.args) == 2 and src(v.value.args[0]) == "element.children[0]"
                              and isinstance(v.value.args[1], ast.List) and len(v.value.args[1].elts) == 2
                              and src(v.value.args[1].elts[0]) == "op_intervals" and flag_of(src(v.value.args[1].elts[1])) is not None):
            return bad("unary shape")
        return "(.un %s %s %s %s)" % (q(ch[0]), q(ch[1]), "true" if ch[2] else "false", flag_of(src(v.value.args[1].elts[1])))
    if lines[2] == "op1_signal = self.spec.results[element.children[0]]" and lines[3] == "op2_signal = self.spec.results[element.children[1]]":
        if len(rest) != 6 or src(rest[3]) != rec:
            return bad("binary shape")
        ch = choose(rest[2], "(op1_intervals, op2_intervals)", 2)
        if ch is None:
            ch = choose(rest[2], "op1_intervals, op2_intervals", 2)
        flags = []
        for k, v in enumerate(rest[4:6]):
            if not (isinstance(v, ast.Expr) and isinstance(v.value, ast.Call) and src(v.value.func) == "self.visit"
                    and len(v.value.args) == 2 and src(v.value.args[0]) == "element.children[%d]" % k
                    and isinstance(v.value.args[1], ast.List) and len(v.value.args[1].elts) == 2
                    and src(v.value.args[1].elts[0]) == "op%d_intervals" % (k + 1) and flag_of(src(v.value.args[1].elts[1])) is not None):
                return bad("binary shape")
            flags.append(flag_of(src(v.value.args[1].elts[1])))
        if ch is None or ch[2]:
            return bad("binary shape")
        return "(.bin %s %s %s %s)" % (q(ch[0]), q(ch[1]), flags[0], flags[1])
    return bad("shape")


def generate_expl():
    """The explanation functions (`explanations.py`, LTL and STL) as methods of the deep embedding, and the table of actions
    of the explainer visitor (`explainer.py`): which function computes the intervals of the operands for which polarity, and with
    which polarity the operands are visited."""
    lines = ["/- GENERATED by harness/py2lean.py from %s, %s, %s and %s of /repo on every run - do not edit. -/"
             % (EXPL_LTL, EXPL_STL, EXPLAINER_LTL, EXPLAINER_STL),
             "import Rtamt.Py.Sem", "import Rtamt.Py.Expl", "", "namespace Rtamt.Py.Gen.Expl", "open Rtamt Rtamt.Py", ""]
    names = []
    for path, tag in ((EXPL_LTL, "ltl"), (EXPL_STL, "stl")):
        fns = _module_funcs(path)
        tr = ExplTr({f.name: f for f in fns})
        for f in fns:
            lines.append("/-- `%s` (%s) -/" % (f.name, path))
            al = tr.alias_of(f)
            nm = "%s_%s" % (tag, f.name)
            if al is not None:
                lines.append("def %s : Method := %s_%s" % (nm, tag, al))
            else:
                lines.append("def %s : Method :=\n  %s" % (nm, tr.function(f)))
            lines.append("")
            names.append((tag, f.name, nm))
    # the functions visible in the explainer modules: the STL explainer imports * from the LTL explainer module (which itself
    # imports * from the LTL explanations) and then * from the STL explanations, which therefore win
    lines.append("/-- the functions by the names the LTL explainer sees -/")
    lines.append("def ltlFuncs : List (String × Method) :=\n  [%s]" % ", ".join("(%s, %s)" % (q(n), nm) for t, n, nm in names if t == "ltl"))
    lines.append("")
    lines.append("/-- the functions by the names the methods defined in the STL explainer module see -/")
    lines.append("def stlFuncs : List (String × Method) :=\n  [%s]" % ", ".join("(%s, %s)" % (q(n), nm) for t, n, nm in names if t == "stl"))
    lines.append("")
    for path, tag, cname in ((EXPLAINER_LTL, "ltl", "LTLExplainer"), (EXPLAINER_STL, "stl", "STLExplainer")):
        tree = ast.parse(open(os.path.join(REPO, path)).read())
        cls = [n for n in tree.body if isinstance(n, ast.ClassDef) and n.name == cname][0]
        ms = [n for n in cls.body if isinstance(n, ast.FunctionDef) and n.name.startswith("visit") and n.name not in ("visit", "visitDefault")]
        lines.append("/-- `%s`: the action of every visit method -/" % cname)
        lines.append("def %sActions : List (String × ExplAction) :=\n  [%s]" % (tag, ",\n   ".join("(%s, %s)" % (q(m.name), explainer_action(m)) for m in ms)))
        lines.append("")
    lines.append("end Rtamt.Py.Gen.Expl")
    return "\n".join(lines) + "\n"


ONLINE_GLUE_FILE = "rtamt/semantics/abstract_online_interpreter.py"
AST_VISITOR_FILE = "rtamt/syntax/ast/visitor/abstract_ast_visitor.py"
OUT_GLUE = os.path.join(os.path.dirname(HERE), "lean", "Rtamt", "Py", "GeneratedGlue.lean")


class GlueTr:
    """Methods of the update / reset visitors of the online interpreter -> terms of `Rtamt/Py/Glue.lean`."""

    def __init__(self, cls, leaf_cls=None, base_cls=None):
        self.methods = {n.name: n for n in cls.body if isinstance(n, ast.FunctionDef)}
        self.leaf = {n.name: n for n in leaf_cls.body if isinstance(n, ast.FunctionDef)} if leaf_cls is not None else {}
        self.base = {n.name: n for n in base_cls.body if isinstance(n, ast.FunctionDef)} if base_cls is not None else {}
        self.in_spec_loop = False

    def key(self, e):
        return {"node.name": ".nodeName", "node": ".node", "node.var": ".nodeVar"}.get(src(e))

    def is_visit_call(self, e):
        return isinstance(e, ast.Call) and src(e.func) == "self.visit" and e.args

    def expr(self, e):
        t = src(e)
        if isinstance(e, ast.Name):
            return "(.loc %s)" % q(e.id)
        if self.is_visit_call(e):
            a0 = e.args[0]
            if isinstance(a0, ast.Subscript) and src(a0.value) == "node.children" and isinstance(a0.slice, ast.Constant) \
                    and isinstance(a0.slice.value, int) and a0.slice.value >= 0:
                return "(.visit %d)" % a0.slice.value
            if self.in_spec_loop and src(a0) == "spec":
                return ".visitSpec"
        if isinstance(e, ast.Compare) and len(e.ops) == 1 and isinstance(e.ops[0], ast.In) and isinstance(e.comparators[0], ast.Attribute) \
                and src(e.comparators[0].value) == "self" and self.key(e.left):
            return "(.inDict %s %s)" % (q(e.comparators[0].attr), self.key(e.left))
        if isinstance(e, ast.Subscript) and self.key(e.slice):
            if isinstance(e.value, ast.Attribute) and src(e.value.value) == "self":
                return "(.getDict %s %s)" % (q(e.value.attr), self.key(e.slice))
            if isinstance(e.value, ast.Name):
                return "(.getDict %s %s)" % (q(e.value.id), self.key(e.slice))
        if isinstance(e, ast.Call) and isinstance(e.func, ast.Attribute) and e.func.attr == "update" and isinstance(e.func.value, ast.Name) \
                and not e.keywords:
            return "(.opUpdate %s [%s])" % (q(e.func.value.id), ", ".join(self.expr(a) for a in e.args))
        if t == "node.val":
            return ".nodeVal"
        if t == "node.field":
            return ".nodeField"
        if t == "isinstance(node, Constant)":
            return ".isConst"
        if t == "isinstance(node, Variable)":
            return ".isVar"
        if isinstance(e, ast.List) and not e.elts:
            return ".emptyList"
        return "(.unsupported %s)" % q(t)

    def seq(self, items):
        items = [i for i in items if i != ".skip"]
        if not items:
            return ".skip"
        out = items[-1]
        for i in reversed(items[:-1]):
            out = "(.seq %s %s)" % (i, out)
        return out

    def block(self, stmts):
        return self.seq([self.stmt(s) for s in stmts])

    def inline_leaf(self, call, target):
        """`target = self.visitConstant(node, …)`: the body of the leaf visitor's method, its `return e` assigned to `target`."""
        m = self.leaf.get(call.func.attr)
        if m is None or not call.args or src(call.args[0]) != "node":
            return None
        body = list(m.body)
        if not body or not isinstance(body[-1], ast.Return) or body[-1].value is None \
                or any(isinstance(x, ast.Return) for st in body[:-1] for x in ast.walk(st)):
            return "(.unsupported %s)" % q("return inside " + m.name)
        ret = body.pop().value
        items = [self.block(body)]
        if not (isinstance(ret, ast.Name) and ret.id == target):
            items.append("(.setLoc %s %s)" % (q(target), self.expr(ret)))
        return self.seq(items)

    def stmt(self, s):
        if isinstance(s, ast.Pass):
            return ".skip"
        if isinstance(s, ast.Expr) and isinstance(s.value, ast.Constant):
            return ".skip"
        if isinstance(s, ast.Assign) and len(s.targets) == 1:
            t, v = s.targets[0], s.value
            if isinstance(t, ast.Name):
                if isinstance(v, ast.Call) and isinstance(v.func, ast.Attribute) and src(v.func.value) == "self" and v.func.attr in self.leaf:
                    r = self.inline_leaf(v, t.id)
                    if r is not None:
                        return r
                return "(.setLoc %s %s)" % (q(t.id), self.expr(v))
            if isinstance(t, ast.Subscript) and isinstance(t.value, ast.Attribute) and src(t.value.value) == "self" and self.key(t.slice):
                return "(.setDict %s %s %s)" % (q(t.value.attr), self.key(t.slice), self.expr(v))
            if isinstance(t, ast.Attribute) and src(t.value) == "self" and src(v) == "dict()":
                return "(.clearDict %s)" % q(t.attr)
        if isinstance(s, ast.If):
            return "(.ite %s %s %s)" % (self.expr(s.test), self.block(s.body), self.block(s.orelse))
        if isinstance(s, ast.Expr) and isinstance(s.value, ast.Call):
            c = s.value
            if src(c.func) == "self.visitChildren" and c.args and src(c.args[0]) == "node":
                return ".visitChildren"
            if isinstance(c.func, ast.Attribute) and c.func.attr == "reset" and isinstance(c.func.value, ast.Name) and not c.args and not c.keywords:
                return "(.opReset %s)" % q(c.func.value.id)
            if isinstance(c.func, ast.Attribute) and c.func.attr == "append" and isinstance(c.func.value, ast.Name) and len(c.args) == 1:
                return "(.appendLoc %s %s)" % (q(c.func.value.id), self.expr(c.args[0]))
        if isinstance(s, ast.For) and not s.orelse and src(s.target) == "spec" and src(s.iter) == "ast.specs":
            self.in_spec_loop = True
            try:
                return "(.forSpecs %s)" % self.block(s.body)
            finally:
                self.in_spec_loop = False
        return "(.unsupported %s)" % q(src(s))

    def method(self, name):
        m = self.methods.get(name)
        if m is None:
            return None
        body = list(m.body)
        ret = "none"
        if body and isinstance(body[-1], ast.Return):
            r = body.pop()
            if r.value is not None:
                v = r.value
                # `return super(C, self).visitAst(ast, …)`: the inherited method, inlined
                if isinstance(v, ast.Call) and isinstance(v.func, ast.Attribute) and isinstance(v.func.value, ast.Call) \
                        and src(v.func.value.func) == "super" and v.func.attr in self.base:
                    pm = self.base[v.func.attr]
                    pb = list(pm.body)
                    if pb and isinstance(pb[-1], ast.Return) and pb[-1].value is not None \
                            and not any(isinstance(x, ast.Return) for st in pb[:-1] for x in ast.walk(st)):
                        pr = pb.pop().value
                        body = body + pb
                        ret = "(some %s)" % self.expr(pr)
                    else:
                        ret = "(some (.unsupported %s))" % q(src(v))
                else:
                    ret = "(some %s)" % self.expr(v)
        if any(isinstance(x, ast.Return) for st in body for x in ast.walk(st)):
            return "{ body := (.unsupported %s), ret := none }" % q("return inside " + name)
        return "{ body := %s, ret := %s }" % (self.block(body), ret)


def generate_glue():
    """The update visitor and the reset visitor of the online interpreter."""
    tree = ast.parse(open(os.path.join(REPO, ONLINE_GLUE_FILE)).read())
    cls = {n.name: n for n in tree.body if isinstance(n, ast.ClassDef)}
    tree2 = ast.parse(open(os.path.join(REPO, ONLINE_INTERP_FILE)).read())
    cls2 = {n.name: n for n in tree2.body if isinstance(n, ast.ClassDef)}
    tree3 = ast.parse(open(os.path.join(REPO, AST_VISITOR_FILE)).read())
    cls3 = {n.name: n for n in tree3.body if isinstance(n, ast.ClassDef)}
    lines = ["/- GENERATED by harness/py2lean.py from %s, %s and %s of /repo on every run - do not edit. -/"
             % (ONLINE_GLUE_FILE, ONLINE_INTERP_FILE, AST_VISITOR_FILE),
             "import Rtamt.Py.Glue", "", "namespace Rtamt.Py.Gen.Glue", "open Rtamt Rtamt.Py", ""]
    missing = "{ body := (.unsupported \"missing\"), ret := none }"
    up = GlueTr(cls["AbstractOnlineUpdateVisitor"], cls2.get("DiscreteTimeOnlineUpdateVisitor"), cls3.get("AbstractAstVisitor")) \
        if "AbstractOnlineUpdateVisitor" in cls else None
    rs = GlueTr(cls["AbstractOnlineResetVisitor"], None, cls3.get("AbstractAstVisitor")) if "AbstractOnlineResetVisitor" in cls else None
    for tag, tr, cname, names in (("update", up, "AbstractOnlineUpdateVisitor", ["visitAst", "visitBinary", "visitUnary", "visitLeaf"]),
                                  ("reset", rs, "AbstractOnlineResetVisitor", ["visitBinary", "visitUnary", "visitLeaf"])):
        for nm in names:
            t = (tr.method(nm) if tr is not None else None)
            if t is None and nm == "visitAst" and tr is not None:
                continue
            lines.append("/-- `%s.%s` -/" % (cname, nm))
            lines.append("def %s_%s : GMethod :=\n  %s" % (tag, nm, t or missing))
            lines.append("")
    # the reset visitor inherits visitAst
    base = GlueTr(cls3["AbstractAstVisitor"]) if "AbstractAstVisitor" in cls3 else None
    lines.append("/-- `AbstractAstVisitor.visitAst` (inherited by the reset visitor) -/")
    lines.append("def base_visitAst : GMethod :=\n  %s" % ((base.method("visitAst") if base else None) or missing))
    lines.append("")
    lines.append("end Rtamt.Py.Gen.Glue")
    return "\n".join(lines) + "\n"


# ---- BEGIN dense-time glue (generate_glue_dense) -------------------------------------------------------------------
DENSE_ONLINE_GLUE_FILE = "rtamt/semantics/abstract_dense_time_online_interpreter.py"
OUT_GLUE_DN = os.path.join(os.path.dirname(HERE), "lean", "Rtamt", "Py", "GeneratedGlueDn.lean")


class GlueDnTr(GlueTr):
    """The update visitor with the leaf methods of `DenseTimeOnlineUpdateVisitor` (`interp=False`) and the methods of
    `AbstractDenseTimeOnlineInterpreter` (`interp=True`) -> terms of `Rtamt/Py/GlueDn.lean`."""

    # statements of the interpreter outside the model's state (ast exists; `ast.results` aliases `updateVisitor.results`; the
    # object of the output variable is only read): kept as *named* steps, by their exact source text only
    OPAQUE = ("self.exist_ast()",
              "self.ast.results = self.updateVisitor.results",
              "out = self.ast.var_object_dict[self.ast.out_var]")
    VISIT_AST = "self.updateVisitor.visitAst(self.ast, self.online_operator_dict, self.ast.var_object_dict)"
    FROMKEYS = "self.ast.var_object_dict.fromkeys(self.ast.var_object_dict, [])"
    SUPER_SET_AST = "super(AbstractDenseTimeOnlineInterpreter, self).set_ast(ast)"

    def __init__(self, cls, leaf_cls=None, base_cls=None, interp=False):
        GlueTr.__init__(self, cls, leaf_cls, base_cls)
        self.interp = interp

    def unsup(self, node_or_text):
        return "(.unsupported %s)" % q(node_or_text if isinstance(node_or_text, str) else src(node_or_text))

    def tm(self, e):
        """a time stamp of a signal literal: a non-negative integer literal or `float("inf")`"""
        if isinstance(e, ast.Constant) and isinstance(e.value, int) and not isinstance(e.value, bool) and e.value >= 0:
            return "(.lit %d)" % e.value
        if isinstance(e, ast.Call) and isinstance(e.func, ast.Name) and e.func.id == "float" and len(e.args) == 1 and not e.keywords \
                and isinstance(e.args[0], ast.Constant) and e.args[0].value == "inf":
            return ".inf"
        return None

    def expr(self, e):
        t = src(e)
        if isinstance(e, ast.Constant) and isinstance(e.value, bool):
            return "(.boolLit %s)" % ("true" if e.value else "false")
        # [[t1, e1], [t2, e2]]
        if isinstance(e, ast.List) and len(e.elts) == 2 and all(isinstance(p_, ast.List) and len(p_.elts) == 2 for p_ in e.elts):
            ts = [self.tm(p_.elts[0]) for p_ in e.elts]
            if all(x is not None for x in ts):
                return "(.sigLit2 %s %s %s %s)" % (ts[0], self.expr(e.elts[0].elts[1]), ts[1], self.expr(e.elts[1].elts[1]))
            return self.unsup(e)
        # x[len(x) - 1]
        if isinstance(e, ast.Subscript) and isinstance(e.value, ast.Name) and isinstance(e.slice, ast.BinOp) \
                and isinstance(e.slice.op, ast.Sub) and isinstance(e.slice.right, ast.Constant) and e.slice.right.value == 1 \
                and not isinstance(e.slice.right.value, bool) and src(e.slice.left) == "len(%s)" % e.value.id:
            return "(.lastOf %s)" % q(e.value.id)
        if not self.interp:
            if t == "self.constants_sent":
                return ".flag"
            return GlueTr.expr(self, e)
        # the interpreter's methods: no `node`, none of the visitor's dictionaries
        if isinstance(e, ast.Name):
            return "(.loc %s)" % q(e.id)
        if t == self.VISIT_AST:
            return ".visitAst"
        if isinstance(e, ast.Subscript) and src(e.value) == "data" and self.in_data_loop and isinstance(e.slice, ast.Constant) \
                and isinstance(e.slice.value, int) and not isinstance(e.slice.value, bool) and e.slice.value >= 0:
            return "(.dataIdx %d)" % e.slice.value
        if isinstance(e, ast.Compare) and len(e.ops) == 1 and isinstance(e.ops[0], ast.In):
            if src(e.comparators[0]) == "self.ast.free_vars":
                return "(.inFreeVars %s)" % self.expr(e.left)
            if src(e.comparators[0]) == "self.online_operator_dict":
                return "(.inOps %s)" % self.expr(e.left)
        if t == "self.ast.out_var_field":
            return ".outVarField"
        if isinstance(e, ast.List) and not e.elts:
            return ".emptyList"
        return self.unsup(e)

    in_data_loop = False
    cur = None                 # the method being translated

    def method(self, name):
        self.cur = self.methods.get(name)
        try:
            return GlueTr.method(self, name)
        finally:
            self.cur = None

    def ret_block(self, stmts, target, where):
        """Statements that end in `return e`, possibly with `if c: return e0` on the way (an if / else, the rest of the statements
        being the else branch): the returned value assigned to `target`."""
        for i, s in enumerate(stmts):
            if not any(isinstance(x, ast.Return) for x in ast.walk(s)):
                continue
            before = [self.stmt(x) for x in stmts[:i]]
            if isinstance(s, ast.Return):
                if s.value is None or i != len(stmts) - 1:
                    return self.unsup("return inside " + where)
                if not (isinstance(s.value, ast.Name) and s.value.id == target):
                    before.append("(.setLoc %s %s)" % (q(target), self.expr(s.value)))
                return self.seq(before)
            if isinstance(s, ast.If) and not s.orelse and i < len(stmts) - 1:
                return self.seq(before + ["(.ite %s %s %s)" % (self.expr(s.test), self.ret_block(s.body, target, where),
                                                              self.ret_block(stmts[i + 1:], target, where))])
            return self.unsup("return inside " + where)
        return self.unsup("no return in " + where)

    def inline_leaf(self, call, target):
        m = self.leaf.get(call.func.attr)
        if m is None or not call.args or src(call.args[0]) != "node":
            return None
        return self.ret_block(list(m.body), target, m.name)

    def stmt(self, s):
        if not self.interp:
            return GlueTr.stmt(self, s)
        t = src(s)
        if t in self.OPAQUE:
            return "(.opaque %s)" % q(t)
        if isinstance(s, ast.Pass) or (isinstance(s, ast.Expr) and isinstance(s.value, ast.Constant)):
            return ".skip"
        if isinstance(s, ast.Expr) and isinstance(s.value, ast.Call):
            c = s.value
            if t == self.SUPER_SET_AST and self.cur is not None and [a.arg for a in self.cur.args.args] == ["self", "ast"]:
                return ".superSetAst"
            # `self.m(dataset)`, `m` a method of the class with the one parameter `dataset` and no `return`: inlined;
            # likewise `self.m(self.ast)` for a method with the one parameter `ast`, which its body must not assign
            par = {"dataset": "dataset", "self.ast": "ast"}.get(src(c.args[0])) if len(c.args) == 1 else None
            if isinstance(c.func, ast.Attribute) and src(c.func.value) == "self" and c.func.attr in self.methods and not c.keywords \
                    and par is not None:
                m = self.methods[c.func.attr]
                # (its locals must not occur in the calling method)
                mine = {x.id for x in ast.walk(m) if isinstance(x, ast.Name) and isinstance(x.ctx, ast.Store)}
                theirs = {x.id for x in ast.walk(self.cur) if isinstance(x, ast.Name)} if self.cur is not None else None
                if [a.arg for a in m.args.args] == ["self", par] and not m.args.vararg and not m.args.kwarg \
                        and not any(isinstance(x, ast.Return) for st in m.body for x in ast.walk(st)) \
                        and theirs is not None and not (mine & theirs) and m is not self.cur and par not in mine:
                    outer, self.cur = self.cur, m
                    try:
                        return self.block(m.body)
                    finally:
                        self.cur = outer
            return self.unsup(s)
        if isinstance(s, ast.Assign) and len(s.targets) == 1:
            tg, v = s.targets[0], s.value
            if isinstance(tg, ast.Name):
                return "(.setLoc %s %s)" % (q(tg.id), self.expr(v))
            if src(tg) == "self.updateVisitor.constants_sent":
                return "(.setFlag %s)" % self.expr(v)
            if isinstance(tg, ast.Subscript) and src(tg.value) == "self.ast.var_object_dict":
                return "(.setVar %s %s)" % (self.expr(tg.slice), self.expr(v))
            if src(tg) == "self.ast.var_object_dict" and src(v) == self.FROMKEYS:
                return ".clearVars"
            return self.unsup(s)
        if isinstance(s, ast.If):
            return "(.ite %s %s %s)" % (self.expr(s.test), self.block(s.body), self.block(s.orelse))
        if isinstance(s, ast.For) and not s.orelse and src(s.target) == "data" and src(s.iter) == "dataset" and not self.in_data_loop:
            self.in_data_loop = True
            try:
                return "(.forData %s)" % self.block(s.body)
            finally:
                self.in_data_loop = False
        return self.unsup(s)


def generate_glue_dense():
    """The update visitor of the dense-time online interpreter and `AbstractDenseTimeOnlineInterpreter.update`."""
    def classes(path):
        return {n.name: n for n in ast.parse(open(os.path.join(REPO, path)).read()).body if isinstance(n, ast.ClassDef)}
    cls, cls2, cls3 = classes(ONLINE_GLUE_FILE), classes(DENSE_ONLINE_GLUE_FILE), classes(AST_VISITOR_FILE)
    lines = ["/- GENERATED by harness/py2lean.py from %s, %s and %s of /repo on every run - do not edit. -/"
             % (ONLINE_GLUE_FILE, DENSE_ONLINE_GLUE_FILE, AST_VISITOR_FILE),
             "import Rtamt.Py.GlueDn", "", "namespace Rtamt.Py.Gen.GlueDn", "open Rtamt Rtamt.Py.GDn", ""]
    missing = "{ body := (.unsupported \"missing\"), ret := none }"
    names = []
    up = GlueDnTr(cls["AbstractOnlineUpdateVisitor"], cls2.get("DenseTimeOnlineUpdateVisitor"), cls3.get("AbstractAstVisitor")) \
        if "AbstractOnlineUpdateVisitor" in cls and "DenseTimeOnlineUpdateVisitor" in cls2 else None
    for nm in ("visitAst", "visitBinary", "visitUnary", "visitLeaf"):
        lines.append("/-- `AbstractOnlineUpdateVisitor.%s`%s -/" % (nm, " (`visitConstant` / `visitVariable` of `DenseTimeOnlineUpdateVisitor` inlined)"
                                                                 if nm == "visitLeaf" else ""))
        lines.append("def update_%s : GMethod :=\n  %s" % (nm, (up.method(nm) if up is not None else None) or missing))
        lines.append("")
        names.append("update_" + nm)
    it = GlueDnTr(cls2["AbstractDenseTimeOnlineInterpreter"], None, None, interp=True) if "AbstractDenseTimeOnlineInterpreter" in cls2 else None
    lines.append("/-- `AbstractDenseTimeOnlineInterpreter.update` (`set_variable_to_ast_from_dataset` inlined) -/")
    lines.append("def interp_update : GMethod :=\n  %s" % ((it.method("update") if it is not None else None) or missing))
    lines.append("")
    names.append("interp_update")
    for nm, note in (("set_ast", ""), ("reset", " (`set_ast` inlined)")):
        lines.append("/-- `AbstractDenseTimeOnlineInterpreter.%s`%s -/" % (nm, note))
        lines.append("def interp_%s : GMethod :=\n  %s" % (nm, (it.method(nm) if it is not None else None) or missing))
        lines.append("")
        names.append("interp_" + nm)
    lines.append("def methods : List (String × GMethod) :=\n  [%s]" % ", ".join("(%s, %s)" % (q(n), n) for n in names))
    lines.append("")
    lines.append("end Rtamt.Py.Gen.GlueDn")
    return "\n".join(lines) + "\n"
# ---- END dense-time glue (generate_glue_dense) ---------------------------------------------------------------------


# ---- BEGIN discrete-time online update()/reset() as whole methods (generate_glue_update) ----------------------------
# `AbstractDiscreteTimeOnlineInterpreter.update(timestamp, dataset)` / `.reset()` / `.set_variable_to_ast_from_dataset`
# of rtamt/semantics/abstract_discrete_time_online_interpreter.py -> Rtamt/Py/GeneratedGlueUpd.lean (terms of
# `Rtamt/Py/GlueUpd.lean`).  The statements of the sampling bookkeeping (maximal runs of consecutive statements that touch
# `update_counter` / `previous_time` / `sampling_violation_counter`) are translated by the translator of `generate_clock`
# (`Tr` with `clock = True`) into terms of `Rtamt/Py/Sem.lean` and embedded as `.clock <S>`.
import re as _re_upd

OUT_GLUE_UPD = os.path.join(os.path.dirname(HERE), "lean", "Rtamt", "Py", "GeneratedGlueUpd.lean")
GLUE_UPD_INTERP_FILE = os.environ.get("RTAMT_UPD_INTERP_FILE")       # (tests) another copy of the interpreter's source
GLUE_UPD_PARENT_FILE = os.environ.get("RTAMT_UPD_PARENT_FILE")       # (tests) another copy of abstract_online_interpreter.py


class GlueUpdTr(GlueDnTr):
    """The methods of `AbstractDiscreteTimeOnlineInterpreter` -> terms of `Rtamt/Py/GlueUpd.lean`."""

    OPAQUE = ("self.exist_ast()",
              "self.ast.results = self.updateVisitor.results",
              "out = self.ast.var_object_dict[self.ast.out_var]")
    RESET_AST = "self.resetVisitor.visitAst(self.ast, self.online_operator_dict)"
    FOR_FREE = "self.ast.free_vars"

    def __init__(self, cls, clock_tr, parent_name=None, parent_cls=None):
        GlueDnTr.__init__(self, cls, None, None, interp=True)
        self.cls_name = cls.name
        self.first_base = src(cls.bases[0]) if cls.bases else None
        self.clock_tr = clock_tr                       # `Tr` (clock = True) of the same class
        self.parent_name = parent_name                 # the first base class, provided it was found …
        self.parent = {n.name: n for n in parent_cls.body if isinstance(n, ast.FunctionDef)} if parent_cls is not None else {}
        self.free_var = None                           # the loop variable of `for x in self.ast.free_vars`
        self.data_iter = None
        self.top = None                                # the method being translated (not an inlined one)
        self.scope = []                                # that method and the methods inlined into it
        self.scope_final = None

    # -- expressions ------------------------------------------------------------------------------------------------
    def expr(self, e):
        t = src(e)
        if isinstance(e, ast.Name):
            return "(.loc %s)" % q(e.id)
        if t == self.VISIT_AST:
            return ".visitAst"
        # x[len(x) - 1]
        if isinstance(e, ast.Subscript) and isinstance(e.value, ast.Name) and isinstance(e.slice, ast.BinOp) \
                and isinstance(e.slice.op, ast.Sub) and isinstance(e.slice.right, ast.Constant) and e.slice.right.value == 1 \
                and not isinstance(e.slice.right.value, bool) and src(e.slice.left) == "len(%s)" % e.value.id:
            return "(.lastOf %s)" % q(e.value.id)
        if isinstance(e, ast.Subscript) and src(e.value) == "data" and self.in_data_loop and isinstance(e.slice, ast.Constant) \
                and isinstance(e.slice.value, int) and not isinstance(e.slice.value, bool) and e.slice.value >= 0:
            return "(.dataIdx %d)" % e.slice.value
        if isinstance(e, ast.Compare) and len(e.ops) == 1 and isinstance(e.ops[0], ast.In):
            if src(e.comparators[0]) == "self.ast.free_vars":
                return "(.inFreeVars %s)" % self.expr(e.left)
            if src(e.comparators[0]) == "self.online_operator_dict":
                return "(.inOps %s)" % self.expr(e.left)
        if t == "self.ast.out_var_field":
            return ".outVarField"
        if isinstance(e, ast.Call) and src(e.func) == "self.ast.create_var_from_name" and len(e.args) == 1 and not e.keywords:
            return "(.createVar %s)" % self.expr(e.args[0])
        return self.unsup(e)

    # -- the sampling bookkeeping -----------------------------------------------------------------------------------
    def clock_group(self, stmts):
        """Consecutive statements of the bookkeeping: one `.clock <S>`; the locals of the fragment (those of the inlined
        `update_sampling_violation_counter` included) are its own: none of them may be written by another statement of the
        method, none of those it writes may be read by another statement."""
        if any(isinstance(x, (ast.Return, ast.For, ast.While)) for st in stmts for x in ast.walk(st)):
            return self.unsup(" ; ".join(src(st) for st in stmts))
        term = self.clock_tr.block(list(stmts), 0)
        reads = set(_re_upd.findall(r'\(\.loc "([^"]*)"\)', term))
        writes = set(_re_upd.findall(r'\(\.setLoc "([^"]*)"', term))
        others = [x for m in (self.scope_final or self.scope) for st in m.body if not any(st is c for c in self.clock_stmts) for x in ast.walk(st)]
        o_writes = {x.id for x in others if isinstance(x, ast.Name) and isinstance(x.ctx, (ast.Store, ast.Del))}
        o_reads = {x.id for x in others if isinstance(x, ast.Name) and isinstance(x.ctx, ast.Load)}
        if ((reads | writes) & o_writes) or (writes & o_reads):
            return self.unsup(" ; ".join(src(st) for st in stmts))
        return "(.clock %s)" % term

    def block(self, stmts):
        items, run = [], []
        for s in stmts:
            if _mentions_clock(s):
                run.append(s)
                continue
            if run:
                items.append(self.clock_group(run))
                run = []
            items.append(self.stmt(s))
        if run:
            items.append(self.clock_group(run))
        return self.seq(items)

    # -- statements -------------------------------------------------------------------------------------------------
    def inline(self, m, par_arg, where):
        """`self.m(arg)` / `super(C, self).m()`: the body of `m` (no `return` with a value, no parameter assigned, its
        locals not used by the caller)."""
        if any(isinstance(x, ast.Return) and x.value is not None for st in m.body for x in ast.walk(st)):
            return self.unsup(where)
        body = list(m.body)
        if body and isinstance(body[-1], ast.Return):
            body.pop()
        if any(isinstance(x, ast.Return) for st in body for x in ast.walk(st)):
            return self.unsup(where)
        mine = {x.id for x in ast.walk(m) if isinstance(x, ast.Name) and isinstance(x.ctx, ast.Store)}
        theirs = {x.id for x in ast.walk(self.cur) if isinstance(x, ast.Name)}
        pars = [a.arg for a in m.args.args]
        if pars != ["self"] + ([par_arg] if par_arg else []) or m.args.vararg or m.args.kwarg or m.args.kwonlyargs \
                or (mine & theirs) or m is self.cur or (par_arg in mine) or m in self.scope:
            return self.unsup(where)
        outer, self.cur = self.cur, m
        self.scope.append(m)
        try:
            return self.block(body)
        finally:
            self.cur = outer

    def stmt(self, s):
        t = src(s)
        if t in self.OPAQUE:
            return "(.opaque %s)" % q(t)
        if isinstance(s, ast.Pass) or (isinstance(s, ast.Expr) and isinstance(s.value, ast.Constant)):
            return ".skip"
        if isinstance(s, ast.Return) and s.value is None and self.cur is self.top and self.top.body and s is self.top.body[-1]:
            return ".skip"                              # the bare `return` that ends the method
        if isinstance(s, ast.Expr) and isinstance(s.value, ast.Call):
            c = s.value
            if t == self.RESET_AST:
                return ".resetAst"
            # super(C, self).m(): the method of the first base class (it defines `m`: the MRO stops there), inlined
            if isinstance(c.func, ast.Attribute) and src(c.func.value) == "super(%s, self)" % self.cls_name and not c.args \
                    and not c.keywords and self.parent_name is not None and self.parent_name == self.first_base \
                    and c.func.attr in self.parent:
                return self.inline(self.parent[c.func.attr], None, t)
            # self.m(dataset): a method of the class with the one parameter `dataset`, inlined
            if isinstance(c.func, ast.Attribute) and src(c.func.value) == "self" and c.func.attr in self.methods and not c.keywords \
                    and len(c.args) == 1 and isinstance(c.args[0], ast.Name) \
                    and c.args[0].id in [a.arg for a in self.top.args.args[1:]]:
                return self.inline(self.methods[c.func.attr], c.args[0].id, t)
            return self.unsup(s)
        if isinstance(s, ast.Assign) and len(s.targets) == 1:
            tg, v = s.targets[0], s.value
            if isinstance(tg, ast.Name):
                return "(.setLoc %s %s)" % (q(tg.id), self.expr(v))
            if isinstance(tg, ast.Subscript) and src(tg.value) == "self.ast.var_object_dict":
                return "(.setVar %s %s)" % (self.expr(tg.slice), self.expr(v))
            return self.unsup(s)
        if isinstance(s, ast.If):
            return "(.ite %s %s %s)" % (self.expr(s.test), self.block(s.body), self.block(s.orelse))
        if isinstance(s, ast.For) and not s.orelse and src(s.target) == "data" and isinstance(s.iter, ast.Name) \
                and s.iter.id in [a.arg for a in self.cur.args.args[1:]] and not self.in_data_loop:
            self.in_data_loop = True
            try:
                return "(.forData %s %s)" % (q(s.iter.id), self.block(s.body))
            finally:
                self.in_data_loop = False
        if isinstance(s, ast.For) and not s.orelse and isinstance(s.target, ast.Name) and src(s.iter) == self.FOR_FREE \
                and not any(isinstance(x, ast.Name) and x.id == s.target.id and isinstance(x.ctx, ast.Store)
                            for st in s.body for x in ast.walk(st)):
            return "(.forFree %s %s)" % (q(s.target.id), self.block(s.body))
        return self.unsup(s)

    def method(self, name):
        m = self.methods.get(name)
        if m is None:
            return None
        self.cur = self.top = m
        self.scope = [m]
        try:
            a = m.args
            if a.vararg or a.kwarg or a.kwonlyargs or a.defaults or not a.args or a.args[0].arg != "self" or m.decorator_list:
                return "{ params := [], body := %s, ret := none }" % self.unsup("signature of " + name)
            params = [x.arg for x in a.args[1:]]
            if set(params) & {x.id for x in ast.walk(m) if isinstance(x, ast.Name) and isinstance(x.ctx, (ast.Store, ast.Del))}:
                return "{ params := [], body := %s, ret := none }" % self.unsup("parameter assigned in " + name)
            body = list(m.body)
            ret = "none"
            if body and isinstance(body[-1], ast.Return) and body[-1].value is not None:
                ret = "(some %s)" % self.expr(body.pop().value)
            if any(isinstance(x, ast.Return) and not (x is body[-1] and x.value is None) for st in body for x in ast.walk(st)):
                return "{ params := [%s], body := %s, ret := none }" % (", ".join(q(p_) for p_ in params), self.unsup("return inside " + name))
            # (the statements of the bookkeeping, for the check of `clock_group`: those of this method and of the inlined ones)
            self.clock_stmts = [st for mm in [m] + list(self.methods.values()) + list(self.parent.values()) for st in mm.body
                                if _mentions_clock(st)]
            self.scope_final = None
            self.block(body)                            # (first pass: which methods get inlined)
            self.scope_final, self.scope = list(self.scope), [m]
            return "{ params := [%s], body := %s, ret := %s }" % (", ".join(q(p_) for p_ in params), self.block(body), ret)
        finally:
            self.cur = self.top = None

    def visitors(self):
        """`self.<x>Visitor = C()` in `__init__`: which classes the two visitors are instances of."""
        out = []
        m = self.methods.get("__init__")
        for s in (m.body if m is not None else []):
            if isinstance(s, ast.Assign) and len(s.targets) == 1 and isinstance(s.targets[0], ast.Attribute) \
                    and src(s.targets[0].value) == "self" and s.targets[0].attr.endswith("Visitor"):
                v = s.value
                out.append((s.targets[0].attr, v.func.id if isinstance(v, ast.Call) and isinstance(v.func, ast.Name) and not v.args
                            and not v.keywords else "unsupported: " + src(v)))
        return out


def generate_glue_update(interp_file=None, parent_file=None):
    """`AbstractDiscreteTimeOnlineInterpreter.update` / `.reset` as whole methods."""
    interp_file = interp_file or GLUE_UPD_INTERP_FILE or os.path.join(REPO, ONLINE_INTERP_FILE)
    parent_file = parent_file or GLUE_UPD_PARENT_FILE or os.path.join(REPO, ONLINE_GLUE_FILE)

    def classes(path):
        return {n.name: n for n in ast.parse(open(path).read()).body if isinstance(n, ast.ClassDef)}
    cls2, cls = classes(interp_file), classes(parent_file)
    # the translator of the bookkeeping, set up as in `generate_clock`
    base = classes(os.path.join(REPO, INTERP_FILE)).get("DiscreteTimeInterpreter")
    btr = Tr(base)
    btr.interp = True
    btr.clock = True
    btr.parents = {}
    norm = btr.methods.get("normalize")
    nexpr = None
    if norm is not None and len(norm.body) == 1 and isinstance(norm.body[0], ast.Try) and len(norm.body[0].body) == 1 \
            and isinstance(norm.body[0].body[0], ast.Return):
        nexpr = norm.body[0].body[0].value
    elif norm is not None and len(norm.body) == 1 and isinstance(norm.body[0], ast.Return):
        nexpr = norm.body[0].value
    btr.normalize_expr = nexpr
    CN = "AbstractDiscreteTimeOnlineInterpreter"
    lines = ["/- GENERATED by harness/py2lean.py from %s, %s and %s of /repo on every run - do not edit. -/"
             % (ONLINE_INTERP_FILE, ONLINE_GLUE_FILE, INTERP_FILE),
             "import Rtamt.Py.GlueUpd", "", "namespace Rtamt.Py.Gen.GlueUpd", "open Rtamt Rtamt.Py Rtamt.Py.GUpd", ""]
    missing = "{ params := [], body := (.unsupported \"missing\"), ret := none }"
    it = None
    if CN in cls2:
        ctr = Tr(cls2[CN])
        ctr.interp = True
        ctr.clock = True
        ctr.normalize_expr = nexpr
        ctr.parents = {"DiscreteTimeInterpreter": btr}
        pn = "AbstractOnlineInterpreter"
        it = GlueUpdTr(cls2[CN], ctr, pn if pn in cls else None, cls.get(pn))
    names = []
    for nm, note in (("update", " (`set_variable_to_ast_from_dataset` inlined)"),
                     ("reset", " (`AbstractOnlineInterpreter.reset` inlined)"),
                     ("set_variable_to_ast_from_dataset", "")):
        lines.append("/-- `%s.%s`%s -/" % (CN, nm, note))
        lines.append("def interp_%s : UMethod :=\n  %s" % (nm, (it.method(nm) if it is not None else None) or missing))
        lines.append("")
        names.append("interp_" + nm)
    lines.append("def methods : List (String × UMethod) :=\n  [%s]" % ", ".join("(%s, %s)" % (q(n), n) for n in names))
    lines.append("")
    lines.append("/-- `self.updateVisitor = …()` / `self.resetVisitor = …()` in `__init__` -/")
    lines.append("def visitors : List (String × String) :=\n  [%s]"
                 % ", ".join("(%s, %s)" % (q(a), q(b)) for a, b in (it.visitors() if it is not None else [])))
    lines.append("")
    lines.append("end Rtamt.Py.Gen.GlueUpd")
    return "\n".join(lines) + "\n"
# ---- END discrete-time online update()/reset() as whole methods (generate_glue_update) ------------------------------


# ---- BEGIN offline evaluate (generate_offline_evaluate) -------------------------------------------------------------
# `AbstractDiscreteTimeOfflineInterpreter.evaluate(dataset)` as a whole method (with `exist_ast` and
# `set_variable_to_ast_from_dataset` inlined) and `AbstractAstVisitor.visitAst` -> terms of `Rtamt/Py/OffEval.lean`
# (file `lean/Rtamt/Py/GeneratedOffEval.lean`).  The gap loop (`for i in range(...)`) is translated by the translator of
# the sampling bookkeeping (`Tr` with `clock = True`, as in `generate_clock`) into the language of `Sem.lean`.
OE_OFFLINE_INTERP_FILE = "rtamt/semantics/abstract_discrete_time_offline_interpreter.py"
OE_INTERP_FILE = "rtamt/semantics/discrete_time_interpreter.py"
OUT_OFFEVAL = os.path.join(os.path.dirname(HERE), "lean", "Rtamt", "Py", "GeneratedOffEval.lean")
# the classes of `DiscreteTimeOfflineInterpreter(AbstractDiscreteTimeOfflineInterpreter, StlDiscreteTimeOfflineAstVisitor)` in the
# order of its MRO (the class statements found are written into the generated file and checked there)
OE_MRO = [("DiscreteTimeOfflineInterpreter", OE_OFFLINE_INTERP_FILE),
          ("AbstractDiscreteTimeOfflineInterpreter", OE_OFFLINE_INTERP_FILE),
          ("AbstractOfflineInterpreter", "rtamt/semantics/abstract_offline_interpreter.py"),
          ("AbstractInterpreter", "rtamt/semantics/abstract_interpreter.py"),
          ("DiscreteTimeInterpreter", OE_INTERP_FILE),
          ("TimeInterpreter", "rtamt/semantics/time_interpreter.py"),
          ("StlDiscreteTimeOfflineAstVisitor", "rtamt/semantics/stl/discrete_time/offline/ast_visitor.py"),
          ("StlAstVisitor", "rtamt/syntax/ast/visitor/stl/ast_visitor.py"),
          ("LtlAstVisitor", "rtamt/syntax/ast/visitor/ltl/ast_visitor.py"),
          ("AbstractAstVisitor", "rtamt/syntax/ast/visitor/abstract_ast_visitor.py")]
OE_METHODS = ["evaluate", "set_variable_to_ast_from_dataset", "exist_ast", "visitAst", "visit"]


def _offeval_clock_tr():
    """The translator of the sampling bookkeeping for the offline interpreter, set up as in `generate_clock`."""
    base_tree = ast.parse(open(os.path.join(REPO, OE_INTERP_FILE)).read())
    base = [n for n in base_tree.body if isinstance(n, ast.ClassDef) and n.name == "DiscreteTimeInterpreter"][0]
    btr = Tr(base)
    btr.interp = True
    btr.clock = True
    btr.parents = {}
    norm = btr.methods.get("normalize")
    nexpr = None
    if norm is not None and len(norm.body) == 1 and isinstance(norm.body[0], ast.Try) and len(norm.body[0].body) == 1 \
            and isinstance(norm.body[0].body[0], ast.Return):
        nexpr = norm.body[0].body[0].value
    elif norm is not None and len(norm.body) == 1 and isinstance(norm.body[0], ast.Return):
        nexpr = norm.body[0].value
    btr.normalize_expr = nexpr
    tree = ast.parse(open(os.path.join(REPO, OE_OFFLINE_INTERP_FILE)).read())
    cls = [n for n in tree.body if isinstance(n, ast.ClassDef) and n.name == "AbstractDiscreteTimeOfflineInterpreter"][0]
    tr = Tr(cls)
    tr.interp = True
    tr.clock = True
    tr.normalize_expr = nexpr
    tr.parents = {"DiscreteTimeInterpreter": btr}
    return tr


class OffEvalTr:
    """Methods of the discrete-time offline interpreter -> terms of `Rtamt/Py/OffEval.lean`."""

    def __init__(self, resolve, clock_tr):
        self.resolve = resolve         # method name -> (defining class, FunctionDef): the first class of the MRO that has it
        self.clock_tr = clock_tr
        self.cur = None                # the method being translated (the outermost one while a call is inlined)
        self.sig = None                # the method whose parameters are in scope

    def unsup(self, x):
        return "(.unsupported %s)" % q(x if isinstance(x, str) else src(x))

    def expr(self, e):
        t = src(e)
        if isinstance(e, ast.Name):
            return "(.loc %s)" % q(e.id)
        if isinstance(e, ast.Constant):
            if isinstance(e.value, str):
                return "(.strLit %s)" % q(e.value)
            if isinstance(e.value, int) and not isinstance(e.value, bool):
                return "(.intLit %d)" % e.value
            return self.unsup(e)
        if isinstance(e, ast.Compare) and len(e.ops) == 1:
            if isinstance(e.ops[0], ast.Is) and src(e.left) == "self.ast" and isinstance(e.comparators[0], ast.Constant) \
                    and e.comparators[0].value is None:
                return ".astIsNone"
            if isinstance(e.ops[0], ast.NotEq):
                return "(.ne %s %s)" % (self.expr(e.left), self.expr(e.comparators[0]))
            return self.unsup(e)
        if t == "self.ast":
            return ".selfAst"
        if isinstance(e, ast.Attribute) and e.attr == "specs" and isinstance(e.value, ast.Name) and self.sig is not None \
                and e.value.id in [a.arg for a in self.sig.args.args[1:]]:
            return "(.specsOf %s)" % q(e.value.id)
        if isinstance(e, ast.Subscript) and not isinstance(e.slice, (ast.Slice, ast.Tuple)):
            return "(.idx %s %s)" % (self.expr(e.value), self.expr(e.slice))
        if isinstance(e, ast.BinOp) and isinstance(e.op, ast.Sub):
            return "(.sub %s %s)" % (self.expr(e.left), self.expr(e.right))
        if isinstance(e, ast.List):
            if not e.elts:
                return ".emptyList"
            if len(e.elts) == 2 and not any(isinstance(x, ast.Starred) for x in e.elts):
                return "(.pair2 %s %s)" % (self.expr(e.elts[0]), self.expr(e.elts[1]))
            return self.unsup(e)
        if isinstance(e, ast.ListComp) and len(e.generators) == 1 and not e.generators[0].ifs and not e.generators[0].is_async \
                and isinstance(e.generators[0].target, ast.Name):
            g = e.generators[0]
            return "(.comp %s %s %s)" % (self.expr(e.elt), q(g.target.id), self.expr(g.iter))
        if isinstance(e, ast.Call) and isinstance(e.func, ast.Name) and not e.keywords \
                and not any(isinstance(a, ast.Starred) for a in e.args):
            if e.func.id == "len" and len(e.args) == 1:
                return "(.len %s)" % self.expr(e.args[0])
            if e.func.id == "zip" and len(e.args) == 2:
                return "(.zip %s %s)" % (self.expr(e.args[0]), self.expr(e.args[1]))
            return self.unsup(e)
        if isinstance(e, ast.Call) and src(e.func) == "self.visit" and self.sig is not None:
            # self.visit(node, *args, **kwargs) with the star parameters of the enclosing method
            va, kw = self.sig.args.vararg, self.sig.args.kwarg
            if va is not None and kw is not None and len(e.args) == 2 and not isinstance(e.args[0], ast.Starred) \
                    and isinstance(e.args[1], ast.Starred) and src(e.args[1].value) == va.arg \
                    and len(e.keywords) == 1 and e.keywords[0].arg is None and src(e.keywords[0].value) == kw.arg:
                return "(.visit %s %s %s)" % (self.expr(e.args[0]), q(va.arg), q(kw.arg))
            return self.unsup(e)
        if isinstance(e, ast.Call) and src(e.func) == "self.visitAst" and not e.keywords and len(e.args) == 2 \
                and not any(isinstance(a, ast.Starred) for a in e.args):
            r = self.resolve.get("visitAst")
            if r is not None:
                a = r[1].args
                if len(a.args) == 2 and a.vararg is not None and a.kwarg is not None and not a.defaults and not a.kwonlyargs:
                    return "(.callVisitAst %s %s)" % (self.expr(e.args[0]), self.expr(e.args[1]))
            return self.unsup(e)
        return self.unsup(e)

    def seq(self, items):
        items = [i for i in items if i != ".skip"]
        if not items:
            return ".skip"
        out = items[-1]
        for i in reversed(items[:-1]):
            out = "(.seq %s %s)" % (i, out)
        return out

    def block(self, stmts):
        return self.seq([self.stmt(s) for s in stmts])

    def inline(self, c):
        """`self.m(x, …)`, `m` a method whose parameters are exactly the names `x, …` and that returns nothing: its body."""
        r = self.resolve.get(c.func.attr)
        if r is None or c.keywords or self.cur is None:
            return None
        m = r[1]
        a = m.args
        if a.vararg or a.kwarg or a.kwonlyargs or a.defaults or m.decorator_list or not a.args or a.args[0].arg != "self":
            return None
        params = [x.arg for x in a.args[1:]]
        if [src(x) for x in c.args] != params:
            return None
        body = list(m.body)
        if body and isinstance(body[-1], ast.Return) and body[-1].value is None:
            body.pop()
        if any(isinstance(x, ast.Return) for st in body for x in ast.walk(st)):
            return None
        mine = {x.id for x in ast.walk(m) if isinstance(x, ast.Name) and isinstance(x.ctx, ast.Store)}
        theirs = {x.id for x in ast.walk(self.cur) if isinstance(x, ast.Name)}
        if (mine & theirs) or (mine & set(params)) or m is self.cur:
            return None
        outer, self.sig = self.sig, m
        try:
            return self.block(body)
        finally:
            self.sig = outer

    def gap_loop(self, s):
        """`for i in range(…)`: the sampling bookkeeping, in the language of `Sem.lean`; it reads `ts` only and none of the names it
        assigns occurs elsewhere in the method."""
        import re
        term = self.clock_tr.stmt(s, 0)
        stored = set(re.findall(r'\(\.setLoc "([^"]*)"', term)) | set(re.findall(r'\(\.for_ "([^"]*)"', term))
        loaded = set(re.findall(r'\(\.loc "([^"]*)"\)', term)) - stored
        inside = {id(x) for x in ast.walk(s)}
        outside = {x.id for x in ast.walk(self.cur) if isinstance(x, ast.Name) and id(x) not in inside}
        if not loaded <= {"ts", "$unit"} or (stored & outside):
            return self.unsup(s)
        return "(.clock %s)" % term

    def stmt(self, s):
        if isinstance(s, ast.Pass) or (isinstance(s, ast.Expr) and isinstance(s.value, ast.Constant)):
            return ".skip"
        if isinstance(s, ast.Assign) and len(s.targets) == 1:
            tg, v = s.targets[0], s.value
            if isinstance(tg, ast.Name):
                return "(.setLoc %s %s)" % (q(tg.id), self.expr(v))
            if isinstance(tg, ast.Subscript) and src(tg.value) == "self.ast.var_object_dict":
                return "(.setVar %s %s)" % (self.expr(tg.slice), self.expr(v))
            if isinstance(tg, ast.Subscript) and src(tg.value) == "self.ast.results":
                return "(.setResult %s %s)" % (self.expr(tg.slice), self.expr(v))
            return self.unsup(s)
        if isinstance(s, ast.Expr) and isinstance(s.value, ast.Call):
            c = s.value
            if isinstance(c.func, ast.Attribute) and c.func.attr == "append" and isinstance(c.func.value, ast.Name) and len(c.args) == 1 \
                    and not c.keywords and not isinstance(c.args[0], ast.Starred):
                return "(.appendLoc %s %s)" % (q(c.func.value.id), self.expr(c.args[0]))
            if isinstance(c.func, ast.Attribute) and src(c.func.value) == "self":
                r = self.inline(c)
                if r is not None:
                    return r
            return self.unsup(s)
        if isinstance(s, ast.If):
            return "(.ite %s %s %s)" % (self.expr(s.test), self.block(s.body), self.block(s.orelse))
        if isinstance(s, ast.Raise) and isinstance(s.exc, ast.Call) and isinstance(s.exc.func, ast.Name) and s.cause is None \
                and s.exc.func.id in ("RTAMTException", "Exception"):
            return "(.raise .rtamt)" if s.exc.func.id == "RTAMTException" else "(.raise .other)"
        if isinstance(s, ast.For) and not s.orelse and isinstance(s.target, ast.Name):
            if isinstance(s.iter, ast.Call) and isinstance(s.iter.func, ast.Name) and s.iter.func.id == "range":
                return self.gap_loop(s)
            return "(.forIn %s %s %s)" % (q(s.target.id), self.expr(s.iter), self.block(s.body))
        return self.unsup(s)

    def method(self, name):
        r = self.resolve.get(name)
        if r is None:
            return "{ params := [], body := (.unsupported \"missing method\"), ret := none }"
        m = r[1]
        a = m.args
        if a.kwonlyargs or a.defaults or a.posonlyargs or m.decorator_list or not a.args or a.args[0].arg != "self":
            return "{ params := [], body := (.unsupported %s), ret := none }" % q("signature of " + name)
        params = [x.arg for x in a.args[1:]] + ([a.vararg.arg] if a.vararg else []) + ([a.kwarg.arg] if a.kwarg else [])
        body = list(m.body)
        ret = "none"
        self.cur = self.sig = m
        try:
            if body and isinstance(body[-1], ast.Return):
                rv = body.pop().value
                if rv is not None:
                    ret = "(some %s)" % self.expr(rv)
            if any(isinstance(x, ast.Return) for st in body for x in ast.walk(st)):
                btxt = self.unsup("return inside " + name)
            else:
                btxt = self.block(body)
        finally:
            self.cur = self.sig = None
        return "{ params := [%s], body := %s, ret := %s }" % (", ".join(q(p) for p in params), btxt, ret)


def generate_offline_evaluate():
    """`evaluate(dataset)` of the discrete-time offline interpreter and `visitAst`."""
    found = []                     # (class, bases as written, {method name: FunctionDef})
    for cname, path in OE_MRO:
        try:
            tree = ast.parse(open(os.path.join(REPO, path)).read())
        except OSError:
            continue
        cs = [n for n in ast.walk(tree) if isinstance(n, ast.ClassDef) and n.name == cname]
        if len(cs) != 1:
            continue
        c = cs[0]
        defs = [n for n in c.body if isinstance(n, ast.FunctionDef)]
        methods = {}
        for n in defs:
            # a name defined twice in one class statement: the last definition is the attribute
            methods[n.name] = n
        # anything else in the class body that binds one of the names (an assignment `visitAst = …`) makes it unresolved
        other = {t.id for n in c.body if isinstance(n, (ast.Assign, ast.AnnAssign))
                 for t in (n.targets if isinstance(n, ast.Assign) else [n.target]) if isinstance(t, ast.Name)}
        for nm in other:
            methods[nm] = None
        found.append((cname, [src(b) for b in c.bases], methods))
    resolve, resolution = {}, []
    for nm in OE_METHODS:
        for cname, _, methods in found:
            if nm in methods:
                if methods[nm] is not None:
                    resolve[nm] = (cname, methods[nm])
                resolution.append("(%s, %s)" % (q(nm), q(cname if methods[nm] is not None else cname + " (not a def)")))
                break
        else:
            resolution.append("(%s, %s)" % (q(nm), q("")))
    tr = OffEvalTr(resolve, _offeval_clock_tr())
    files = []
    for _, p_ in OE_MRO:
        if p_ not in files:
            files.append(p_)
    lines = ["/- GENERATED by harness/py2lean.py from %s of /repo on every run - do not edit. -/" % ", ".join(files),
             "import Rtamt.Py.OffEval", "", "namespace Rtamt.Py.Gen.OffEval", "open Rtamt Rtamt.Py Rtamt.Py.OffEval", ""]
    lines.append("/-- the classes of `DiscreteTimeOfflineInterpreter` in the order of its MRO, with the base classes as written -/")
    lines.append("def bases : List (String × List String) :=\n  [%s]"
                 % ", ".join("(%s, [%s])" % (q(c), ", ".join(q(b) for b in bs)) for c, bs, _ in found))
    lines.append("")
    lines.append("/-- the first class of that order that defines the method -/")
    lines.append("def resolution : List (String × String) :=\n  [%s]" % ", ".join(resolution))
    lines.append("")
    names = []
    for nm, note in (("evaluate", " (`exist_ast` and `set_variable_to_ast_from_dataset` inlined)"), ("visitAst", "")):
        lines.append("/-- `%s.%s`%s -/" % (resolve[nm][0] if nm in resolve else "?", nm, note))
        lines.append("def %s : OMethod :=\n  %s" % (nm, tr.method(nm)))
        lines.append("")
        names.append(nm)
    lines.append("def methods : List (String × OMethod) :=\n  [%s]" % ", ".join("(%s, %s)" % (q(n), n) for n in names))
    lines.append("")
    lines.append("end Rtamt.Py.Gen.OffEval")
    return "\n".join(lines) + "\n"
# ---- END offline evaluate (generate_offline_evaluate) ---------------------------------------------------------------


# ---- BEGIN explainer driver (generate_expl_driver: Explanations.__setitem__, explain() -> Rtamt/Py/GeneratedExplDrv.lean) ----
DRV_EXPLAINER_LTL = "rtamt/explanation/ltl/discrete_time/explainer.py"
DRV_EXPLAINER_STL = "rtamt/explanation/stl/discrete_time/explainer.py"
DRV_SPEC_FILE = "rtamt/spec/abstract_specification.py"
OUT_EXPL_DRV = os.path.join(os.path.dirname(HERE), "lean", "Rtamt", "Py", "GeneratedExplDrv.lean")


class DrvTr:
    """Methods of the explainer's driver (`Explanations.__setitem__`, `explain()`) -> terms of `Rtamt/Py/ExplDrv.lean`.
    A name is a local (`.loc`) when the function binds it (a parameter, the target of an assignment or of a `for`); any other name
    is a global: the callee of `f(..)` / the class of `G.m(..)`, nothing else."""

    def __init__(self, fn):
        a = fn.args
        self.locals = set(x.arg for x in a.args)
        def walk(n):
            for c in ast.iter_child_nodes(n):
                if isinstance(c, (ast.ListComp, ast.SetComp, ast.DictComp, ast.GeneratorExp, ast.Lambda, ast.FunctionDef, ast.ClassDef)):
                    continue                      # a scope of its own
                if isinstance(c, ast.Name) and isinstance(c.ctx, ast.Store):
                    self.locals.add(c.id)
                walk(c)
        walk(fn)

    def args(self, xs):
        return "[%s]" % ", ".join(self.expr(x) for x in xs)

    def expr(self, e):
        if isinstance(e, ast.Name) and isinstance(e.ctx, ast.Load) and e.id in self.locals:
            return "(.loc %s)" % q(e.id)
        if isinstance(e, ast.Attribute) and isinstance(e.ctx, ast.Load):
            return "(.attr %s %s)" % (self.expr(e.value), q(e.attr))
        if isinstance(e, ast.Constant):
            if e.value is None:
                return ".none_"
            if e.value is True:
                return ".true_"
            if e.value is False:
                return ".false_"
            if isinstance(e.value, int):
                return "(.int %d)" % e.value
        if isinstance(e, ast.List) and not any(isinstance(x, ast.Starred) for x in e.elts):
            if len(e.elts) == 0:
                return ".emptyList"
            if len(e.elts) == 1:
                return "(.list1 %s)" % self.expr(e.elts[0])
            if len(e.elts) == 2:
                return "(.list2 %s %s)" % (self.expr(e.elts[0]), self.expr(e.elts[1]))
        if isinstance(e, ast.Subscript) and isinstance(e.ctx, ast.Load) and isinstance(e.slice, ast.Slice) \
                and e.slice.lower is not None and e.slice.upper is None and e.slice.step is None:
            return "(.sliceFrom %s %s)" % (self.expr(e.value), self.expr(e.slice.lower))       # e[lo:]
        if isinstance(e, ast.Subscript) and isinstance(e.ctx, ast.Load) and not isinstance(e.slice, (ast.Slice, ast.Tuple)):
            return "(.idx %s %s)" % (self.expr(e.value), self.expr(e.slice))
        if isinstance(e, ast.UnaryOp) and isinstance(e.op, ast.USub):
            return "(.neg %s)" % self.expr(e.operand)
        if isinstance(e, ast.Compare) and len(e.ops) == 1:
            if isinstance(e.ops[0], ast.Lt):
                return "(.lt %s %s)" % (self.expr(e.left), self.expr(e.comparators[0]))
            if isinstance(e.ops[0], ast.In):
                return "(.isIn %s %s)" % (self.expr(e.left), self.expr(e.comparators[0]))
        if isinstance(e, ast.BinOp) and isinstance(e.op, ast.Add):
            return "(.add %s %s)" % (self.expr(e.left), self.expr(e.right))
        if isinstance(e, ast.Call) and isinstance(e.func, ast.Name) and e.func.id == "list" and "list" not in self.locals \
                and len(e.args) == 1 and not e.keywords and not isinstance(e.args[0], ast.Starred):
            return "(.listOf %s)" % self.expr(e.args[0])
        if isinstance(e, ast.ListComp) and len(e.generators) == 1:
            g = e.generators[0]
            if isinstance(g.target, ast.Name) and not g.ifs and not g.is_async:
                it = self.expr(g.iter)                       # evaluated in the enclosing scope
                saved = set(self.locals)
                self.locals.add(g.target.id)
                body = self.expr(e.elt)
                self.locals = saved
                return "(.comp %s %s %s)" % (body, q(g.target.id), it)
        return "(.unsupported %s)" % q(src(e))

    def rhs(self, e):
        """An expression, or one call (calls have effects: they are not nested into expressions)."""
        if isinstance(e, ast.Call) and not e.keywords and not any(isinstance(a, ast.Starred) for a in e.args):
            f = e.func
            if isinstance(f, ast.Name) and f.id not in self.locals and f.id != "list":
                return "(.call %s %s)" % (q(f.id), self.args(e.args))
            if isinstance(f, ast.Attribute):
                if isinstance(f.value, ast.Name) and f.value.id not in self.locals:
                    return "(.methG %s %s %s)" % (q(f.value.id), q(f.attr), self.args(e.args))
                return "(.meth %s %s %s)" % (self.expr(f.value), q(f.attr), self.args(e.args))
            return "(.unsupported %s)" % q(src(e))
        return "(.pure %s)" % self.expr(e)

    def block(self, stmts):
        items = [self.stmt(s) for s in stmts]
        items = [i for i in items if i != ".skip"]
        if not items:
            return ".skip"
        out = items[-1]
        for i in reversed(items[:-1]):
            out = "(.seq %s %s)" % (i, out)
        return out

    def stmt(self, s):
        if isinstance(s, ast.Pass):
            return ".skip"
        if isinstance(s, ast.Expr) and isinstance(s.value, ast.Constant):
            return ".skip"                                    # a docstring
        if isinstance(s, ast.Expr) and isinstance(s.value, ast.Call):
            return "(.expr %s)" % self.rhs(s.value)
        if isinstance(s, ast.Assign) and len(s.targets) == 1:
            t = s.targets[0]
            if isinstance(t, ast.Name):
                return "(.setLoc %s %s)" % (q(t.id), self.rhs(s.value))
            if isinstance(t, ast.Attribute):
                return "(.setAttr %s %s %s)" % (self.expr(t.value), q(t.attr), self.rhs(s.value))
        if isinstance(s, ast.If):
            return "(.ite %s %s %s)" % (self.expr(s.test), self.block(s.body), self.block(s.orelse))
        if isinstance(s, ast.For) and not s.orelse and isinstance(s.target, ast.Name):
            return "(.forIn %s %s %s)" % (q(s.target.id), self.expr(s.iter), self.block(s.body))
        return "(.unsupported %s)" % q(src(s))


def _drv_method(cls, mname):
    """The one undecorated definition of `mname` in class `cls` with plain positional parameters, as a `DMethod`."""
    cands = [n for n in (cls.body if cls is not None else []) if isinstance(n, (ast.FunctionDef, ast.AsyncFunctionDef)) and n.name == mname]
    if len(cands) != 1:
        return "{ params := [], body := (.unsupported %s) }" % q("%d definitions of %s" % (len(cands), mname))
    m = cands[0]
    a = m.args
    if not isinstance(m, ast.FunctionDef) or m.decorator_list or a.vararg or a.kwarg or a.kwonlyargs or a.defaults or a.posonlyargs:
        return "{ params := [], body := (.unsupported %s) }" % q("signature of " + mname)
    tr = DrvTr(m)
    return "{ params := [%s], body := %s }" % (", ".join(q(x.arg) for x in a.args), tr.block(m.body))


def _drv_module(path):
    tree = ast.parse(open(os.path.join(REPO, path)).read())
    cls = {n.name: n for n in tree.body if isinstance(n, ast.ClassDef)}
    defs = []
    for n in tree.body:
        if isinstance(n, (ast.ClassDef, ast.FunctionDef, ast.AsyncFunctionDef)):
            defs.append(n.name)
        elif isinstance(n, (ast.Import, ast.ImportFrom)):
            defs.append(src(n))
        elif not (isinstance(n, ast.Expr) and isinstance(n.value, ast.Constant)):
            defs.append(src(n))
    return cls, defs


def _drv_members(cls):
    """(bases, names bound in the class body) - which methods a class defines decides what an operation on its instances runs."""
    if cls is None:
        return "([], [])"
    names = []
    for n in cls.body:
        if isinstance(n, (ast.FunctionDef, ast.AsyncFunctionDef, ast.ClassDef)):
            names.append(n.name)
        elif isinstance(n, ast.Expr) and isinstance(n.value, ast.Constant):
            continue
        elif isinstance(n, ast.Pass):
            continue
        else:
            names.append(src(n))
    bases = [src(b) for b in cls.bases] + [src(k) for k in cls.keywords]
    return "([%s], [%s])" % (", ".join(q(b) for b in bases), ", ".join(q(x) for x in names))


def generate_expl_driver():
    """The result container of the explainer (`Explanations`), `explain()` of the two explainer classes and
    `AbstractOfflineSpecification.explain`."""
    lcls, ldefs = _drv_module(DRV_EXPLAINER_LTL)
    scls, sdefs = _drv_module(DRV_EXPLAINER_STL)
    pcls, _ = _drv_module(DRV_SPEC_FILE)
    lines = ["/- GENERATED by harness/py2lean.py from %s, %s and %s of /repo on every run - do not edit. -/"
             % (DRV_EXPLAINER_LTL, DRV_EXPLAINER_STL, DRV_SPEC_FILE),
             "import Rtamt.Py.ExplDrv", "", "namespace Rtamt.Py.Gen.ExplDrv", "open Rtamt Rtamt.Py Rtamt.Py.Drv", ""]
    for doc, nm, cls, mname in (("Explanations.__setitem__", "setitem", lcls.get("Explanations"), "__setitem__"),
                                ("LTLExplainer.explain", "ltl_explain", lcls.get("LTLExplainer"), "explain"),
                                ("STLExplainer.explain", "stl_explain", scls.get("STLExplainer"), "explain"),
                                ("AbstractOfflineSpecification.explain", "spec_explain", pcls.get("AbstractOfflineSpecification"), "explain")):
        lines.append("/-- `%s` -/" % doc)
        lines.append("def %s : DMethod :=\n  %s" % (nm, _drv_method(cls, mname)))
        lines.append("")
    lines.append("/-- `class Explanations`: its bases and the names its body binds (a `dict` that overrides `__setitem__` only) -/")
    lines.append("def explanationsClass : List String × List String :=\n  %s" % _drv_members(lcls.get("Explanations")))
    lines.append("")
    for tag, cname, cls in (("ltl", "LTLExplainer", lcls.get("LTLExplainer")), ("stl", "STLExplainer", scls.get("STLExplainer"))):
        lines.append("/-- the bases of `%s` -/" % cname)
        lines.append("def %sExplainerBases : List String :=\n  [%s]" % (tag, ", ".join(q(src(b)) for b in (cls.bases if cls is not None else []))))
        lines.append("")
    for tag, path, defs in (("ltl", DRV_EXPLAINER_LTL, ldefs), ("stl", DRV_EXPLAINER_STL, sdefs)):
        lines.append("/-- what the module `%s` binds at top level (imports as written, classes and functions by name) -/" % path)
        lines.append("def %sModule : List String :=\n  [%s]" % (tag, ",\n   ".join(q(d) for d in defs)))
        lines.append("")
    lines.append("end Rtamt.Py.Gen.ExplDrv")
    return "\n".join(lines) + "\n"
# ---- END explainer driver (generate_expl_driver) ----


# ---- BEGIN pastifier driver (generate_pastify_driver: StlPastifier.pastify / normalize_units / visit -> Rtamt/Py/GeneratedPastDrv.lean) ----
PASTDRV_FILE = "rtamt/pastifier/stl/pastifier.py"
OUT_PASTDRV = os.path.join(os.path.dirname(HERE), "lean", "Rtamt", "Py", "GeneratedPastDrv.lean")
PASTDRV_METHODS = ["pastify", "normalize_units", "visit"]


class PastDrvTr:
    """`StlPastifier.pastify`, `normalize_units`, `visit` -> terms of `Rtamt/Py/PastDrv.lean` (`DE` / `DS`).  Purely syntactic:
    names, attribute accesses, subscripts, calls and assignments are mapped to the constructor of the same shape; what they mean
    for which object is decided by the semantics in Lean, not here."""

    def expr(self, e):
        t = src(e)
        if isinstance(e, ast.Name):
            if e.id == "self":
                return ".self_"
            return "(.loc %s)" % q(e.id)
        if isinstance(e, ast.Constant):
            if e.value is None:
                return ".none_"
            if isinstance(e.value, bool):
                return "(.unsupported %s)" % q(t)
            if isinstance(e.value, int):
                return "(.int %d)" % e.value
            if isinstance(e.value, str):
                return "(.str %s)" % q(e.value)
        if isinstance(e, ast.List) and not e.elts:
            return ".emptyList"
        if isinstance(e, ast.Attribute):
            return "(.attr %s %s)" % (self.expr(e.value), q(e.attr))
        if isinstance(e, ast.Subscript) and not isinstance(e.slice, ast.Slice):
            return "(.index %s %s)" % (self.expr(e.value), self.expr(e.slice))
        if isinstance(e, ast.BinOp) and isinstance(e.op, (ast.Mult, ast.Div)):
            return "(.%s %s %s)" % ("mul" if isinstance(e.op, ast.Mult) else "div", self.expr(e.left), self.expr(e.right))
        if isinstance(e, ast.Compare) and len(e.ops) == 1 and isinstance(e.ops[0], (ast.Eq, ast.Gt)):
            return "(.%s %s %s)" % ("eq" if isinstance(e.ops[0], ast.Eq) else "gt", self.expr(e.left), self.expr(e.comparators[0]))
        if isinstance(e, ast.Call) and isinstance(e.func, ast.Name) and not e.keywords \
                and not any(isinstance(a, ast.Starred) for a in e.args):
            f, a = e.func.id, e.args
            if f == "len" and len(a) == 1:
                return "(.len %s)" % self.expr(a[0])
            if f == "Fraction" and len(a) == 1:
                return "(.frac %s)" % self.expr(a[0])
            if f == "isinstance" and len(a) == 2 and isinstance(a[1], ast.Name):
                return "(.isInst %s %s)" % (self.expr(a[0]), q(a[1].id))
            if f == "dict" and not a:
                return ".emptyDict"
        # [k for k, v in D.items() if v == E]
        if isinstance(e, ast.ListComp) and len(e.generators) == 1:
            g = e.generators[0]
            if not g.is_async and isinstance(g.target, ast.Tuple) and len(g.target.elts) == 2 \
                    and all(isinstance(x, ast.Name) for x in g.target.elts) and g.target.elts[0].id != g.target.elts[1].id \
                    and isinstance(e.elt, ast.Name) and e.elt.id == g.target.elts[0].id \
                    and isinstance(g.iter, ast.Call) and isinstance(g.iter.func, ast.Attribute) and g.iter.func.attr == "items" \
                    and not g.iter.args and not g.iter.keywords and len(g.ifs) == 1:
                c = g.ifs[0]
                bound = {g.target.elts[0].id, g.target.elts[1].id}
                if isinstance(c, ast.Compare) and len(c.ops) == 1 and isinstance(c.ops[0], ast.Eq) \
                        and isinstance(c.left, ast.Name) and c.left.id == g.target.elts[1].id \
                        and not any(isinstance(n, ast.Name) and n.id in bound for n in ast.walk(c.comparators[0])) \
                        and not any(isinstance(n, ast.Name) and n.id in bound for n in ast.walk(g.iter.func.value)):
                    return "(.keysWhereEq %s %s)" % (self.expr(g.iter.func.value), self.expr(c.comparators[0]))
        # {key: V for key in KEYS}
        if isinstance(e, ast.DictComp) and len(e.generators) == 1:
            g = e.generators[0]
            if not g.is_async and not g.ifs and isinstance(g.target, ast.Name) and isinstance(e.key, ast.Name) \
                    and e.key.id == g.target.id \
                    and not any(isinstance(n, ast.Name) and n.id == g.target.id for n in ast.walk(e.value)) \
                    and not any(isinstance(n, ast.Name) and n.id == g.target.id for n in ast.walk(g.iter)):
                return "(.constDict %s %s)" % (self.expr(g.iter), self.expr(e.value))
        return "(.unsupported %s)" % q(t)

    def arg(self, a):
        if isinstance(a, ast.Starred):
            return "(.star %s)" % self.expr(a.value)
        return self.expr(a)

    def call(self, target, c):
        """`target = recv.m(args)` / `recv.m(args)` / `target = Cls(args)` — calls that may have an effect are statements."""
        if not isinstance(c, ast.Call):
            return None
        args = [self.arg(a) for a in c.args]
        for k in c.keywords:
            if k.arg is not None:
                return None
            args.append("(.dstar %s)" % self.expr(k.value))
        tgt = "none" if target is None else "(some %s)" % q(target)
        if isinstance(c.func, ast.Attribute):
            recv = c.func.value
            r = "(.glob %s)" % q(recv.id) if isinstance(recv, ast.Name) and recv.id[:1].isupper() else self.expr(recv)
            return "(.call %s %s %s [%s])" % (tgt, r, q(c.func.attr), ", ".join(args))
        if isinstance(c.func, ast.Name) and c.func.id[:1].isupper() and c.func.id != "Fraction":
            return "(.call %s (.glob %s) \"()\" [%s])" % (tgt, q(c.func.id), ", ".join(args))
        return None

    def block(self, stmts):
        items = [self.stmt(s) for s in stmts]
        items = [i for i in items if i != ".skip"]
        if not items:
            return ".skip"
        out = items[-1]
        for i in reversed(items[:-1]):
            out = "(.seq %s %s)" % (i, out)
        return out

    def stmt(self, s):
        if isinstance(s, ast.Pass):
            return ".skip"
        if isinstance(s, ast.Expr) and isinstance(s.value, ast.Constant) and isinstance(s.value.value, str):
            return ".skip"                       # a docstring
        if isinstance(s, ast.Expr):
            c = self.call(None, s.value)
            if c is not None:
                return c
        if isinstance(s, ast.Assign) and len(s.targets) == 1:
            t = s.targets[0]
            if isinstance(t, ast.Name):
                c = self.call(t.id, s.value)
                if c is not None:
                    return c
                return "(.setLoc %s %s)" % (q(t.id), self.expr(s.value))
            if isinstance(t, ast.Attribute):
                return "(.setAttr %s %s %s)" % (self.expr(t.value), q(t.attr), self.expr(s.value))
            if isinstance(t, ast.Subscript) and isinstance(t.value, ast.Name) and not isinstance(t.slice, ast.Slice):
                return "(.setItem %s %s %s)" % (q(t.value.id), self.expr(t.slice), self.expr(s.value))
        if isinstance(s, ast.If):
            return "(.ite %s %s %s)" % (self.expr(s.test), self.block(s.body), self.block(s.orelse))
        if isinstance(s, ast.For) and not s.orelse and isinstance(s.target, ast.Name):
            return "(.forIn %s %s %s)" % (q(s.target.id), self.expr(s.iter), self.block(s.body))
        return "(.unsupported %s)" % q(src(s))


def generate_pastify_driver(path=None):
    """The driver of the pastifier: `pastify()`, `normalize_units()` and the overriding `visit()` of `StlPastifier`."""
    tree = ast.parse(open(path or os.path.join(REPO, PASTDRV_FILE)).read())
    cls = [n for n in tree.body if isinstance(n, ast.ClassDef) and n.name == "StlPastifier"]
    last = {}
    for m in (cls[0].body if cls else []):          # a name defined twice in the class body: the last definition is the method
        if isinstance(m, ast.FunctionDef):
            last[m.name] = m
    tr = PastDrvTr()
    lines = ["/- GENERATED by harness/py2lean.py from %s of /repo on every run - do not edit. -/" % PASTDRV_FILE,
             "import Rtamt.Py.PastDrv", "", "namespace Rtamt.Py.Gen.PastDrv", "open Rtamt Rtamt.Py Rtamt.Py.PDrv", ""]
    for name in PASTDRV_METHODS:
        m = last.get(name)
        lines.append("/-- `StlPastifier.%s` -/" % name)
        if m is None or m.decorator_list or m.args.defaults or m.args.kwonlyargs or m.args.posonlyargs \
                or not m.args.args or m.args.args[0].arg != "self":
            lines.append("def %s : DMethod :=\n  { params := [], vararg := none, kwarg := none, body := (.unsupported \"missing method\"), ret := none }" % name)
            lines.append("")
            continue
        body = list(m.body)
        ret = "none"
        if body and isinstance(body[-1], ast.Return) and body[-1].value is not None:
            ret = "(some %s)" % tr.expr(body.pop().value)
        btxt = tr.block(body)
        if any(isinstance(x, (ast.Return, ast.Yield, ast.YieldFrom)) for st in body for x in ast.walk(st)):
            btxt = "(.unsupported %s)" % q("return inside " + name)
        opt = lambda a: "none" if a is None else "(some %s)" % q(a.arg)
        lines.append("def %s : DMethod :=\n  { params := [%s], vararg := %s, kwarg := %s, body := %s, ret := %s }"
                     % (name, ", ".join(q(a.arg) for a in m.args.args[1:]), opt(m.args.vararg), opt(m.args.kwarg), btxt, ret))
        lines.append("")
    lines.append("def methods : List (String × DMethod) := [%s]" % ", ".join("(%s, %s)" % (q(n), n) for n in PASTDRV_METHODS))
    lines.append("")
    lines.append("end Rtamt.Py.Gen.PastDrv")
    return "\n".join(lines) + "\n"
# ---- END pastifier driver (generate_pastify_driver) ----


# ---- BEGIN dense-time offline evaluate (generate_dense_offline_evaluate) ---------------------------------------------
# `AbstractDenseTimeOfflineInterpreter.evaluate(dataset)` as a whole method (with `exist_ast` and
# `set_variable_to_ast_from_dataset` - found along the MRO of `DenseTimeOfflineInterpreter` - inlined) and
# `AbstractAstVisitor.visitAst` -> terms of `Rtamt/Py/DnEval.lean` (file `lean/Rtamt/Py/GeneratedDnEval.lean`).
DE_OFFLINE_INTERP_FILE = "rtamt/semantics/abstract_dense_time_offline_interpreter.py"
OUT_DNEVAL = os.path.join(os.path.dirname(HERE), "lean", "Rtamt", "Py", "GeneratedDnEval.lean")
# the classes of `DenseTimeOfflineInterpreter(AbstractDenseTimeOfflineInterpreter, StlDenseTimeOfflineAstVisitor)` in the order of
# its MRO (the class statements found are written into the generated file and checked there)
DE_MRO = [("DenseTimeOfflineInterpreter", DE_OFFLINE_INTERP_FILE),
          ("AbstractDenseTimeOfflineInterpreter", DE_OFFLINE_INTERP_FILE),
          ("AbstractOfflineInterpreter", "rtamt/semantics/abstract_offline_interpreter.py"),
          ("AbstractInterpreter", "rtamt/semantics/abstract_interpreter.py"),
          ("DenseTimeInterpreter", "rtamt/semantics/dense_time_interpreter.py"),
          ("TimeInterpreter", "rtamt/semantics/time_interpreter.py"),
          ("StlDenseTimeOfflineAstVisitor", "rtamt/semantics/stl/dense_time/offline/ast_visitor.py"),
          ("StlAstVisitor", "rtamt/syntax/ast/visitor/stl/ast_visitor.py"),
          ("LtlAstVisitor", "rtamt/syntax/ast/visitor/ltl/ast_visitor.py"),
          ("AbstractAstVisitor", "rtamt/syntax/ast/visitor/abstract_ast_visitor.py")]
DE_METHODS = ["evaluate", "set_variable_to_ast_from_dataset", "exist_ast", "visitAst", "visit", "visitSpec"]


class DnEvalTr:
    """Methods of the dense-time offline interpreter -> terms of `Rtamt/Py/DnEval.lean`."""

    def __init__(self, resolve):
        self.resolve = resolve         # method name -> (defining class, FunctionDef): the first class of the MRO that has it
        self.cur = None                # the method being translated (the outermost one while a call is inlined)
        self.sig = None                # the method whose parameters are in scope

    def unsup(self, x):
        return "(.unsupported %s)" % q(x if isinstance(x, str) else src(x))

    def expr(self, e):
        t = src(e)
        if isinstance(e, ast.Name):
            return "(.loc %s)" % q(e.id)
        if isinstance(e, ast.Constant):
            if isinstance(e.value, int) and not isinstance(e.value, bool):
                return "(.intLit %d)" % e.value
            if isinstance(e.value, str):
                return "(.strLit %s)" % q(e.value)
            return self.unsup(e)
        if isinstance(e, ast.Compare) and len(e.ops) == 1:
            if isinstance(e.ops[0], ast.Is) and src(e.left) == "self.ast" and isinstance(e.comparators[0], ast.Constant) \
                    and e.comparators[0].value is None:
                return ".astIsNone"
            if isinstance(e.ops[0], ast.In):
                return "(.isIn %s %s)" % (self.expr(e.left), self.expr(e.comparators[0]))
            return self.unsup(e)
        if t == "self.ast":
            return ".selfAst"
        if t == "self.ast.free_vars":
            return ".freeVars"
        if t == "self.ast.var_object_dict":
            return ".varDict"
        if isinstance(e, ast.Attribute) and e.attr == "specs" and isinstance(e.value, ast.Name) and self.sig is not None \
                and e.value.id in [a.arg for a in self.sig.args.args[1:]]:
            return "(.specsOf %s)" % q(e.value.id)
        if isinstance(e, ast.Subscript) and not isinstance(e.slice, (ast.Slice, ast.Tuple)):
            return "(.idx %s %s)" % (self.expr(e.value), self.expr(e.slice))
        if isinstance(e, ast.BinOp) and isinstance(e.op, ast.Sub):
            return "(.sub %s %s)" % (self.expr(e.left), self.expr(e.right))
        if isinstance(e, ast.List):
            if not e.elts:
                return ".emptyList"
            return self.unsup(e)
        if isinstance(e, ast.Call) and isinstance(e.func, ast.Name) and not e.keywords \
                and not any(isinstance(a, ast.Starred) for a in e.args):
            if e.func.id == "len" and len(e.args) == 1:
                return "(.len %s)" % self.expr(e.args[0])
            return self.unsup(e)
        if isinstance(e, ast.Call) and isinstance(e.func, ast.Attribute) and e.func.attr == "fromkeys" and not e.keywords \
                and len(e.args) == 2 and not any(isinstance(a, ast.Starred) for a in e.args):
            # d.fromkeys(iterable, value): a new dictionary, every key of the iterable mapped to the (one) value
            return "(.fromkeys %s %s %s)" % (self.expr(e.func.value), self.expr(e.args[0]), self.expr(e.args[1]))
        if isinstance(e, ast.Call) and src(e.func) == "self.visit" and self.sig is not None:
            # self.visit(node, *args, **kwargs) with the star parameters of the enclosing method
            va, kw = self.sig.args.vararg, self.sig.args.kwarg
            if va is not None and kw is not None and len(e.args) == 2 and not isinstance(e.args[0], ast.Starred) \
                    and isinstance(e.args[1], ast.Starred) and src(e.args[1].value) == va.arg \
                    and len(e.keywords) == 1 and e.keywords[0].arg is None and src(e.keywords[0].value) == kw.arg:
                return "(.visit %s %s %s)" % (self.expr(e.args[0]), q(va.arg), q(kw.arg))
            return self.unsup(e)
        if isinstance(e, ast.Call) and src(e.func) == "self.visitAst" and not e.keywords and len(e.args) == 1 \
                and not any(isinstance(a, ast.Starred) for a in e.args):
            # self.visitAst(a): `*args` is the empty tuple, `**kwargs` the empty dictionary
            r = self.resolve.get("visitAst")
            if r is not None:
                a = r[1].args
                if len(a.args) == 2 and a.vararg is not None and a.kwarg is not None and not a.defaults and not a.kwonlyargs \
                        and not r[1].decorator_list:
                    return "(.callVisitAst %s)" % self.expr(e.args[0])
            return self.unsup(e)
        return self.unsup(e)

    def seq(self, items):
        items = [i for i in items if i != ".skip"]
        if not items:
            return ".skip"
        out = items[-1]
        for i in reversed(items[:-1]):
            out = "(.seq %s %s)" % (i, out)
        return out

    def block(self, stmts):
        return self.seq([self.stmt(s) for s in stmts])

    def inline(self, c):
        """`self.m(x, ...)`, `m` a method whose parameters are exactly the names `x, ...` and that returns nothing: its body."""
        r = self.resolve.get(c.func.attr)
        if r is None or c.keywords or self.cur is None:
            return None
        m = r[1]
        a = m.args
        if a.vararg or a.kwarg or a.kwonlyargs or a.defaults or m.decorator_list or not a.args or a.args[0].arg != "self":
            return None
        params = [x.arg for x in a.args[1:]]
        if [src(x) for x in c.args] != params:
            return None
        body = list(m.body)
        if body and isinstance(body[-1], ast.Return) and body[-1].value is None:
            body.pop()
        if any(isinstance(x, ast.Return) for st in body for x in ast.walk(st)):
            return None
        mine = {x.id for x in ast.walk(m) if isinstance(x, ast.Name) and isinstance(x.ctx, ast.Store)}
        theirs = {x.id for x in ast.walk(self.cur) if isinstance(x, ast.Name)}
        if (mine & theirs) or (mine & set(params)) or m is self.cur:
            return None
        outer, self.sig = self.sig, m
        try:
            return self.block(body)
        finally:
            self.sig = outer

    def stmt(self, s):
        if isinstance(s, ast.Pass) or (isinstance(s, ast.Expr) and isinstance(s.value, ast.Constant)):
            return ".skip"
        if isinstance(s, ast.Assign) and len(s.targets) == 1:
            tg, v = s.targets[0], s.value
            if isinstance(tg, ast.Name):
                return "(.setLoc %s %s)" % (q(tg.id), self.expr(v))
            if isinstance(tg, ast.Subscript) and src(tg.value) == "self.ast.var_object_dict" \
                    and not isinstance(tg.slice, (ast.Slice, ast.Tuple)):
                return "(.setVar %s %s)" % (self.expr(tg.slice), self.expr(v))
            if src(tg) == "self.ast.var_object_dict":
                return "(.setVarDict %s)" % self.expr(v)
            return self.unsup(s)
        if isinstance(s, ast.Expr) and isinstance(s.value, ast.Call):
            c = s.value
            if isinstance(c.func, ast.Attribute) and c.func.attr == "append" and isinstance(c.func.value, ast.Name) and len(c.args) == 1 \
                    and not c.keywords and not isinstance(c.args[0], ast.Starred):
                return "(.appendLoc %s %s)" % (q(c.func.value.id), self.expr(c.args[0]))
            if isinstance(c.func, ast.Attribute) and src(c.func.value) == "self":
                r = self.inline(c)
                if r is not None:
                    return r
            return self.unsup(s)
        if isinstance(s, ast.If):
            return "(.ite %s %s %s)" % (self.expr(s.test), self.block(s.body), self.block(s.orelse))
        if isinstance(s, ast.Raise) and isinstance(s.exc, ast.Call) and isinstance(s.exc.func, ast.Name) and s.cause is None \
                and s.exc.func.id in ("RTAMTException", "Exception"):
            return "(.raise .rtamt)" if s.exc.func.id == "RTAMTException" else "(.raise .other)"
        if isinstance(s, ast.For) and not s.orelse and isinstance(s.target, ast.Name):
            return "(.forIn %s %s %s)" % (q(s.target.id), self.expr(s.iter), self.block(s.body))
        return self.unsup(s)

    def method(self, name):
        r = self.resolve.get(name)
        if r is None:
            return "{ params := [], body := (.unsupported \"missing method\"), ret := none }"
        m = r[1]
        a = m.args
        if a.kwonlyargs or a.defaults or a.posonlyargs or m.decorator_list or not a.args or a.args[0].arg != "self":
            return "{ params := [], body := (.unsupported %s), ret := none }" % q("signature of " + name)
        params = [x.arg for x in a.args[1:]] + ([a.vararg.arg] if a.vararg else []) + ([a.kwarg.arg] if a.kwarg else [])
        body = list(m.body)
        ret = "none"
        self.cur = self.sig = m
        try:
            if body and isinstance(body[-1], ast.Return):
                rv = body.pop().value
                if rv is not None:
                    ret = "(some %s)" % self.expr(rv)
            if any(isinstance(x, ast.Return) for st in body for x in ast.walk(st)):
                btxt = self.unsup("return inside " + name)
            else:
                btxt = self.block(body)
        finally:
            self.cur = self.sig = None
        return "{ params := [%s], body := %s, ret := %s }" % (", ".join(q(p) for p in params), btxt, ret)


def generate_dense_offline_evaluate(repo=None):
    """`evaluate(dataset)` of the dense-time offline interpreter and `visitAst` (`repo`: the source tree, default `REPO`)."""
    repo = REPO if repo is None else repo
    found = []                     # (class, bases as written, {method name: FunctionDef})
    for cname, path in DE_MRO:
        try:
            tree = ast.parse(open(os.path.join(repo, path)).read())
        except OSError:
            continue
        cs = [n for n in ast.walk(tree) if isinstance(n, ast.ClassDef) and n.name == cname]
        if len(cs) != 1:
            continue
        c = cs[0]
        methods = {}
        for n in c.body:
            if isinstance(n, ast.FunctionDef):
                # a name defined twice in one class statement: the last definition is the attribute
                methods[n.name] = n
            elif isinstance(n, (ast.Assign, ast.AnnAssign)):
                # anything else in the class body that binds one of the names (an assignment `visitAst = ...`): unresolved
                for t_ in (n.targets if isinstance(n, ast.Assign) else [n.target]):
                    if isinstance(t_, ast.Name):
                        methods[t_.id] = None
            elif isinstance(n, (ast.AsyncFunctionDef, ast.ClassDef)):
                methods[n.name] = None
        found.append((cname, [src(b) for b in c.bases], methods))
    resolve, resolution = {}, []
    for nm in DE_METHODS:
        for cname, _, methods in found:
            if nm in methods:
                if methods[nm] is not None:
                    resolve[nm] = (cname, methods[nm])
                resolution.append("(%s, %s)" % (q(nm), q(cname if methods[nm] is not None else cname + " (not a def)")))
                break
        else:
            resolution.append("(%s, %s)" % (q(nm), q("")))
    tr = DnEvalTr(resolve)
    files = []
    for _, p_ in DE_MRO:
        if p_ not in files:
            files.append(p_)
    lines = ["/- GENERATED by harness/py2lean.py from %s of /repo on every run - do not edit. -/" % ", ".join(files),
             "import Rtamt.Py.DnEval", "", "namespace Rtamt.Py.Gen.DnEval", "open Rtamt Rtamt.Py Rtamt.Py.DnEval", ""]
    lines.append("/-- the classes of `DenseTimeOfflineInterpreter` in the order of its MRO, with the base classes as written -/")
    lines.append("def bases : List (String × List String) :=\n  [%s]"
                 % ", ".join("(%s, [%s])" % (q(c), ", ".join(q(b) for b in bs)) for c, bs, _ in found))
    lines.append("")
    lines.append("/-- the first class of that order that defines the method -/")
    lines.append("def resolution : List (String × String) :=\n  [%s]" % ", ".join(resolution))
    lines.append("")
    names = []
    for nm, note in (("evaluate", " (`exist_ast` and `set_variable_to_ast_from_dataset` inlined)"), ("visitAst", "")):
        lines.append("/-- `%s.%s`%s -/" % (resolve[nm][0] if nm in resolve else "?", nm, note))
        lines.append("def %s : EMethod :=\n  %s" % (nm, tr.method(nm)))
        lines.append("")
        names.append(nm)
    lines.append("def methods : List (String × EMethod) :=\n  [%s]" % ", ".join("(%s, %s)" % (q(n), n) for n in names))
    lines.append("")
    lines.append("end Rtamt.Py.Gen.DnEval")
    return "\n".join(lines) + "\n"
# ---- END dense-time offline evaluate (generate_dense_offline_evaluate) -----------------------------------------------


# ---- BEGIN specification-level forwarding (rtamt/spec/abstract_specification.py -> Rtamt/Py/GeneratedFwd.lean) ----
SPEC_FILE = "rtamt/spec/abstract_specification.py"
OUT_FWD = os.path.join(os.path.dirname(HERE), "lean", "Rtamt", "Py", "GeneratedFwd.lean")
FWD_METHODS = [("AbstractSpecification", "set_sampling_period"), ("AbstractSpecification", "get_sampling_frequency"),
               ("AbstractSpecification", "sampling_violation_counter"), ("AbstractSpecification", "sampling_tolerance"),
               ("AbstractOfflineSpecification", "evaluate"), ("AbstractOnlineSpecification", "update"),
               ("AbstractOnlineSpecification", "final_update"), ("AbstractOnlineSpecification", "reset")]


class FwdTr:
    """Methods of the specification classes that forward to the interpreters -> terms of `Rtamt/Py/Fwd.lean`."""

    def self_attr(self, e):
        """`self.x` -> "x" """
        if isinstance(e, ast.Attribute) and isinstance(e.value, ast.Name) and e.value.id == "self":
            return e.attr
        return None

    def expr(self, e):
        t = src(e)
        if isinstance(e, ast.Name):
            return "(.loc %s)" % q(e.id)
        if isinstance(e, ast.Constant):
            if e.value is None:
                return ".none_"
            if e.value is True:
                return ".true_"
            if e.value is False:
                return ".false_"
            if isinstance(e.value, int) and not isinstance(e.value, bool):
                return "(.int %d)" % e.value
        if isinstance(e, ast.List):
            if not e.elts:
                return ".emptyList"
            return "(.listOf [%s])" % ", ".join(self.expr(x) for x in e.elts)
        if isinstance(e, ast.Call) and isinstance(e.func, ast.Name) and not e.keywords:
            if e.func.id == "hasattr" and len(e.args) == 2 and src(e.args[0]) == "self" and isinstance(e.args[1], ast.Constant) \
                    and isinstance(e.args[1].value, str):
                return "(.hasAttr %s)" % q(e.args[1].value)
            if e.func.id == "isinstance" and len(e.args) == 2 and self.self_attr(e.args[0]) and isinstance(e.args[1], ast.Name):
                return "(.isInst %s %s)" % (q(self.self_attr(e.args[0])), q(e.args[1].id))
            if e.func.id == "len" and len(e.args) == 1:
                return "(.lenOf %s)" % self.expr(e.args[0])
        if isinstance(e, ast.Call) and isinstance(e.func, ast.Attribute) and self.self_attr(e.func.value) and not e.keywords \
                and not any(isinstance(a, ast.Starred) for a in e.args):
            return "(.callOf %s %s [%s])" % (q(self.self_attr(e.func.value)), q(e.func.attr), ", ".join(self.expr(a) for a in e.args))
        a = self.self_attr(e)
        if a is not None:
            if a == "ast":
                return ".selfAst"
            if a.endswith("_flag"):
                return "(.flag %s)" % q(a)
        if isinstance(e, ast.Attribute) and self.self_attr(e.value):
            return "(.attrOf %s %s)" % (q(self.self_attr(e.value)), q(e.attr))
        if isinstance(e, ast.BoolOp) and isinstance(e.op, ast.Or) and len(e.values) == 2:
            return "(.orElse %s %s)" % (self.expr(e.values[0]), self.expr(e.values[1]))
        if isinstance(e, ast.BinOp) and isinstance(e.op, ast.Add):
            return "(.add %s %s)" % (self.expr(e.left), self.expr(e.right))
        if isinstance(e, ast.Compare) and len(e.ops) == 1 and isinstance(e.ops[0], (ast.NotEq, ast.Eq)):
            return "(.%s %s %s)" % ("ne" if isinstance(e.ops[0], ast.NotEq) else "eq", self.expr(e.left), self.expr(e.comparators[0]))
        if isinstance(e, ast.Subscript) and isinstance(e.slice, ast.Constant) and isinstance(e.slice.value, int) and e.slice.value >= 0:
            return "(.idx %s %d)" % (self.expr(e.value), e.slice.value)
        return "(.unsupported %s)" % q(t)

    def block(self, stmts):
        items = [self.stmt(s) for s in stmts]
        items = [i for i in items if i != ".skip"]
        if not items:
            return ".skip"
        out = items[-1]
        for i in reversed(items[:-1]):
            out = "(.seq %s %s)" % (i, out)
        return out

    def is_exc_ctor(self, e):
        return isinstance(e, ast.Call) and isinstance(e.func, ast.Name) and e.func.id in ("RTAMTException", "Exception")

    def stmt(self, s):
        if isinstance(s, ast.Pass):
            return ".skip"
        if isinstance(s, ast.Expr) and isinstance(s.value, ast.Constant):
            return ".skip"
        if isinstance(s, ast.Expr) and self.is_exc_ctor(s.value):
            return ".mkExc"
        if isinstance(s, ast.Expr) and isinstance(s.value, ast.Call):
            return "(.expr %s)" % self.expr(s.value)
        if isinstance(s, ast.Raise) and s.exc is not None and self.is_exc_ctor(s.exc) and s.cause is None:
            return "(.raise_ %s)" % ("true" if s.exc.func.id == "RTAMTException" else "false")
        if isinstance(s, ast.Return):
            if s.value is None:
                return ".retNone"
            return "(.ret %s)" % self.expr(s.value)
        if isinstance(s, ast.Assign) and len(s.targets) == 1:
            t = s.targets[0]
            if isinstance(t, ast.Name):
                return "(.setLoc %s %s)" % (q(t.id), self.expr(s.value))
            a = self.self_attr(t)
            if a is not None and a.endswith("_flag"):
                return "(.setFlag %s %s)" % (q(a), self.expr(s.value))
        if isinstance(s, ast.If):
            return "(.ite %s %s %s)" % (self.expr(s.test), self.block(s.body), self.block(s.orelse))
        if isinstance(s, ast.For) and not s.orelse and isinstance(s.target, ast.Name) and len(s.body) == 1 \
                and isinstance(s.body[0], ast.Expr) and isinstance(s.body[0].value, ast.Call):
            c = s.body[0].value
            if isinstance(c.func, ast.Attribute) and c.func.attr == "append" and isinstance(c.func.value, ast.Name) \
                    and len(c.args) == 1 and isinstance(c.args[0], ast.Name) and c.args[0].id == s.target.id:
                return "(.forAppend %s %s %s)" % (q(s.target.id), self.expr(s.iter), q(c.func.value.id))
        return "(.unsupported %s)" % q(src(s))


def generate_fwd():
    """The forwarding methods of the specification classes."""
    tree = ast.parse(open(os.path.join(REPO, SPEC_FILE)).read())
    cls = {n.name: n for n in tree.body if isinstance(n, ast.ClassDef)}
    tr = FwdTr()
    lines = ["/- GENERATED by harness/py2lean.py from %s of /repo on every run - do not edit. -/" % SPEC_FILE,
             "import Rtamt.Py.Fwd", "import Rtamt.Py.Sem", "", "namespace Rtamt.Py.Gen.Fwd", "open Rtamt Rtamt.Py Rtamt.Py.Fwd", ""]
    for cname, mname in FWD_METHODS:
        c = cls.get(cname)
        cands = [n for n in (c.body if c is not None else []) if isinstance(n, ast.FunctionDef) and n.name == mname]
        # a property: the getter is the definition decorated with `property`
        getters = [n for n in cands if any(isinstance(d, ast.Name) and d.id == "property" for d in n.decorator_list)]
        m = getters[0] if getters else (cands[0] if len(cands) == 1 and not cands[0].decorator_list else None)
        lines.append("/-- `%s.%s` -/" % (cname, mname))
        if m is None:
            lines.append("def %s : FMethod :=\n  { params := [], body := (.unsupported \"missing method\") }" % mname)
        else:
            params = [a.arg for a in m.args.args[1:]] + ([m.args.vararg.arg] if m.args.vararg else [])
            lines.append("def %s : FMethod :=\n  { params := [%s], body := %s }" % (mname, ", ".join(q(x) for x in params), tr.block(m.body)))
        lines.append("")
    # the attributes `__init__` of the three classes assigns that the translated methods read as flags
    inits = []
    for cname in ("AbstractSpecification", "AbstractOfflineSpecification", "AbstractOnlineSpecification"):
        c = cls.get(cname)
        for n in (c.body if c is not None else []):
            if isinstance(n, ast.FunctionDef) and n.name == "__init__":
                for st in ast.walk(n):
                    if isinstance(st, ast.Assign) and len(st.targets) == 1 and tr.self_attr(st.targets[0]) \
                            and tr.self_attr(st.targets[0]).endswith("_flag"):
                        v = st.value
                        val = "true" if (isinstance(v, ast.Constant) and v.value is True) else \
                              "false" if (isinstance(v, ast.Constant) and v.value is False) else None
                        inits.append("(%s, %s, %s)" % (q(cname), q(tr.self_attr(st.targets[0])),
                                                      ("some " + val) if val else "none"))
    # what the forwarded call does inside the interpreter: `DiscreteTimeInterpreter.set_sampling_period` (the default values of
    # its parameters are dropped: the specification-level method passes all three arguments)
    try:
        itree = ast.parse(open(os.path.join(REPO, INTERP_FILE)).read())
        icls = [n for n in itree.body if isinstance(n, ast.ClassDef) and n.name == "DiscreteTimeInterpreter"][0]
        for n in icls.body:
            if isinstance(n, ast.FunctionDef) and n.name == "set_sampling_period":
                n.args.defaults = []
        itr = Tr(icls)
        itr.interp = True
        itr.clock = True
        itr.parents = {}
        itr.normalize_expr = None
        t = itr.method("set_sampling_period") or "{ params := [], body := .unsupported \"missing method\", ret := none }"
    except (OSError, IndexError) as e:
        t = "{ params := [], body := .unsupported %s, ret := none }" % q(str(e))
    lines.append("/-- `DiscreteTimeInterpreter.set_sampling_period` -/")
    lines.append("def interp_set_sampling_period : Rtamt.Py.Method :=\n  %s" % t)
    lines.append("")
    lines.append("/-- the `*_flag` attributes the constructors assign: (class, attribute, initial value) -/")
    lines.append("def initFlags : List (String × String × Option Bool) :=\n  [%s]" % ", ".join(inits))
    lines.append("")
    lines.append("end Rtamt.Py.Gen.Fwd")
    return "\n".join(lines) + "\n"
# ---- END specification-level forwarding ----


NODE_DIRS = ["rtamt/syntax/node/ltl", "rtamt/syntax/node/stl", "rtamt/syntax/node/arithmetic"]
OUT_NAMES = os.path.join(os.path.dirname(HERE), "lean", "Rtamt", "Py", "GeneratedNames.lean")
NODE_KINDS = ["Variable", "Constant", "Predicate", "Abs", "Sqrt", "Exp", "Ln", "Negate", "Neg", "Addition", "Subtraction", "Multiplication",
              "Division", "Pow", "Log", "Conjunction", "Disjunction", "Implies", "Iff", "Xor", "Rise", "Fall", "Previous", "StrongPrevious",
              "Next", "StrongNext", "Once", "Historically", "Eventually", "Always", "Since", "Until", "TimedOnce", "TimedHistorically",
              "TimedEventually", "TimedAlways", "TimedSince", "TimedUntil", "TimedPrecedes"]


def name_pieces(cls):
    """The pieces `self.name` is concatenated from in the constructor of a node class (the last assignment on the path without a
    field, i.e. `if not self.field:` for variables)."""
    init = [n for n in cls.body if isinstance(n, ast.FunctionDef) and n.name == "__init__"]
    if not init:
        return None
    init = init[0]
    params = [a.arg for a in init.args.args[1:]]
    kids = [p_ for p_ in params if p_.startswith("child")]
    target = None
    for st in ast.walk(init):
        if isinstance(st, ast.Assign) and len(st.targets) == 1 and src(st.targets[0]) == "self.name":
            if target is None or cls.name != "Variable":
                target = st.value if target is None or cls.name != "Variable" else target
    if target is None:
        return None

    def flat(e):
        if isinstance(e, ast.BinOp) and isinstance(e.op, ast.Add):
            return flat(e.left) + flat(e.right)
        return [e]
    out = []
    for e in flat(target):
        t = src(e)
        if isinstance(e, ast.Constant) and isinstance(e.value, str):
            out.append("(.lit %s)" % q(e.value))
        elif isinstance(e, ast.Attribute) and e.attr == "name" and isinstance(e.value, ast.Name) and e.value.id in kids:
            out.append("(.child %d)" % kids.index(e.value.id))
        elif t in ("str(self.begin)", "str(interval.begin)"):
            out.append(".begin_")
        elif t in ("str(self.begin_unit)", "str(interval.begin_unit)"):
            out.append(".beginUnit")
        elif t in ("str(self.end)", "str(interval.end)"):
            out.append(".end_")
        elif t in ("str(self.end_unit)", "str(interval.end_unit)"):
            out.append(".endUnit")
        elif t in ("str(self.operator)", "str(operator)"):
            out.append(".operator")
        elif t in ("str(val)", "str(self.val)"):
            out.append(".val")
        elif t in ("self.var", "var"):
            out.append(".var")
        else:
            out.append("(.unsupported %s)" % q(t))
    return out


def generate_names():
    """How every node class builds the `name` under which the online interpreters store its operator."""
    found = {}
    for d in NODE_DIRS:
        for path in sorted(glob.glob(os.path.join(REPO, d, "*.py"))):
            tree = ast.parse(open(path).read())
            for n in tree.body:
                if isinstance(n, ast.ClassDef) and n.name in NODE_KINDS:
                    found[n.name] = name_pieces(n)
    lines = ["/- GENERATED by harness/py2lean.py from the node classes under %s of /repo on every run - do not edit. -/" % ", ".join(NODE_DIRS),
             "import Rtamt.Py.Names", "", "namespace Rtamt.Py.Gen.Names", "open Rtamt Rtamt.Py", "",
             "/-- class -> the pieces of `self.name` -/",
             "def table : List (Kind × List NP) :=\n  [%s]" % ",\n   ".join(
                 "(.%s, [%s])" % (k, ", ".join(found[k])) for k in NODE_KINDS if found.get(k) is not None),
             "", "end Rtamt.Py.Gen.Names"]
    return "\n".join(lines) + "\n"


def write_if_changed(path, txt):
    old = open(path).read() if os.path.exists(path) else None
    if txt != old:
        tmp = path + ".tmp%d" % os.getpid()
        open(tmp, "w").write(txt)
        os.replace(tmp, path)


def main():
    write_if_changed(OUT_OFF, generate_offline())
    write_if_changed(OUT_UNITS, generate_units())
    write_if_changed(OUT_CLOCK, generate_clock())
    write_if_changed(OUT_EXPL, generate_expl())
    write_if_changed(OUT_GLUE, generate_glue())
    write_if_changed(OUT_GLUE_DN, generate_glue_dense())     # dense-time glue
    write_if_changed(OUT_DNEVAL, generate_dense_offline_evaluate())     # dense-time offline evaluate
    write_if_changed(OUT_PASTDRV, generate_pastify_driver())     # driver of the pastifier
    write_if_changed(OUT_EXPL_DRV, generate_expl_driver())     # explainer driver
    write_if_changed(OUT_OFFEVAL, generate_offline_evaluate())     # offline evaluate
    write_if_changed(OUT_GLUE_UPD, generate_glue_update())   # discrete-time online update()/reset() as whole methods
    write_if_changed(OUT_FWD, generate_fwd())
    write_if_changed(OUT_NAMES, generate_names())
    write_if_changed(OUT_HOR, generate_horizon())
    write_if_changed(OUT_PAST, generate_past())
    write_if_changed(OUT_ONCTOR, generate_onctor())
    write_if_changed(OUT_IAOFF, generate_iaoff())
    write_if_changed(OUT_IAON, generate_iaon())
    write_if_changed(OUT_DENSE, generate_dense())
    write_if_changed(OUT_DENSE_ON, generate_dense_on())
    txt = generate()
    old = open(OUT).read() if os.path.exists(OUT) else None
    if txt != old:
        tmp = OUT + ".tmp%d" % os.getpid()
        open(tmp, "w").write(txt)
        os.replace(tmp, OUT)
    if "unsupported" in txt.split("namespace Rtamt.Py.Gen", 1)[1]:
        n = txt.count(".unsupported")
        sys.stderr.write("py2lean: %d construct(s) outside the translated subset\n" % n)
    return txt


if __name__ == "__main__":
    main()
