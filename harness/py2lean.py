"""Translator: the Python source of rtamt's discrete-time online operation classes -> Lean terms of the
deep embedding `Rtamt/Py/Sem.lean` (file `lean/Rtamt/Py/GeneratedOps.lean`, regenerated on every run).

Purely syntactic: every construct is mapped to the constructor of the same meaning, nothing is evaluated,
simplified or type-checked here.  The only transformations are
  * `self.reset()` / `self.__init__()` are replaced by the (translated) body of that method,
  * `float("inf")` / `-float("inf")` become the literals `pinf` / `ninf`,
  * `StlComparisonOperator.X.value` and `self.comparison_op.value` lose the `.value`,
  * `print(...)` statements are dropped,
  * anything else that is not in the subset becomes `unsupported "<source text>"`, which evaluates to an error,
    so that the equivalence theorems about that class can no longer be proved.
"""
import ast, glob, os, sys

HERE = os.path.dirname(os.path.abspath(__file__))
REPO = os.environ.get("RTAMT_REPO", "/repo")
DIRS = ["rtamt/semantics/stl/discrete_time/online", "rtamt/semantics/arithmetic/discrete_time/online"]
OUT = os.path.join(os.path.dirname(HERE), "lean", "Rtamt", "Py", "GeneratedOps.lean")

CMP = {"EQ": "eq", "NEQ": "ne", "LEQ": "le", "LESS": "lt", "GEQ": "ge", "GREATER": "gt"}
BINOPS = {ast.Add: "add", ast.Sub: "sub", ast.Mult: "mul", ast.Div: "div"}
CMPOPS = {ast.Lt: "lt", ast.LtE: "le", ast.Gt: "gt", ast.GtE: "ge", ast.Eq: "eq", ast.NotEq: "ne"}
MATH1 = {"sqrt": "sqrt", "exp": "exp"}


def q(s):
    return '"' + s.replace("\\", "\\\\").replace('"', '\\"').replace("\n", " ") + '"'


def src(node):
    return ast.unparse(node)


class Tr:
    def __init__(self, cls):
        self.cls = cls
        self.methods = {n.name: n for n in cls.body if isinstance(n, ast.FunctionDef)}

    # ---------------------------------------------------------------- expressions
    def is_inf(self, e):
        return (isinstance(e, ast.Call) and isinstance(e.func, ast.Name) and e.func.id == "float" and len(e.args) == 1
                and isinstance(e.args[0], ast.Constant) and e.args[0].value in ("inf", "Inf", "infinity"))

    def expr(self, e):
        if self.is_inf(e):
            return ".pinf"
        if isinstance(e, ast.UnaryOp) and isinstance(e.op, ast.USub) and self.is_inf(e.operand):
            return ".ninf"
        if isinstance(e, ast.Constant):
            if e.value is None:
                return ".noneLit"
            if isinstance(e.value, bool) or not isinstance(e.value, int):
                return ".unsupported " + q(src(e))
            return "(.int %d)" % e.value
        if isinstance(e, ast.Name):
            return "(.loc %s)" % q(e.id)
        if isinstance(e, ast.Attribute):
            # self.x | self.x.value | StlComparisonOperator.X.value | StlComparisonOperator.X
            if isinstance(e.value, ast.Name) and e.value.id == "self":
                return "(.attr %s)" % q(e.attr)
            if e.attr == "value":
                return self.expr(e.value)
            if isinstance(e.value, ast.Name) and e.value.id == "StlComparisonOperator" and e.attr in CMP:
                return "(.cmpc .%s)" % CMP[e.attr]
            return ".unsupported " + q(src(e))
        if isinstance(e, ast.UnaryOp):
            if isinstance(e.op, ast.USub):
                return "(.un .neg %s)" % self.expr(e.operand)
            if isinstance(e.op, ast.Not):
                return "(.un .not %s)" % self.expr(e.operand)
            return ".unsupported " + q(src(e))
        if isinstance(e, ast.BinOp) and type(e.op) in BINOPS:
            return "(.bin .%s %s %s)" % (BINOPS[type(e.op)], self.expr(e.left), self.expr(e.right))
        if isinstance(e, ast.Compare) and len(e.ops) == 1 and type(e.ops[0]) in CMPOPS:
            return "(.bin .%s %s %s)" % (CMPOPS[type(e.ops[0])], self.expr(e.left), self.expr(e.comparators[0]))
        if isinstance(e, ast.BoolOp) and isinstance(e.op, (ast.Or, ast.And)):
            op = "or" if isinstance(e.op, ast.Or) else "and"
            out = self.expr(e.values[0])
            for v in e.values[1:]:
                out = "(.bin .%s %s %s)" % (op, out, self.expr(v))
            return out
        if isinstance(e, ast.Subscript):
            return "(.idx %s %s)" % (self.expr(e.value), self.expr(e.slice))
        if isinstance(e, ast.List) and not e.elts:
            return ".emptyList"
        if isinstance(e, ast.Call):
            f = src(e.func)
            a = e.args
            if f in ("min", "max") and len(a) == 2 and not e.keywords:
                return "(.bin .%s %s %s)" % (f, self.expr(a[0]), self.expr(a[1]))
            if f == "abs" and len(a) == 1:
                return "(.un .abs %s)" % self.expr(a[0])
            if f in ("math.sqrt", "math.exp") and len(a) == 1:
                return "(.un .%s %s)" % (f[5:], self.expr(a[0]))
            if f == "math.log" and len(a) == 1:
                return "(.un .ln %s)" % self.expr(a[0])
            if f == "math.log" and len(a) == 2:
                return "(.bin .log %s %s)" % (self.expr(a[0]), self.expr(a[1]))
            if f == "math.pow" and len(a) == 2:
                return "(.bin .pow %s %s)" % (self.expr(a[0]), self.expr(a[1]))
            if f == "collections.deque" and not a and len(e.keywords) == 1 and e.keywords[0].arg == "maxlen":
                return "(.newDeque %s)" % self.expr(e.keywords[0].value)
        return ".unsupported " + q(src(e))

    # ---------------------------------------------------------------- statements
    def seq(self, items):
        items = [i for i in items if i != ".skip"]
        if not items:
            return ".skip"
        out = items[-1]
        for i in reversed(items[:-1]):
            out = "(.seq %s %s)" % (i, out)
        return out

    def block(self, stmts, depth):
        return self.seq([self.stmt(s, depth) for s in stmts])

    def stmt(self, s, depth):
        if isinstance(s, ast.Pass):
            return ".skip"
        if isinstance(s, ast.Assign) and len(s.targets) == 1:
            t = s.targets[0]
            if isinstance(t, ast.Name):
                return "(.setLoc %s %s)" % (q(t.id), self.expr(s.value))
            if isinstance(t, ast.Attribute) and isinstance(t.value, ast.Name) and t.value.id == "self":
                return "(.setAttr %s %s)" % (q(t.attr), self.expr(s.value))
            return ".unsupported " + q(src(s))
        if isinstance(s, ast.Expr) and isinstance(s.value, ast.Call):
            c = s.value
            f = c.func
            if isinstance(f, ast.Name) and f.id == "print":
                return ".skip"
            if isinstance(f, ast.Attribute) and isinstance(f.value, ast.Name) and f.value.id == "self" and not c.args and not c.keywords \
                    and f.attr in ("reset", "__init__") and f.attr in self.methods and depth < 3:
                m = self.methods[f.attr]
                if len(m.args.args) == 1 and not any(isinstance(x, ast.Return) for x in ast.walk(m)):
                    return self.block(m.body, depth + 1)                      # inlined
                return ".unsupported " + q(src(s))
            if isinstance(f, ast.Attribute) and f.attr == "append" and len(c.args) == 1 and not c.keywords:
                tgt = f.value
                if isinstance(tgt, ast.Attribute) and isinstance(tgt.value, ast.Name) and tgt.value.id == "self":
                    return "(.append %s none %s)" % (q(tgt.attr), self.expr(c.args[0]))
                if isinstance(tgt, ast.Subscript) and isinstance(tgt.value, ast.Attribute) and isinstance(tgt.value.value, ast.Name) \
                        and tgt.value.value.id == "self" and isinstance(tgt.slice, ast.Constant) and isinstance(tgt.slice.value, int) \
                        and tgt.slice.value >= 0:
                    return "(.append %s (some %d) %s)" % (q(tgt.value.attr), tgt.slice.value, self.expr(c.args[0]))
            return ".unsupported " + q(src(s))
        if isinstance(s, ast.For) and not s.orelse and isinstance(s.target, ast.Name) and isinstance(s.iter, ast.Call) \
                and isinstance(s.iter.func, ast.Name) and s.iter.func.id == "range" and 1 <= len(s.iter.args) <= 2 and not s.iter.keywords:
            a = s.iter.args
            lo, hi = ("(.int 0)", self.expr(a[0])) if len(a) == 1 else (self.expr(a[0]), self.expr(a[1]))
            return "(.for_ %s %s %s %s)" % (q(s.target.id), lo, hi, self.block(s.body, depth))
        if isinstance(s, ast.If):
            return "(.ite %s %s %s)" % (self.expr(s.test), self.block(s.body, depth), self.block(s.orelse, depth))
        if isinstance(s, ast.Raise) and isinstance(s.exc, ast.Call) and isinstance(s.exc.func, ast.Name):
            return "(.raise .rtamt)" if s.exc.func.id == "RTAMTException" else "(.raise .other)"
        return ".unsupported " + q(src(s))

    def method(self, name):
        m = self.methods.get(name)
        if m is None:
            return None
        a = m.args
        if a.vararg or a.kwarg or a.kwonlyargs or a.defaults or not a.args or a.args[0].arg != "self":
            return "{ params := [], body := .unsupported %s, ret := none }" % q("signature of " + name)
        params = [x.arg for x in a.args[1:]]
        body = list(m.body)
        ret = "none"
        if body and isinstance(body[-1], ast.Return):
            r = body.pop()
            ret = "none" if r.value is None else "(some %s)" % self.expr(r.value)
        if any(isinstance(x, ast.Return) for st in body for x in ast.walk(st)):
            btxt = ".unsupported " + q("return inside " + name)
        else:
            btxt = self.block(body, 0)
        return "{ params := [%s], body := %s, ret := %s }" % (", ".join(q(p) for p in params), btxt, ret)


def classes():
    out = []
    for d in DIRS:
        for f in sorted(glob.glob(os.path.join(REPO, d, "*_operation.py"))):
            tree = ast.parse(open(f).read())
            for n in tree.body:
                if isinstance(n, ast.ClassDef):
                    out.append((os.path.relpath(f, REPO), n))
    return out


def generate():
    lines = ["/- GENERATED by harness/py2lean.py from the source of /repo on every run - do not edit. -/",
             "import Rtamt.Py.Sem", "", "namespace Rtamt.Py.Gen", "open Rtamt Rtamt.Py", ""]
    names = []
    for path, c in classes():
        tr = Tr(c)
        ms = {k: tr.method(k) for k in ("__init__", "reset", "update", "sat")}
        skip = "{ params := [], body := .unsupported \"missing method\", ret := none }"
        lines.append("/-- `%s` (%s) -/" % (c.name, path))
        lines.append("def %s : Class :=" % c.name)
        lines.append("  { name := %s," % q(c.name))
        lines.append("    init := %s," % (ms["__init__"] or skip))
        lines.append("    reset := %s," % (ms["reset"] or skip))
        lines.append("    update := %s," % (ms["update"] or skip))
        lines.append("    sat := %s }" % ("none" if ms["sat"] is None else "some " + ms["sat"]))
        lines.append("")
        names.append(c.name)
    lines.append("def all : List Class := [%s]" % ", ".join(names))
    lines.append("")
    lines.append("end Rtamt.Py.Gen")
    return "\n".join(lines) + "\n"


def main():
    txt = generate()
    old = open(OUT).read() if os.path.exists(OUT) else None
    if txt != old:
        tmp = OUT + ".tmp%d" % os.getpid()
        open(tmp, "w").write(txt)
        os.replace(tmp, OUT)
    if "unsupported" in txt.split("namespace Rtamt.Py.Gen", 1)[1]:
        n = txt.count(".unsupported")
        sys.stderr.write("py2lean: %d construct(s) outside the translated subset\n" % n)
    return txt


if __name__ == "__main__":
    main()
