"""C15 — syntactic variants and documented sugar denote the same monitor.

Tie: stream `spell`.  For each random AST several renderings are produced — operator aliases (G F U W S O H X Y
sX sY ! & | -> <->), interval separators ',' / ':', 0-3 extra levels of parentheses, *minimal* parentheses
according to the precedence table of the model, with/without the trailing ';' and the assertion head, and (for
untimed formulas) the LTL front end.  All renderings must parse to the same `spec_print()` as the canonical
fully parenthesised one, evaluate to identical values on the real discrete-time offline monitor, and the model
parser must produce the same tree for each.  `phi unless[a,b] psi` is compared with
`always[0,b] phi or phi until[a,b] psi`.
Renderings that the real parser rejects with ANTLR's 'Ambiguity ERROR' (a clean RTAMTException on texts that the
grammar derives in two ways) are counted, not compared.
"""
from .. import common, formula as F, impl, disc, front as FR
from ..common import same_vals
from ..engine import Violation, Ctx

RULE = ("random ASTs (depth<=4) x 5 renderings (aliases / separators / extra parentheses / minimal parentheses / no ';' / no head) "
        "+ LTL front end for untimed ones + unless sugar; traces 1..8. distinct by (canonical text, rendering); non-trivial when "
        "the rendering differs from the canonical text.")
EXPLANATION = ("theorems (Lean): C15_aliases (every alias lexes to the token of its long form; decided over the whole table), "
               "C15_separator, C15_parens (parenthesised expression parses to the tree of its content), C15_unless_sugar (rho of "
               "'phi unless[a,b] psi' desugared = rho of 'always[0,b] phi or phi until[a,b] psi'), C15_roundtrip_full (the parser "
               "returns the AST of every fully parenthesised rendering). Minimal-parenthesis rendering (the precedence table) is "
               "validated by this stream, not proved: partial.")
ASSUMPTIONS = ["partial: minimal-parenthesis round trip validated by correspondence only"]
VARS = ["a", "b", "c"]
REGIONS = {}


def ltl_eval(text, vs, data, n):
    from rtamt.syntax.ast.parser.ltl.specification_parser import LtlAst
    from rtamt.spec.abstract_specification import AbstractOfflineSpecification
    from rtamt.semantics.stl.discrete_time.offline.interpreter import StlDiscreteTimeOfflineInterpreter

    def go():
        s = AbstractOfflineSpecification(LtlAst(), StlDiscreteTimeOfflineInterpreter())
        for v in vs:
            s.declare_var(v, "float")
        s.spec = text
        s.parse()
        ds = {"time": list(range(n))}
        ds.update({v: list(data[v]) for v in vs})
        return s.spec_print(), [p[1] for p in s.evaluate(ds)]
    return impl.guarded(go)


def stl_eval(text, vs, data, n, **kw):
    def go():
        s = impl.make_spec("offd", text, vs, **kw)
        s.parse()
        ds = {"time": list(range(n))}
        ds.update({v: list(data[v]) for v in vs})
        return s.spec_print(), [p[1] for p in s.evaluate(ds)]
    return impl.guarded(go)


def untimed(f):
    return not any(g[0] in ("tb1", "tb2") for g in F.subformulas(f))


def check_case(ctx, f, data, n, rng):
    vs = sorted(data)
    canon_text = FR.spec_text(f, FR.Style(None))
    base = stl_eval(canon_text, vs, data, n)
    rep = {"formula": F.to_proto(f), "canonical": canon_text, "data": data, "n": n, "impl_canonical": base}
    if base[0] != "ok":
        return Violation("canonical rendering raised %r: %s" % (base[1:], canon_text), rep, stream="spell"), None
    printed, vals = base[1]
    (m0,) = FR.model_parse([canon_text])
    diff = None
    rends = []
    for k in range(5):
        st = FR.Style(rng, alias=True, minimal=(k % 2 == 1), extra_parens=rng.choice([0, 1, 2, 3]))
        rends.append(("stl", FR.spec_text(f, st, head=rng.random() < 0.7, semi=rng.random() < 0.6)))
    if untimed(f):
        rends.append(("ltl", FR.spec_text(f, FR.Style(rng, alias=True, minimal=rng.random() < 0.5, extra_parens=1))))
    ms = FR.model_parse([t for _, t in rends])
    for (fe, text), m in zip(rends, ms):
        ctx.evaluations += 1
        ctx.count("front:" + fe)
        out = stl_eval(text, vs, data, n) if fe == "stl" else ltl_eval(text, vs, data, n)
        rep2 = dict(rep, rendering=text, front_end=fe, impl=out, model=m)
        if text != canon_text:
            ctx.nontrivial.add((canon_text, text, fe))
        if out[0] == "rtamt" and "Ambiguity ERROR" in out[1]:
            ctx.count("rejected-as-ambiguous")
            continue
        if out[0] != "ok":
            return Violation("%s front end rejects a spelling variant (%r): %s   [canonical: %s]" % (fe, out[1:], text, canon_text),
                             rep2, stream="spell"), diff
        p2, v2 = out[1]
        if p2 != printed:
            return Violation("spelling variant parses to a different specification: %r -> %r, canonical %r -> %r"
                             % (text, p2.strip(), canon_text, printed.strip()), rep2, stream="spell"), diff
        if not same_vals(v2, vals):
            return Violation("spelling variant evaluates differently: %r gives %r, canonical %r gives %r" % (text, v2, canon_text, vals),
                             rep2, stream="spell"), diff
        if m[0] != "ok" or m0[0] != "ok" or m[1].split(" = ", 1)[1] != m0[1].split(" = ", 1)[1]:
            diff = Violation("model parser: rendering %r gives %r, canonical gives %r" % (text, m, m0), rep2, failing_input=False,
                             stream="spell/model")
    return None, diff


def check_unless(ctx, rng):
    # sometimes every bound carries an explicit unit that is not the default unit (default ms, period 1 s, bounds in s)
    units = rng.random() < 0.5
    g = F.Gen(rng, VARS, (F.ALL_DISCRETE_OFFLINE - {"fn", "future"}) if units else (F.ALL_DISCRETE_OFFLINE - {"fn"}), max_bound=3)
    p, q = g.formula(rng.choice([0, 1, 2])), g.formula(rng.choice([0, 1, 2]))
    if units and rng.random() < 0.7:
        # the left operand (which the sugar uses twice) contains a bounded operator of its own
        a0 = rng.randint(0, 2)
        p = ("tb1", rng.choice(["once", "hist", "ev", "alw"]), a0, a0 + rng.randint(0, 2), g.formula(rng.choice([0, 1])))
    a, b = g.bounds()
    n = rng.randint(1, 8)
    vs = sorted(set(F.variables(p)) | set(F.variables(q))) or ["a"]
    data = F.gen_trace(rng, vs, n)
    st = FR.Style(None)
    bf = (lambda k: "%ds" % k) if units else (lambda k: str(k))
    kw = dict(unit="ms", sampling=(1, "s", 0.1)) if units else {}
    pt, qt = "(" + FR.render(p, st, bf)[0] + ")", "(" + FR.render(q, st, bf)[0] + ")"
    timed = units or rng.random() < 0.7
    one_bound = False
    if timed:
        la, lb = bf(a), bf(b)
        if units and rng.random() < 0.5:
            one_bound = True
            # a bound without unit takes the unit of the other bound of the interval (also in the interval the sugar derives)
            if rng.random() < 0.5:
                lb = str(b)
            else:
                la = str(a)
            ctx.count("unless-unit-on-one-bound")
        lhs = "out = %s unless[%s,%s] %s" % (pt, la, lb, qt)
        rhs = "out = (always[%s,%s] %s) or (%s until[%s,%s] %s)" % (bf(0), bf(b), pt, pt, bf(a), bf(b), qt)
    else:
        lhs = "out = %s unless %s" % (pt, qt)
        rhs = "out = (always %s) or (%s until %s)" % (pt, pt, qt)
    l, r = stl_eval(lhs, vs, data, n, **kw), stl_eval(rhs, vs, data, n, **kw)
    rep = {"kind": "unless", "units": units, "lhs": lhs, "rhs": rhs, "data": data, "n": n, "impl_lhs": l, "impl_rhs": r}
    if units:
        ctx.count("unless-with-units")
    ctx.nontrivial.add((lhs, str(data)))
    if l[0] != "ok" or r[0] != "ok":
        return Violation("unless sugar: %r / %r raised %r / %r" % (lhs, rhs, l[:2], r[:2]), rep, stream="spell/unless")
    # (the printed specification keeps the spelling of the bounds: compared only when both sides spell them alike)
    if (l[1][0] != r[1][0] and not (timed and one_bound)) or not same_vals(l[1][1], r[1][1]):
        return Violation("%r and %r differ: %r vs %r" % (lhs, rhs, l[1], r[1]), rep, stream="spell/unless")
    # the same sugar through the other monitors: online after pastify (bounded future only), dense-time offline parse
    if timed and not F.has_unbounded_future(p) and not F.has_unbounded_future(q):
        ctx.count("unless-online-pastified")
        lo = impl.run_online_discrete(lhs, vs, data, n, pastify=True, **kw)
        ro = impl.run_online_discrete(rhs, vs, data, n, pastify=True, **kw)
        rep = dict(rep, online_lhs=lo, online_rhs=ro)
        if lo[0] != ro[0] or (lo[0] == "ok" and not same_vals(lo[1], ro[1])):
            return Violation("online monitors of the pastified %r and %r differ: %r vs %r" % (lhs, rhs, lo[:2], ro[:2]), rep,
                             stream="spell/unless-online")
    return None


def check_multi(ctx, rng):
    """Several assertions (text on one line, on several lines, or through add_sub_spec): the final ';' may be omitted, the
    assertions may be separated by blanks or newlines - same printed specification and same results."""
    from .. import modular
    c = modular.gen_case(rng, F.ALL_DISCRETE_OFFLINE - {"fn"}, "offd", with_consts=False)
    c["unit_mode"] = None
    lines = ["%s = %s" % (nm, modular.render_body(b, {})) for nm, b in c["defs"]]
    names = [nm for nm, _ in c["defs"][:-1]]
    vs, data, n = c["vars"], c["data"], c["n"]

    def run(text, subs=()):
        def go():
            s = impl.make_spec("offd", text, vs, extra_decl=names, sub_specs=list(subs))
            s.parse()
            ds = {"time": list(range(n))}
            ds.update({v: list(data[v]) for v in vs})
            return s.spec_print(), [p[1] for p in s.evaluate(ds)]
        return impl.guarded(go)
    base_text = ";\n".join(lines) + ";"
    base = run(base_text)
    variants = [("no final ';', one per line", ";\n".join(lines), ()),
                ("one line", "; ".join(lines) + ";", ()),
                ("one line, no final ';'", "; ".join(lines), ()),
                ("blank lines", ";\n\n".join(lines) + ";", ())]
    if len(lines) > 1:
        variants.append(("add_sub_spec, no final ';'", lines[-1], [l + ";" for l in lines[:-1]]))
        variants.append(("add_sub_spec", lines[-1] + ";", [l + ";" for l in lines[:-1]]))
    rep = {"kind": "multi", "base": base_text, "data": data, "n": n, "vars": vs, "names": names, "impl_base": base}
    if base[0] != "ok":
        return Violation("multi-assertion specification raised %r: %r" % (base[1:], base_text), rep, stream="spell/multi")
    for what, text, subs in variants:
        ctx.evaluations += 1
        ctx.count("multi:" + what)
        out = run(text, subs)
        ctx.nontrivial.add((base_text, what))
        rep2 = dict(rep, variant=what, text=text, subs=list(subs), impl=out)
        if out[0] != "ok":
            return Violation("variant (%s) of a multi-assertion specification is rejected (%r): %r [sub-specs %r]; with every ';' "
                             "and one assertion per line it evaluates" % (what, out[1:], text, list(subs)), rep2, stream="spell/multi")
        if out[1][0] != base[1][0] or not same_vals(out[1][1], base[1][1]):
            return Violation("variant (%s) %r differs from %r: %r vs %r" % (what, text, base_text, out[1], base[1]), rep2,
                             stream="spell/multi")
    return None


def check_headless(ctx, rng, fixed=None):
    """An assertion without head is the assertion `out = ...`: a LATER assertion may refer to it by that name, exactly as when the
    head is written."""
    if fixed:
        P, Q, n, data = fixed["P"], fixed["Q"], fixed["n"], fixed["data"]
    else:
        g = F.Gen(rng, VARS[:2], F.PAST_ONLY - {"fn", "iffxor"}, max_bound=2)
        P = "(" + F.to_text(g.formula(rng.choice([0, 1]))) + ")"
        Q = rng.choice(["historically(out)", "once[0,2](out)", "(out) and (a >= 0.0)", "not(out)", "(out) since (a <= 1.0)"])
        n = rng.randint(2, 8)
        data = F.gen_trace(rng, VARS[:2], n)
    vs = VARS[:2]

    def run(text):
        def go():
            s = impl.make_spec("offd", text, vs, extra_decl=["res"])
            s.parse()
            ds = {"time": list(range(n))}
            ds.update({v: list(data[v]) for v in vs})
            return [p_[1] for p_ in s.evaluate(ds)]
        return impl.guarded(go)
    with_head, without = "out = %s;\nres = %s" % (P, Q), "%s;\nres = %s" % (P, Q)
    a, b = run(with_head), run(without)
    ctx.evaluations += 1
    ctx.count("multi:headless-first-assertion")
    ctx.nontrivial.add((with_head, str(data)))
    rep = {"kind": "headless", "P": P, "Q": Q, "n": n, "data": data, "with_head": with_head, "without": without, "impl_with": a, "impl_without": b}
    if a[0] != "ok":
        return None
    if b[0] != "ok" or not same_vals(a[1], b[1]):
        return Violation("the head `out =` omitted from the first assertion changes the result: %r gives %r, %r gives %r"
                         % (with_head, a[1:], without, b[1:]), rep, stream="spell/multi")
    return None


COLLIDE = [("alw", "G"), ("ev", "F"), ("prev", "Y"), ("next", "X"), ("once", "O"), ("hist", "H"), ("sprev", "sY"), ("snext", "sX")]


def gen_collide(rng):
    """A prefix operator applied to the bare variable `a` next to a signal whose name is the alias glued to `a` (`G a` and `Ga`),
    or `a U b` / `a S b` next to a signal `aUb` / `aSb`, or `not a` / `! a` next to `nota`."""
    k = rng.random()
    if k < 0.7:
        op, al = rng.choice(COLLIDE)
        t, name = ("t1", op, ("v", "a")), al + "a"
    elif k < 0.85:
        op, al = rng.choice([("until", "U"), ("since", "S")])
        t, name = ("t2", op, ("v", "a"), ("v", "b")), "a" + al + "b"
    else:
        t, name = ("u", "not", ("v", "a")), "nota"
    other = ("b", rng.choice(F.CMP), ("v", name), ("c", rng.choice([0.0, 1.0, 2.0])))
    if t[0] != "u" and rng.random() < 0.5:
        t = ("b", rng.choice(F.CMP), t, ("c", rng.choice([0.0, 1.0, 3.0])))
    f = ("b", rng.choice(["and", "or", "implies"]), t, other) if rng.random() < 0.5 else ("b", rng.choice(["and", "or"]), other, t)
    return f


CHAIN_OPS = [("b", "and"), ("b", "or"), ("b", "implies"), ("b", "iff"), ("b", "xor"), ("t2", "until"), ("t2", "since")]
ARITH_OPS = ["add", "sub", "mul"]      # (no division: a zero denominator raises ZeroDivisionError, outside this property)


def gen_chain(rng):
    """Two or three binary operators in a row: the minimal rendering has no parentheses where precedence and (left)
    associativity of the grammar make them redundant - `a -> b -> c` is `(a -> b) -> c`."""
    def leaf():
        if rng.random() < 0.6:
            return ("v", rng.choice(VARS))
        return ("b", rng.choice(["ge", "le", "gt", "lt"]), ("v", rng.choice(VARS)), ("c", rng.choice([0.0, 1.0, 2.0])))

    def mk(op, l, r):
        return (op[0], op[1], l, r)
    if rng.random() < 0.25:
        # arithmetic chains under a comparison
        o1, o2 = rng.choice(ARITH_OPS), rng.choice(ARITH_OPS)
        x, y, z = (("v", rng.choice(VARS)) for _ in range(3))
        t = ("b", o2, ("b", o1, x, y), z) if rng.random() < 0.6 else ("b", o1, x, ("b", o2, y, z))
        return ("b", rng.choice(["ge", "le"]), t, ("c", 1.0))
    o1 = rng.choice(CHAIN_OPS)
    o2 = o1 if rng.random() < 0.5 else rng.choice(CHAIN_OPS)
    x, y, z = leaf(), leaf(), leaf()
    f = mk(o2, mk(o1, x, y), z) if rng.random() < 0.6 else mk(o1, x, mk(o2, y, z))
    if rng.random() < 0.3:
        o3 = rng.choice([o1, o2, rng.choice(CHAIN_OPS)])
        f = mk(o3, f, leaf()) if rng.random() < 0.6 else mk(o3, leaf(), f)
    return f


def explore(ctx, rng, count):
    for i in range(count):
        if i % 6 == 1:
            f = gen_chain(rng)
            n = rng.randint(2, 8)
            data = F.gen_trace(rng, F.variables(f), n)
            ctx.count("gen:operator-chain")
            v, d = check_case(ctx, f, data, n, rng)
        elif i % 7 == 6:
            f = gen_collide(rng)
            n = rng.randint(2, 8)
            data = F.gen_trace(rng, F.variables(f), n)
            ctx.count("gen:name-collision")
            v, d = check_case(ctx, f, data, n, rng)
        elif i % 5 == 3:
            v, d = (check_headless(ctx, rng) if rng.random() < 0.3 else check_multi(ctx, rng)), None
        elif i % 5 == 4:
            ctx.evaluations += 1
            ctx.count("unless-sugar")
            v, d = check_unless(ctx, rng), None
        else:
            vs_ = VARS
            if rng.random() < 0.35:
                # signal names that read like "alias + operand" once blanks are dropped (Ga ~ G a, aUb ~ a U b, nota ~ not a)
                vs_ = ["a", "b", rng.choice(["Ga", "Fa", "Ya", "Xb", "Oa", "Hb", "sYa", "sXb", "aUb", "aSb", "nota", "alwaysa", "Gb", "Yb"])]
            g = F.Gen(rng, vs_, F.ALL_DISCRETE_OFFLINE - {"fn"}, max_bound=3)
            f = g.formula(rng.choice([1, 2, 3, 4])) if rng.random() < 0.85 else g.untyped(3)
            n = rng.randint(1, 8)
            data = F.gen_trace(rng, F.variables(f) or ["a"], n)
            v, d = check_case(ctx, f, data, n, rng)
        if v is None and d is None:
            ctx.traces_validated += 1
        if v is not None:
            ctx.violations.append(v)
            if len(ctx.violations) >= 3:
                return
        if d is not None:
            ctx.diffs.append(d)
    if len(ctx.samples) < 2:
        g = F.Gen(rng, VARS, F.ALL_DISCRETE_OFFLINE - {"fn"}, max_bound=3)
        f = g.formula(3)
        ctx.sample({"canonical": FR.spec_text(f, FR.Style(None)), "minimal": FR.spec_text(f, FR.Style(rng, minimal=True)),
                    "aliases+parens": FR.spec_text(f, FR.Style(rng, extra_parens=2))})


def replay(ctx, obj):
    import random
    scratch = Ctx(ctx.id, ctx.tier, ctx.seed)
    data = {k: [float(x) for x in v] for k, v in obj["data"].items()}
    vs = sorted(data)
    if obj.get("kind") == "multi":
        def run(text, subs=()):
            def go():
                s = impl.make_spec("offd", text, obj["vars"], extra_decl=obj["names"], sub_specs=list(subs))
                s.parse()
                ds = {"time": list(range(obj["n"]))}
                ds.update({v: list(data[v]) for v in obj["vars"]})
                return s.spec_print(), [p[1] for p in s.evaluate(ds)]
            return impl.guarded(go)
        b, o = run(obj["base"]), run(obj.get("text", obj["base"]), obj.get("subs", ()))
        ok = b[0] == "ok" and o[0] == "ok" and b[1][0] == o[1][0] and same_vals(b[1][1], o[1][1])
        return ok, ("variant agrees" if ok else "variant differs: %r vs %r" % (o, b))
    if obj.get("kind") == "headless":
        v = check_headless(Ctx(ctx.id, ctx.tier, ctx.seed), None, fixed=obj)
        return (v is None), (v.what if v else "the assertion without head behaves like `out = ...`")
    if obj.get("kind") == "unless":
        kw = dict(unit="ms", sampling=(1, "s", 0.1)) if obj.get("units") else {}
        l, r = stl_eval(obj["lhs"], vs, data, obj["n"], **kw), stl_eval(obj["rhs"], vs, data, obj["n"], **kw)
        ok = l[0] == "ok" and r[0] == "ok" and same_vals(l[1][1], r[1][1])
        if ok and "online_lhs" in obj:
            lo = impl.run_online_discrete(obj["lhs"], vs, data, obj["n"], pastify=True, **kw)
            ro = impl.run_online_discrete(obj["rhs"], vs, data, obj["n"], pastify=True, **kw)
            ok = lo[0] == ro[0] and (lo[0] != "ok" or same_vals(lo[1], ro[1]))
            l, r = lo, ro
        return ok, ("unless sugar agrees" if ok else "unless sugar differs: %r vs %r" % (l, r))
    base = stl_eval(obj["canonical"], vs, data, obj["n"])
    out = stl_eval(obj["rendering"], vs, data, obj["n"]) if obj.get("front_end", "stl") == "stl" else ltl_eval(obj["rendering"], vs, data, obj["n"])
    ok = base[0] == "ok" and out[0] == "ok" and base[1][0] == out[1][0] and same_vals(base[1][1], out[1][1])
    return ok, ("variant agrees with the canonical rendering" if ok else "variant differs: %r vs %r" % (out, base))


def run(ctx):
    explore(ctx, ctx.subrng("spell"), ctx.budget(700, 6000))


def search(ctx):
    explore(ctx, ctx.subrng("search"), ctx.budget(500, 2500))
