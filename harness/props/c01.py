"""C01 — discrete-time offline evaluate() = rho, one pair per sample, time-stamps only echoed.

Tie: stream `off-d`.  For every generated (specification, data set):
   implementation  evaluate()            (real code, /repo working tree)
   M-alg           evalOff               (Lean, Float instance, table from the source)
   M-spec          rho                   (Lean, Float instance; `undef` when NaN-tainted)
must agree value for value (bit patterns), the output must have one pair per sample and
echo the time column.  The theorems (C01_offline_eq_rho …) give M-alg = M-spec for all
formulas/traces over a lawful order.
"""
from .. import common, formula as F, impl
from ..common import same_vals, canon, f2b
from ..engine import Violation

RULE = ("specs: type-directed random formulas over the whole discrete-time grammar (depth<=5, bounds 0..4) plus an "
        "untyped stream, each with 1-3 data sets of length 1..12 over small dyadic values (ties frequent), "
        "explicit sub-streams n=1 and n<=end, and re-evaluation under jittered / negative / non-uniform time columns. "
        "A case is distinct by (spec text, data) and non-trivial when the implementation's output is not a constant "
        "+-inf list.")
EXPLANATION = ("theorems: C01_offline_eq_rho (mirror of the visitor = README rho, all formulas, all traces n>=1), "
               "C01_one_pair_per_sample, C01_time_independent, C01_table_complete + C01_current_tree (obligation on the "
               "table regenerated from the source). Correspondence: implementation vs mirror vs rho on the generated cases.")
ASSUMPTIONS = ["values form a bounded linear order (no NaN): cases whose README value is undefined (inf-inf) are compared "
               "with the mirror only", "begin<=end for every interval (enforced by the parser, C14)"]
TRUSTED_EXTRA = []

VARS = ["a", "b", "c"]


def proto_case(cmd, f, data, n):
    sigs = " | ".join("%s:%s" % (v, ",".join(str(f2b(x)) for x in data[v])) for v in sorted(data))
    return "%s | %s | %d | %s" % (cmd, F.to_proto(f), n, sigs)


def uses(f, kinds):
    return any((g[0], g[1]) in kinds for g in F.subformulas(f) if g[0] not in ("v", "c"))


def gen_cases(ctx, rng, count):
    cases = []
    for i in range(count):
        r = rng.random()
        d = rng.choice([1, 2, 2, 3, 3, 4, 5])
        g = F.Gen(rng, VARS, F.ALL_DISCRETE_OFFLINE, max_bound=rng.choice([2, 4, 4, 6]))
        if r < 0.12:
            # one variable read directly (no predicate in between) by two temporal operators: what the first one does with the
            # list of the variable must not be seen by the second one; traces often shorter than the bounds
            f = F.shared_variable_formula(rng, g, VARS)
            stream = "shared-variable"
        elif r < 0.18:
            # the sugar `p unless[a,b] q` / `p unless q` (the parser expands it to `always[0,b] p or p until[a,b] q`): the text
            # uses the sugar, the model gets the expansion the README gives
            p_, q_ = g.formula(rng.choice([0, 1, 1, 2])), g.formula(rng.choice([0, 1]))
            if rng.random() < 0.8:
                a_ = rng.randint(0, 3)
                b_ = a_ + rng.randint(0, 3)
                f = ("b", "or", ("tb1", "alw", 0, b_, p_), ("tb2", "until", a_, b_, p_, q_))
                unless_text = "((%s) unless[%d,%d] (%s))" % (F.to_text(p_), a_, b_, F.to_text(q_))
            else:
                f = ("b", "or", ("t1", "alw", p_), ("t2", "until", p_, q_))
                unless_text = "((%s) unless (%s))" % (F.to_text(p_), F.to_text(q_))
            if rng.random() < 0.3:
                f = ("u", "not", f)
                unless_text = "(not %s)" % unless_text
            stream = "unless-sugar"
        elif r < 0.75:
            f = g.formula(d)
            stream = "typed"
        else:
            f = g.untyped(min(d, 4))
            stream = "untyped"
        if stream in ("shared-variable", "unless-sugar"):
            n = rng.randint(1, 8)
        elif rng.random() < 0.15:
            n = 1
            stream += "/n=1"
        elif rng.random() < 0.2:
            n = rng.randint(1, 3)
            stream += "/short"
        else:
            n = rng.randint(2, 12)
        vs = F.variables(f) or ["a"]
        # surplus variable in the data set sometimes
        dvars = list(vs) + (["zz"] if rng.random() < 0.1 else [])
        data = F.gen_trace(rng, dvars, n)
        # some variables are objects of a user-defined type read through a field (`a.value`)
        struct = sorted(v for v in vs if rng.random() < 0.5) if rng.random() < 0.15 else []
        # the same number of samples under another sampling period: bounds written as durations (2 s period: [2k]; 500 ms: [500k ms])
        period = rng.choice([(2, "s"), (500, "ms")]) if rng.random() < 0.2 and any(x[0] in ("tb1", "tb2") for x in F.subformulas(f)) else None
        render = None
        if period is None and rng.random() < 0.15 and any(x[0] in ("tb1", "tb2") for x in F.subformulas(f)) and not struct:
            # every bound spelled with explicit units (either / both ends, possibly two different units, declared constants)
            # under a random default unit and sampling period
            from . import c08
            u_, p_, pu_ = rng.choice(c08.configs(rng))
            render = [rng.randint(0, 10 ** 6), u_, str(p_), pu_]
        case = {"stream": stream, "f": f, "n": n, "data": data, "decl": dvars, "struct": struct, "period": period, "render": render,
                "reconf": period is not None and rng.random() < 0.5}
        if stream == "unless-sugar":
            case.update(struct=[], period=None, render=None, text="out = " + unless_text)
        cases.append(case)
    return cases


def rendered(case):
    """(text, keyword arguments) of a case whose bounds are spelled with units."""
    import random
    from fractions import Fraction
    from . import c08
    seed, unit, period, punit = case["render"]
    period = Fraction(period)
    consts = []
    text = c08.render(random.Random(seed), case["f"], unit, period * c08.NS[punit], [], False, consts)
    return text, dict(unit=unit, sampling=(int(period) if period.denominator == 1 else float(period), punit, 0.1), consts=consts,
                      limit=8.0, timeout_is_outcome=True)


def spec_text(case):
    if case.get("text"):
        return case["text"]
    if case.get("render"):
        return rendered(case)[0]
    per = case.get("period")
    if not per:
        return "out = " + F.to_text(case["f"])
    return "out = " + F.to_text(case["f"], bound=(lambda k: str(2 * k)) if tuple(per) == (2, "s") else (lambda k: "%dms" % (500 * k)))


def impl_eval(case, time=None):
    kw = {}
    if case.get("period") and case.get("reconf") and not (case.get("struct") or ()):
        # the object is evaluated once under the default period (whatever that gives), re-configured, and evaluated again: nothing
        # derived from the old configuration may survive
        text, n = spec_text(case), case["n"]

        def go():
            spec = impl.make_spec("offd", text, case["decl"])
            spec.parse()

            def ds():
                d = {"time": list(time) if time is not None else list(range(n))}
                d.update({v: list(case["data"][v]) for v in case["data"]})
                return d
            try:
                spec.evaluate(ds())
            except Exception:
                pass
            spec.set_sampling_period(case["period"][0], case["period"][1], 0.1)
            return spec.evaluate(ds())
        return impl.guarded(go)
    if case.get("period"):
        kw["sampling"] = (case["period"][0], case["period"][1], 0.1)
    if case.get("render"):
        kw = rendered(case)[1]
    return impl.eval_offline_discrete(spec_text(case), case["decl"], case["data"], case["n"], time=time, struct=case.get("struct") or (), **kw)


def check_case(ctx, case, model_off, model_rho, model_gen=None):
    """Returns (violation | None, diff | None)."""
    f, n, data = case["f"], case["n"], case["data"]
    out = impl_eval(case)
    text = spec_text(case)
    rep = {"sugar_text": case.get("text"), "render": case.get("render"), "period": case.get("period"), "struct": list(case.get("struct") or ()), "spec": text, "declare": case["decl"], "data": data, "n": n, "formula": F.to_proto(f), "monitor": "discrete offline",
           "model_evalOff": model_off, "model_rho": model_rho, "impl": out}
    if model_rho[0] == "undef":
        expected = None
    elif model_rho[0] == "ok":
        expected = model_rho[1]
    else:
        raise common.HarnessError("driver: " + str(model_rho))
    if out[0] != "ok":
        # a well-formed specification on well-formed data must evaluate
        return Violation("evaluate() raised %s on %s (n=%d)" % (out[1:], text, n), rep, stream=case["stream"]), None
    res = out[1]
    ts_ok = len(res) == n and all(len(p) == 2 and p[0] == i for i, p in enumerate(res))
    if not ts_ok:
        return Violation("evaluate() did not return one [t,v] pair per sample on %s (n=%d): %r" % (text, n, res), rep,
                         stream=case["stream"]), None
    vals = [p[1] for p in res]
    key = (text, tuple((k, tuple(v)) for k, v in sorted(data.items())))
    if not all(v in (common.INF, -common.INF) for v in vals) or len(set(vals)) > 1:
        ctx.nontrivial.add(key)
    if expected is None:
        ctx.skipped_undef += 1
        if model_off[0] == "ok" and not same_vals(vals, model_off[1]):
            return None, Violation("implementation differs from the mirror evalOff on a NaN-tainted case: %s" % text, rep,
                                   failing_input=False, stream="off-d/mirror")
        return None, None
    if not common.same_nums(vals, expected):
        t = next(i for i in range(n) if i >= len(vals) or not common.num_eq(vals[i], expected[i]))
        return Violation("evaluate() value at sample %d is %r, rho is %r: %s n=%d" % (t, vals[t], expected[t], text, n),
                         rep, stream=case["stream"]), None
    if model_off[0] != "ok" or not same_vals(vals, model_off[1]):
        return None, Violation("mirror evalOff differs from the implementation (which agrees with rho): %s" % text, rep,
                               failing_input=False, stream="off-d/mirror")
    if model_gen is not None and (model_gen[0] != "ok" or not same_vals(vals, model_gen[1])):
        return None, Violation("the visit methods translated from the source (run under the Lean semantics of the Python subset) give "
                               "%r, the implementation %r: %s" % (model_gen, vals, text), dict(rep, model_generated=model_gen),
                               failing_input=False, stream="off-d/translated")
    return None, None


def time_columns(rng, n):
    cols = []
    cols.append([i * 0.25 + rng.choice([0.0, 0.01, -0.01]) for i in range(n)])
    cols.append([-5.0 + 3 * i for i in range(n)])
    cols.append(sorted(rng.sample(range(0, 10 * n + 10), n)))
    cols.append([7.0] * n)  # not even increasing: values must not care
    return cols


def known_region(ctx, case):
    for kf in ctx.known:
        if kf.get("status") == "known" and kf.get("region") in REGIONS and REGIONS[kf["region"]](case):
            return True
    return False


REGIONS = {}


def explore(ctx, rng, count, label):
    cases = gen_cases(ctx, rng, count)
    cases = [c for c in cases if not (known_region(ctx, c) and not ctx.count("skipped_known"))]
    lines = []
    for c in cases:
        lines.append(proto_case("offd", c["f"], c["data"], c["n"]))
        lines.append(proto_case("rhot", c["f"], c["data"], c["n"]))
        lines.append(proto_case("offdgen", c["f"], c["data"], c["n"]))
    outs = common.driver_run(lines)
    for i, c in enumerate(cases):
        m_off = common.parse_vals(outs[3 * i])
        m_gen = common.parse_vals(outs[3 * i + 2])
        o = outs[3 * i + 1]
        m_rho = ("undef",) if o.strip() == "undef" else common.parse_vals(o)
        ctx.evaluations += 1
        ctx.count("stream:" + c["stream"])
        for op in set(F.ops(c["f"])):
            ctx.count("op:" + op)
        ctx.count("n=%d" % c["n"] if c["n"] <= 2 else "n>2")
        v, d = check_case(ctx, c, m_off, m_rho, m_gen)
        if v is None and d is None:
            ctx.traces_validated += 1
            if len(ctx.samples) < 4 and F.depth(c["f"]) >= 3:
                ctx.sample({"spec": "out = " + F.to_text(c["f"]), "data": c["data"],
                            "values": [p[1] for p in impl_eval(c)[1]]})
            # time-stamp independence on a fraction of the cases
            if rng.random() < 0.25:
                base = [p[1] for p in impl_eval(c)[1]]
                for col in time_columns(rng, c["n"]):
                    ctx.evaluations += 1
                    ctx.count("stream:time-column")
                    o2 = impl_eval(c, time=col)
                    rep = {"spec": "out = " + F.to_text(c["f"]), "declare": c["decl"], "data": c["data"], "n": c["n"],
                           "time": col, "impl": o2, "expected_values": base, "formula": F.to_proto(c["f"])}
                    if o2[0] != "ok" or [p[0] for p in o2[1]] != list(col) or not same_vals([p[1] for p in o2[1]], base):
                        v = Violation("result depends on the time column %r: %s" % (col, rep["spec"]), rep, stream="time-column")
                        break
        if v is not None:
            v = minimise(ctx, c, v)
            ctx.violations.append(v)
            if len(ctx.violations) >= 3:
                return
        if d is not None:
            ctx.diffs.append(d)


def minimise(ctx, case, v):
    """Shrink a failing case (greedy), re-running implementation and model."""
    if "time" in v.replay or case.get("text"):
        return v

    from ..engine import Ctx
    scratch = Ctx(ctx.id, ctx.tier, ctx.seed)

    def fails(f, data, n):
        c = dict(case, f=f, data={k: data[k] for k in data}, n=n)
        vs = set(F.variables(f))
        c["decl"] = sorted(vs | set(data))
        try:
            outs = common.driver_run([proto_case("offd", f, data, n), proto_case("rhot", f, data, n)])
        except common.HarnessError:
            return False
        m_off = common.parse_vals(outs[0])
        m_rho = ("undef",) if outs[1].strip() == "undef" else common.parse_vals(outs[1])
        vv, _ = check_case(scratch, c, m_off, m_rho)
        return vv is not None

    try:
        f, data, n = F.shrink(fails, case["f"], case["data"], case["n"], budget=120)
    except Exception:  # noqa: BLE001
        return v
    c = dict(case, f=f, data=data, n=n, decl=sorted(set(F.variables(f)) | set(data)))
    outs = common.driver_run([proto_case("offd", f, data, n), proto_case("rhot", f, data, n)])
    m_off = common.parse_vals(outs[0])
    m_rho = ("undef",) if outs[1].strip() == "undef" else common.parse_vals(outs[1])
    vv, _ = check_case(scratch, c, m_off, m_rho)
    return vv or v


def run(ctx):
    rng = ctx.subrng("off-d")
    corpus_run(ctx)
    if ctx.violations:
        return
    explore(ctx, rng, ctx.budget(2000, 20000), "random")


def corpus_run(ctx):
    """Minimised past failures run first (corpus/C01.jsonl: one replay object per line)."""
    import json, os
    p = os.path.join(common.VERIF, "corpus", "C01.jsonl")
    if not os.path.exists(p):
        return
    for line in open(p):
        line = line.strip()
        if not line:
            continue
        obj = json.loads(line)
        ok, msg = replay(ctx, obj)
        ctx.evaluations += 1
        ctx.count("stream:corpus")
        if not ok:
            case = case_of_replay(obj)
            if known_region(ctx, case):
                continue
            ctx.violations.append(Violation("corpus case fails: " + msg, obj, stream="corpus"))


def case_of_replay(obj):
    f = F.from_proto(obj["formula"])
    data = {k: [float(x) for x in v] for k, v in obj["data"].items()}
    return {"stream": "replay", "f": f, "n": obj["n"], "data": data, "decl": obj.get("declare") or sorted(data),
            "struct": obj.get("struct") or [], "period": obj.get("period"), "render": obj.get("render"), "text": obj.get("sugar_text"),
            "reconf": bool(obj.get("reconf"))}


def replay(ctx, obj):
    """Re-execute a replay object on the implementation. Returns (property_holds, message)."""
    case = case_of_replay(obj)
    outs = common.driver_run([proto_case("offd", case["f"], case["data"], case["n"]),
                              proto_case("rhot", case["f"], case["data"], case["n"])])
    m_off = common.parse_vals(outs[0])
    m_rho = ("undef",) if outs[1].strip() == "undef" else common.parse_vals(outs[1])
    if "time" in obj:
        o2 = impl_eval(case, time=obj["time"])
        base = impl_eval(case)
        if o2[0] != "ok" or base[0] != "ok" or not same_vals([p[1] for p in o2[1]], [p[1] for p in base[1]]) \
                or [p[0] for p in o2[1]] != list(obj["time"]):
            return False, "result depends on the time column: %r vs %r" % (o2, base)
        return True, "time column has no effect"
    v, d = check_case(ctx, case, m_off, m_rho)
    if v is not None:
        return False, v.what
    return True, "implementation agrees with rho on the replayed case"


def search(ctx):
    """A proof obligation or the correspondence broke, and the ordinary run found no failing
    input: look harder (formulas built around every operator kind, all short traces)."""
    rng = ctx.subrng("search")
    explore(ctx, rng, ctx.budget(1500, 6000), "search")
