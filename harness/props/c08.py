"""C08 — bounds denote durations whatever the unit notation.

Tie: stream `units`.  A core formula with bounds in samples is rendered under several
(default unit, sampling period, period unit) configurations and, per bound, several spellings
(explicit unit on both ends — possibly different units —, on the upper end only, on the lower end only,
no unit = default unit).  Every rendering must give the results of the baseline rendering
(unit s, period 1 s, bare numbers) on the discrete offline monitor, the online monitor (past formulas)
and the pastified online monitor (bounded future); the model's `SIv.toSamples` (Lean) must elaborate
each spelled interval to the same samples.  Left out (known finding F35, `region_next_pastified`): the pastified monitor of a
specification with `next` in the configurations whose period is not one default unit - and only those: under a period of one
default unit (ms with 1 ms, us with 1000 ns, ...) such specifications are rendered and compared like all others.  Bounds that are not multiples of the period must raise
RTAMTException.  Dense time: harness/dense.py (stream `units-c`).

Order of the configuration calls (`ORDERS`): the sampling period is a configuration of the monitor that is read when the first
sample is evaluated, so `set_sampling_period` may be called before `parse()`, between `parse()` and `pastify()` or after
`pastify()` (before the first `update()` / `evaluate()`): the first spelling of every configuration sets it before `parse()`, the
other spellings (and the non-multiple) take one of the later places.  The outcome (values, or the rejection of a non-multiple)
must not depend on it - in particular a bound is measured in the period that is configured when the monitor starts, not in the
one (1 s by default) that happens to be configured when `pastify()` is called.
"""
from decimal import Decimal
from fractions import Fraction
from .. import common, formula as F, impl, disc
from ..common import same_vals
from ..engine import Violation, Ctx

RULE = ("core formulas with 1-3 bounded operators (bounds 0..4 samples); 3 random configurations (default unit, period, period unit) "
        "x 3 random spellings per configuration (pastified specifications with next: configurations with a period of one default unit "
        "instead of those of the known finding F35); monitors: offline, online (past), pastified online (bounded future); plus one "
        "non-multiple bound per formula; set_sampling_period before parse() (first spelling of a configuration), after parse() or "
        "after pastify() (the other spellings, the non-multiple). distinct by (formula, rendering, data); non-trivial when the baseline result is not constant +-inf.")
EXPLANATION = ("theorems: C08_normalize_factor (samples x period = written duration), C08_non_multiple_rejected, C08_interval_eq, "
               "C08_equal_durations (same durations => same elaborated formula, hence identical results of every monitor and of "
               "pastify: C08_results_identical), C08_spellings, C08_dense. Correspondence: metamorphic across renderings on the "
               "real monitors, and the real outcome (value / RTAMTException) vs the model's elaboration.")
ASSUMPTIONS = ["the commutation of the (surface) pastifier with elaboration is validated by this stream, not proved",
               "sampling period and bounds are exact decimal numbers"]
TRUSTED_EXTRA = ["pastify on surface bounds (default unit) commutes with elaboration to samples: validated by correspondence only"]

UNITS = ["s", "ms", "us", "ns"]
NS = {"s": 10 ** 9, "ms": 10 ** 6, "us": 10 ** 3, "ns": 1}
VARS = ["a", "b"]


def has_next(case):
    """The case has a `next` / `s_next` operator (generated cases carry the formula, witnesses and replays the specification text)."""
    import re
    if case.get("f") is not None:
        return any(x[0] == "t1" and x[1] in ("next", "snext") for x in F.subformulas(case["f"]))
    texts = [case.get(k) or "" for k in ("spec", "spec_a", "spec_b", "baseline_spec")]
    return any(re.search(r"(?<![A-Za-z0-9_])(s_)?next(?![A-Za-z0-9_])", t) for t in texts)


def configurations_of(case):
    """The (default unit, period, period unit) configurations a case is run under: `cfg` (one rendering of a generated case),
    `cfg_a` / `cfg_b` (a two-renderings witness) or `unit` / `period` / `period_unit` (the replay object of one rendering)."""
    if case.get("cfg") is not None:
        return [cfg_of(case["cfg"])]
    out = [cfg_of(case[k]) for k in ("cfg_a", "cfg_b") if case.get(k) is not None]
    if case.get("unit") is not None and case.get("period") is not None:
        out.append((case["unit"], Fraction(case["period"]), case.get("period_unit") or case["unit"]))
    return out


def one_default_unit(cfg):
    """The sampling period of the configuration lasts exactly one default unit (whatever unit it is given in)."""
    unit, period, punit = cfg
    return Fraction(period) * NS[punit] == NS[unit]


def region_next_pastified(case):
    """F35: the pastified monitor of a specification with `next` / `s_next`, in a configuration whose sampling period is NOT one
    default unit (pastify() removes a next by one default unit).  The predicate is about ONE rendering: a generated case is run
    under several configurations, each of which is asked separately (`cfg`); the configurations whose period lasts one default
    unit - unit s with 1 s, unit ms with 1 ms, the period written in another unit (1000 us) - are outside the finding and are
    explored, with set_sampling_period in every place of `ORDERS`.  A case without any configuration is not in the region."""
    if case.get("monitor") != "past" or not has_next(case):
        return False
    return any(not one_default_unit(cfg) for cfg in configurations_of(case))


def region_shifted_window_pastified(case):
    """F56: a bounded future operator both of whose bounds are off the sampling grid by the same amount, monitored after
    pastify() (the pastifier keeps the difference of the bounds only).  The exploration puts only the upper bound off the grid,
    so no generated case lies in this region; cases built for it carry the mark `shifted`."""
    return case.get("monitor") == "past" and bool(case.get("shifted"))


REGIONS = {"pastify-of-next-when-period-is-not-one-default-unit": region_next_pastified,
           "pastified-window-with-both-bounds-off-the-grid-by-the-same-amount": region_shifted_window_pastified}


def dec(q):
    """Exact decimal text of a Fraction whose denominator divides a power of ten."""
    q = Fraction(q)
    d = Decimal(q.numerator) / Decimal(q.denominator)
    s = format(d, "f")
    if Fraction(Decimal(s)) != q:
        raise common.HarnessError("not a finite decimal: %s" % q)
    return s


def configs(rng):
    """(unit, period, punit) with period*NS[punit] = periodNs; varied."""
    out = [("s", Fraction(1), "s")]
    for _ in range(2):
        pns = Fraction(rng.choice([1, 2, 5, 10, 500, 250, 1000])) * NS[rng.choice(UNITS)]
        punit = rng.choice(UNITS)
        period = pns / NS[punit]
        if period.denominator != 1:       # set_sampling_period is given an int or a float; keep it exactly representable
            punit = "ns"
            period = pns
        out.append((rng.choice(UNITS), period, punit))
    return out


def config_one_default_unit(rng):
    """A configuration whose period lasts one default unit: the unit is mostly not s (the period that is configured before
    set_sampling_period is called is 1 s), the period is given in the default unit or in another one (1 ms = 1000 us)."""
    unit = rng.choice(["ms", "us", "ns", "ms", "us", "s"])
    pns = Fraction(NS[unit])
    punit = unit if rng.random() < 0.5 else rng.choice(UNITS)
    period = pns / NS[punit]
    if period.denominator != 1:
        punit = "ns"
        period = pns
    return (unit, period, punit)


def case_configs(ctx, case, rng):
    """The configurations one case is rendered under: `configs(rng)`; for a pastified specification with `next` the configurations
    inside the region of a known finding (F35: period not one default unit) are left out - counted - and configurations with a
    period of one default unit take their place, so that such specifications are explored wherever the finding does not reach."""
    out = []
    for cfg in configs(rng):
        if disc.known_region(ctx, dict(case, cfg=cfg), REGIONS):
            ctx.skipped_known += 1
            ctx.count("configuration-in-known-region(skipped)")
            cfg = config_one_default_unit(rng)
            ctx.count("next-pastified:period-one-default-unit")
        out.append(cfg)
    return out


def spell(rng, a, b, unit, pns):
    """Text of the bound pair [a,b] (samples) under default `unit`; returns (btxt, butxt, etxt, eutxt)."""
    mode = rng.choice(["none", "both", "both-mixed", "end", "begin"])
    da, db = a * pns, b * pns            # durations in ns
    if mode == "none":
        return dec(da / NS[unit]), "", dec(db / NS[unit]), ""
    if mode == "both":
        u = rng.choice(UNITS)
        return dec(da / NS[u]), u, dec(db / NS[u]), u
    if mode == "both-mixed":
        u, v = rng.choice(UNITS), rng.choice(UNITS)
        return dec(da / NS[u]), u, dec(db / NS[v]), v
    u = rng.choice(UNITS)
    if mode == "end":
        return dec(da / NS[u]), "", dec(db / NS[u]), u
    return dec(da / NS[u]), u, dec(db / NS[u]), ""


def render(rng, f, unit, pns, record, unless=False, consts=None):
    """Spec text with every interval spelled; `record` collects (a,b,spelling).  `unless`: the bounded until operators are
    written `unless` (sugar for `always[0,b] p or p until[a,b] q`: the parser derives a second interval from the written one)."""
    same = {}
    keep_same = rng.random() < 0.7

    def bound_pair(node):
        # a sub-formula that occurs twice is mostly spelled the same way both times (two nodes with one text)
        if keep_same and node in same:
            record.append((node[2], node[3], same[node]))
            return same[node]
        sp = spell(rng, node[2], node[3], unit, pns)
        same[node] = sp
        record.append((node[2], node[3], sp))
        if consts is not None and rng.random() < 0.25:
            # one of the two numerals is a declared constant (`const float K0 = 0.3` ... `[0:K0 s]`): same value, same unit rule
            bt, bu, et, eu = sp
            nm = "K%d" % len(consts)
            if rng.random() < 0.5:
                consts.append((nm, "float" if "." in bt else "int", bt))
                sp = (nm + (" " if bu else ""), bu, et, eu)
            else:
                consts.append((nm, "float" if "." in et else "int", et))
                sp = (bt, bu, nm + (" " if eu else ""), eu)
        return sp

    def go(x):
        k = x[0]
        if k == "tb1":
            bt, bu, et, eu = bound_pair(x)
            return "(%s[%s%s,%s%s] (%s))" % (F.T1_TXT[x[1]], bt, bu, et, eu, go(x[4]))
        if k == "tb2":
            bt, bu, et, eu = bound_pair(x)
            return "((%s) %s[%s%s,%s%s] (%s))" % (go(x[4]), "unless" if unless and x[1] == "until" else x[1], bt, bu, et, eu, go(x[5]))
        if k in ("v", "c"):
            return F.to_text(x)
        if k == "u":
            return ("-(%s)" if x[1] == "negate" else F.UN_TXT[x[1]] + "(%s)") % go(x[2])
        if k == "b":
            l, r = go(x[2]), go(x[3])
            if x[1] in ("pow", "log"):
                return "%s(%s,%s)" % (x[1], l, r)
            return "((%s) %s (%s))" % (l, F.CMP_TXT.get(x[1]) or F.BIN_TXT[x[1]], r)
        if k == "t1":
            return ("%s(%s)" if x[1] in ("rise", "fall") else "(%s (%s))") % (F.T1_TXT[x[1]], go(x[2]))
        if k == "t2":
            return "((%s) %s (%s))" % (go(x[2]), x[1], go(x[3]))
        raise ValueError(x)
    return "out = " + go(f)


# where set_sampling_period is called; per monitor the places that exist (the first one is the one of harness/impl.py)
ORDERS = {"offd": ["before-parse", "after-parse"], "ond": ["before-parse", "after-parse"],
          "past": ["before-parse", "after-parse", "after-pastify"]}


def later_order(rng, monitor):
    """One of the places after parse() (for the pastified monitor mostly the last one, after pastify())."""
    if monitor == "past":
        return "after-pastify" if rng.random() < 0.6 else "after-parse"
    return "after-parse"


def run_ordered(monitor, text, vs, data, n, unit, sampling, consts, order, limit):
    """The calls of impl.eval_offline_discrete / impl.run_online_discrete with set_sampling_period moved behind parse() or
    behind pastify(); everything else (class of the specification, second pastify() of one text in four) as there."""
    def go():
        spec = impl.make_spec("offd" if monitor == "offd" else "ond", text, vs, consts=list(consts), unit=unit)
        spec.parse()
        if order == "after-parse":
            spec.set_sampling_period(*sampling)
        if monitor == "past":
            spec.pastify()
            if impl.twice(text):
                spec.pastify()
        if order == "after-pastify":
            spec.set_sampling_period(*sampling)
        if monitor == "offd":
            ds = {"time": list(range(n))}
            for v in data:
                ds[v] = list(data[v])
            return spec.evaluate(ds)
        return [spec.update(i, [(v, data[v][i]) for v in data]) for i in range(n)]
    return impl.guarded(go, limit, True)


def run_monitor(monitor, text, vs, data, n, unit, period, punit, consts=(), limit=8.0, order="before-parse"):
    per = int(period) if period.denominator == 1 else float(period)
    if order not in ORDERS[monitor]:
        raise common.HarnessError("no place %r for set_sampling_period on the %s monitor" % (order, monitor))
    # the baseline rendering of the same durations evaluates in milliseconds: a rendering that does not
    # come back within 8 s (e.g. a bound blown up by a wrong unit) is reported as an outcome, not a harness error
    kw = dict(unit=unit, sampling=(per, punit, 0.1), limit=limit, timeout_is_outcome=True, consts=list(consts))
    if order != "before-parse":
        o = run_ordered(monitor, text, vs, data, n, unit, (per, punit, 0.1), consts, order, limit)
        if monitor == "offd" and o[0] == "ok":
            o = ("ok", [p[1] for p in o[1]])
    elif monitor == "offd":
        o = impl.eval_offline_discrete(text, vs, data, n, **kw)
        o = o if o[0] != "ok" else ("ok", [p[1] for p in o[1]])
    else:
        o = impl.run_online_discrete(text, vs, data, n, pastify=(monitor == "past"), **kw)
    if o[0] == "other" and len(o) > 1 and o[1] == "Timeout" and limit < 60.0:
        # a busy machine is not an outcome: the call is repeated once with a generous limit before "does not return" is believed
        return run_monitor(monitor, text, vs, data, n, unit, period, punit, consts, limit=90.0, order=order)
    return o


def gen_case(rng):
    monitor = rng.choice(["offd", "ond", "past"])
    allow = {"offd": F.ALL_DISCRETE_OFFLINE - {"fn"}, "ond": F.PAST_ONLY - {"fn"},
             "past": {"arith", "cmp", "bool", "past", "bpast", "bfuture", "buntil", "bsince", "since", "not", "future"}}[monitor]
    g = F.Gen(rng, VARS, allow, max_bound=4)
    for _ in range(50):
        f = g.formula(rng.choice([2, 3, 4]))
        nb = sum(1 for x in F.subformulas(f) if x[0] in ("tb1", "tb2"))
        if 1 <= nb <= 4:
            break
    if rng.random() < 0.2:
        # the same bounded sub-formula a second time (as text: two nodes that print alike)
        subs = [x for x in F.subformulas(f) if x[0] in ("tb1", "tb2")]
        if subs:
            f = ("b", rng.choice(["and", "or"]), f, rng.choice(subs))
    n = rng.randint(2, 10)
    vs = F.variables(f) or ["a"]
    unless = monitor in ("offd", "past") and any(x[0] == "tb2" and x[1] == "until" for x in F.subformulas(f)) and rng.random() < 0.5
    return {"monitor": monitor, "f": f, "n": n, "data": F.gen_trace(rng, vs, n), "decl": vs, "unless": unless}


def model_intervals(items):
    """items: (unit, period, punit, (bt,bu,et,eu)) -> model elaboration."""
    lines = ["units | %s | %d/%d | %s | %s | %s | %s | %s" %
             (u, p.numerator, p.denominator, pu, frac_txt(sp[0]), sp[1] or "-", frac_txt(sp[2]), sp[3] or "-")
             for (u, p, pu, sp) in items]
    return common.driver_run(lines) if lines else []


def frac_txt(s):
    q = Fraction(Decimal(s))
    return "%d/%d" % (q.numerator, q.denominator)


def stream_of(order):
    return "units" if order == "before-parse" else "units/config-order"


def check_case(ctx, case, rng):
    f, n, data, vs, mon = case["f"], case["n"], case["data"], case["decl"], case["monitor"]
    unl = bool(case.get("unless"))
    base_text = "out = " + F.to_text(f)
    if unl:
        base_text = base_text.replace(" until[", " unless[")
    base = run_monitor(mon, base_text, vs, data, n, "s", Fraction(1), "s")
    rep = {"monitor": mon, "formula": F.to_proto(f), "data": data, "n": n, "baseline_spec": base_text, "baseline": base}
    if base[0] == "other" and base[1] == "Timeout":
        raise common.HarnessError("baseline rendering did not return within 90 s (machine overloaded?): " + base_text)
    if base[0] != "ok":
        return Violation("baseline rendering raised %r: %s" % (base[1:], base_text), rep, stream="units"), None
    if disc.nontrivial(base[1]):
        ctx.nontrivial.add((mon,) + disc.data_key(base_text, data))
    diff = None
    for (unit, period, punit) in case_configs(ctx, case, rng):
        pns = period * NS[punit]
        for k in range(3):
            rec, consts = [], []
            text = render(rng, f, unit, pns, rec, unl, consts)
            order = "before-parse" if k == 0 else later_order(rng, mon)
            ctx.evaluations += 1
            ctx.count("monitor:" + mon)
            ctx.count("period-set:" + order)
            if unl:
                ctx.count("unless-sugar")
            if consts:
                ctx.count("constant-bounds")
            out = run_monitor(mon, text, vs, data, n, unit, period, punit, consts, order=order)
            rep2 = dict(rep, spec=text, unit=unit, period=str(period), period_unit=punit, order=order, impl=out,
                        consts=[list(c) for c in consts])
            where = "" if order == "before-parse" else ", set %s()" % order.replace("-", " ")
            if out[0] != "ok":
                return Violation("%s monitor: rendering with the same durations raised %r (unit=%s, period=%s %s%s): %s"
                                 % (mon, out[1:], unit, period, punit, where, text), rep2, stream=stream_of(order)), diff
            if not same_vals(out[1], base[1]):
                return Violation("%s monitor: results differ between two renderings with the same durations (unit=%s, period=%s %s%s): "
                                 "%s  vs  %s" % (mon, unit, period, punit, where, text, base_text), rep2, stream=stream_of(order)), diff
            # model elaboration of every spelled interval
            ms = model_intervals([(unit, period, punit, sp) for (_, _, sp) in rec])
            for (a, b, sp), m in zip(rec, ms):
                if not m.startswith("ok %d %d " % (a, b)):
                    diff = Violation("model elaborates [%s%s,%s%s] (unit=%s, period=%s %s) to %r, expected %d %d samples"
                                     % (sp[0], sp[1], sp[2], sp[3], unit, period, punit, m, a, b), rep2, failing_input=False,
                                     stream="units/model")
    # one non-multiple: replace the first interval's upper bound by (b + 1/2) periods
    unit, period, punit = rng.choice(case_configs(ctx, case, rng))
    pns = period * NS[punit]
    first = next(x for x in F.subformulas(f) if x[0] in ("tb1", "tb2"))
    bad_b = (Fraction(first[3]) + Fraction(1, 2)) * pns
    u = rng.choice(UNITS)

    def sub(x):
        return x
    rec = []
    text = render(rng, f, unit, pns, rec, unl)
    sp = rec[0][2]
    old = "[%s%s,%s%s]" % sp
    new = "[%s%s,%s%s]" % (dec(first[2] * pns / NS[u]), u, dec(bad_b / NS[u]), u)
    text_bad = text.replace(old, new, 1)
    order = rng.choice(ORDERS[mon])
    ctx.evaluations += 1
    ctx.count("non-multiple")
    ctx.count("non-multiple/period-set:" + order)
    out = run_monitor(mon, text_bad, vs, data, n, unit, period, punit, order=order)
    rep3 = dict(rep, kind="non-multiple", spec=text_bad, unit=unit, period=str(period), period_unit=punit, order=order, impl=out)
    if out[0] != "rtamt":
        return Violation("bound %s is not a multiple of the sampling period %s %s (set %s()) but the %s monitor did not raise "
                         "RTAMTException (got %r): %s" % (new, period, punit, order.replace("-", " "), mon, out[:2], text_bad), rep3,
                         stream="units/non-multiple"), diff
    m = model_intervals([(unit, period, punit, (dec(first[2] * pns / NS[u]), u, dec(bad_b / NS[u]), u))])[0]
    if not m.startswith("err rtamt"):
        diff = Violation("model accepts the non-multiple %s: %r" % (new, m), rep3, failing_input=False, stream="units/model")
    return None, diff


def check_same_numerals(ctx, rng):
    """Two bounded operators over the same operand whose bounds are written with the same numerals and different units (so their
    durations differ by 1000): `A = (op[0,k u](p)) o (op'[0,k v](p))`.  The same durations written with different numerals
    (everything in the finer unit) must give the same results on every discrete monitor."""
    mon = rng.choice(["ond", "ond", "offd", "past"])
    fine, coarse = rng.choice([("ms", "s"), ("us", "ms"), ("ns", "us")])
    k = rng.randint(1, 3)
    ops = ["once", "historically", "since"] if mon == "ond" else (["eventually", "always", "until"] if mon == "past" else
                                                                  ["once", "historically", "eventually", "always", "since", "until"])
    op1 = rng.choice(ops)
    if op1 in ("since", "until") and rng.random() < 0.6:
        op1 = rng.choice([o for o in ops if o not in ("since", "until")])
    op2 = op1 if rng.random() < 0.6 else rng.choice([o for o in ops if o not in ("since", "until")])      # the same operator over the same operand: same printed name but for the bounds
    slow = op1 in ("since", "until")         # rtamt's bounded since / until are quadratic in the bound (1000 samples here)
    if slow:
        k = 1
    p = "(a >= %s)" % rng.choice(["0.5", "1.0", "2.0"])
    con = rng.choice(["and", "or"])
    neg = rng.choice(["", "not "])

    def app(op, b):
        if op in ("since", "until"):
            return "((a <= 3.0) %s[0,%s] %s)" % (op, b, p)
        return "(%s[0,%s] %s)" % (op, b, p)

    def spec(b1, b2):
        return "out = (%s %s (%s%s))" % (app(op1, b1), con, neg, app(op2, b2))
    text_a = spec("%d%s" % (k, coarse), "%d%s" % (k, fine))            # same numerals, different units
    text_b = spec("%d%s" % (k * 1000, fine), "%d%s" % (k, fine))       # the same durations, everything in the finer unit
    if rng.random() < 0.5:
        text_a = text_a.replace("%d%s]" % (k, fine), "%d]" % k)        # ... or the finer one is the default unit, left out
    n = rng.randint(3, 4) if slow else rng.randint(3, 9)
    data = {"a": [rng.choice([-1.0, 0.0, 1.0, 2.0, 3.0, 5.0]) for _ in range(n)]}
    cfg = (fine, Fraction(1), fine)
    ctx.evaluations += 1
    ctx.count("same-numerals:" + mon)
    a = run_monitor(mon, text_a, ["a"], data, n, *cfg)
    b = run_monitor(mon, text_b, ["a"], data, n, *cfg)
    rep = {"kind": "two-renderings", "monitor": mon, "spec_a": text_a, "spec_b": text_b, "cfg_a": [cfg[0], str(cfg[1]), cfg[2]],
           "cfg_b": [cfg[0], str(cfg[1]), cfg[2]], "data": data, "n": n, "impl_a": a, "impl_b": b}
    ctx.nontrivial.add((mon, text_a, str(data)))
    if b[0] == "other" and b[1] == "Timeout":
        raise common.HarnessError("the rendering in the finer unit did not return within 90 s (machine overloaded?): " + text_b)
    if a[0] != "ok" or b[0] != "ok" or not same_vals(a[1], b[1]):
        return Violation("%s monitor (unit %s, period 1 %s): two renderings with the same durations differ: %s gives %r, %s gives %r"
                         % (mon, fine, fine, text_a, a[:2], text_b, b[:2]), rep, stream="units/same-numerals")
    return None


def explore(ctx, rng, count):
    for i in range(count):
        if i % 3 == 2:
            v = check_same_numerals(ctx, rng)
            if v is None:
                ctx.traces_validated += 1
            else:
                ctx.violations.append(v)
                if len(ctx.violations) >= 3:
                    return
            continue
        c = gen_case(rng)
        if disc.known_region(ctx, c, REGIONS):
            ctx.skipped_known += 1
            continue
        v, d = check_case(ctx, c, rng)
        if v is None and d is None:
            ctx.traces_validated += 1
            if len(ctx.samples) < 3:
                rec = []
                ctx.sample({"monitor": c["monitor"], "baseline": "out = " + F.to_text(c["f"]),
                            "rendering(unit=ms, period 500 ms)": render(rng, c["f"], "ms", Fraction(500) * NS["ms"], rec)})
        if v is not None:
            ctx.violations.append(v)
            if len(ctx.violations) >= 3:
                return
        if d is not None:
            ctx.diffs.append(d)


def replay(ctx, obj):
    if obj.get("kind") == "two-renderings":
        data = {k: [float(x) for x in v] for k, v in obj["data"].items()}
        vs = sorted(data)
        a = run_monitor(obj["monitor"], obj["spec_a"], vs, data, obj["n"], *cfg_of(obj["cfg_a"]))
        b = run_monitor(obj["monitor"], obj["spec_b"], vs, data, obj["n"], *cfg_of(obj["cfg_b"]))
        ok = a[0] == "ok" and b[0] == "ok" and same_vals(a[1], b[1])
        return ok, ("renderings agree" if ok else "renderings with the same durations disagree: %r vs %r" % (a[:2], b[:2]))
    if obj.get("kind") == "non-multiple-text":
        data = {k: [float(x) for x in v] for k, v in obj["data"].items()}
        out = run_monitor(obj["monitor"], obj["spec"], sorted(data), data, obj["n"], *cfg_of(obj["cfg"]))
        return (out[0] == "rtamt"), "non-multiple bound: outcome %r" % (out[:2],)
    if obj.get("monitor") in ("offc", "onc"):
        from .. import dense
        return dense.replay_units(ctx, obj)
    f = F.from_proto(obj["formula"])
    data = {k: [float(x) for x in v] for k, v in obj["data"].items()}
    vs = sorted(data)
    base = run_monitor(obj["monitor"], obj["baseline_spec"], vs, data, obj["n"], "s", Fraction(1), "s")
    out = run_monitor(obj["monitor"], obj["spec"], vs, data, obj["n"], obj["unit"], Fraction(obj["period"]), obj["period_unit"],
                      [tuple(c) for c in obj.get("consts") or []], order=obj.get("order") or "before-parse")
    if obj.get("kind") == "non-multiple" or "non-multiple" in obj.get("what", "") or (obj.get("impl") and obj["impl"][0] == "ok" and "not a multiple" in obj.get("what", "")):
        return (out[0] == "rtamt"), "non-multiple bound: outcome %r" % (out[:2],)
    ok = base[0] == "ok" and out[0] == "ok" and same_vals(base[1], out[1])
    return ok, ("renderings agree" if ok else "renderings with the same durations disagree: %r vs %r" % (out, base))


def cfg_of(c):
    return c[0], Fraction(c[1]), c[2]


def witnesses_inside_regions(ctx):
    """Every known finding of the property names a region that is left out of the exploration; its witness has to lie inside it
    (a region narrower than the finding would turn the finding into an alarm, a witness outside says the region is another one)."""
    for kf in ctx.known:
        if kf.get("status") == "known" and kf.get("region") in REGIONS and kf.get("witness") is not None:
            if not REGIONS[kf["region"]](kf["witness"]):
                raise common.HarnessError("the witness of %s is outside its region %r" % (kf.get("id"), kf["region"]))


def run(ctx):
    witnesses_inside_regions(ctx)
    explore(ctx, ctx.subrng("units"), ctx.budget(180, 1500))
    if not ctx.violations:
        try:
            from .. import dense
            dense.units_stream(ctx)
        except ImportError:
            ctx.notes.append("dense-time units stream not available yet")


def search(ctx):
    explore(ctx, ctx.subrng("search"), ctx.budget(200, 1200))
