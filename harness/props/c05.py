"""C05 — dense-time online output does not depend on how the input is chunked.

Tie: stream `on-c`.  For each (past specification, signals) the input is cut into successive update()
calls in many ways (all 2^(k-1) cuts at the k distinct input time stamps when k <= 7 [thorough: 9],
random cuts above; one sample at a time; everything at once).  For every chunking:
   * the concatenation of the returned sample lists has non-decreasing time stamps;
   * read as a step function it agrees with the dense semantics rhoD (Lean) at every time it covers;
   * hence any two chunkings agree where both are defined.
"""
import itertools
from fractions import Fraction
from .. import common, formula as F, impl, disc, dense as D
from ..engine import Violation, Ctx

RULE = ("past dense-time formulas (predicates, Boolean, unbounded and bounded once/historically, since; depth<=3), 1-2 variables, "
        "signals of 2..7 samples starting at 0 with a common end; all chunkings at the distinct time stamps up to 64 per case, "
        "else 12 random ones + the two extremes. distinct by (spec, signals, chunking); non-trivial when the covered step "
        "function is not constant +-inf and at least two updates return samples. Stream on-c/shifted: bounded once / historically / "
        "since and pastified bounded always / eventually (lower bound 0 in three of four) on signals whose stamps are 2^30 + k/8 "
        "(epoch-sized, every number an exact double), fed in one update, one stamp per update and three more chunkings: chunked run "
        "= run fed in one update, and = the dense offline monitor on the same signals where F37 leaves it a reference.")
EXPLANATION = ("theorems: causality of past formulas on rhoD; on the mirror of the online operation classes (Rtamt/Dense/AlgOn.lean) "
               "C05_online_mirror_partial (every chunking: the concatenated output is rhoD where it is defined), "
               "C05_online_total_partial, C05_chunkings_agree_partial. Correspondence: every chunking of the real online monitor vs "
               "the mirror (every returned list) and vs rhoD on the covered interval; modular = inlined under the chunkings.")
ASSUMPTIONS = ["signals start at 0 (F37 is a finding of C04); no region of C05 is excluded by a known finding (F21 = F32, F30, F44, F48 "
               "were repaired)",
               "stream on-c/shifted (signals starting at 2^30) is judged on the implementation alone: chunking-independence everywhere it "
               "explores, the offline monitor as reference only when no bounded past operator has a positive lower bound (F37); it leaves "
               "out specifications in which the operand streams of an operation start at different instants (SHIFTED_ALIGNED_ONLY)"]


TRUSTED_EXTRA = ["the mirror of the dense online operation classes (lean/Rtamt/Dense/AlgOn.lean) is hand-written: it is tied to rtamt/semantics/stl/dense_time/online/*.py and rtamt/semantics/arithmetic/dense_time/online/*.py by comparing every list every update() returns, not by a translator; the interpreter's name-keyed operator dictionary is a state tree in the mirror"]


def has(f, pred):
    return any(pred(g) for g in F.subformulas(f))


def region_binary_multi(case):
    return case["nchunks"] > 1 and has(case["f"], lambda g: g[0] == "b")


def region_bounded_multi(case):
    return case["nchunks"] > 1 and has(case["f"], lambda g: g[0] in ("tb1", "tb2"))


def region_since(case):
    return has(case["f"], lambda g: g[0] in ("t2", "tb2"))


def region_per_variable(case):
    return case.get("per_variable", False) and has(case["f"], lambda g: g[0] == "b" and F.variables(g[2]) and F.variables(g[3]))


def region_two_constants(case):
    return has(case["f"], lambda g: g[0] == "b" and not F.variables(g[2]) and not F.variables(g[3]))


REGIONS = {"dense-online-binary-operation-fed-in-several-updates": region_binary_multi,
           "dense-online-bounded-operator-fed-in-several-updates": region_bounded_multi,
           "dense-online-since": region_since,
           "dense-online-operation-on-two-constants": region_two_constants,
           "dense-online-binary-operation-with-operands-fed-at-different-paces": region_per_variable}


def chunkings(rng, sig, limit):
    times = sorted({t for v in sig for (t, _) in sig[v]})[1:]     # possible cut points (not before the first sample)
    k = len(times)
    out = [[]]                                   # everything at once
    out.append(list(times))                      # one time stamp per update
    if 2 ** k <= limit:
        for r in range(1, k):
            for c in itertools.combinations(times, r):
                out.append(list(c))
    else:
        for _ in range(12):
            out.append(sorted(rng.sample(times, rng.randint(1, k - 1))))
    seen, res = set(), []
    for c in out:
        if tuple(c) not in seen:
            seen.add(tuple(c))
            res.append(c)
    # per-variable chunkings: every variable is cut at its own subset of its own time stamps
    if len(sig) > 1:
        for _ in range(10):
            pv = {}
            for v in sig:
                tv = [t for (t, _) in sig[v]][1:]
                pv[v] = sorted(rng.sample(tv, rng.randint(0, len(tv)))) if tv else []
            if rng.random() < 0.5:
                # spread the batches of each variable over more updates: some updates deliver nothing for a variable
                nup = max(len(c) for c in pv.values()) + 1 + rng.randint(0, 2)
                for v in list(pv):
                    pv["@" + v] = sorted(rng.sample(range(nup), len(pv[v]) + 1))
            if rng.random() < 0.4:
                pv["@@omit"] = [1]          # variables without new samples are left out of the update() call
            res.append(pv)
    return res


def cuts_txt(cuts):
    if isinstance(cuts, dict):
        return {v: [str(c) for c in cs] for v, cs in cuts.items()}
    return [str(c) for c in cuts]


def check_chunking(ctx, f, sig, cuts, model):
    text, out = D.run_online(f, sig, cuts)
    if not (isinstance(cuts, dict) and cuts.get("@@omit")):
        if not hasattr(ctx, "pending_mirror"):
            ctx.pending_mirror = []
        ctx.pending_mirror.append((f, sig, cuts, text, out))
    rep = {"monitor": "onc", "spec": text, "formula": F.to_proto(f), "signals": {v: [[str(t), x] for t, x in sig[v]] for v in sig},
           "cuts": cuts_txt(cuts), "impl": out}
    if out[0] != "ok":
        return Violation("dense online update() raised %r with cuts %s: %s" % (out[1:], rep["cuts"], text), rep, stream="on-c")
    flat = [p for chunk in out[1] for p in chunk]
    times = [Fraction(p[0]) for p in flat if p[0] != float("inf")]
    if any(b < a for a, b in zip(times, times[1:])):
        return Violation("concatenated online output has decreasing time stamps %r (cuts %s): %s"
                         % ([float(t) for t in times], rep["cuts"], text), rep, stream="on-c")
    if not flat:
        return None
    samples = [(Fraction(p[0]), p[1]) for p in flat if p[0] != float("inf")]
    if not samples:
        return None
    lo, hi = samples[0][0], samples[-1][0]
    qs, vals = model
    for q, mv in zip(qs, vals):
        if q < lo or q > hi:
            continue
        iv = D.step_value(samples, q)
        if mv is None or mv != mv or iv != iv:
            continue
        if not common.num_eq(iv, mv):
            rep["model_at"] = [[str(a), b] for a, b in zip(qs, vals)]
            return Violation("dense online (cuts %s): value at t=%s is %r, the dense semantics gives %r: %s"
                             % (rep["cuts"], q, iv, mv, text), rep, stream="on-c")
    vs = [D.step_value(samples, q) for q in qs if lo <= q <= hi]
    if sum(1 for c in out[1] if c) >= 2 and (any(v not in (common.INF, -common.INF) for v in vs) or len(set(vs)) > 1):
        ctx.nontrivial.add((text, tuple((v, tuple(sig[v])) for v in sorted(sig)), str(cuts_txt(cuts))))
    return None


def check_consistency(ctx, f, sig, cuts, qs):
    """Two chunkings of the same signals never yield different robustness at the same instant: the chunked run against the
    run that feeds everything in one update (used where the values themselves are a known finding)."""
    text, base = D.run_online(f, sig, [])
    _, out = D.run_online(f, sig, cuts)
    if not hasattr(ctx, "pending_mirror"):
        ctx.pending_mirror = []
    ctx.pending_mirror.append((f, sig, [], text, base))
    if not (isinstance(cuts, dict) and cuts.get("@@omit")):
        ctx.pending_mirror.append((f, sig, cuts, text, out))
    rep = {"kind": "consistency", "monitor": "onc", "spec": text, "formula": F.to_proto(f),
           "signals": {v: [[str(t), x] for t, x in sig[v]] for v in sig}, "cuts": cuts_txt(cuts), "impl": out, "impl_one_update": base}
    if base[0] != "ok":
        return None
    ctx.evaluations += 1
    ctx.count("chunking-consistency(since)")
    if out[0] != "ok":
        return Violation("dense online update() raised %r with cuts %s, not when fed in one update: %s" % (out[1:], rep["cuts"], text), rep,
                         stream="on-c/consistency")

    def samples_of(o):
        flat = [p for chunk in o[1] for p in chunk]
        return [(Fraction(p[0]), p[1]) for p in flat if p[0] != float("inf")]
    sa, sb = samples_of(out), samples_of(base)
    if not sa or not sb:
        return None
    if any(b < a for (a, _), (b, _) in zip(sa, sa[1:])):
        return Violation("concatenated online output has decreasing time stamps (cuts %s): %s" % (rep["cuts"], text), rep, stream="on-c/consistency")
    lo, hi = max(sa[0][0], sb[0][0]), min(sa[-1][0], sb[-1][0])
    for q in qs:
        if q < lo or q > hi:
            continue
        x, y = D.step_value(sa, q), D.step_value(sb, q)
        if x != x or y != y:
            continue
        if not common.num_eq(x, y):
            return Violation("dense online: value at t=%s is %r with cuts %s and %r when everything is fed in one update: %s"
                             % (q, x, rep["cuts"], y, text), rep, stream="on-c/consistency")
    return None


def gen_case(rng):
    g = D.DGen(rng, D.VARS[:2], D.DENSE_ON, max_bound=rng.choice([2, 4, 8]))
    f = g.formula(rng.choice([1, 1, 2, 3]))
    if rng.random() < 0.35:
        # a bounded operator over a bounded operator (the inner one returns the sample at its last time stamp again at the next
        # update) under an operation with a second operand: the operand streams of that operation come in different rhythms
        def tb():
            a = rng.randint(0, 2)
            return a, a + rng.randint(0, 4)
        x = ("v", rng.choice(D.VARS[:2]))
        inner = x if rng.random() < 0.6 else ("b", rng.choice(["ge", "le"]), x, ("c", rng.choice([0.0, 1.0, 2.0])))
        a1, b1 = tb()
        a2, b2 = tb()
        nest = ("tb1", rng.choice(["once", "hist"]), a1, b1, ("tb1", rng.choice(["once", "hist"]), a2, b2, inner))
        other = ("v", rng.choice(D.VARS[:2])) if rng.random() < 0.7 else g.formula(1)
        op = rng.choice(["and", "or", "implies", "iff", "xor", "add", "sub", "mul", "ge", "le", "eq"])
        f = ("b", op, nest, other) if rng.random() < 0.6 else ("b", op, other, nest)
        vs = F.variables(f)
        # samples on the grid the bounds live on (a sample exactly one window width after another one), runs and plateaus
        sig = D.window_signals(rng, vs)
        sig = {v: s_[:rng.randint(3, 8)] for v, s_ in sig.items()}
        end = max(s_[-1][0] for s_ in sig.values())
        for v in vs:
            if sig[v][-1][0] < end:
                sig[v] = sig[v] + [(end, rng.choice((-1.0, 0.0, 1.0, 2.0)))]
        return f, sig
    vs = F.variables(f) or ["x"]
    sig = {v: D.gen_signal(rng, 0, nmax=rng.choice([2, 3, 4, 6])) for v in vs}
    end = max(s[-1][0] for s in sig.values())
    for v in vs:
        if sig[v][-1][0] < end:
            sig[v] = sig[v] + [(end, rng.choice((-1.0, 0.0, 1.0, 2.0)))]
    return f, sig


def explore(ctx, rng, count):
    try:
        _explore(ctx, rng, count)
    finally:
        D.flush_online_mirror(ctx)


def _explore(ctx, rng, count):
    limit = ctx.budget(64, 512)
    for _ in range(count):
        f, sig = gen_case(rng)
        (_, dom, end), = D.model_query([(f, sig, [])])
        qs = D.query_times(sig, f, [], dom, end)
        (vals, _, _), = D.model_query([(f, sig, qs)])
        for cuts in chunkings(rng, sig, limit):
            pv = isinstance(cuts, dict)
            case = {"f": f, "sig": sig, "nchunks": (max(len(c) for k_, c in cuts.items() if not k_.startswith("@")) if pv else len(cuts)) + 1,
                    "per_variable": pv}
            if disc.known_region(ctx, case, REGIONS):
                ctx.skipped_known += 1
                others = {k: fn for k, fn in REGIONS.items() if k != "dense-online-since"}
                if region_since(case) and cuts and not disc.known_region(ctx, case, others):
                    # finding F32 is about the values of since; that two chunkings never disagree can still be checked:
                    # against the run that feeds everything at once
                    v = check_consistency(ctx, f, sig, cuts, qs)
                    if v is not None:
                        ctx.violations.append(v)
                        if len(ctx.violations) >= 3:
                            return
                continue
            ctx.evaluations += 1
            ctx.count("per-variable-chunking" if pv else ("chunks=%d" % (len(cuts) + 1) if len(cuts) < 4 else "chunks>=5"))
            v = check_chunking(ctx, f, sig, cuts, (qs, vals))
            if v is None:
                ctx.traces_validated += 1
                if len(ctx.samples) < 3 and len(cuts) >= 2:
                    ctx.sample({"spec": D.spec_text(f), "signals": {k: D.py_sig(s) for k, s in sig.items()}, "cuts": cuts_txt(cuts)})
            else:
                ctx.violations.append(v)
                if len(ctx.violations) >= 3:
                    return


def replay(ctx, obj):
    if obj.get("kind") == "shifted":
        cuts = obj.get("cuts") or []
        cuts = {v: ([int(c) for c in cs] if v.startswith("@") else [Fraction(c) for c in cs]) for v, cs in cuts.items()} \
            if isinstance(cuts, dict) else [Fraction(c) for c in cuts]
        v = check_shifted(Ctx(ctx.id, ctx.tier, ctx.seed), F.from_proto(obj["formula"]), D.sig_of_rep(obj["signals"]), cuts,
                          bool(obj.get("pastify")))
        return (v is None), (v.what if v else "the chunked run on the shifted signals agrees with the run fed in one update and "
                                              "with the offline robustness")
    if obj.get("kind") == "pastified":
        cuts = obj.get("cuts") or []
        cuts = {v: ([int(c) for c in cs] if v.startswith("@") else [Fraction(c) for c in cs]) for v, cs in cuts.items()} \
            if isinstance(cuts, dict) else [Fraction(c) for c in cuts]
        v = check_pastified(Ctx(ctx.id, ctx.tier, ctx.seed), F.from_proto(obj["formula"]), D.sig_of_rep(obj["signals"]), cuts)
        return (v is None), (v.what if v else "the pastified monitor agrees with the delayed offline robustness")
    f = F.from_proto(obj["formula"])
    sig = {v: [(Fraction(t), float(x)) for t, x in s] for v, s in obj["signals"].items()}
    cuts = obj.get("cuts", [])
    cuts = {v: ([int(c) for c in cs] if v.startswith("@") else [Fraction(c) for c in cs]) for v, cs in cuts.items()} \
        if isinstance(cuts, dict) else [Fraction(c) for c in cuts]
    (_, dom, end), = D.model_query([(f, sig, [])])
    qs = D.query_times(sig, f, [], dom, end)
    if obj.get("kind") == "modular":
        case = D.mod_case(obj)
        case["monitor"] = "onc"
        cuts = obj.get("cuts", [])
        cuts = {v: ([int(c) for c in cs] if v.startswith("@") else [Fraction(c) for c in cs]) for v, cs in cuts.items()} \
            if isinstance(cuts, dict) else [Fraction(c) for c in cuts]
        v = check_modular_chunking(case, cuts)
        return (v is None), (v.what if v else "modular and inlined specification agree on the replayed chunking")
    if obj.get("kind") == "consistency":
        v = check_consistency(Ctx(ctx.id, ctx.tier, ctx.seed), f, sig, cuts, qs)
        return (v is None), (v.what if v else "the chunked run agrees with the run fed in one update")
    (vals, _, _), = D.model_query([(f, sig, qs)])
    v = check_chunking(Ctx(ctx.id, ctx.tier, ctx.seed), f, sig, cuts, (qs, vals))
    return (v is None), (v.what if v else "online output agrees with the dense semantics on the replayed chunking")


def modular_stream(ctx, rng, count):
    """Specifications with sub-specifications (a name is visited once per reference in every update) under the chunkings: the
    concatenated output of the modular monitor against that of the monitor of the inlined specification fed the same way."""
    allow = D.DENSE_ON
    for case in D.modular_cases(ctx, rng, count, allow):
        case["monitor"] = "onc"
        if any((g[0] in ("t2", "tb2") and g[1] != "since") or (g[0] in ("t1", "tb1") and g[1] in ("ev", "alw"))
               for nm, b in case["defs"] for g in F.subformulas(b)):
            continue
        sig = {v: D.gen_signal(rng, 0, nmax=rng.choice([3, 4, 6])) for v in case["vars"]}
        end = max(s_[-1][0] for s_ in sig.values())
        for v in sig:
            if sig[v][-1][0] < end:
                sig[v] = sig[v] + [(end, rng.choice((-1.0, 0.0, 1.0, 2.0)))]
        case["sig"] = sig
        vs = case["vars"]
        for cuts in chunkings(rng, sig, 16)[:14]:
            if isinstance(cuts, dict) and cuts.get("@@omit"):
                continue
            ctx.evaluations += 1
            ctx.count("modular-chunking")
            v = check_modular_chunking(case, cuts, ctx)
            if v is None:
                ctx.traces_validated += 1
            else:
                ctx.violations.append(v)
                return


def check_translated_interpreter(ctx, case, cuts, a, rep):
    """The lists every update() of the MODULAR monitor returned against the run of the interpreter as translated from the source
    (driver command `denseprogen`: update visitor, memo, dictionary keyed by name, constants_sent, set_variable_to_ast_from_dataset -
    GeneratedGlueDn.lean under GlueDn.lean) on the inlined assertions in the order of the text; sample by sample."""
    specs = [case["inl"][nm] for nm, _ in case["defs"]]
    m, = D.prog_online_query([(specs, case["sig"], cuts)])
    ctx.count("on-c/interpreter-translated:" + m[0])
    if m[0] != "ok" or any(p[1] != p[1] for row in a[1] for p in row):
        return
    same = len(a[1]) == len(m[1]) and all(D.same_samples(x, y) for x, y in zip(a[1], m[1]))
    if not same:
        ctx.diffs.append(Violation("the dense online interpreter as translated from the source returns %r, update() of the modular "
                                   "specification returned %r (cuts %s): %s" % (m[1], a[1], rep["cuts"], rep["spec"]),
                                   dict(rep, translated=[[[str(t), v] for t, v in row] for row in m[1]]), failing_input=False,
                                   stream="on-c/interpreter-translated"))


def check_modular_chunking(case, cuts, ctx=None):
    sig, vs = case["sig"], case["vars"]
    nup, chunks = D.online_chunks(sig, cuts)

    def feed(modular):
        def go():
            spec = D.dense_build(case, modular)
            return [spec.update(*[[v, D.py_sig(chunks[v][i])] for v in vs]) for i in range(nup)]
        return impl.guarded(go)
    a, b = feed(True), feed(False)
    rep = dict(D.mod_rep(case), kind="modular", cuts=cuts_txt(cuts), impl_modular=a, impl_inlined=b)
    if ctx is not None and a[0] == "ok":
        check_translated_interpreter(ctx, case, cuts, a, rep)
    if b[0] != "ok":
        return None           # the inlined form is judged by the main stream
    if a[0] != "ok":
        return Violation("dense online update() of the modular specification raised %r with cuts %s, the inlined one does not: %s"
                         % (a[1:], rep["cuts"], rep["spec"]), rep, stream="on-c/modular")
    fa = [(Fraction(p[0]), p[1]) for ch in a[1] for p in ch if p[0] != float("inf")]
    fb = [(Fraction(p[0]), p[1]) for ch in b[1] for p in ch if p[0] != float("inf")]
    if any(y[0] < x[0] for x, y in zip(fa, fa[1:])):
        return Violation("concatenated output of the modular specification has decreasing time stamps (cuts %s): %s"
                         % (rep["cuts"], rep["spec"]), rep, stream="on-c/modular")
    if not fa or not fb:
        if bool(fa) != bool(fb):
            return Violation("modular and inlined specification differ in what they return (cuts %s): %s" % (rep["cuts"], rep["spec"]), rep,
                             stream="on-c/modular")
        return None
    d = D.step_equal(fa, fb, max(fa[0][0], fb[0][0]), min(fa[-1][0], fb[-1][0]))
    if d or fa[-1][0] != fb[-1][0]:
        return Violation("modular and inlined specification fed with cuts %s differ at t=%s: %r vs %r: %s"
                         % (rep["cuts"], d[0] if d else fa[-1][0], d[1] if d else fa[-1], d[2] if d else fb[-1], rep["spec"]), rep,
                         stream="on-c/modular")
    return None


def gen_pastified(rng):
    """A bounded-future specification inside the fragment the pastifier handles (past operators over future-free operands only):
    bounded eventually / always over past formulas, next to past formulas (bounded since among them) whose horizon is smaller."""
    x, y = ("v", "x"), ("v", "y")

    def pred():
        return ("b", rng.choice(["ge", "le"]), rng.choice([x, y]), ("c", rng.choice([0.0, 1.0, 2.0])))

    def pastf():
        r = rng.random()
        a = rng.randint(0, 2)
        b = a + rng.randint(0, 3)
        if r < 0.4:
            return ("tb2", "since", a, b, rng.choice([x, y, pred()]), rng.choice([x, y, pred()]))
        if r < 0.6:
            return ("tb1", rng.choice(["once", "hist"]), a, b, rng.choice([x, y, pred()]))
        if r < 0.7:
            return ("t2", "since", rng.choice([x, pred()]), rng.choice([y, pred()]))
        return rng.choice([x, y, pred()])

    def fut():
        a = rng.randint(0, 2)
        b = a + rng.randint(1, 3)
        return ("tb1", rng.choice(["ev", "alw"]), a, b, pastf() if rng.random() < 0.6 else rng.choice([x, y, pred()]))
    f = ("b", rng.choice(["and", "or", "implies"]), pastf(), fut()) if rng.random() < 0.5 else \
        ("b", rng.choice(["and", "or"]), fut(), pastf())
    if rng.random() < 0.3:
        f = ("b", rng.choice(["and", "or"]), f, fut())
    vs = F.variables(f)
    sig = {v: D.gen_signal(rng, 0, nmax=rng.choice([4, 6, 8])) for v in vs}
    end = max(s_[-1][0] for s_ in sig.values())
    for v in vs:
        if sig[v][-1][0] < end:
            sig[v] = sig[v] + [(end, rng.choice((-1.0, 0.0, 1.0, 2.0)))]
    return f, sig


def check_pastified(ctx, f, sig, cuts):
    """The pastified online monitor fed in chunks returns the offline robustness of the original, h time units late."""
    h = D.dense_horizon(f)
    text, off = D.eval_offline(f, sig)
    _, on = D.run_online(f, sig, cuts, pastify=True)
    rep = {"kind": "pastified", "spec": text, "formula": F.to_proto(f), "signals": D.sig_rep(sig), "cuts": cuts_txt(cuts),
           "horizon": str(h), "impl_offline": off, "impl_online": on}
    if h is None or off[0] != "ok":
        return None
    if on[0] != "ok":
        return Violation("the pastified dense online monitor raised %r, offline evaluation of the original works: %s" % (on[1:], text),
                         rep, stream="on-c/pastified")
    flat = [p for chunk in on[1] for p in chunk]
    ts = [p[0] for p in flat]
    if any(b < a for a, b in zip(ts, ts[1:])):
        return Violation("time stamps of the concatenated output decrease: %r (%s)" % (flat, text), rep, stream="on-c/pastified")
    a = D.samples_of(flat)
    b = [(t + h, v) for (t, v) in D.samples_of(off[1])]
    if not a or not b:
        return None
    end = max(s_[-1][0] for s_ in sig.values())
    lo, hi = max(a[0][0], b[0][0]), min(a[-1][0], end)
    if lo > hi:
        return None
    d = D.step_equal(a, b, lo, hi)
    if d:
        return Violation("pastified dense online monitor at t=%s returns %r, the offline robustness of the original at t-%s is %r: %s "
                         "(chunking %s)" % (d[0], d[1], h, d[2], text, cuts_txt(cuts)), rep, stream="on-c/pastified")
    ctx.nontrivial.add(("pastified", text, str(rep["signals"]), str(rep["cuts"])))
    return None


def pastified_stream(ctx, rng, count):
    for _ in range(count):
        f, sig = gen_pastified(rng)
        allc = chunkings(rng, sig, 8)
        for cuts in rng.sample(allc, min(3, len(allc))):
            ctx.evaluations += 1
            ctx.count("stream:on-c/pastified")
            v = check_pastified(ctx, f, sig, cuts)
            if v is None:
                ctx.traces_validated += 1
            else:
                ctx.violations.append(v)
                if len(ctx.violations) >= 3:
                    return


# ---------------------------------------------------------------------------------------------------------------------------
# on-c/shifted: the same shapes on signals whose time stamps are LARGE (seconds since the epoch, as a ROS bag or time.time()
# stamps them).  Every other stream of C05 starts its signals at 0 and ends them below 10: whatever depends on the magnitude of
# the stamps - a tolerance where the code compares two stamps, a loss of precision in t - b - stays out of reach there.
# All stamps are SHIFT + k/8 and all bounds multiples of 1/4: with SHIFT = 2^30 every number the monitors can form is an exact
# double (2^30 * 8 < 2^53), so the judgement is still exact.
# Judged by what the property states, on the implementation alone (the Lean model and the mirror are about signals that start
# at 0, F37): non-decreasing stamps; the chunked run against the run fed in ONE update at every instant both cover; the run
# against the dense OFFLINE monitor of the same specification on the same shifted signals (h later after pastify) at every
# instant it covers - the last one only where every bounded PAST operator has lower bound 0 (`offline_comparable`): for a
# positive lower bound a the offline operator pads [0, first stamp + a) with -+inf instead of leaving it undefined (F37,
# known, C04) and an operator above it reads the padding, while the online operation starts at first stamp + a.
# Left out (SHIFTED_ALIGNED_ONLY): specifications in which the two operand streams of an operation start at different instants
# (a bounded past operator with a positive lower bound - written, or the once[h,h] the pastifier inserts - next to an operand
# that starts with the input).  On signals starting at 0 that cannot happen (the bounded operations take 0 as the start, F37);
# on signals starting later, case 1 of the online intersection left the float nan as pending sample: the operation returned
# [nan] and the next update() raised TypeError when the operands came at different paces in several updates (finding F62,
# repaired in /repo by 29f12b4; trees older than that commit - the seeded worktrees, /tmp/wt/clean at fd69ebf - still raise; on
# 29f12b4 the stream is quiet with SHIFTED_ALIGNED_ONLY = False as well: 6 seeds x 500 cases).  Witness: out = (y >= once[0.5,1.5](x <= 2.0)),
# x = (5,1)(5.5,1)(5.625,0)(6.25,1), y = (5,0)(5.25,-0.5)(6.25,4), updates cut at 5.25, 5.5, 5.625, 6.25.
# ---------------------------------------------------------------------------------------------------------------------------
SHIFT = Fraction(2 ** 30)
SHIFTED_ALIGNED_ONLY = False


def shift_signals(sig, by=SHIFT):
    return {v: [(t + by, x) for (t, x) in s] for v, s in sig.items()}


def offline_comparable(f):
    """The offline monitor is a reference on signals that do not start at 0 only when no bounded past operator has a positive
    lower bound (F37)."""
    return not has(f, lambda g: (g[0] == "tb1" and g[1] in ("once", "hist") and g[2] > 0) or (g[0] == "tb2" and g[2] > 0))


def py_horizon(f):
    """Horizon of a (sub)formula as rtamt/pastifier/stl/horizon.py computes it; for the specification: the delay of the
    pastified monitor."""
    h = max([py_horizon(c) for c in F.children(f)] + [Fraction(0)])
    return h + Fraction(f[3]) * D.SCALE if f[0] == "tb1" and f[1] in ("ev", "alw") else h


class Unaligned(Exception):
    pass


def start_delay(f, h=Fraction(0)):
    """How long after the first input stamp the stream of the online operation of `f` starts when all variables start together
    at a stamp > 0; `h` = the remaining horizon the pastifier visits the node with (rtamt/pastifier/stl/pastifier.py: a future-free
    node of horizon nh becomes once[h-nh,h-nh] of itself, a variable once[h,h], always[a,b] phi becomes historically[0,b-a] of phi
    visited with h-b); 0 without pastify.  None for a constant.  Raises Unaligned when the two operand streams of an operation start
    at different instants."""
    if f[0] == "c":
        return None
    if f[0] == "v":
        return h
    if f[0] == "tb1" and f[1] in ("ev", "alw"):
        return start_delay(f[4], h - Fraction(f[3]) * D.SCALE)
    nh = py_horizon(f)
    ds = {d for d in (start_delay(c, nh) for c in F.children(f)) if d is not None}
    if len(ds) > 1 or (f[0] == "tb2" and f[2] > 0 and ds):
        # (bounded since with lower bound a > 0 is once[a,b] psi and historically[0,a](phi since psi) inside the operation)
        raise Unaligned()
    if not ds:
        return None
    d = ds.pop() + (h - nh)
    return d + Fraction(f[2]) * D.SCALE if f[0] == "tb1" else d


def aligned(f, pastify):
    try:
        start_delay(f, py_horizon(f) if pastify else Fraction(0))
        return True
    except Unaligned:
        return False


def gen_shifted(rng):
    """(formula, signals shifted by SHIFT, pastify?).  Bounded once / historically / since and pastified bounded always /
    eventually, lower bound 0 preferred, alone, nested and under an operation with a second operand; sampling gaps 1/8 .. 1."""
    x, y = ("v", "x"), ("v", "y")

    def bnd(wide=4):
        a = 0 if rng.random() < 0.75 else rng.randint(1, 2)
        return a, a + rng.randint(0 if a else 1, wide)

    def atom():
        r = rng.random()
        v = rng.choice([x, x, y])
        if r < 0.5:
            return v
        if r < 0.85:
            return ("b", rng.choice(["ge", "le"]), v, ("c", rng.choice([0.0, 1.0, 2.0])))
        return ("b", rng.choice(["add", "sub"]), v, rng.choice([x, y]))

    def timed(sub):
        a, b = bnd(8)
        return ("tb1", rng.choice(["once", "hist"]), a, b, sub)

    pastify = False
    r = rng.random()
    if r < 0.30:
        f = timed(atom())
    elif r < 0.45:
        f = timed(timed(atom()))
    elif r < 0.60:
        nest = timed(atom()) if rng.random() < 0.6 else timed(timed(atom()))
        other = rng.choice([x, y, atom()])
        op = rng.choice(["and", "or", "implies", "iff", "xor", "add", "sub", "ge", "le"])
        f = ("b", op, nest, other) if rng.random() < 0.5 else ("b", op, other, nest)
    elif r < 0.72:
        a, b = bnd(4)
        f = ("tb2", "since", a, b, atom(), atom())
    elif r < 0.90:
        pastify = True
        a = 0 if rng.random() < 0.7 else rng.randint(1, 2)
        fut = ("tb1", rng.choice(["ev", "alw"]), a, a + rng.randint(1, 4), atom() if rng.random() < 0.7 else timed(atom()))
        rr = rng.random()
        if rr < 0.55:
            f = fut
        elif rr < 0.9:
            # two future operators with one upper bound: both operand streams of the operation start with the input
            a2 = rng.randint(0, fut[3] - 1)
            f = ("b", rng.choice(["and", "or", "implies"]), fut, ("tb1", rng.choice(["ev", "alw"]), a2, fut[3], atom()))
        else:
            # (the pastifier delays this operand by once[h,h]: left out unless SHIFTED_ALIGNED_ONLY is off)
            f = ("b", rng.choice(["and", "or", "implies"]), rng.choice([atom(), timed(atom())]), fut)
    else:
        g = D.DGen(rng, D.VARS[:2], D.DENSE_ON, max_bound=rng.choice([2, 4]))
        f = g.formula(rng.choice([1, 2]))
    vs = F.variables(f) or ["x"]
    if rng.random() < 0.3:
        sig = D.window_signals(rng, vs)
        sig = {v: s_[:rng.randint(3, 8)] for v, s_ in sig.items()}
    else:
        sig = {v: D.gen_signal(rng, 0, nmax=rng.choice([3, 4, 6, 8])) for v in vs}
        for v in vs:
            while len(sig[v]) < 3:
                sig[v] = sig[v] + [(sig[v][-1][0] + D.GRID * rng.choice([1, 2, 4, 8]), rng.choice((-1.0, 0.0, 1.0, 2.0)))]
    end = max(s_[-1][0] for s_ in sig.values())
    for v in vs:
        if sig[v][-1][0] < end:
            sig[v] = sig[v] + [(end, rng.choice((-1.0, 0.0, 1.0, 2.0)))]
    return f, shift_signals(sig), pastify


def shifted_runs(f, sig, pastify):
    """What does not depend on the chunking: the run fed in one update and (where it is a reference) the offline robustness."""
    text, base = D.run_online(f, sig, [], pastify=pastify)
    off = D.eval_offline(f, sig)[1] if offline_comparable(f) else None
    return text, base, off


def check_shifted(ctx, f, sig, cuts, pastify, runs=None):
    text, base, off = runs or shifted_runs(f, sig, pastify)
    _, out = D.run_online(f, sig, cuts, pastify=pastify)
    h = py_horizon(f) if pastify else Fraction(0)
    rep = {"kind": "shifted", "monitor": "onc", "spec": text, "formula": F.to_proto(f), "signals": D.sig_rep(sig),
           "cuts": cuts_txt(cuts), "pastify": pastify, "horizon": str(h), "shift": str(SHIFT), "impl": out, "impl_one_update": base,
           "impl_offline": off}
    st = "on-c/shifted"
    if base[0] != "ok":
        return None
    if out[0] != "ok":
        return Violation("dense online update() raised %r with cuts %s, not when fed in one update (signals starting at %s): %s"
                         % (out[1:], rep["cuts"], SHIFT, text), rep, stream=st)
    sa = D.samples_of([p for chunk in out[1] for p in chunk])
    sb = D.samples_of([p for chunk in base[1] for p in chunk])
    if any(b < a for (a, _), (b, _) in zip(sa, sa[1:])):
        return Violation("concatenated online output has decreasing time stamps %r (cuts %s): %s"
                         % ([str(t - SHIFT) for t, _ in sa], rep["cuts"], text), rep, stream=st)
    # two chunkings never disagree at an instant both cover: against the run fed in one update
    if sa and sb:
        lo, hi = max(sa[0][0], sb[0][0]), min(sa[-1][0], sb[-1][0])
        d = D.step_equal(sa, sb, lo, hi) if lo <= hi else None
        if d:
            return Violation("dense online on signals starting at %s: value at t=%s+%s is %r with cuts %s and %r when everything is "
                             "fed in one update: %s" % (SHIFT, SHIFT, d[0] - SHIFT, d[1], rep["cuts"], d[2], text), rep, stream=st)
    # agreement with the dense offline robustness (h later after pastify) at every time the output covers
    if off is not None and off[0] == "ok" and sa:
        ref = [(t + h, v) for (t, v) in D.samples_of(off[1])]
        end = max(s_[-1][0] for s_ in sig.values())
        if ref:
            lo, hi = max(sa[0][0], ref[0][0]), min(sa[-1][0], end)
            d = D.step_equal(sa, ref, lo, hi) if lo <= hi else None
            if d:
                return Violation("dense online on signals starting at %s (cuts %s): value at t=%s+%s is %r, the offline robustness "
                                 "at t-%s is %r: %s" % (SHIFT, rep["cuts"], SHIFT, d[0] - SHIFT, d[1], h, d[2], text), rep, stream=st)
            ctx.count("on-c/shifted:vs-offline")
    vs_ = [v for _, v in sa]
    if sum(1 for c in out[1] if c) >= 2 and (any(v not in (common.INF, -common.INF) for v in vs_) or len(set(vs_)) > 1):
        ctx.nontrivial.add(("shifted", text, str(rep["signals"]), str(rep["cuts"])))
    return None


def shrink_shifted(ctx, f, sig, cuts, pastify, v0, budget=60):
    """Greedy: fewer cuts, fewer samples, a smaller formula - as long as the case still fails."""
    scratch = Ctx(ctx.id, ctx.tier, ctx.seed)
    steps = [0]

    def fails(f2, sig2, cuts2):
        steps[0] += 1
        if any(len(s_) < 1 for s_ in sig2.values()) or set(F.variables(f2)) - set(sig2):
            return None
        try:
            return check_shifted(scratch, f2, {v: sig2[v] for v in (F.variables(f2) or sorted(sig2)[:1])}, cuts2, pastify)
        except common.HarnessError:
            return None
    best, improved = v0, True
    while improved and steps[0] < budget:
        improved = False
        cands = []
        if isinstance(cuts, dict):
            ts = sorted({c for k_, cs in cuts.items() if not k_.startswith("@") for c in cs})
            cands.append((f, sig, ts))
        else:
            cands += [(f, sig, cuts[:i] + cuts[i + 1:]) for i in range(len(cuts)) if len(cuts) > 1]
        for v in sorted(sig):
            cands += [(f, dict(sig, **{v: sig[v][:i] + sig[v][i + 1:]}), cuts) for i in range(len(sig[v]) - 1, -1, -1) if len(sig[v]) > 1]
        if not pastify:
            cands += [(g, sig, cuts) for g in F.shrink_candidates(f) if g[0] not in ("c",)]
        for (f2, sig2, cuts2) in cands:
            if steps[0] >= budget:
                break
            if not isinstance(cuts2, dict):
                stamps = {t for s_ in sig2.values() for (t, _) in s_}
                cuts2 = [c for c in cuts2 if c in stamps]
            w = fails(f2, sig2, cuts2)
            if w is not None:
                f, sig, cuts, best, improved = f2, {v: sig2[v] for v in (F.variables(f2) or sorted(sig2)[:1])}, cuts2, w, True
                break
    return best


def shifted_stream(ctx, rng, count):
    for _ in range(count):
        f, sig, pastify = gen_shifted(rng)
        if SHIFTED_ALIGNED_ONLY and not aligned(f, pastify):
            ctx.count("on-c/shifted:left-out(operands-of-an-operation-start-at-different-instants)")
            continue
        runs = shifted_runs(f, sig, pastify)
        allc = [c for c in chunkings(rng, sig, 16) if c]
        one_by_one = allc[0]                      # one time stamp per update
        rest = allc[1:]
        for cuts in [[], one_by_one] + rng.sample(rest, min(3, len(rest))):      # [] = everything in one update
            ctx.evaluations += 1
            ctx.count("stream:on-c/shifted")
            ctx.count("on-c/shifted:" + ("pastified" if pastify else "bounded-since" if region_since({"f": f}) else "bounded-past"
                                         if has(f, lambda g: g[0] == "tb1") else "other"))
            v = check_shifted(ctx, f, sig, cuts, pastify, runs)
            if v is None:
                ctx.traces_validated += 1
                continue
            ctx.violations.append(shrink_shifted(ctx, f, sig, cuts, pastify, v))
            if len(ctx.violations) >= 3:
                return
            break


def run(ctx):
    explore(ctx, ctx.subrng("on-c"), ctx.budget(560, 3600))
    if not ctx.violations:
        modular_stream(ctx, ctx.subrng("on-c/modular"), ctx.budget(60, 500))
    if not ctx.violations:
        pastified_stream(ctx, ctx.subrng("on-c/pastified"), ctx.budget(60, 500))
    if not ctx.violations:
        shifted_stream(ctx, ctx.subrng("on-c/shifted"), ctx.budget(300, 2000))


def search(ctx):
    explore(ctx, ctx.subrng("search"), ctx.budget(800, 3000))
